"""H-layout: what the generated metadata, header and object say, in the canonical forms the Lean driver
prints (TSDL IR of every root structure, decoded packets, prototypes, external symbols, IDs)."""
import re
import subprocess
from . import common, tsdl


def tscalar_str(ty):
    if ty['t'] == 'enum':
        ty = ty['int']
    if ty['t'] == 'int':
        return f"int({1 if ty['signed'] else 0},{ty['size']},{ty['align']})"
    if ty['t'] == 'float':
        return f"float({ty['mant']},{ty['exp']},{ty['align']})"
    return 'str'


def tstruct_str(st):
    ms = ';'.join(f"{n}:{tscalar_str(ty)}" + ''.join(f'[{l}]' for l in lens) for n, ty, lens in st['members'])
    return f"align={st['align']} eff={tsdl.type_align(st)} {ms}"


def md_struct(md, ir, dname, root, ert=None):
    """the parsed structure of the real metadata for (data stream type, root, event record type)"""
    d = [x for x in ir['dsts'] if x['name'] == dname][0]
    streams = md['streams']
    st = [s for s in streams if s.get('id') == d['id']][0] if len(streams) > 1 or 'id' in streams[0] else streams[0]
    if root == 'ph':
        return md['trace'].get('packet.header')
    if root == 'pc':
        return st.get('packet.context')
    if root == 'h':
        return st.get('event.header')
    if root == 'cc':
        return st.get('event.context')
    evs = [e for e in md['events'] if e['name'] == ert and e.get('stream_id', d['id']) == (d['id'] if 'stream_id' in e else e.get('stream_id', d['id']))]
    evs = [e for e in md['events'] if e['name'] == ert and ('stream_id' not in e or e['stream_id'] == d['id'])]
    if len(evs) != 1:
        return None
    return evs[0].get('context' if root == 'sc' else 'fields')


def flat(v):
    if isinstance(v, list):
        out = []
        for x in v:
            out += flat(x)
        return out
    return [v]


def leaf_str(v):
    if isinstance(v, (bytes, bytearray)):
        return 's' + bytes(v).hex()
    return str(v)


def fields_str(dct):
    return '{' + ','.join(f"{n}=" + ' '.join(leaf_str(x) for x in flat(v)) for n, v in dct.items()) + '}'


def packet_str(p):
    s = f"H{fields_str(p['header'])} C{fields_str(p['context'])} off={p['off_content']} content={p['content']}"
    for e in p['events']:
        s += (f" | ev {e['name']} {e['id']} h{fields_str(e['header'])} c{fields_str(e['stream_ctx'])} "
              f"s{fields_str(e['ctx'])} p{fields_str(e['fields'])} {e['start']} {e['end']}")
    return s


def header_protos(header_text, prefix):
    """{function name: normalised parameter list string (without the first context parameter)}"""
    out = {}
    text = re.sub(r'/\*.*?\*/', '', header_text, flags=re.S)
    for m in re.finditer(r'\bvoid\s+(' + re.escape(prefix) + r'\w+?_(?:open_packet|trace_\w+))\s*\(([^;{]*?)\)\s*;', text, re.S):
        params = [' '.join(p.split()) for p in m.group(2).split(',')]
        out[m.group(1)] = ', '.join(params[1:])
    return out


def nm_defined(obj, cwd):
    out = subprocess.run(['nm', '-g', '--defined-only', obj], cwd=cwd, capture_output=True, text=True).stdout
    return sorted(l.split()[-1] for l in out.split('\n') if len(l.split()) >= 3)
