"""Generators for H-frontend: arbitrary YAML trees and base/overlay pairs (patching rules),
inclusion worlds at the five includable object kinds of both dialects, alias/inheritance
universes, and valid configurations re-expressed with aliases, inheritance, inclusions, null
resets and spelling aliases.  Every random choice comes from the `random.Random` passed in."""
import copy
from harness import gencfg

KEYS = ['a', 'b', 'c', 'size', 'class', 'members', 'fields', 'alignment', 'x-y', 'members']
SCALARS = [None, True, False, 0, 1, -7, 64, 2 ** 70, 1.5, 'u8', 'str', '', 'members', 'null-ish']


def gen_scalar(rnd):
    return rnd.choice(SCALARS)


def gen_member_item(rnd, depth):
    r = rnd.random()
    name = rnd.choice(['m0', 'm1', 'm2', 'm3'])
    if r < 0.7:
        return {name: gen_tree(rnd, depth + 1)}
    if r < 0.8:
        return {}                      # the F13 corner
    if r < 0.9:
        return {name: gen_tree(rnd, depth + 1), rnd.choice(['m0', 'zz']): gen_scalar(rnd)}
    return gen_scalar(rnd)


def gen_tree(rnd, depth=0, maxdepth=4):
    r = rnd.random()
    if depth >= maxdepth or r < 0.3:
        return gen_scalar(rnd)
    if r < 0.75:
        n = rnd.randint(0, 4)
        out = {}
        for _ in range(n):
            k = rnd.choice(KEYS)
            if k in ('members', 'fields') and rnd.random() < 0.8:
                if k == 'members':
                    out[k] = [gen_member_item(rnd, depth) for _ in range(rnd.randint(0, 4))]
                else:
                    out[k] = {rnd.choice(['m0', 'm1', 'm2']): gen_tree(rnd, depth + 1) for _ in range(rnd.randint(0, 3))}
            else:
                out[k] = gen_tree(rnd, depth + 1, maxdepth)
        return out
    return [gen_tree(rnd, depth + 1, maxdepth) for _ in range(rnd.randint(0, 3))]


def perturb(rnd, t, depth=0):
    """an overlay related to `t`: same keys with other values / other kinds, a few new keys"""
    if isinstance(t, dict):
        out = {}
        keys = list(t.keys())
        rnd.shuffle(keys)
        for k in keys:
            r = rnd.random()
            if r < 0.35:
                continue
            if r < 0.7:
                out[k] = perturb(rnd, t[k], depth + 1)
            elif r < 0.85:
                out[k] = gen_tree(rnd, depth + 1)
            else:
                out[k] = None
        for _ in range(rnd.randint(0, 2)):
            out[rnd.choice(KEYS + ['new1', 'new2'])] = gen_tree(rnd, depth + 1)
        return out
    if isinstance(t, list):
        r = rnd.random()
        if r < 0.5:
            return [perturb(rnd, x, depth + 1) for x in t if rnd.random() < 0.7] + \
                   [gen_member_item(rnd, depth) for _ in range(rnd.randint(0, 2))]
        if r < 0.8:
            return [gen_tree(rnd, depth + 1) for _ in range(rnd.randint(0, 3))]
        return gen_tree(rnd, depth + 1)
    return gen_tree(rnd, depth + 1) if rnd.random() < 0.5 else gen_scalar(rnd)


def gen_patch_pair(rnd):
    base = gen_tree(rnd, 0)
    while not isinstance(base, dict):
        base = gen_tree(rnd, 0)
    ov = perturb(rnd, base)
    return base, ov


# ---- inclusion worlds ---------------------------------------------------------------------

CHILDREN = {
    'trace': [('type', 'single', 'traceType')],
    'traceType': [('clock-types', 'each', 'clockType'), ('data-stream-types', 'each', 'dst')],
    'dst': [('event-record-types', 'each', 'ert')],
    'clockType': [], 'ert': [],
    'meta2': [('trace', 'single', 'traceType2'), ('clocks', 'each', 'clockType2'), ('streams', 'each', 'dst2')],
    'dst2': [('events', 'each', 'ert2')],
    'traceType2': [], 'clockType2': [], 'ert2': [],
}
KINDS3 = ['trace', 'traceType', 'clockType', 'dst', 'ert']
KINDS2 = ['meta2', 'traceType2', 'clockType2', 'dst2', 'ert2']


DOTTED = [0.25]      # probability that an inclusion path is spelled in a form that is not normal


def gen_includable(rnd, kind, files, depth, allow_include=True):
    """a node of the given kind: random properties, children of the right kinds, maybe `$include`"""
    node = {}
    for _ in range(rnd.randint(0, 3)):
        node[rnd.choice(['p', 'q', 'members', 'lst', 'size', 'map'])] = gen_tree(rnd, 2)
    for key, how, ck in CHILDREN[kind]:
        if rnd.random() < 0.6:
            if how == 'single':
                node[key] = gen_includable(rnd, ck, files, depth + 1, allow_include)
            else:
                node[key] = {rnd.choice(['n0', 'n1', 'n2']): gen_includable(rnd, ck, files, depth + 1, allow_include)
                             for _ in range(rnd.randint(0, 2))}
    if allow_include and files and rnd.random() < (0.7 if depth == 0 else 0.3):
        n = rnd.randint(1, 3)
        paths = [rnd.choice(files) for _ in range(n)]
        # the same file may be named in a form that is not normal (`./f1.yaml`)
        paths = [('./' + p if rnd.random() < 0.5 else './/' + p) if rnd.random() < DOTTED[0] else p for p in paths]
        node['$include'] = paths[0] if n == 1 and rnd.random() < 0.5 else paths
    items = list(node.items())
    rnd.shuffle(items)
    return dict(items)


def gen_include_world(rnd, kind, p_acyclic=0.8):
    """(node, dirs, ignore): files of the same kind including each other (possibly cyclically, possibly
    missing), spread over 1–3 directories with shadowing"""
    nfiles = rnd.randint(1, 5)
    DOTTED[0] = rnd.choice([0.0, 0.25, 0.25, 1.0])       # per world: never, sometimes, always
    names = [f'f{i}.yaml' for i in range(nfiles)]
    refs = names + (['missing.yaml'] if rnd.random() < 0.15 else [])
    acyclic = rnd.random() < p_acyclic
    ndirs = rnd.randint(1, 3)
    dirs = [dict() for _ in range(ndirs)]
    for i, n in enumerate(names):
        allowed = [r for r in refs if (not acyclic) or r == 'missing.yaml' or int(r[1:-5]) > i]
        placed = False
        for d in dirs:
            if rnd.random() < 0.5:
                d[n] = gen_includable(rnd, kind, allowed, 1)
                placed = True
        if not placed:
            rnd.choice(dirs)[n] = gen_includable(rnd, kind, allowed, 1)
    node = gen_includable(rnd, kind, refs, 0)
    DOTTED[0] = 0.25
    return node, dirs, rnd.random() < 0.3


# ---- alias / inheritance universes -----------------------------------------------------------

def gen_ft_like(rnd, aliases, depth, v3):
    """a field-type-shaped node that may reference aliases, inherit, nest"""
    r = rnd.random()
    if aliases and r < 0.3:
        return rnd.choice(aliases)
    if depth > 3 or r < 0.5:
        n = {'class': rnd.choice(['uint', 'sint', 'str', 'real']), 'size': rnd.choice([8, 16, 32])}
        if rnd.random() < 0.3:
            n['alignment'] = rnd.choice([8, 16, None])
    elif r < 0.7:
        key = 'element-field-type' if v3 else 'element-type'
        n = {'class': 'static-array' if v3 else 'array', 'length': rnd.randint(0, 3), key: gen_ft_like(rnd, aliases, depth + 1, v3)}
    else:
        if v3:
            ms = []
            for i in range(rnd.randint(0, 3)):
                name = f'm{rnd.randint(0, 3)}'
                ft = gen_ft_like(rnd, aliases, depth + 1, v3)
                ms.append({name: ft} if isinstance(ft, str) and rnd.random() < 0.5 else {name: {'field-type': ft}})
            n = {'class': 'struct', 'members': ms}
        else:
            n = {'class': 'struct', 'fields': {f'm{rnd.randint(0, 3)}': gen_ft_like(rnd, aliases, depth + 1, v3)
                                               for _ in range(rnd.randint(0, 3))}}
    if rnd.random() < 0.3:
        k = '$inherit' if (v3 or rnd.random() < 0.5) else 'inherit'
        n[k] = gen_ft_like(rnd, aliases, depth + 1, v3)
        if rnd.random() < 0.5:
            n.pop('class', None)
    return n


def gen_alias_universe(rnd, v3):
    n = rnd.randint(1, 6)
    names = [f'A{i}' for i in range(n)]
    refs = names + (['nope'] if rnd.random() < 0.1 else [])
    acyclic = rnd.random() < 0.8
    aliases = {}
    for i, a in enumerate(names):
        allowed = [r for r in refs if (not acyclic) or r == 'nope' or int(r[1:]) > i]
        aliases[a] = gen_ft_like(rnd, allowed, 1, v3)
    target = gen_ft_like(rnd, refs, 0, v3)
    return aliases, target


# ---- valid configurations, re-expressed ---------------------------------------------------------

CLASS_SPELL = {
    'uint': ['uint', 'unsigned-int', 'unsigned-integer'], 'sint': ['sint', 'signed-int', 'signed-integer'],
    'uenum': ['uenum', 'unsigned-enum', 'unsigned-enumeration'], 'senum': ['senum', 'signed-enum', 'signed-enumeration'],
    'str': ['str', 'string'], 'struct': ['struct', 'structure'],
}
BASE_SPELL = {'bin': ['bin', 'binary'], 'oct': ['oct', 'octal'], 'dec': ['dec', 'decimal'], 'hex': ['hex', 'hexadecimal']}
BO_SPELL = {'le': ['le', 'little', 'little-endian'], 'be': ['be', 'big', 'big-endian']}
STD_ALIASES = {('uint', 8, 8): 'uint8', ('uint', 16, 16): 'uint16', ('uint', 32, 32): 'uint32', ('uint', 64, 64): 'uint64',
               ('sint', 8, 8): 'sint8', ('sint', 16, 16): 'int16', ('sint', 32, 32): 'sint32', ('sint', 64, 64): 'int64',
               ('uint', 8, 1): 'bit-packed-uint8', ('sint', 16, 8): 'byte-packed-sint16'}


class Reexpress:
    """rewrites a valid barectf 3 configuration tree into an equivalent document that uses aliases,
    alias chains, `$inherit` chains, null resets, spelling aliases and inclusions at the five
    includable object kinds (with 2–3 levels of files spread over several directories)"""

    def __init__(self, rnd, cfg, p_alias=0.35, p_inherit=0.3, p_include=0.5, ndirs=2):
        self.rnd, self.cfg = rnd, copy.deepcopy(cfg)
        self.aliases = {}
        self.dirs = [dict() for _ in range(ndirs)]
        self.nfile = 0
        self.p_alias, self.p_inherit, self.p_include = p_alias, p_inherit, p_include
        self.use_std = rnd.random() < 0.5
        self.stats = {'aliases': 0, 'alias_chains': 0, 'inherits': 0, 'null_resets': 0, 'files': 0, 'std_aliases': 0,
                      'short_members': 0, 'shadowed_files': 0, 'shared_bases': 0}
        self.bases = {}      # alias name -> effective base field type (canonical spelling) other types may inherit too

    # -- field types
    def fresh(self, pfx):
        n = f'{pfx}{len(self.aliases)}'
        return n

    def spell(self, ft):
        rnd = self.rnd
        if isinstance(ft, dict):
            c = ft.get('class')
            if c in CLASS_SPELL:
                ft['class'] = rnd.choice(CLASS_SPELL[c])
            b = ft.get('preferred-display-base')
            if b in BASE_SPELL:
                ft['preferred-display-base'] = rnd.choice(BASE_SPELL[b])

    def add_alias(self, node):
        name = self.fresh('T')
        self.aliases[name] = node
        self.stats['aliases'] += 1
        # alias chains: T5: T4
        for _ in range(3):
            if self.rnd.random() < 0.3:
                n2 = self.fresh('L')
                self.aliases[n2] = name
                name = n2
                self.stats['alias_chains'] += 1
        return name

    def ft(self, node, depth=0):
        """returns the re-expressed field type (a dict, or an alias name)"""
        rnd = self.rnd
        if not isinstance(node, dict):
            return node          # true/false feature values
        node = dict(node)
        base_class = node.get('class')
        if 'element-field-type' in node:
            node['element-field-type'] = self.ft(node['element-field-type'], depth + 1)
        if 'members' in node:
            node['members'] = self.members(node['members'], depth)
        if self.use_std and base_class in ('uint', 'sint') and 'mappings' not in node and \
                'preferred-display-base' not in node and rnd.random() < 0.5:
            k = (base_class, node.get('size'), node.get('alignment', 1))
            if k in STD_ALIASES:
                self.stats['std_aliases'] += 1
                return STD_ALIASES[k]
        # several field types inheriting the SAME alias, each with its own overrides: node = patch(shared base, overlay)
        if base_class is not None and self.bases and rnd.random() < 0.35:
            cands = [(n, b) for n, b in self.bases.items() if b.get('class') == base_class and self.can_share(b, node)]
            if cands:
                bname, b = rnd.choice(cands)
                ov = {k: v for k, v in node.items() if k != 'class' and (k not in b or b[k] != v)}
                for k in b:
                    if k not in node:
                        ov[k] = None          # reset to the default
                        self.stats['null_resets'] += 1
                self.stats['shared_bases'] += 1
                self.stats['inherits'] += 1
                node = dict([('$inherit', bname)] + list(ov.items()))
                if rnd.random() < self.p_alias:
                    return self.add_alias(node)
                return node
        # inheritance: node = patch(base, overlay)
        if rnd.random() < self.p_inherit and base_class is not None:
            base, ov = {}, {}
            for k, v in node.items():
                r = rnd.random()
                if k == 'class':
                    base[k] = v
                elif k == 'members':
                    cut = rnd.randint(0, len(v))
                    base[k] = v[:cut]
                    if v[cut:] or rnd.random() < 0.3:
                        ov[k] = v[cut:]
                elif k == 'mappings':
                    ks = list(v.keys())
                    cut = rnd.randint(0, len(ks))
                    base[k] = {x: v[x] for x in ks[:cut]}
                    if ks[cut:]:
                        ov[k] = {x: v[x] for x in ks[cut:]}
                elif r < 0.4:
                    base[k] = v
                elif r < 0.7:
                    ov[k] = v
                else:
                    base[k] = self.other_value(k, v)
                    ov[k] = v
            # null resets of optional properties the final type does not have
            for k, alt in (('alignment', 8), ('preferred-display-base', 'hex'), ('minimum-alignment', 16)):
                if k not in node and rnd.random() < 0.25 and self.applies(k, base_class):
                    base[k] = alt
                    ov[k] = None
                    self.stats['null_resets'] += 1
            canonical_base = copy.deepcopy(base)
            self.spell(base)
            bname = self.add_alias(self.ft_maybe_inherit_again(base, depth))
            self.bases[bname] = canonical_base
            ov = dict([('$inherit', bname)] + list(ov.items()))
            self.stats['inherits'] += 1
            node = ov
        else:
            self.spell(node)
        if rnd.random() < self.p_alias:
            return self.add_alias(node)
        return node

    def ft_maybe_inherit_again(self, base, depth):
        if depth < 2 and self.rnd.random() < 0.3 and 'class' in base:
            # a second level: base = patch(base2, rest)
            base2 = {'class': base['class']}
            rest = {k: v for k, v in base.items() if k != 'class'}
            for k in list(rest):
                if self.rnd.random() < 0.5 and k not in ('members', 'mappings', 'element-field-type'):
                    base2[k] = rest.pop(k)
            b2 = self.add_alias(base2)
            self.stats['inherits'] += 1
            return dict([('$inherit', b2)] + list(rest.items()))
        return base

    def can_share(self, b, node):
        """can `node` be written as `$inherit: <alias of b>` plus overrides?  Compound properties (merged or
        appended, never replaced) must already be equal; a property of the base the node does not have must be
        resettable with null"""
        for k, v in b.items():
            if k == 'class':
                continue
            if k in ('members', 'mappings', 'element-field-type'):
                if node.get(k) != v:
                    return False
            elif k not in node and not self.applies(k, b.get('class')):
                return False
        return True

    @staticmethod
    def applies(k, cls):
        if k == 'alignment':
            return cls in ('uint', 'sint', 'uenum', 'senum', 'real')
        if k == 'preferred-display-base':
            return cls in ('uint', 'sint', 'uenum', 'senum')
        if k == 'minimum-alignment':
            return cls == 'struct'
        return False

    def other_value(self, k, v):
        rnd = self.rnd
        if k == 'size':
            return rnd.choice([8, 16, 32, 64]) if isinstance(v, int) else v
        if k in ('alignment', 'minimum-alignment'):
            return rnd.choice([1, 8, 16, 32])
        if k == 'preferred-display-base':
            return rnd.choice(['bin', 'oct', 'dec', 'hex'])
        if k == 'length':
            return rnd.randint(0, 4)
        return v

    def members(self, ms, depth):
        out = []
        for m in ms:
            (name, val), = m.items()
            ft = self.ft(val['field-type'], depth + 1)
            if isinstance(ft, str) and len(val) == 1 and self.rnd.random() < 0.6:
                out.append({name: ft})
                self.stats['short_members'] += 1
            else:
                v2 = dict(val)
                v2['field-type'] = ft
                out.append({name: v2})
        return out

    # -- inclusions
    def new_file(self, tree):
        name = f'inc{self.nfile}.yaml'
        self.nfile += 1
        di = self.rnd.randrange(len(self.dirs))
        self.dirs[di][name] = tree
        self.stats['files'] += 1
        # a decoy with the same name in a later directory must be ignored
        if di + 1 < len(self.dirs) and self.rnd.random() < 0.3:
            self.dirs[di + 1][name] = {'decoy': True, '$include': 'nope.yaml'}
            self.stats['shadowed_files'] += 1
        return name

    def split(self, node, depth):
        """(base, overlay) with patch(base, overlay) ≈ node (same content; key order may differ)"""
        rnd = self.rnd
        base, ov = {}, {}
        for k, v in node.items():
            r = rnd.random()
            if k == '$include':
                r = r * 0.65
            if r < 0.35:
                base[k] = v
            elif r < 0.65:
                ov[k] = v
            elif isinstance(v, dict) and v and k not in ('$field-type-aliases',):
                b2, o2 = self.split(v, depth + 1)
                base[k], ov[k] = b2, o2
            elif isinstance(v, list) and v:
                cut = rnd.randint(0, len(v))
                base[k], ov[k] = v[:cut], v[cut:]
            elif isinstance(v, bool) or v is None:
                base[k] = rnd.choice([True, False, None]) if k.endswith('field-type') else v
                ov[k] = v
            elif isinstance(v, int):
                base[k], ov[k] = v + rnd.randint(0, 3), v
            elif isinstance(v, str):
                base[k], ov[k] = v, v
            else:
                ov[k] = v
        return base, ov

    def includable(self, node, kind, depth=0):
        """re-expresses an includable object: children first, then maybe split into files"""
        rnd = self.rnd
        node = dict(node)
        for key, how, ck in CHILDREN[kind]:
            if key in node and isinstance(node[key], dict):
                if how == 'single':
                    node[key] = self.includable(node[key], ck, depth)
                else:
                    node[key] = {n: self.includable(c, ck, depth) for n, c in node[key].items()}
        if depth < 3 and rnd.random() < self.p_include * (0.6 ** depth):
            nbases = rnd.choice([1, 1, 2, 3])
            rest = node
            names = []
            for _ in range(nbases):
                b, rest = self.split(rest, 0)
                names.append(b)
            # bases may include further files themselves
            files = [self.new_file(self.includable_base(b, kind, depth + 1)) for b in names]
            inc = files[0] if len(files) == 1 and rnd.random() < 0.5 else files
            if kind == 'traceType' and self.use_std:
                std = ['stdint.yaml', 'stdreal.yaml', 'stdmisc.yaml'][:rnd.randint(1, 3)]
                inc = std + (inc if isinstance(inc, list) else [inc])
            rest = dict([('$include', inc)] + list(rest.items()))
            return rest
        if kind == 'traceType' and self.use_std:
            return dict([('$include', ['stdint.yaml'])] + list(node.items()))
        return node

    def includable_base(self, b, kind, depth):
        rnd = self.rnd
        if depth < 3 and rnd.random() < 0.35:
            b1, b2 = self.split(b, 0)
            f = self.new_file(b1)
            return dict([('$include', f)] + list(b2.items()))
        return b

    # -- whole document
    def run(self):
        rnd = self.rnd
        cfg = self.cfg
        tt = cfg['trace']['type']
        for k in ('native-byte-order', 'trace-byte-order'):
            if k in tt:
                tt[k] = rnd.choice(BO_SPELL[tt[k]])
        feats = tt.get('$features')
        if feats:
            for k in list(feats):
                feats[k] = self.ft(feats[k])
        for d in tt['data-stream-types'].values():
            f = d.get('$features') or {}
            for grp in ('packet', 'event-record'):
                for k in list(f.get(grp, {})):
                    f[grp][k] = self.ft(f[grp][k])
            if 'packet-context-field-type-extra-members' in d:
                d['packet-context-field-type-extra-members'] = self.members(d['packet-context-field-type-extra-members'], 0)
            if 'event-record-common-context-field-type' in d:
                d['event-record-common-context-field-type'] = self.ft(d['event-record-common-context-field-type'])
            for e in d['event-record-types'].values():
                for k in ('specific-context-field-type', 'payload-field-type'):
                    if k in e:
                        e[k] = self.ft(e[k])
                if 'log-level' not in e and rnd.random() < 0.15:
                    e['log-level'] = None
                    self.stats['null_resets'] += 1
            if '$default-clock-type-name' not in d and rnd.random() < 0.15:
                d['$default-clock-type-name'] = None
                self.stats['null_resets'] += 1
        if self.aliases or rnd.random() < 0.5:
            items = list(self.aliases.items())
            rnd.shuffle(items)
            tt['$field-type-aliases'] = dict(items)
        elif self.use_std:
            pass
        if 'environment' not in cfg['trace'] and rnd.random() < 0.15:
            cfg['trace']['environment'] = None
        cfg['trace'] = self.includable(cfg['trace'], 'trace')
        return cfg, self.dirs, self.stats


def explicit_nulls(rnd, cfg):
    """optional properties written out as `null` (documented: a null property is the same as an absent one, it takes its
    default): clock type attributes, event record type log levels"""
    n = 0
    tt = cfg['trace']['type']
    for cn, ck in (tt.get('clock-types') or {}).items():
        if not isinstance(ck, dict):
            continue
        for k in ('description', 'precision', 'offset', 'origin-is-unix-epoch', 'uuid', 'frequency'):
            if k not in ck and rnd.random() < 0.25:
                ck[k] = None
                n += 1
    for dn, d in tt['data-stream-types'].items():
        for en, e in (d.get('event-record-types') or {}).items():
            if isinstance(e, dict) and 'log-level' not in e and rnd.random() < 0.2:
                e['log-level'] = None
                n += 1
    return n


def gen_effective_case(rnd, profile='layout'):
    cfg, info = gencfg.gen_config_tree(rnd, None, profile)
    if rnd.random() < 0.5:
        explicit_nulls(rnd, cfg)
    r = Reexpress(rnd, cfg, p_alias=rnd.choice([0, 0.3, 0.6]), p_inherit=rnd.choice([0, 0.3, 0.5]),
                  p_include=rnd.choice([0, 0.5, 0.9]), ndirs=rnd.choice([1, 2, 3]))
    doc, dirs, stats = r.run()
    return cfg, doc, dirs, stats
