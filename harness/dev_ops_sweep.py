import sys, random, json
sys.path.insert(0,'/verif')
from harness import common, gencfg, irx
bad=0; n=0
for seed in range(300):
    rnd=random.Random(seed)
    text,info=gencfg.gen_config(rnd)
    try:
        cfg=common.load_cfg(text)
    except Exception as e:
        continue
    ir=irx.cfg_ir(cfg)
    real=irx.real_ds_ops(cfg)
    lines=[ir]; exp=['ok']
    tt=cfg.trace.type
    for d in ir['dsts']:
        dn=d['name']; r=real[dn]
        dst=[x for x in tt.data_stream_types if x.name==dn][0]
        for root,sft in (('ph',tt._pkt_header_ft),('pc',dst._pkt_ctx_ft),('h',dst._er_header_ft)):
            lines.append({'op':'struct','dst':dn,'root':root}); exp.append(irx.show_struct_real(sft,root))
        for root in ('ph','pc','h','cc'):
            lines.append({'op':'ops','dst':dn,'root':root,'ert':''}); exp.append(irx.show_real_op(r[root],root) if r[root] is not None else 'none')
        for en,e in r['er'].items():
            for root in ('sc','p'):
                lines.append({'op':'ops','dst':dn,'root':root,'ert':en}); exp.append(irx.show_real_op(e[root],root) if e[root] is not None else 'none')
    got=common.drv_run(lines)
    for l,a,b in zip(lines,got,exp):
        n+=1
        if a!=b:
            bad+=1
            if bad<6: print(seed,l if l.get('op')!='cfg' else 'cfg','\n  lean',a,'\n  real',b)
print('compared',n,'bad',bad)
