"""Translator: the JSON-schema YAML files of /repo/barectf/schemas (loaded exactly as
`config_parse_common._SchemaValidator` loads them: PyYAML SafeLoader) -> lean/BVM/Gen/Schemas.lean,
one Lean `Schema` term per file root and per `definitions` entry, interpreted by Model/Schema.lean.
Run on every check of C09/C10, so that the theorems over `Gen.store` are re-checked against what the
schema files say now.  Any keyword, pattern or shape the interpreter does not model makes the
translation fail loudly (never silently dropped)."""
import os
import yaml
from harness import common

OUT = os.path.join(common.LEAN_DIR, 'BVM', 'Gen', 'Schemas.lean')
IGNORED = {'$schema', '$id', 'title', 'definitions', 'description', '$comment'}
PATTERNS = {
    '^[A-Za-z_][A-Za-z0-9_]*$': '.iden',
    '^[A-Za-z_][A-Za-z0-9_]*\\Z': '.idenZ',
    '^[0-9a-f]{8}-[0-9a-f]{4}-[0-9a-f]{4}-[0-9a-f]{4}-[0-9a-f]{12}$': '.uuid',
    '^[0-9a-f]{8}-[0-9a-f]{4}-[0-9a-f]{4}-[0-9a-f]{4}-[0-9a-f]{12}\\Z': '.uuidZ',
    '': '.any',
    '.*': '.any',
}
TYPES = {'null': '.null', 'boolean': '.boolean', 'integer': '.integer', 'number': '.number', 'string': '.string',
         'array': '.array', 'object': '.object'}


class Untranslatable(Exception):
    pass


def lean_str(s):
    out = ['"']
    for ch in s:
        if ch == '"':
            out.append('\\"')
        elif ch == '\\':
            out.append('\\\\')
        elif ch == '\n':
            out.append('\\n')
        elif ch == '\t':
            out.append('\\t')
        elif ord(ch) < 32 or ord(ch) > 126:
            out.append('\\u{%x}' % ord(ch))
        else:
            out.append(ch)
    out.append('"')
    return ''.join(out)


def lean_y(v):
    if v is None:
        return 'Y.null'
    if isinstance(v, bool):
        return f'Y.bool {"true" if v else "false"}'
    if isinstance(v, int):
        return f'Y.int ({v})'
    if isinstance(v, str):
        return f'Y.str {lean_str(v)}'
    if isinstance(v, list):
        return 'Y.seq [' + ', '.join(lean_y(x) for x in v) + ']'
    raise Untranslatable(f'constant {v!r}')


def load_store():
    """id -> schema dict, as the real validator's store ({'config/common', 'config/2', 'config/3'})"""
    store = {}
    base = os.path.join(common.REPO, 'barectf', 'schemas')
    for sub in ('config/common', 'config/2', 'config/3'):
        d = os.path.join(base, sub)
        for fn in sorted(os.listdir(d)):
            if fn.endswith('.yaml'):
                with open(os.path.join(d, fn)) as f:
                    sch = yaml.load(f, Loader=yaml.SafeLoader)
                store[sch['$id']] = sch
    return store


def ref_key(ref, cur_id):
    if ref.startswith('#'):
        return cur_id + ref
    if '#' in ref:
        base, frag = ref.split('#', 1)
        return base + ('#' + frag if frag else '')
    return ref


class Tr:
    def __init__(self, store):
        self.store = store
        self.refs = set()
        self.stats = {'files': len(store), 'definitions': 0, 'keywords': {}, 'patterns': {}}

    def kw(self, k):
        self.stats['keywords'][k] = self.stats['keywords'].get(k, 0) + 1

    def tr(self, s, cur):
        if isinstance(s, bool):
            return f'Schema.bool {"true" if s else "false"}'
        if not isinstance(s, dict):
            raise Untranslatable(f'schema of type {type(s).__name__}')
        kws = []
        for k, v in s.items():
            if k in IGNORED:
                continue
            self.kw(k)
            if k == '$ref':
                key = ref_key(v, cur)
                self.refs.add(key)
                kws.append(f'.ref {lean_str(key)}')
            elif k == 'type':
                ts = v if isinstance(v, list) else [v]
                kws.append('.type [' + ', '.join(TYPES[t] for t in ts) + ']')
            elif k == 'enum':
                kws.append('.enum [' + ', '.join(lean_y(x) for x in v) + ']')
            elif k == 'const':
                kws.append(f'.const ({lean_y(v)})')
            elif k == 'properties':
                kws.append('.properties [' + ', '.join(f'({lean_str(n)}, {self.tr(sub, cur)})' for n, sub in v.items()) + ']')
            elif k == 'patternProperties':
                items = []
                for pat, sub in v.items():
                    if pat not in PATTERNS:
                        raise Untranslatable(f'pattern {pat!r}')
                    self.stats['patterns'][pat] = self.stats['patterns'].get(pat, 0) + 1
                    items.append(f'({PATTERNS[pat]}, {self.tr(sub, cur)})')
                kws.append('.patternProperties [' + ', '.join(items) + ']')
            elif k == 'additionalProperties':
                kws.append(f'.additionalProperties ({self.tr(v, cur)})')
            elif k == 'required':
                kws.append('.required [' + ', '.join(lean_str(x) for x in v) + ']')
            elif k == 'dependencies':
                ds = []
                for n, dep in v.items():
                    if not isinstance(dep, list):
                        raise Untranslatable('schema-form dependencies')
                    ds.append(f'({lean_str(n)}, [' + ', '.join(lean_str(x) for x in dep) + '])')
                kws.append('.dependencies [' + ', '.join(ds) + ']')
            elif k == 'items':
                if isinstance(v, list):
                    raise Untranslatable('tuple-form items')
                kws.append(f'.items ({self.tr(v, cur)})')
            elif k in ('minItems', 'maxItems', 'minProperties', 'maxProperties'):
                kws.append(f'.{k} {int(v)}')
            elif k in ('minimum', 'maximum'):
                if not isinstance(v, int):
                    raise Untranslatable(f'{k} {v!r}')
                kws.append(f'.{k} ({v})')
            elif k == 'pattern':
                if v not in PATTERNS:
                    raise Untranslatable(f'pattern {v!r}')
                self.stats['patterns'][v] = self.stats['patterns'].get(v, 0) + 1
                kws.append(f'.pattern {PATTERNS[v]}')
            elif k == 'if':
                t = f'(some ({self.tr(s["then"], cur)}))' if 'then' in s else 'none'
                e = f'(some ({self.tr(s["else"], cur)}))' if 'else' in s else 'none'
                kws.append(f'.ite ({self.tr(v, cur)}) {t} {e}')
            elif k in ('then', 'else'):
                if 'if' not in s:
                    pass        # ignored without `if`, as in draft-07
            elif k in ('allOf', 'anyOf', 'oneOf'):
                kws.append(f'.{k} [' + ', '.join(self.tr(x, cur) for x in v) + ']')
            elif k == 'not':
                kws.append(f'.not ({self.tr(v, cur)})')
            else:
                raise Untranslatable(f'keyword {k!r}')
        return 'Schema.obj [' + ', '.join(kws) + ']'


def translate():
    """returns (lean source text, stats)"""
    store = load_store()
    t = Tr(store)
    defs = []      # (key, term)
    for sid, sch in store.items():
        defs.append((sid, t.tr(sch, sid)))
        for name, sub in (sch.get('definitions') or {}).items():
            t.stats['definitions'] += 1
            defs.append((f'{sid}#/definitions/{name}', t.tr(sub, sid)))
    keys = {k for k, _ in defs}
    missing = sorted(t.refs - keys)
    # a dangling `$ref` is kept: like `jsonschema`, the interpreter only fails when it is evaluated
    t.stats['dangling_refs'] = missing
    lines = ['/-',
             '  GENERATED by harness/schematr.py from /repo/barectf/schemas/config/{common,2,3}/*.yaml — do not edit.',
             '  One `Schema` per file root and per `definitions` entry; `store` is what `$ref` resolves against.',
             '-/',
             'import BVM.Model.Schema',
             'namespace BVM.Gen', 'open BVM', '']
    for i, (k, term) in enumerate(defs):
        lines.append(f'/-- {k} -/')
        lines.append(f'def s{i} : Schema :=')
        lines.append('  ' + term)
        lines.append('')
    lines.append('def store : Store := [')
    lines.append(',\n'.join(f'  ({lean_str(k)}, s{i})' for i, (k, _) in enumerate(defs)))
    lines.append(']')
    lines.append('')
    lines.append('end BVM.Gen')
    t.stats['store_entries'] = len(defs)
    return '\n'.join(lines) + '\n', t.stats


KW_OUT = os.path.join(common.LEAN_DIR, 'BVM', 'Gen', 'Keywords.lean')


def translate_keywords():
    """the `ctf_keywords` set literal of config_parse_v3._Parser._validate_iden -> Gen/Keywords.lean"""
    import ast
    src = open(os.path.join(common.REPO, 'barectf', 'config_parse_v3.py')).read()
    words = None
    for node in ast.walk(ast.parse(src)):
        if isinstance(node, ast.FunctionDef) and node.name == '_validate_iden':
            for sub in ast.walk(node):
                if isinstance(sub, ast.Assign) and getattr(sub.targets[0], 'id', None) == 'ctf_keywords':
                    words = sorted(ast.literal_eval(sub.value))
    if words is None:
        raise Untranslatable('ctf_keywords set not found in _validate_iden')
    text = ('/- GENERATED by harness/schematr.py from /repo/barectf/config_parse_v3.py (`ctf_keywords`) — do not edit. -/\n'
            'namespace BVM.Gen\n\ndef ctfKeywords : List String :=\n  [' + ', '.join(lean_str(w) for w in words) + ']\n\nend BVM.Gen\n')
    old = open(KW_OUT).read() if os.path.exists(KW_OUT) else None
    if old != text:
        with open(KW_OUT, 'w') as f:
            f.write(text)
    return words


def write_if_changed():
    text, stats = translate()
    stats['ctf_keywords'] = len(translate_keywords())
    os.makedirs(os.path.dirname(OUT), exist_ok=True)
    old = open(OUT).read() if os.path.exists(OUT) else None
    if old != text:
        with open(OUT, 'w') as f:
            f.write(text)
    stats['changed'] = old != text
    return stats


if __name__ == '__main__':
    print(write_if_changed())
