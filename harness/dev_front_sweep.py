"""development sweep: patch / include / resolve / inherit, real vs Lean model"""
import sys, random, json, copy, collections
from harness import common, hfront, genfront

def main(seed, n):
    rnd = random.Random(seed)
    lines, cases = [], []
    # patch
    for i in range(n):
        b, o = genfront.gen_patch_pair(rnd)
        v = rnd.choice([2, 3])
        bt, ot = hfront.to_od(b), hfront.to_od(o)
        r = hfront.run_real(lambda: hfront.real_patch(v, bt, ot))
        lines.append({'op': 'patch', 'v3': v == 3, 'base': hfront.yj(bt), 'overlay': hfront.yj(ot)})
        cases.append(('patch', (v, b, o), r))
    # resolve + inherit
    for i in range(n):
        v3 = rnd.random() < 0.6
        al, t = genfront.gen_alias_universe(rnd, v3)
        alt = hfront.to_od(al); par = hfront.to_od({'k': t})
        p = hfront.mk_parser(3 if v3 else 2)
        def f():
            a2 = copy.deepcopy(alt); p2 = copy.deepcopy(par)
            p._resolve_ft_alias(a2, p2, 'k', 'ctx')
            return p2['k']
        r = hfront.run_real(f)
        lines.append({'op': 'resolve', 'v3': v3, 'aliases': hfront.yj(alt), 'target': hfront.yj(par['k'])})
        cases.append(('resolve', (v3, al, t), r))
        # inheritance on an alias-free target
        al2, t2 = genfront.gen_alias_universe(rnd, v3)
        t2 = genfront.gen_ft_like(rnd, [], 0, v3)
        par2 = hfront.to_od({'k': t2})
        def g():
            p2 = copy.deepcopy(par2)
            p._apply_ft_inheritance(p2, 'k')
            return p2['k']
        r = hfront.run_real(g)
        lines.append({'op': 'inherit', 'v3': v3, 'target': hfront.yj(par2['k'])})
        cases.append(('inherit', (v3, t2), r))
    # include
    work = common.scratch()
    for i in range(n):
        kind = rnd.choice(genfront.KINDS3 + genfront.KINDS2)
        node, dirs, ign = genfront.gen_include_world(rnd, kind)
        w = hfront.World(dirs, ign, with_pkg=False, version=2 if kind.endswith('2') else 3)
        import os
        w.materialise(os.path.join(work, f'w{i}'))
        nt = hfront.to_od(node)
        r = hfront.real_include(kind, nt, w)
        d = w.to_json(); d.update({'op': 'include', 'kind': kind, 'node': hfront.yj(nt)})
        lines.append(d)
        cases.append(('include', (kind, node, dirs, ign), r))
    out = common.drv_run(lines)
    bad = 0
    stats = collections.Counter()
    for (what, inp, r), line in zip(cases, out):
        if what == 'patch':
            m = ('ok', hfront.jy(json.loads(line)))
        else:
            m = hfront.parse_model(line)
        stats[(what, r[0], r[1] if r[0] != 'ok' else '', m[0], m[1] if m[0] != 'ok' else '')] += 1
        agree = False
        if r[0] == 'ok' and m[0] == 'ok':
            agree = hfront.tree_eq(r[1], m[1])
        elif r[0] == 'err' and m[0] == 'err':
            agree = r[1] == m[1] or (r[1] == 'schema' and m[1] == 'shape')
        elif r[0] == 'crash' and m[0] == 'err':
            agree = m[1] == 'crash'
        if not agree:
            bad += 1
            if bad <= 5:
                print('DISAGREE', what, json.dumps(inp, default=str)[:1500])
                print('  real :', r[0], (json.dumps(hfront.plain(r[1]), default=str) if r[0] == 'ok' else r[1:])[:800] if True else '')
                print('  model:', m[0], (json.dumps(hfront.plain(m[1]), default=str) if m[0] == 'ok' else m[1:]))
                if r[0] == 'ok' and m[0] == 'ok':
                    print('  diff:', hfront.first_diff(r[1], m[1]))
    for k, v in sorted(stats.items(), key=str):
        print(v, k)
    print('disagreements', bad, 'of', len(cases))

if __name__ == '__main__':
    main(int(sys.argv[1]), int(sys.argv[2]))
