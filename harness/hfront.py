"""H-frontend: the front end of barectf (YAML tree processing) against the Lean model
(Model/Yaml, Patch, Expand, V2, Schema).

Adapters call the *real* code of /repo: `_update_node`, `_process_*_node_include`,
`_resolve_ft_alias`, `_apply_ft_inheritance` directly on parser objects built without running
`_parse`, and the public `effective_configuration_file` / `configuration_from_file`.  Inclusion
worlds are materialised on disk under a scratch directory (outside /repo and /verif)."""
import collections
import copy
import io
import re
import json
import os
import yaml
from harness import common

OD = collections.OrderedDict
V3TAG = '--- !<tag:barectf.org,2020/3/config>\n'


class Unrepresentable(Exception):
    pass


def yj(o):
    """tree (as loaded by barectf's `_yaml_load`) -> line-protocol JSON"""
    if o is None or isinstance(o, (bool, str)):
        return o
    if isinstance(o, int):
        return o
    if isinstance(o, float):
        return {'f': repr(o)}
    if isinstance(o, list):
        return {'s': [yj(x) for x in o]}
    if isinstance(o, dict):
        out = []
        for k, v in o.items():
            if not isinstance(k, str):
                raise Unrepresentable(f'key {k!r}')
            if k == '$include':
                # the model's file names are in normal form (`./a.yaml`, `a//b.yaml` name the files `a.yaml`, `a/b.yaml`):
                # barectf normalises the joined path before its inclusion-cycle test
                import posixpath
                if isinstance(v, str):
                    v = posixpath.normpath(v) if v else v
                elif isinstance(v, list):
                    v = [posixpath.normpath(x) if isinstance(x, str) and x else x for x in v]
            out.append([k, yj(v)])
        return {'m': out}
    raise Unrepresentable(type(o).__name__)


def jy(j):
    if isinstance(j, dict):
        if 'm' in j:
            return OD((k, jy(v)) for k, v in j['m'])
        if 's' in j:
            return [jy(x) for x in j['s']]
        if 'f' in j:
            return float(j['f'])
    return j


def to_od(o):
    """plain dict/list tree -> OrderedDict tree (what `_yaml_load` produces)"""
    if isinstance(o, dict):
        return OD((k, to_od(v)) for k, v in o.items())
    if isinstance(o, list):
        return [to_od(x) for x in o]
    return o


def plain(o):
    if isinstance(o, dict):
        return {k: plain(v) for k, v in o.items()}
    if isinstance(o, list):
        return [plain(x) for x in o]
    return o


from harness.gencfg import QuotingDumper as _QuotingDumper


def dump_yaml(tree, v3root=False):
    text = yaml.dump(plain(tree), Dumper=_QuotingDumper, sort_keys=False, default_flow_style=False, allow_unicode=False)
    return (V3TAG if v3root else '') + text


def load_yaml(text):
    """the tree barectf itself sees for this text (a `_ConfigNodeV3` is unwrapped)"""
    from barectf import config_parse_common as cpc
    n = cpc._yaml_load(io.StringIO(text))
    if type(n) is cpc._ConfigNodeV3:
        return n.config_node, 3
    return n, 2


def err_class(exc):
    """small enum of configuration-error classes (same names as Lean `FErr.cls`)"""
    msg = ' | '.join((c.message or '') for c in exc.context)
    if 'Cannot recursively include file' in msg:
        return 'include-cycle'
    if 'file not found in inclusion directories' in msg:
        return 'include-not-found'
    if 'Field type alias' in msg and 'does not exist' in msg:
        return 'unknown-alias'
    if 'Cycle detected during the' in msg:
        return 'alias-cycle'
    if 'Log level alias' in msg and 'does not exist' in msg:
        return 'unknown-log-level'
    if '(from schema `' in msg:
        return 'schema'
    return 'other'


def pkg_include_dir(version):
    return os.path.join(common.REPO, 'barectf', 'include', str(version))


def pkg_dir_files(version):
    """[name, json tree] of the package inclusion directory of /repo, as barectf loads them"""
    from barectf import config_parse_common as cpc
    out = []
    d = pkg_include_dir(version)
    for fn in sorted(os.listdir(d)):
        if fn.endswith('.yaml'):
            out.append([fn, yj(cpc._yaml_load_path(os.path.join(d, fn)))])
    return out


class World:
    """inclusion directories: list of {file name: tree}; materialised on disk on demand"""

    def __init__(self, dirs, ignore=False, with_pkg=True, version=3):
        self.dirs, self.ignore, self.with_pkg, self.version = dirs, ignore, with_pkg, version
        self.paths = None
        self.loaded = None

    def materialise(self, root):
        self.paths = []
        self.loaded = []
        from barectf import config_parse_common as cpc
        for i, d in enumerate(self.dirs):
            p = os.path.join(root, f'inc{i}')
            os.makedirs(p, exist_ok=True)
            self.paths.append(p)
            files = []
            for name, tree in d.items():
                fp = os.path.join(p, name)
                with open(fp, 'w') as f:
                    f.write(dump_yaml(tree))
                files.append([name, yj(cpc._yaml_load_path(fp))])
            self.loaded.append(files)
        return self.paths

    def to_json(self):
        dirs = list(self.loaded)
        if self.with_pkg:
            dirs = dirs + [pkg_dir_files(self.version)]
        return {'dirs': dirs, 'ignore': self.ignore}


_TEMPLATES = {}


def mk_parser(version, include_dirs=None, ignore=False, with_pkg=True):
    """a parser object of the given dialect with everything `__init__` of the common base sets, but
    without running `_parse` (the schema validator, which only reads /repo's schema files, is shared)"""
    from barectf import config_parse_common as cpc
    from barectf import config_parse_v2, config_parse_v3
    from barectf.typing import VersionNumber
    import copy as _copy
    key = (version, with_pkg)
    if key not in _TEMPLATES:
        cls = config_parse_v3._Parser if version == 3 else config_parse_v2._Parser
        t = object.__new__(cls)
        cpc._Parser.__init__(t, io.StringIO(''), OD(), with_pkg, [], False, VersionNumber(version))
        _TEMPLATES[key] = (t, list(t._include_dirs))
    t, pkg_dirs = _TEMPLATES[key]
    p = _copy.copy(t)
    p._include_dirs = list(include_dirs or []) + pkg_dirs
    p._ignore_include_not_found = ignore
    p._include_stack = []
    p._resolved_ft_aliases = set()
    p._root_node = OD()
    return p


def real_patch(version, base, overlay):
    p = mk_parser(version)
    b = copy.deepcopy(base)
    p._update_node(b, copy.deepcopy(overlay))
    return b


KIND_METHOD = {
    'trace': '_process_trace_node_include', 'traceType': '_process_trace_type_node_include',
    'clockType': '_process_clk_type_node_include', 'dst': '_process_dst_node_include',
    'ert': '_process_ert_node_include',
    'meta2': '_process_meta_node_include', 'traceType2': '_process_trace_type_node_include',
    'clockType2': '_process_clk_type_node_include', 'dst2': '_process_dst_node_include',
    'ert2': '_process_ert_node_include',
}


def run_real(fn):
    """('ok', value) | ('err', class, text) | ('crash', exception type, text)"""
    from barectf import config_parse_common as cpc
    try:
        return ('ok', fn())
    except cpc._ConfigurationParseError as exc:
        return ('err', err_class(exc), str(exc))
    except RecursionError as exc:
        return ('crash', 'RecursionError', '')
    except Exception as exc:  # noqa
        return ('crash', type(exc).__name__, str(exc)[:300])


def real_include(kind, node, world):
    version = 2 if kind.endswith('2') else 3
    p = mk_parser(version, world.paths, world.ignore, world.with_pkg)
    return run_real(lambda: getattr(p, KIND_METHOD[kind])(copy.deepcopy(node)))


def real_effective(text, world):
    b = common.barectf()
    return run_real(lambda: b.effective_configuration_file(
        io.StringIO(text), with_package_inclusion_directory=world.with_pkg,
        inclusion_directories=world.paths or [], ignore_inclusion_not_found=world.ignore))


def real_config(text, world):
    b = common.barectf()
    return run_real(lambda: b.configuration_from_file(
        io.StringIO(text), with_package_inclusion_directory=world.with_pkg,
        inclusion_directories=world.paths or [], ignore_inclusion_not_found=world.ignore))


def parse_model(line):
    """driver output `ok <json>` / `err <class>` -> ('ok', tree) | ('err', class)"""
    if line.startswith('ok '):
        return ('ok', jy(json.loads(line[3:])))
    if line.startswith('err '):
        return ('err', line[4:])
    return ('bad', line)


def _inc_norm(v):
    import posixpath
    if isinstance(v, str):
        return posixpath.normpath(v) if v else v
    if isinstance(v, list):
        return [posixpath.normpath(x) if isinstance(x, str) and x else x for x in v]
    return v


def tree_eq(a, b):
    """ordered comparison: key order of mappings is significant; bool is not int.  The value of an `$include` property
    that was left in place (an object that is not processed as an includable one) is compared up to the spelling of the
    path, because the model's inputs carry normalised paths (see `yj`)"""
    if type(a) is not type(b):
        if isinstance(a, dict) and isinstance(b, dict):
            pass
        else:
            return False
    if isinstance(a, dict):
        return list(a.keys()) == list(b.keys()) and all(
            tree_eq(_inc_norm(a[k]), _inc_norm(b[k])) if k == '$include' else tree_eq(a[k], b[k]) for k in a)
    if isinstance(a, list):
        return len(a) == len(b) and all(tree_eq(x, y) for x, y in zip(a, b))
    if isinstance(a, float):
        return repr(a) == repr(b)
    return a == b


def first_diff(a, b, path=''):
    if isinstance(a, dict) and isinstance(b, dict):
        if list(a.keys()) != list(b.keys()):
            return f'{path}: keys {list(a.keys())} vs {list(b.keys())}'
        for k in a:
            d = first_diff(a[k], b[k], f'{path}/{k}')
            if d:
                return d
        return None
    if isinstance(a, list) and isinstance(b, list):
        if len(a) != len(b):
            return f'{path}: lengths {len(a)} vs {len(b)}'
        for i, (x, y) in enumerate(zip(a, b)):
            d = first_diff(x, y, f'{path}[{i}]')
            if d:
                return d
        return None
    if not tree_eq(a, b):
        return f'{path}: {a!r} vs {b!r}'
    return None
