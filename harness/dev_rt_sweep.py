import sys, random, json
sys.path.insert(0,'/verif')
from harness import common, gencfg, irx, hrt
work=common.scratch()
tot=bad=0
for seed in range(int(sys.argv[1]), int(sys.argv[2])):
    rnd=random.Random(seed)
    text,info=gencfg.gen_config(rnd, profile='rt')
    try: cfg=common.load_cfg(text)
    except Exception as e: continue
    ir=irx.cfg_ir(cfg)
    dname=rnd.choice(ir['dsts'])['name']
    exe,files=hrt.build_runner(cfg, ir, dname, work+f'/c{seed}')
    if exe is None:
        print(seed,'COMPILE FAIL', files[:1500]); continue
    openargs,recs=hrt.gen_pool(rnd, ir, dname)
    hdr,sizes=hrt.probe(exe, ir, dname, openargs, recs)
    hists=[hrt.gen_history(rnd, ir, dname, openargs, recs, hdr, sizes) for _ in range(30)]
    impl=hrt.run_impl(exe, ir, dname, hists)
    model=hrt.run_model(ir, dname, hists)
    for h,a,b in zip(hists,impl,model):
        tot+=1
        if a!=b:
            bad+=1
            if bad<4:
                print('seed',seed,'buf',h['buf'],'hdr',hdr)
                for i,(x,y) in enumerate(zip(a,b)):
                    if x!=y:
                        print(' first diff at',i,'\n  impl ',x[:300],'\n  model',y[:300]); break
                else: print(' length differs',len(a),len(b), a[-1][:200] if a else None, b[-1][:200] if b else None)
print('histories',tot,'bad',bad)
