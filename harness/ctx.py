"""Check context: collects obligations, correspondence counts, violations,
known findings, and writes the evidence file + replay files."""
import json
import os
import time
from . import common, leanobl

TRUSTED_BASE = [
    'Lean 4.33.0 kernel (leanchecker re-check in the thorough tier)',
    'axioms: at most propext, Classical.choice, Quot.sound (audited per theorem on every run); '
    'no native_decide, no bv_decide, no sorry/admit/axiom',
    'the hand-written Lean model says what the code says: checked, not assumed, by the correspondence '
    'harness of this property on every run (differential testing; as strong as its generators)',
    'gcc/clang, libc (memcpy, strlen), PyYAML, Jinja2, jsonschema behave per their specifications',
    'the harness itself (generators, runners, canonicalisation, reference oracles)',
]


class Ctx:
    def __init__(self, prop_id, tier, seed):
        self.id = prop_id
        self.tier = tier
        self.seed = seed
        self.t0 = time.time()
        self.violations = []       # (replay_path, note, found_input: bool)
        self.known = []            # KNOWN-FINDING lines
        self.coverage = {}
        self.assumptions = []
        self.inconclusive = []
        self.known_findings = self._load_known()
        self.replay_dir = os.path.join(common.VERIF, 'out', 'replays')
        os.makedirs(self.replay_dir, exist_ok=True)
        self._nreplay = 0

    # ---- known findings -------------------------------------------------
    def _load_known(self):
        p = os.path.join(common.VERIF, 'known_findings.json')
        if not os.path.exists(p):
            return []
        return [e for e in json.load(open(p))['findings'] if e.get('property') == self.id]

    def known_entries(self, status='known'):
        return [e for e in self.known_findings if e.get('status') == status]

    def known_finding(self, entry, what):
        """one KNOWN-FINDING line per listed finding (the first instance met in this run); further
        instances are only counted"""
        self.known_counts = getattr(self, 'known_counts', {})
        self.known_counts[entry['id']] = self.known_counts.get(entry['id'], 0) + 1
        if self.known_counts[entry['id']] > 1:
            return
        line = f'KNOWN-FINDING: property={self.id} {entry["id"]}: {what}'
        self.known.append(line)
        print(line, flush=True)

    # ---- violations ------------------------------------------------------
    def write_replay(self, obj):
        self._nreplay += 1
        p = os.path.join(self.replay_dir, f'{self.id}-{self.seed}-{self._nreplay}.json')
        with open(p, 'w') as f:
            json.dump(obj, f, indent=1, default=str)
        return p

    def violation(self, replay_obj, found_input=True):
        p = self.write_replay(replay_obj)
        self.violations.append((p, found_input))
        tail = '' if found_input else ' no-failing-input-found'
        print(f'VIOLATION property={self.id} replay={p}{tail}', flush=True)

    # ---- proof obligations ----------------------------------------------
    def proof_obligations(self):
        r = leanobl.obligations(self.id)
        self.coverage['obligations'] = r['obligations']
        self.coverage['discharged'] = r['discharged']
        self.coverage['checker_cmd'] = (f'cd lean && lake build && lake env lean BVM/Props/{self.id}.lean '
                                        '(#print axioms audited); thorough: lake env leanchecker')
        self.coverage['theorem_axioms'] = r['theorems']
        self.coverage['nonvacuity_examples'] = r['examples']
        self.coverage['proof_failures'] = r['failures']
        return r

    def leanchecker(self, modules):
        ok, log = leanobl.leanchecker(modules)
        self.coverage['leanchecker'] = {'modules': modules, 'ok': ok}
        return ok, log

    # ---- evidence ---------------------------------------------------------
    def finish(self):
        cov = dict(self.coverage)
        cov.setdefault('trusted_base', TRUSTED_BASE)
        cov['known_finding_lines'] = self.known
        cov['known_finding_instances'] = getattr(self, 'known_counts', {})
        ev = {
            'property_id': self.id,
            'tier': self.tier,
            'seed': self.seed,
            'level': 'proof',
            'coverage': cov,
            'assumptions': self.assumptions,
            'wall_s': round(time.time() - self.t0, 2),
            'violations': len(self.violations),
        }
        os.makedirs(os.path.join(common.VERIF, 'evidence'), exist_ok=True)
        with open(os.path.join(common.VERIF, 'evidence', f'{self.id}.json'), 'w') as f:
            json.dump(ev, f, indent=1, default=str)
        if self.violations:
            return 1
        if self.inconclusive:
            for m in self.inconclusive:
                print('INCONCLUSIVE:', m, flush=True)
            return 2
        return 0
