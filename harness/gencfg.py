"""Type-directed generator of valid barectf 3 configurations (as YAML text) and of argument
values for their tracing/opening functions.  Every random choice comes from the `random.Random`
passed in."""
import re
import yaml

HEADER = '--- !<tag:barectf.org,2020/3/config>\n'
ALIGNS = [1, 2, 4, 8, 16, 32, 64]


def pick_align(rnd, bias8=0.5):
    if BIAS['bits'] and rnd.random() < 0.8:
        return rnd.choice([1, 1, 1, 2, 4])
    if rnd.random() < bias8:
        return rnd.choice([8, 8, 16, 32, 64])
    return rnd.choice(ALIGNS)


import threading


class _Bias(threading.local):
    pad = False      # arrays of elements whose alignment exceeds their size (padding between elements)
    bits = False     # bit-packed layouts: sub-byte alignments, sizes that are not multiples of 8 (features too)

    def __getitem__(self, k):
        return getattr(self, k)

    def __setitem__(self, k, v):
        setattr(self, k, v)


BIAS = _Bias()


def gen_int(rnd, signed=None, enum_ok=True):
    signed = rnd.random() < 0.4 if signed is None else signed
    if BIAS['pad'] and rnd.random() < 0.6:
        size = rnd.choice([1, 2, 3, 4, 5, 8, 8, 12, 16])
        mult = [a for a in ALIGNS if a > size]
        ft = {'class': 'sint' if signed else 'uint', 'size': size,
              'alignment': rnd.choice([a for a in mult if a % size == 0] or mult) if rnd.random() < 0.7 else rnd.choice(mult)}
        return ft
    if rnd.random() < (0.4 if BIAS['bits'] else 0.08):
        # a byte-sized integer that is NOT byte-aligned (the memcpy fast path must not be taken for it)
        return {'class': 'sint' if signed else 'uint', 'size': rnd.choice([8, 16, 32, 64]), 'alignment': rnd.choice([1, 1, 2, 4])}
    r = rnd.random()
    if r < 0.35:
        size = rnd.choice([8, 16, 32, 64])
    elif r < 0.5:
        size = rnd.choice([1, 2, 7, 9, 15, 17, 31, 33, 63])
    else:
        size = rnd.randint(1, 64)
    ft = {'class': 'sint' if signed else 'uint', 'size': size}
    if rnd.random() < 0.6:
        ft['alignment'] = pick_align(rnd, 0.4)
    if rnd.random() < 0.2:
        ft['preferred-display-base'] = rnd.choice(['bin', 'oct', 'dec', 'hex'])
    if enum_ok and rnd.random() < 0.15:
        ft['class'] = 'senum' if signed else 'uenum'
        lo = -(1 << (size - 1)) if signed else 0
        hi = (1 << (size - 1)) - 1 if signed else (1 << size) - 1
        maps = {}
        for i in range(rnd.randint(1, 3)):
            a = rnd.randint(lo, hi)
            b = rnd.randint(a, min(hi, a + 10))
            maps[f'L{i}'] = [a] if a == b and rnd.random() < 0.5 else [[a, b]]
        ft['mappings'] = maps
    return ft


def gen_real(rnd):
    size = rnd.choice([32, 64])
    ft = {'class': 'real', 'size': size}
    r = rnd.random()
    if r < 0.5:
        ft['alignment'] = size
    elif r < 0.8:
        ft['alignment'] = rnd.choice([1, 8, 16, 32, 64])
    return ft


def gen_scalar(rnd, allow_str=True):
    r = rnd.random()
    if r < 0.65:
        return gen_int(rnd)
    if r < 0.8:
        return gen_real(rnd)
    if allow_str:
        return {'class': 'str'}
    return gen_int(rnd)


def gen_elem(rnd, depth=0):
    if depth < 3 and rnd.random() < (0.45 if BIAS['pad'] else 0.25):
        return {'class': 'static-array', 'length': rnd.choice([0, 1, 2, 2, 3, 5]),
                'element-field-type': gen_elem(rnd, depth + 1)}
    return gen_scalar(rnd)


def gen_member_ft(rnd):
    if rnd.random() < (0.4 if BIAS['pad'] else 0.2):
        return {'class': 'dynamic-array', 'element-field-type': gen_elem(rnd, 1)}
    return gen_elem(rnd)


# names which the tracer itself uses for header / packet context members: legal for user members of the
# contexts and payload (they are only reserved among the packet context extra members)
SPECIAL_NAMES = ['id', 'timestamp', 'magic', 'uuid', 'stream_id', 'packet_size', 'content_size', 'events_discarded',
                 'timestamp_begin', 'timestamp_end', 'packet_seq_num']


def gen_members(rnd, prefix, nmin=0, nmax=4):
    n = rnd.randint(nmin, nmax)
    names = [f'{prefix}{i}' for i in range(n)]
    if prefix != 'x':
        pool = list(SPECIAL_NAMES)
        rnd.shuffle(pool)
        for i in range(n):
            if rnd.random() < 0.12:
                names[i] = pool.pop()
    return [{names[i]: {'field-type': gen_member_ft(rnd)}} for i in range(n)]


def gen_struct(rnd, prefix, nmin=0, nmax=4):
    s = {'class': 'struct', 'members': gen_members(rnd, prefix, nmin, nmax)}
    if rnd.random() < 0.3:
        s['minimum-alignment'] = rnd.choice(ALIGNS)
    return s


def gen_feature_uint(rnd, minsize=1, sizes=None):
    """feature field type: true (default), or a custom unsigned integer / enumeration"""
    if rnd.random() < (0.15 if BIAS['bits'] else 0.4):
        return True
    size = rnd.choice(sizes) if sizes else rnd.randint(minsize, 64)
    ft = {'class': 'uint', 'size': size}
    if rnd.random() < (0.9 if BIAS['bits'] else 0.5):
        ft['alignment'] = pick_align(rnd, 0.5)
    if rnd.random() < 0.2:
        # feature field types may be unsigned enumerations
        ft['class'] = 'uenum'
        hi = (1 << size) - 1
        ft['mappings'] = {'A': [0], 'REST': [[min(1, hi), hi]]} if rnd.random() < 0.5 else {'ONLY': [rnd.randint(0, hi)]}
    if rnd.random() < 0.15:
        ft['preferred-display-base'] = rnd.choice(['bin', 'oct', 'dec', 'hex'])
    return ft


def gen_config(rnd, ndst=None, profile='layout'):
    """Returns (yaml_text, info)."""
    cfg, info = gen_config_tree(rnd, ndst, profile)
    text = HEADER + yaml.dump(cfg, Dumper=QuotingDumper, sort_keys=False, default_flow_style=False)
    return text, info


def gen_config_tree(rnd, ndst=None, profile='layout'):
    """Returns (configuration node as plain dicts/lists, info)."""
    BIAS['pad'] = profile.endswith('-pad')
    BIAS['bits'] = profile.endswith('-bits')
    if BIAS['pad']:
        profile = profile[:-4]
    if BIAS['bits']:
        profile = profile[:-5]
    try:
        return _gen_config_tree(rnd, ndst, profile)
    finally:
        BIAS['pad'] = False
        BIAS['bits'] = False


def _gen_config_tree(rnd, ndst, profile):
    ndst = ndst or rnd.choice([1, 1, 2, 3])
    native = rnd.random() < 0.6
    tt = {}
    if native:
        tt['native-byte-order'] = 'le'
    else:
        tt['trace-byte-order'] = rnd.choice(['le', 'be'])
    has_uuid = rnd.random() < 0.5
    if has_uuid:
        tt['uuid'] = '%08x-%04x-%04x-%04x-%012x' % (rnd.getrandbits(32), rnd.getrandbits(16), rnd.getrandbits(16),
                                                    rnd.getrandbits(16), rnd.getrandbits(48))
    feats = {}
    r = rnd.random()
    if r < 0.2:
        feats['magic-field-type'] = False
    elif r < 0.4:
        feats['magic-field-type'] = {'class': 'uint', 'size': 32, 'alignment': rnd.choice([8, 16, 32, 64])}
    if has_uuid and rnd.random() < 0.3:
        feats['uuid-field-type'] = False
    dst_bits = max(1, (ndst - 1).bit_length())
    r = rnd.random()
    if ndst == 1 and r < 0.3:
        feats['data-stream-type-id-field-type'] = False
    elif r < 0.55:
        feats['data-stream-type-id-field-type'] = gen_feature_uint(rnd, dst_bits)
    elif r < 0.7:
        # exactly wide enough — or one bit short, which barectf must refuse (the generator then draws again)
        sz = max(1, dst_bits - (1 if rnd.random() < 0.3 else 0))
        ft = {'class': rnd.choice(['uint', 'uenum']), 'size': sz, 'alignment': rnd.choice([1, 8])}
        if ft['class'] == 'uenum':
            ft['mappings'] = {'ALL': [[0, (1 << sz) - 1]]}
        feats['data-stream-type-id-field-type'] = ft
    if feats:
        tt['$features'] = feats
    clock_names = []
    nclk = rnd.choice([0, 1, 1, 2])
    ctypes = {}
    if nclk:
        tt['clock-types'] = {}
        for i in range(nclk):
            name = f'clk{i}'
            clock_names.append(name)
            ck = {}
            if rnd.random() < 0.5:
                ck['frequency'] = rnd.choice([1, 1000, 1000000000])
            ct = rnd.choice(['uint8_t', 'uint16_t', 'uint32_t', 'uint64_t', None])
            if ct:
                ck['$c-type'] = ct
            ctypes[name] = ct or 'uint32_t'
            tt['clock-types'][name] = ck
    dsts = {}
    default_dst = None
    names = rnd.sample(['alpha', 'beta', 'gamma', 'delta', 'Zeta', 'a_b', 'x1', '_u'], ndst)
    for dname in names:
        d = {}
        clk = rnd.choice(clock_names) if clock_names and rnd.random() < 0.7 else None
        if clk:
            d['$default-clock-type-name'] = clk
        nert = rnd.choice([1, 1, 2, 3, 4]) if profile == 'layout' else rnd.choice([1, 2, 3])
        pkt = {}
        sizes_min = 16
        # total/content size: the same type most of the time (docs: total size must be at least as wide)
        r_sz = rnd.random()
        if r_sz < 0.55:
            csz = rnd.randint(sizes_min, 64)
            tsz = rnd.randint(csz, 64)
            pkt['content-size-field-type'] = {'class': 'uint', 'size': csz, 'alignment': pick_align(rnd)}
            pkt['total-size-field-type'] = {'class': 'uint', 'size': tsz, 'alignment': pick_align(rnd)}
        elif r_sz < 0.65:
            # only one of the two stated: the other is the default 64-bit unsigned integer
            pkt['content-size-field-type'] = {'class': 'uint', 'size': rnd.randint(sizes_min, 64), 'alignment': pick_align(rnd)}
        elif r_sz < 0.7:
            pkt['total-size-field-type'] = {'class': 'uint', 'size': 64, 'alignment': pick_align(rnd)}
        if clk:
            r = rnd.random()
            if r < 0.2:
                pkt['beginning-timestamp-field-type'] = False
                pkt['end-timestamp-field-type'] = False
            elif r < 0.6:
                pkt['beginning-timestamp-field-type'] = gen_feature_uint(rnd)
                pkt['end-timestamp-field-type'] = gen_feature_uint(rnd)
        r = rnd.random()
        if r < 0.25:
            pkt['discarded-event-records-counter-snapshot-field-type'] = False
        elif r < 0.6:
            pkt['discarded-event-records-counter-snapshot-field-type'] = gen_feature_uint(rnd)
        if rnd.random() < 0.5:
            pkt['sequence-number-field-type'] = gen_feature_uint(rnd)
        er = {}
        id_bits = max(1, (nert - 1).bit_length())
        r = rnd.random()
        if nert == 1 and r < 0.3:
            er['type-id-field-type'] = False
        elif r < 0.7:
            er['type-id-field-type'] = gen_feature_uint(rnd, id_bits)
        if clk:
            r = rnd.random()
            if r < 0.2:
                er['timestamp-field-type'] = False
            elif r < 0.6:
                er['timestamp-field-type'] = gen_feature_uint(rnd)
        f = {}
        if pkt:
            f['packet'] = pkt
        if er:
            f['event-record'] = er
        if f:
            d['$features'] = f
        if rnd.random() < 0.35:
            d['packet-context-field-type-extra-members'] = gen_members(rnd, 'x', 1, 2)
        if rnd.random() < 0.4:
            d['event-record-common-context-field-type'] = gen_struct(rnd, 'c', 0, 2)
        erts = {}
        enames = rnd.sample(['ev', 'Beta', 'a', 'zz', 'ev_2', 'm0', 'trace_x'], nert)
        for en in enames:
            e = {}
            if rnd.random() < 0.3:
                e['log-level'] = rnd.choice([0, 1, 7, 14, 'warning', 'emerg', 'emerg'])
            if rnd.random() < 0.35:
                e['specific-context-field-type'] = gen_struct(rnd, 's', 0, 2)
            if rnd.random() < 0.9:
                e['payload-field-type'] = gen_struct(rnd, 'p', 0, 4)
            if 'specific-context-field-type' not in e and 'payload-field-type' not in e and rnd.random() < 0.5:
                e['payload-field-type'] = gen_struct(rnd, 'p', 1, 3)
            erts[en] = e
        d['event-record-types'] = erts
        if default_dst is None and rnd.random() < 0.4:
            d['$is-default'] = True
            default_dst = dname
        dsts[dname] = d
    tt['data-stream-types'] = dsts
    tt['$log-level-aliases'] = {'warning': 4, 'dbg': 14, 'emerg': 0}
    cfg = {'trace': {'type': tt}}
    if rnd.random() < 0.3:
        cfg['trace']['environment'] = {'a': 1, 'b': 'x"y\\z', 'neg': -5}
        # string values a YAML resolver may take for something else (other integer spellings, booleans, nulls, dates,
        # sexagesimal numbers, indicators): they are strings in the document and must stay strings in whatever the front
        # end prints
        for i, v in enumerate(rnd.sample(TRICKY_STRINGS, rnd.choice([0, 1, 2, 4]))):
            cfg['trace']['environment'][f't{i}'] = v
    opts = {}
    r_p = rnd.random()
    if r_p < 0.3:
        p = rnd.choice(['my_', 'bctf', 'T_x_'])
        opts['prefix'] = p
    elif r_p < 0.45:
        # object form: identifier and file name prefixes are independent (docs: `file-name: acme-corp`)
        opts['prefix'] = {'identifier': rnd.choice(['my_', 'acme_', 'T_x_']),
                          'file-name': rnd.choice(['acme-corp', 'tracer', 'my.files', 'T_x'])}
    if rnd.random() < 0.3:
        opts['header'] = {'identifier-prefix-definition': rnd.random() < 0.5,
                          'default-data-stream-type-name-definition': rnd.random() < 0.5}
    if opts:
        cfg['options'] = {'code-generation': opts}
    return cfg, {'ndst': ndst, 'names': names}


class QuotingDumper(yaml.SafeDumper):
    """writes every string that is not plainly a word in double quotes, as a careful author does: what such a string
    means must not depend on which scalars the reader's resolver takes for numbers, booleans, dates or nulls"""


_PLAIN_WORD = re.compile(r'^[A-Za-z_$][A-Za-z0-9_$]*([ .-][A-Za-z_][A-Za-z0-9_]*)*$')
_RESOLVED_WORDS = {'yes', 'no', 'on', 'off', 'true', 'false', 'null', 'y', 'n'}


def _repr_str(dumper, data):
    if _PLAIN_WORD.match(data) and data.lower() not in _RESOLVED_WORDS:
        return dumper.represent_scalar('tag:yaml.org,2002:str', data)
    return dumper.represent_scalar('tag:yaml.org,2002:str', data, style='"')


QuotingDumper.add_representer(str, _repr_str)


TRICKY_STRINGS = ['0o644', '0o17', '0b101', '1_000', '0x1F', '012', '+1', '-0', '0.', '1e3', '.5', '.inf', '.nan', 'yes', 'No',
                  'on', 'OFF', 'true', 'False', '~', 'null', 'NULL', '2001-01-01', '2001-12-14t21:59:43.10-05:00', '1:30',
                  '190:20:30', '=', '<<', '- x', ': y', 'a: b', '#c', '{a', '[b', '!t', '&a', '*a', '|', '>', '%d', '@x',
                  '`y`', ' lead', 'trail ', '', "it's", '0O17', '0o8', '1__0', '0b', '0x', '1,000']


# ---- argument values ---------------------------------------------------------------------

def scalar_value(rnd, sc):
    """a leaf for the line protocol: decimal string for numbers, {'s': hex} for strings"""
    if sc['k'] == 'str':
        n = rnd.choice([0, 0, 1, 2, 3, 5, 8, 13])
        return {'s': bytes(rnd.randint(1, 255) for _ in range(n)).hex()}
    if sc['k'] == 'real':
        w = sc['sz']
        return str(rnd.choice([0, 1 << (w - 1), rnd.getrandbits(w),
                               0x3fc00000 if w == 32 else 0x3ff8000000000000,
                               0x7f800000 if w == 32 else 0x7ff0000000000000]))
    w = 8 if sc['sz'] <= 8 else 16 if sc['sz'] <= 16 else 32 if sc['sz'] <= 32 else 64
    lo, hi = (-(1 << (w - 1)), (1 << (w - 1)) - 1) if sc['s'] else (0, (1 << w) - 1)
    return str(rnd.choice([0, 1, lo, hi, hi - 1, rnd.randint(lo, hi), rnd.randint(lo, hi),
                           (1 << sc['sz']) - 1 if (1 << sc['sz']) - 1 <= hi else hi,
                           rnd.randint(0, min(hi, (1 << sc['sz']) - 1))]))


def elem_leaves(rnd, e):
    if e['k'] == 'sarr':
        out = []
        for _ in range(e['n']):
            out += elem_leaves(rnd, e['e'])
        return out
    return [scalar_value(rnd, e)]


def struct_args(rnd, members, pfx, skip=(), darr_len=None):
    """Args (dict param name -> list of leaves) for the members of a root structure"""
    args = {}
    lens = {}
    for m in members:
        n, ft = m['n'], m['ft']
        if n in skip:
            continue
        if ft['k'] == 'darr':
            cnt = lens[ft['ln']]
            leaves = []
            for _ in range(cnt):
                leaves += elem_leaves(rnd, ft['e'])
            args[f'{pfx}_{n}'] = leaves
        elif n.startswith('__') and n.endswith('_len') and ft['k'] == 'int':
            cnt = darr_len(rnd) if darr_len else rnd.choice([0, 1, 2, 3, 4])
            lens[n] = cnt
            args[f'{pfx}_{n}'] = [str(cnt)]
        else:
            args[f'{pfx}_{n}'] = elem_leaves(rnd, ft)
    return args
