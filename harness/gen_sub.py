"""subprocess side of the determinism oracle: generate every file from a YAML configuration file and print
the contents (date-dependent lines stripped) as JSON.  Run with PYTHONHASHSEED set by the parent."""
import json
import sys
import warnings
warnings.filterwarnings('ignore')
sys.path.insert(0, sys.argv[2] if len(sys.argv) > 2 else '/repo')
import barectf  # noqa: E402

STRIP = ('The following code was generated', '* on ', 'barectf_gen_date =')


def main():
    with open(sys.argv[1]) as f:
        # partial files listed in `$include` properties are looked up next to the configuration file
        import os
        cfg = barectf.configuration_from_file(f, inclusion_directories=[os.path.dirname(os.path.abspath(sys.argv[1]))])
    cg = barectf.CodeGenerator(cfg)
    files = list(cg.generate_c_headers()) + list(cg.generate_c_sources()) + [cg.generate_metadata_stream()]
    out = {}
    for fl in files:
        out[fl.name] = '\n'.join(l for l in fl.contents.split('\n') if not any(p in l for p in STRIP))
    json.dump(out, sys.stdout)


main()
