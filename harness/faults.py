"""The fault catalogue of C09/C10: one operator per documented constraint, applicable at every
location of a configuration tree where the constrained object occurs.  `sites(cfg)` enumerates the
locations of a (valid) barectf 3 configuration tree; `OPS` are the operators; `mutants(rnd, cfg, n)`
draws (operator, site) pairs.  Every operator makes the document violate a constraint stated in the
documentation (docs/modules/yaml/pages/*.adoc), so a mutant that the real loader accepts is a
violation of C09, not a false alarm.  Structural operators for C10 (delete / retype / splice) are in
`structural_mutants`."""
import copy

BAD_IDENS = ['9x', 'a-b', 'a b', '', 'é', 'x\n', 'a.b']
# documented list (docs/modules/yaml/pages/index.adoc, "TSDL identifier")
DOC_KEYWORDS = ['align', 'callsite', 'const', 'char', 'clock', 'double', 'enum', 'env', 'event', 'floating_point',
                'float', 'integer', 'int', 'long', 'short', 'signed', 'stream', 'string', 'struct', 'trace',
                'typealias', 'typedef', 'unsigned', 'variant', 'void', '_Bool', '_Complex', '_Imaginary']
KINDS = {'null': None, 'bool': True, 'int': 7, 'float': 1.5, 'str': 'zzz', 'seq': [1], 'map': {'k': 1}}

INT_CLASSES = ('uint', 'sint', 'uenum', 'senum', 'unsigned-int', 'signed-int', 'unsigned-integer', 'signed-integer',
               'unsigned-enum', 'signed-enum', 'unsigned-enumeration', 'signed-enumeration')


def get(cfg, path):
    n = cfg
    for p in path:
        n = n[p]
    return n


def ft_kind(ft):
    c = ft.get('class') if isinstance(ft, dict) else None
    if c in INT_CLASSES:
        return 'int-ft'
    if c == 'real':
        return 'real-ft'
    if c in ('str', 'string'):
        return 'str-ft'
    if c == 'static-array':
        return 'sarr-ft'
    if c == 'dynamic-array':
        return 'darr-ft'
    if c in ('struct', 'structure'):
        return 'struct-ft'
    return None


def walk_ft(ft, path, where, out):
    k = ft_kind(ft)
    if k is None:
        return
    out.append((k, path, where))
    if k in ('sarr-ft', 'darr-ft') and isinstance(ft.get('element-field-type'), dict):
        walk_ft(ft['element-field-type'], path + ['element-field-type'], 'elem', out)
    if k == 'struct-ft' and isinstance(ft.get('members'), list):
        out.append(('members', path + ['members'], where))
        for i, m in enumerate(ft['members']):
            for n, v in m.items():
                if isinstance(v, dict) and isinstance(v.get('field-type'), dict):
                    walk_ft(v['field-type'], path + ['members', i, n, 'field-type'], where + '-member', out)


def sites(cfg):
    """[(site kind, path, where)]"""
    out = [('root', [], 'root'), ('trace', ['trace'], 'trace'), ('tt', ['trace', 'type'], 'tt')]
    tt = cfg['trace']['type']
    if isinstance(cfg['trace'].get('environment'), dict):
        out.append(('env', ['trace', 'environment'], 'env'))
    f = tt.get('$features')
    if isinstance(f, dict):
        out.append(('features-tt', ['trace', 'type', '$features'], 'tt'))
        for k, v in f.items():
            if isinstance(v, dict):
                walk_ft(v, ['trace', 'type', '$features', k], 'feature-tt', out)
    for cn, ck in (tt.get('clock-types') or {}).items():
        out.append(('clock', ['trace', 'type', 'clock-types', cn], 'clock'))
    for dn, d in tt['data-stream-types'].items():
        base = ['trace', 'type', 'data-stream-types', dn]
        out.append(('dst', base, 'dst'))
        df = d.get('$features')
        if isinstance(df, dict):
            for grp in ('packet', 'event-record'):
                g = df.get(grp)
                if isinstance(g, dict):
                    out.append(('features-' + grp, base + ['$features', grp], 'dst'))
                    for k, v in g.items():
                        if isinstance(v, dict):
                            walk_ft(v, base + ['$features', grp, k], 'feature-' + grp, out)
        em = d.get('packet-context-field-type-extra-members')
        if isinstance(em, list):
            out.append(('members', base + ['packet-context-field-type-extra-members'], 'extra'))
            for i, m in enumerate(em):
                for n, v in m.items():
                    if isinstance(v, dict) and isinstance(v.get('field-type'), dict):
                        walk_ft(v['field-type'], base + ['packet-context-field-type-extra-members', i, n, 'field-type'],
                                'extra-member', out)
        if isinstance(d.get('event-record-common-context-field-type'), dict):
            walk_ft(d['event-record-common-context-field-type'], base + ['event-record-common-context-field-type'], 'ercc', out)
        for en, e in d['event-record-types'].items():
            eb = base + ['event-record-types', en]
            out.append(('ert', eb, 'ert'))
            for k, w in (('specific-context-field-type', 'sc'), ('payload-field-type', 'payload')):
                if isinstance(e.get(k), dict):
                    walk_ft(e[k], eb + [k], w, out)
    return out


def rename_key(parent, old, new):
    items = [(new if k == old else k, v) for k, v in parent.items()]
    parent.clear()
    parent.update(items)


def _set(k, v):
    def f(cfg, path, rnd):
        get(cfg, path)[k] = v
    return f


def _del(k):
    def f(cfg, path, rnd):
        n = get(cfg, path)
        if k not in n:
            return False
        del n[k]
    return f


def _has(k):
    return lambda cfg, path: isinstance(get(cfg, path), dict) and k in get(cfg, path)


ANY_FT = ['int-ft', 'real-ft', 'str-ft', 'sarr-ft', 'darr-ft', 'struct-ft']
OBJECTS = ['root', 'trace', 'tt', 'clock', 'dst', 'ert', 'features-tt', 'features-packet', 'features-event-record']


def member_names(cfg, path):
    return [list(m.keys())[0] for m in get(cfg, path) if isinstance(m, dict) and m]


def op_member_dup(cfg, path, rnd):
    ms = get(cfg, path)
    if not ms:
        return False
    ms.append(copy.deepcopy(rnd.choice(ms)))


def op_member_dup_other_type(cfg, path, rnd):
    """a second member with the name of an existing one and a different field type (a dynamic array first, if any)"""
    ms = get(cfg, path)
    named = [m for m in ms if isinstance(m, dict) and len(m) == 1 and isinstance(list(m.values())[0], dict)]
    dyn = [m for m in named if isinstance(list(m.values())[0].get('field-type'), dict) and
           list(m.values())[0]['field-type'].get('class') == 'dynamic-array']
    if not dyn and (not named or rnd.random() < 0.8):
        ms.append({'dynq': {'field-type': {'class': 'dynamic-array', 'element-field-type': {'class': 'uint', 'size': 8}}}})
        dyn = [ms[-1]]
    m = rnd.choice(dyn or named)
    n = list(m.keys())[0]
    ft = list(m.values())[0].get('field-type')
    other = {'class': 'str'} if isinstance(ft, dict) and ft.get('class') in ('uint', 'sint', 'uenum', 'senum') else {'class': 'uint', 'size': 16}
    ms.insert(rnd.choice([ms.index(m) + 1, len(ms)]), {n: {'field-type': other}})


def op_member_rename(names):
    def f(cfg, path, rnd):
        ms = get(cfg, path)
        if not ms:
            return False
        m = rnd.choice(ms)
        old = list(m.keys())[0]
        rename_key(m, old, rnd.choice(names))
    return f


def op_member_nested_struct(cfg, path, rnd):
    ms = get(cfg, path)
    ms.append({'nst': {'field-type': {'class': 'struct', 'members': [{'q': {'field-type': {'class': 'uint', 'size': 8}}}]}}})


def op_member_two_keys(cfg, path, rnd):
    ms = get(cfg, path)
    if not ms:
        return False
    rnd.choice(ms)['second'] = {'field-type': {'class': 'uint', 'size': 8}}


def op_member_no_ft(cfg, path, rnd):
    get(cfg, path).append({'noft': {}})


def op_member_empty(cfg, path, rnd):
    """an empty member node; with field type aliases present the members are normalised before any schema sees them"""
    ms = get(cfg, path)
    ms.insert(rnd.randint(0, len(ms)), {})
    tt = cfg['trace']['type']
    if rnd.random() < 0.7:
        tt.setdefault('$field-type-aliases', {}).setdefault('zz_alias', {'class': 'uint', 'size': 8})


def op_member_scalar(cfg, path, rnd):
    ms = get(cfg, path)
    ms.insert(rnd.randint(0, len(ms)), rnd.choice(['junk', 3, None, True]))
    tt = cfg['trace']['type']
    if rnd.random() < 0.7:
        tt.setdefault('$field-type-aliases', {}).setdefault('zz_alias', {'class': 'uint', 'size': 8})


def op_member_named_like_length_member(cfg, path, rnd):
    """a member bearing the name of the length member barectf generates for a dynamic array member"""
    ms = get(cfg, path)
    dyn = [list(m.keys())[0] for m in ms if isinstance(m, dict) and m and
           isinstance(list(m.values())[0], dict) and isinstance(list(m.values())[0].get('field-type'), dict) and
           list(m.values())[0]['field-type'].get('class') in ('dynamic-array',)]
    if not dyn:
        ms.append({'dynq': {'field-type': {'class': 'dynamic-array', 'element-field-type': {'class': 'uint', 'size': 8}}}})
        dyn = ['dynq']
    n = rnd.choice(dyn)
    ms.insert(rnd.choice([0, len(ms)]), {f'__{n}_len': {'field-type': {'class': 'uint', 'size': rnd.choice([8, 16, 32])}}})


def op_extra_reserved(cfg, path, rnd):
    get(cfg, path).append({rnd.choice(['packet_size', 'content_size', 'timestamp_begin', 'timestamp_end', 'events_discarded',
                                       'packet_seq_num']): {'field-type': {'class': 'uint', 'size': 8}}})


def op_rename_in_parent(names):
    def f(cfg, path, rnd):
        parent = get(cfg, path[:-1])
        rename_key(parent, path[-1], rnd.choice(names))
    return f


def op_elem(v):
    def f(cfg, path, rnd):
        get(cfg, path)['element-field-type'] = copy.deepcopy(v)
    return f


def op_unknown_alias(cfg, path, rnd):
    parent = get(cfg, path[:-1])
    parent[path[-1]] = 'no-such-alias'


def op_self_alias(cfg, path, rnd):
    tt = cfg['trace']['type']
    al = tt.setdefault('$field-type-aliases', {}) or {}
    tt['$field-type-aliases'] = al
    al['cyc-a'] = 'cyc-b'
    al['cyc-b'] = 'cyc-a'
    parent = get(cfg, path[:-1])
    parent[path[-1]] = 'cyc-a'


def op_alias_cycle_shape(shape):
    """an alias which names itself through a structure member, an array element, an inheritance chain or a
    chain of plain aliases; the slot at `path` uses it"""
    def f(cfg, path, rnd):
        tt = cfg['trace']['type']
        al = tt.get('$field-type-aliases')
        if not isinstance(al, dict):
            al = {}
            tt['$field-type-aliases'] = al
        if shape == 'member':
            m = {'next': 'cyc_m'} if rnd.random() < 0.5 else {'next': {'field-type': 'cyc_m'}}
            al['cyc_m'] = {'class': 'struct', 'members': [{'v': {'field-type': {'class': 'uint', 'size': 8}}}, m]}
            name = 'cyc_m'
        elif shape == 'element':
            al['cyc_e'] = {'class': 'static-array', 'length': 2, 'element-field-type': 'cyc_e'}
            name = 'cyc_e'
        elif shape == 'inherit':
            al['cyc_i'] = {'$inherit': 'cyc_j', 'size': 8}
            al['cyc_j'] = {'$inherit': 'cyc_i', 'alignment': 8}
            name = 'cyc_i'
        else:
            n = rnd.randint(3, 6)
            for i in range(n):
                al[f'cyc_c{i}'] = f'cyc_c{(i + 1) % n}'
            name = 'cyc_c0'
        parent = get(cfg, path[:-1])
        parent[path[-1]] = name
    return f


def op_self_inherit(cfg, path, rnd):
    tt = cfg['trace']['type']
    al = tt.setdefault('$field-type-aliases', {}) or {}
    tt['$field-type-aliases'] = al
    al['inh-a'] = {'$inherit': 'inh-a', 'size': 8}
    parent = get(cfg, path[:-1])
    parent[path[-1]] = 'inh-a'


def op_wrong_kind(prop, allowed):
    def f(cfg, path, rnd):
        n = get(cfg, path)
        bad = [k for k in KINDS if k not in allowed]
        n[prop] = copy.deepcopy(KINDS[rnd.choice(bad)])
    return f


def count_ge(key, n):
    return lambda cfg, path: len(get(cfg, path).get(key) or {}) >= n


def op_dst_id(v):
    def f(cfg, path, rnd):
        tt = get(cfg, path)
        f_ = tt.get('$features')
        if not isinstance(f_, dict):
            f_ = {}
            tt['$features'] = f_
        f_['data-stream-type-id-field-type'] = copy.deepcopy(v)
    return f


def op_ert_id(v):
    def f(cfg, path, rnd):
        d = get(cfg, path)
        f_ = d.get('$features')
        if not isinstance(f_, dict):
            f_ = {}
            d['$features'] = f_
        er = f_.get('event-record')
        if not isinstance(er, dict):
            er = {}
            f_['event-record'] = er
        er['type-id-field-type'] = copy.deepcopy(v)
    return f


def op_total_lt_content(cfg, path, rnd):
    d = get(cfg, path)
    f_ = d.get('$features')
    if not isinstance(f_, dict):
        f_ = {}
        d['$features'] = f_
    p = f_.get('packet')
    if not isinstance(p, dict):
        p = {}
        f_['packet'] = p
    p['total-size-field-type'] = {'class': 'uint', 'size': 16}
    p['content-size-field-type'] = {'class': 'uint', 'size': 32}


def op_total_lt_default_content(cfg, path, rnd):
    """the content size feature left to its default (a 64-bit unsigned integer), the total size narrower"""
    d = get(cfg, path)
    f_ = d.get('$features')
    if not isinstance(f_, dict):
        f_ = {}
        d['$features'] = f_
    p = f_.get('packet')
    if not isinstance(p, dict):
        p = {}
        f_['packet'] = p
    p['total-size-field-type'] = {'class': 'uint', 'size': rnd.choice([16, 32, 48, 63])}
    if rnd.random() < 0.5:
        p.pop('content-size-field-type', None)
    else:
        p['content-size-field-type'] = True


def op_mandatory_feature_disabled(which):
    """docs: "You can't disable this feature" (packet total size / content size)"""
    def f(cfg, path, rnd):
        d = get(cfg, path)
        f_ = d.get('$features')
        if not isinstance(f_, dict):
            f_ = {}
            d['$features'] = f_
        p = f_.get('packet')
        if not isinstance(p, dict):
            p = {}
            f_['packet'] = p
        p[which] = False
    return f


def op_two_defaults(cfg, path, rnd):
    for d in get(cfg, path)['data-stream-types'].values():
        d['$is-default'] = True


def op_three_erts_small_id(cfg, path, rnd):
    d = get(cfg, path)
    ft = {'class': 'struct', 'members': [{'z': {'field-type': {'class': 'uint', 'size': 8}}}]}
    for n in ('ex1', 'ex2', 'ex3'):
        d['event-record-types'][n] = {'payload-field-type': copy.deepcopy(ft)}
    op_ert_id({'class': 'uint', 'size': 1})(cfg, path, rnd)


def op_ert_empty(cfg, path, rnd):
    # an event record type with no member at all (header and common context included) is documented as invalid
    dpath = path[:-2]
    d = get(cfg, dpath)
    d.pop('event-record-common-context-field-type', None)
    d['$features'] = {'event-record': {'type-id-field-type': False, 'timestamp-field-type': False}}
    if len(d['event-record-types']) > 1:
        return False
    e = get(cfg, path)
    e.pop('specific-context-field-type', None)
    e['payload-field-type'] = {'class': 'struct', 'members': []}


# (name, applicable site kinds, precondition or None, operator)
OPS = [
    ('int-size-0', ['int-ft'], None, _set('size', 0)),
    ('int-size-65', ['int-ft'], None, _set('size', 65)),
    ('int-size-negative', ['int-ft'], None, _set('size', -8)),
    ('int-size-missing', ['int-ft'], None, _del('size')),
    ('int-size-float', ['int-ft'], None, _set('size', 8.0)),
    ('real-size-16', ['real-ft'], None, _set('size', 16)),
    ('real-size-missing', ['real-ft'], None, _del('size')),
    ('alignment-3', ['int-ft', 'real-ft'], None, _set('alignment', 3)),
    ('alignment-0', ['int-ft', 'real-ft'], None, _set('alignment', 0)),
    ('alignment-6', ['int-ft', 'real-ft'], None, _set('alignment', 6)),
    ('alignment-negative', ['int-ft', 'real-ft'], None, _set('alignment', -8)),
    ('min-alignment-12', ['struct-ft'], None, _set('minimum-alignment', 12)),
    ('display-base-bogus', ['int-ft'], None, _set('preferred-display-base', 'base7')),
    ('class-missing', ANY_FT, None, _del('class')),
    ('class-unknown', ANY_FT, None, _set('class', 'bogus-class')),
    ('unknown-property', ANY_FT + OBJECTS, None, _set('bogus', 3)),
    ('length-negative', ['sarr-ft'], None, _set('length', -1)),
    ('length-missing', ['sarr-ft'], None, _del('length')),
    ('element-missing', ['sarr-ft', 'darr-ft'], None, _del('element-field-type')),
    ('element-is-structure', ['sarr-ft', 'darr-ft'], None,
     op_elem({'class': 'struct', 'members': [{'q': {'field-type': {'class': 'uint', 'size': 8}}}]})),
    ('element-is-dynamic-array', ['sarr-ft', 'darr-ft'], None,
     op_elem({'class': 'dynamic-array', 'element-field-type': {'class': 'uint', 'size': 8}})),
    ('dynamic-array-length-property', ['darr-ft'], None, _set('length', 3)),
    ('member-duplicate', ['members'], None, op_member_dup),
    ('member-duplicate-other-type', ['members'], None, op_member_dup_other_type),
    ('member-invalid-identifier', ['members'], None, op_member_rename(BAD_IDENS)),
    ('member-keyword', ['members'], None, op_member_rename(DOC_KEYWORDS)),
    ('member-nested-structure', ['members'], None, op_member_nested_struct),
    ('member-two-keys', ['members'], None, op_member_two_keys),
    ('member-without-field-type', ['members'], None, op_member_no_ft),
    ('member-empty-node', ['members'], None, op_member_empty),
    ('member-not-a-mapping', ['members'], None, op_member_scalar),
    ('member-named-like-generated-length-member', ['members'], None, op_member_named_like_length_member),
    ('extra-member-reserved-name', ['members'], lambda cfg, path: 'extra-members' in path[-1], op_extra_reserved),
    ('unknown-alias', ANY_FT, None, op_unknown_alias),
    ('alias-cycle', ANY_FT, None, op_self_alias),
    ('self-inheritance', ANY_FT, None, op_self_inherit),
    ('alias-cycle-through-member', ANY_FT, None, op_alias_cycle_shape('member')),
    ('alias-cycle-through-element', ANY_FT, None, op_alias_cycle_shape('element')),
    ('alias-cycle-through-inheritance', ANY_FT, None, op_alias_cycle_shape('inherit')),
    ('alias-cycle-long-chain', ANY_FT, None, op_alias_cycle_shape('chain')),
    ('unknown-clock-type', ['dst'], None, _set('$default-clock-type-name', 'no_such_clock')),
    ('unknown-log-level-alias', ['ert'], None, _set('log-level', 'no-such-level')),
    ('log-level-negative', ['ert'], None, _set('log-level', -1)),
    ('unknown-inclusion-file', ['trace', 'tt', 'clock', 'dst', 'ert'], None, _set('$include', ['no-such-file.yaml'])),
    ('ert-invalid-identifier', ['ert'], None, op_rename_in_parent(BAD_IDENS)),
    ('ert-keyword', ['ert'], None, op_rename_in_parent(DOC_KEYWORDS)),
    ('dst-invalid-identifier', ['dst'], None, op_rename_in_parent(BAD_IDENS)),
    ('dst-keyword', ['dst'], None, op_rename_in_parent(DOC_KEYWORDS)),
    ('clock-invalid-identifier', ['clock'], None, op_rename_in_parent(BAD_IDENS)),
    ('clock-keyword', ['clock'], None, op_rename_in_parent(DOC_KEYWORDS)),
    ('clock-frequency-0', ['clock'], None, _set('frequency', 0)),
    ('clock-precision-negative', ['clock'], None, _set('precision', -1)),
    ('clock-uuid-malformed', ['clock'], None, _set('uuid', '1234')),
    ('env-invalid-identifier', ['env'], None, _set('a-b', 1)),
    ('env-value-kind', ['env'], None, _set('flt', 1.5)),
    ('dst-id-disabled', ['tt'], count_ge('data-stream-types', 2), op_dst_id(False)),
    ('dst-id-too-small', ['tt'], count_ge('data-stream-types', 3), op_dst_id({'class': 'uint', 'size': 1})),
    ('dst-id-enumeration-too-small', ['tt'], count_ge('data-stream-types', 3),
     op_dst_id({'class': 'uenum', 'size': 1, 'mappings': {'A': [0], 'B': [1]}})),
    ('dst-id-signed', ['tt'], None, op_dst_id({'class': 'sint', 'size': 8})),
    ('ert-id-disabled', ['dst'], count_ge('event-record-types', 2), op_ert_id(False)),
    ('ert-id-too-small', ['dst'], None, op_three_erts_small_id),
    ('total-size-narrower-than-content-size', ['dst'], None, op_total_lt_content),
    ('total-size-narrower-than-default-content-size', ['dst'], None, op_total_lt_default_content),
    ('total-size-feature-disabled', ['dst'], None, op_mandatory_feature_disabled('total-size-field-type')),
    ('content-size-feature-disabled', ['dst'], None, op_mandatory_feature_disabled('content-size-field-type')),
    ('two-default-stream-types', ['tt'], count_ge('data-stream-types', 2), lambda c, p, r: op_two_defaults(c, p, r)),
    ('byte-order-missing', ['tt'], None, lambda c, p, r: [get(c, p).pop(k, None) for k in ('native-byte-order', 'trace-byte-order')] and None),
    ('byte-order-bogus', ['tt'], None, lambda c, p, r: get(c, p).__setitem__(
        'native-byte-order' if 'native-byte-order' in get(c, p) else 'trace-byte-order', 'middle-endian')),
    ('both-byte-orders', ['tt'], None, lambda c, p, r: get(c, p).update({'native-byte-order': 'le', 'trace-byte-order': 'le'})),
    ('trace-uuid-malformed', ['tt'], None, _set('uuid', 'not-a-uuid')),
    ('no-data-stream-type', ['tt'], None, _set('data-stream-types', {})),
    ('no-event-record-type', ['dst'], None, _set('event-record-types', {})),
    ('trace-type-missing', ['trace'], None, _del('type')),
    ('trace-missing', ['root'], None, _del('trace')),
    ('event-record-type-empty', ['ert'], None, op_ert_empty),
]



def op_unused_alias(v):
    def f(cfg, path, rnd):
        tt = get(cfg, path)
        al = tt.get('$field-type-aliases')
        if not isinstance(al, dict):
            al = {}
            tt['$field-type-aliases'] = al
        al['unused_alias'] = copy.deepcopy(v)
    return f


OPS += [
    ('unused-alias-of-unknown-alias', ['tt'], None, op_unused_alias('no-such-alias')),
    ('unused-alias-of-itself', ['tt'], None, op_unused_alias('unused_alias')),
    # finding F16 (recorded, not repaired): a field type object nothing uses is never validated
    ('unused-alias-invalid-object', ['tt'], None, op_unused_alias({'class': 'uint', 'size': 99})),
]

# wrong value kind, per documented property: (site kinds, property, allowed kinds)
KIND_TABLE = [
    (['int-ft', 'real-ft'], 'size', ['int']),
    (['int-ft', 'real-ft'], 'alignment', ['int', 'null']),
    (['int-ft'], 'preferred-display-base', ['str', 'null']),
    (ANY_FT, 'class', ['str']),
    (['sarr-ft'], 'length', ['int']),
    (['sarr-ft', 'darr-ft'], 'element-field-type', ['map', 'str']),
    (['struct-ft'], 'minimum-alignment', ['int', 'null']),
    (['struct-ft'], 'members', ['seq', 'null']),
    (['ert'], 'log-level', ['int', 'str', 'null']),
    (['ert'], 'payload-field-type', ['map', 'str', 'null']),
    (['ert'], 'specific-context-field-type', ['map', 'str', 'null']),
    (['dst'], '$is-default', ['bool', 'null']),
    (['dst'], '$default-clock-type-name', ['str', 'null']),
    (['dst'], '$features', ['map', 'null']),
    (['dst'], 'packet-context-field-type-extra-members', ['seq', 'null']),
    (['dst'], 'event-record-common-context-field-type', ['map', 'str', 'null']),
    (['dst'], 'event-record-types', ['map']),
    (['clock'], 'frequency', ['int', 'null']),
    (['clock'], 'uuid', ['str', 'null']),
    (['clock'], 'description', ['str', 'null']),
    (['clock'], 'precision', ['int', 'null']),
    (['clock'], 'offset', ['map', 'null']),
    (['clock'], 'origin-is-unix-epoch', ['bool', 'null']),
    (['clock'], '$c-type', ['str', 'null']),
    (['tt'], 'uuid', ['str', 'null']),
    (['tt'], '$features', ['map', 'null']),
    (['tt'], 'clock-types', ['map', 'null']),
    (['tt'], 'data-stream-types', ['map']),
    (['tt'], '$log-level-aliases', ['map', 'null']),
    (['tt'], '$field-type-aliases', ['map', 'null']),
    (['trace'], 'type', ['map']),
    (['trace'], 'environment', ['map', 'null']),
    (['root'], 'trace', ['map']),
    (['root'], 'options', ['map', 'null']),
    (['features-packet'], 'total-size-field-type', ['map', 'str', 'bool', 'null']),
    (['features-packet'], 'sequence-number-field-type', ['map', 'str', 'bool', 'null']),
    (['features-event-record'], 'type-id-field-type', ['map', 'str', 'bool', 'null']),
    (['features-tt'], 'magic-field-type', ['map', 'str', 'bool', 'null']),
]
for kinds_, prop_, allowed_ in KIND_TABLE:
    OPS.append((f'wrong-kind:{prop_}', kinds_, None, op_wrong_kind(prop_, allowed_)))


def applicable(cfg):
    """[(op index, site)] of every operator at every site where it applies"""
    out = []
    st = sites(cfg)
    for i, (name, kinds, pre, op) in enumerate(OPS):
        for s in st:
            if s[0] in kinds and (pre is None or pre(cfg, s[1])):
                out.append((i, s))
    return out


def apply(cfg, op_index, site, rnd):
    """a mutated deep copy, or None if the operator declined"""
    c = copy.deepcopy(cfg)
    r = OPS[op_index][3](c, site[1], rnd)
    if r is False:
        return None
    return c


# ---- structural operators (C10) ----------------------------------------------------------------------

def all_nodes(t, path=()):
    yield path, t
    if isinstance(t, dict):
        for k, v in t.items():
            yield from all_nodes(v, path + (k,))
    elif isinstance(t, list):
        for i, v in enumerate(t):
            yield from all_nodes(v, path + (i,))


def structural_mutant(rnd, cfg):
    """one structural fault at a random node: delete, retype to each kind, out-of-range number, self reference,
    duplicate or splice a sub-tree, non-string key"""
    c = copy.deepcopy(cfg)
    nodes = [p for p, _ in all_nodes(c) if p]
    path = rnd.choice(nodes)
    parent = get(c, list(path[:-1]))
    key = path[-1]
    op = rnd.choice(['delete', 'retype', 'retype', 'retype', 'range', 'self', 'dup', 'splice', 'intkey', 'empty'])
    if op == 'delete':
        del parent[key]
    elif op == 'retype':
        parent[key] = copy.deepcopy(rnd.choice(list(KINDS.values())))
    elif op == 'range':
        parent[key] = rnd.choice([0, -1, 65, 2 ** 64, -2 ** 63 - 1, 10 ** 30, 0.5, float('inf'), float('nan')])
    elif op == 'self':
        parent[key] = rnd.choice(['$self', str(key), '$include', '$inherit'])
        if isinstance(parent, dict) and rnd.random() < 0.5:
            parent['$inherit'] = str(key)
    elif op == 'dup':
        other = rnd.choice(nodes)
        parent[key] = copy.deepcopy(get(c, list(other)))
    elif op == 'splice':
        other = get(c, list(rnd.choice(nodes)))
        if isinstance(parent[key], dict) and isinstance(other, dict):
            parent[key].update(copy.deepcopy(other))
        elif isinstance(parent[key], list):
            parent[key].append(copy.deepcopy(other))
        else:
            parent[key] = copy.deepcopy(other)
    elif op == 'intkey':
        if isinstance(parent, dict):
            parent[rnd.choice([3, 1.5, True, None])] = parent.pop(key)
        else:
            parent[key] = {5: 1}
    else:
        parent[key] = rnd.choice([{}, [], '', [{}], {'': {}}])
    return c, f'{op}@{"/".join(str(p) for p in path)}'


def op_null_table_still_used(table, user_prop, user_value):
    """an optional table of the trace type is reset to null (valid: null means the default, i.e. no entry) while an
    object still refers to one of its entries by name: a reference to an unknown name"""
    def f(cfg, path, rnd):
        cfg['trace']['type'][table] = None
        get(cfg, path)[user_prop] = user_value
    return f


OPS += [
    ('log-level-alias-used-with-null-alias-table', ['ert'], None,
     op_null_table_still_used('$log-level-aliases', 'log-level', 'warning')),
    ('clock-type-used-with-null-clock-types', ['dst'], None,
     op_null_table_still_used('clock-types', '$default-clock-type-name', 'clk0')),
]


def op_absent_table_still_used(table, user_prop, user_value):
    """the table is absent from the trace type while an object refers to one of the names other documents commonly
    define in it: a reference to an unknown name (whatever was loaded before in the same process)"""
    def f(cfg, path, rnd):
        cfg['trace']['type'].pop(table, None)
        get(cfg, path)[user_prop] = user_value
    return f


OPS += [
    ('clock-type-used-without-clock-types-table', ['dst'], None,
     op_absent_table_still_used('clock-types', '$default-clock-type-name', 'clk0')),
    ('log-level-alias-used-without-alias-table', ['ert'], None,
     op_absent_table_still_used('$log-level-aliases', 'log-level', 'warning')),
]
