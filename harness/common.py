"""Shared plumbing for the barectf verification harnesses.

Everything that touches barectf imports it from /repo's working tree
(REPO, overridable with BARECTF_REPO) so that checks always see the current
source.  Scratch directories live under /var/tmp and are removed on exit.
"""
import atexit
import io
import json
import os
import shutil
import subprocess
import sys
import tempfile
import time

VERIF = os.path.dirname(os.path.dirname(os.path.abspath(__file__)))
REPO = os.environ.get('BARECTF_REPO', '/repo')
LEAN_DIR = os.path.join(VERIF, 'lean')
DRV = os.path.join(LEAN_DIR, '.lake', 'build', 'bin', 'drv')
NPROC = os.cpu_count() or 4

if REPO not in sys.path:
    sys.path.insert(0, REPO)

import warnings
warnings.filterwarnings('ignore')

_scratch_dirs = []


def scratch(prefix='bverif.'):
    base = os.environ.get('BVERIF_SCRATCH', '/var/tmp')
    d = tempfile.mkdtemp(prefix=prefix, dir=base)
    _scratch_dirs.append(d)
    return d


def _cleanup():
    for d in _scratch_dirs:
        shutil.rmtree(d, ignore_errors=True)


atexit.register(_cleanup)


def barectf():
    import barectf as b
    assert os.path.realpath(os.path.dirname(b.__file__)) == os.path.realpath(os.path.join(REPO, 'barectf')), \
        f'barectf imported from {b.__file__}, expected {REPO}'
    return b


def load_cfg(yaml_text, inc_dirs=None):
    b = barectf()
    return b.configuration_from_file(io.StringIO(yaml_text), inclusion_directories=inc_dirs or [])


def gen_files(cfg, outdir, file_prefix=None):
    """Generates header, bitfield header, source and metadata into outdir.
    Returns dict name -> contents."""
    b = barectf()
    cg = b.CodeGenerator(cfg, file_prefix) if file_prefix is not None else b.CodeGenerator(cfg)
    files = list(cg.generate_c_headers()) + list(cg.generate_c_sources()) + [cg.generate_metadata_stream()]
    out = {}
    for f in files:
        out[f.name] = f.contents
        with open(os.path.join(outdir, f.name), 'w') as fh:
            fh.write(f.contents)
    return out


def cc(args, cwd=None, timeout=300):
    r = subprocess.run(args, cwd=cwd, capture_output=True, text=True, timeout=timeout)
    return r.returncode, r.stdout + r.stderr


def ensure_lean_built(targets=('BVM', 'drv')):
    """(Re)builds the Lean library and driver; returns (ok, log)."""
    r = subprocess.run(['lake', 'build', *targets], cwd=LEAN_DIR, capture_output=True, text=True)
    return r.returncode == 0, r.stdout + r.stderr


def drv_run(lines, timeout=1200):
    """Feeds JSON-able objects (or pre-encoded strings) to the Lean driver; returns output lines."""
    data = '\n'.join(l if isinstance(l, str) else json.dumps(l) for l in lines) + '\n'
    r = subprocess.run([DRV], input=data, capture_output=True, text=True, timeout=timeout)
    if r.returncode != 0:
        raise RuntimeError('lean driver failed: ' + r.stderr[:2000])
    out = r.stdout.split('\n')
    if out and out[-1] == '':
        out.pop()
    return out


class Timer:
    def __init__(self):
        self.t0 = time.time()

    def s(self):
        return round(time.time() - self.t0, 2)
