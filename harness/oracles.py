"""Property oracles evaluated on the implementation's own output: decoding of delivered packets
with the independent CTF reader driven by the *real* generated metadata, and comparison with what
the harness asked the tracer to record."""
from . import tsdl


def reduce_leaf(sc, leaf):
    """the value a metadata-driven reader must return for a traced argument"""
    if sc['k'] == 'str':
        return bytes.fromhex(leaf['s'])
    v = int(leaf)
    if sc['k'] == 'real':
        return v & ((1 << sc['sz']) - 1)
    v &= (1 << sc['sz']) - 1
    if sc['s'] and (v >> (sc['sz'] - 1)) & 1:
        v -= 1 << sc['sz']
    return v


def shape(e, leaves, pos):
    """rebuilds the nested value of element type e from the flat leaf list"""
    if e['k'] == 'sarr':
        out = []
        for _ in range(e['n']):
            v, pos = shape(e['e'], leaves, pos)
            out.append(v)
        return out, pos
    return reduce_leaf(e, leaves[pos]), pos + 1


def expected_struct(members, pfx, args, skip=()):
    out = {}
    for m in members:
        n, ft = m['n'], m['ft']
        if n in skip:
            continue
        leaves = args.get(f'{pfx}_{n}', [])
        if ft['k'] == 'darr':
            cnt = int(args[f'{pfx}_{ft["ln"]}'][0]) & 0xffffffff
            vals, pos = [], 0
            for _ in range(cnt):
                v, pos = shape(ft['e'], leaves, pos)
                vals.append(v)
            out[n] = vals
        else:
            out[n], _ = shape(ft, leaves, 0)
    return out


def expected_record(d, e, args):
    """expected decoded user fields of one record: (stream ctx, ctx, fields)"""
    return (expected_struct(d['ercc']['m'], 'cc', args) if d['ercc'] else {},
            expected_struct(e['sc']['m'], 'sc', args) if e['sc'] else {},
            expected_struct(e['p']['m'], 'p', args) if e['p'] else {})


def delivered_packets(lines):
    """[(bytes, really closed (was open before, not open after), index in lines)] for every `dl` line"""
    out = []
    for i, l in enumerate(lines):
        if l.startswith('dl '):
            parts = l.split()
            closed = 'o=1' in parts[-2:] and 'n=0' in parts[-2:]
            out.append((bytes.fromhex(parts[1]) if len(parts) > 3 else b'', closed, i))
    return out


def decode_all(md, lines, stream_name_id=None):
    """decodes every packet delivered while it was open; returns (packets, errors)"""
    pkts, errs = [], []
    stream = None
    if len(md['streams']) > 1 and stream_name_id is not None:
        stream = [s for s in md['streams'] if s.get('id') == stream_name_id][0]
    for data, was_open, idx in delivered_packets(lines):
        if not was_open:
            continue
        try:
            pkts.append((idx, tsdl.read_packet(md, data, stream)))
        except tsdl.TsdlError as ex:
            errs.append(f'packet delivered at log line {idx} does not decode: {ex}')
    return pkts, errs
