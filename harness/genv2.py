"""Abstract trace configurations expressible in the barectf 2 dialect, and two *independent*
renderers: `render2` (a barectf 2 document) and `render3` (the barectf 3 document expressing the
same trace, derived by hand from the documentation of both dialects, not from config_parse_v2).
Plus decorations of a barectf 2 document with aliases, inheritance and inclusions."""
import copy

BASES = ['bin', 'oct', 'dec', 'hex']


def gen_int(rnd, signed=None, sizes=None):
    signed = (rnd.random() < 0.4) if signed is None else signed
    size = rnd.choice(sizes) if sizes else rnd.choice([8, 16, 32, 64, 8, 16, 32, 64, 1, 3, 7, 12, 24, 33, 63])
    ft = {'k': 'int', 'size': size, 'signed': signed}
    if rnd.random() < 0.7:
        ft['align'] = rnd.choice([1, 2, 4, 8, 16, 32, 64])
    if rnd.random() < 0.3:
        ft['base'] = rnd.choice(BASES)
    return ft


def gen_enum(rnd):
    vt = gen_int(rnd, sizes=[8, 16, 32, 64])
    lo = -(1 << (vt['size'] - 1)) if vt['signed'] else 0
    hi = (1 << (vt['size'] - 1)) - 1 if vt['signed'] else (1 << vt['size']) - 1
    members = []
    cur = 0
    labels = ['A', 'B', 'C', 'D', 'A']          # repeated labels accumulate ranges
    for i in range(rnd.randint(1, 5)):
        lb = rnd.choice(labels)
        r = rnd.random()
        if r < 0.4 and lo <= cur <= hi:
            members.append({'label': lb})            # implicit value
            cur += 1
        elif r < 0.7:
            v = rnd.randint(max(lo, cur), min(hi, max(lo, cur) + 20))
            members.append({'label': lb, 'value': v})
            cur = v + 1
        else:
            a = rnd.randint(max(lo, cur), min(hi, max(lo, cur) + 20))
            b = rnd.randint(a, min(hi, a + 9))
            members.append({'label': lb, 'range': [a, b]})
            cur = b + 1
    return {'k': 'enum', 'vt': vt, 'members': members}


def gen_float(rnd):
    ft = {'k': 'float', 'size': rnd.choice([32, 64])}
    if rnd.random() < 0.7:
        ft['align'] = rnd.choice([8, 16, 32, 64]) if rnd.random() < 0.8 else rnd.choice([1, 2, 4])
    return ft


def gen_scalar(rnd):
    r = rnd.random()
    if r < 0.5:
        return gen_int(rnd)
    if r < 0.65:
        return gen_enum(rnd)
    if r < 0.8:
        return gen_float(rnd)
    return {'k': 'str'}


def gen_elem(rnd, depth=0):
    if depth < 2 and rnd.random() < 0.25:
        return {'k': 'array', 'length': rnd.choice([0, 1, 2, 3]), 'elem': gen_elem(rnd, depth + 1)}
    return gen_scalar(rnd)


def gen_field(rnd):
    if rnd.random() < 0.15:
        return {'k': 'array', 'length': 'dynamic', 'elem': gen_elem(rnd, 1)}
    return gen_elem(rnd)


def gen_struct(rnd, pfx, nmin=0, nmax=4):
    s = {'k': 'struct', 'fields': [(f'{pfx}{i}', gen_field(rnd)) for i in range(rnd.randint(nmin, nmax))]}
    if rnd.random() < 0.3:
        s['min-align'] = rnd.choice([1, 8, 16, 32])
    return s


def gen_uint(rnd, minsize=1, clock=None):
    size = rnd.choice([s for s in [8, 16, 32, 64, 12, 24, 40] if s >= minsize])
    ft = {'k': 'int', 'size': size, 'signed': False}
    if rnd.random() < 0.7:
        ft['align'] = rnd.choice([1, 8, 16, 32, 64])
    if clock:
        ft['clock'] = clock
    return ft


def gen_abs(rnd):
    """abstract configuration"""
    a = {'bo': rnd.choice(['le', 'be'])}
    if rnd.random() < 0.5:
        a['uuid'] = '%08x-%04x-%04x-%04x-%012x' % (rnd.getrandbits(32), rnd.getrandbits(16), rnd.getrandbits(16),
                                                    rnd.getrandbits(16), rnd.getrandbits(48))
    a['prefix'] = rnd.choice([None, 'barectf_', 'my_', 'abc', 'T_x__'])
    a['options'] = rnd.choice([None, {}, {'gen-prefix-def': True}, {'gen-prefix-def': False, 'gen-default-stream-def': True}])
    a['log-levels'] = rnd.choice([None, {'WARN': 4, 'DBG': 14, 'EMERG': 0}])
    a['env'] = rnd.choice([None, {'a': 1, 'b': 'text', 'neg': -3}])
    clocks = {}
    for i in range(rnd.choice([0, 1, 1, 2])):
        ck = {}
        if rnd.random() < 0.6:
            ck['freq'] = rnd.choice([1, 1000, 10 ** 9])
        if rnd.random() < 0.3:
            ck['description'] = rnd.choice(['a clock', 'with "quotes"'])
        if rnd.random() < 0.3:
            ck['error-cycles'] = rnd.choice([0, 5])
        if rnd.random() < 0.3:
            ck['offset'] = {'seconds': rnd.choice([0, 1600000000]), 'cycles': rnd.choice([0, 99])}
        if rnd.random() < 0.4:
            ck['absolute'] = rnd.random() < 0.5
        if rnd.random() < 0.6:
            ck['ctype'] = rnd.choice(['uint8_t', 'uint16_t', 'uint32_t', 'uint64_t', 'unsigned long'])
            ck['ctype_key'] = rnd.choice(['$return-ctype', 'return-ctype'])
        clocks[f'clk{i}'] = ck
    a['clocks'] = clocks
    nst = rnd.choice([1, 1, 2, 3])
    names = rnd.sample(['alpha', 'beta', 'gamma', 'Zeta', 'x1'], nst)
    # packet header
    ph = {}
    r = rnd.random()
    if r < 0.7:
        ph['magic'] = {'k': 'int', 'size': 32, 'signed': False, 'align': rnd.choice([8, 16, 32])}
    if 'uuid' in a and rnd.random() < 0.7:
        ph['uuid'] = 8         # alignment of the uint8 elements (barectf 3 only accepts 8)
    if nst > 1 or rnd.random() < 0.6:
        ph['stream_id'] = gen_uint(rnd, 8)
    a['ph'] = ph if (ph or rnd.random() < 0.5) else None
    streams = {}
    default = None
    for n in names:
        st = {}
        clk = rnd.choice(list(clocks)) if clocks and rnd.random() < 0.7 else None
        st['clock'] = clk
        st['packet_size'] = gen_uint(rnd, 32)
        st['content_size'] = gen_uint(rnd, 32)
        st['content_size']['size'] = min(st['content_size']['size'], st['packet_size']['size'])
        if clk and rnd.random() < 0.7:
            st['timestamp_begin'] = gen_uint(rnd, 8, clk)
            st['timestamp_end'] = gen_uint(rnd, 8, clk)
        if rnd.random() < 0.6:
            st['events_discarded'] = gen_uint(rnd, 8)
        if rnd.random() < 0.3:
            st['packet_seq_num'] = gen_uint(rnd, 8)
        st['extra'] = [(f'x{i}', gen_field(rnd)) for i in range(rnd.choice([0, 0, 1, 2]))]
        nev = rnd.choice([1, 1, 2, 3])
        eh = {}
        if nev > 1 or rnd.random() < 0.6:
            eh['id'] = gen_uint(rnd, 8)
        if clk and rnd.random() < 0.7:
            eh['timestamp'] = gen_uint(rnd, 8, clk)
        st['eh'] = eh if (eh or rnd.random() < 0.4) else None
        st['ecc'] = gen_struct(rnd, 'c', 0, 2) if rnd.random() < 0.4 else None
        evs = {}
        for en in rnd.sample(['ev', 'Beta', 'a', 'zz', 'ev_2'], nev):
            e = {}
            if rnd.random() < 0.4:
                e['log-level'] = rnd.choice([0, 3, 14] + (['WARN', 'EMERG', 'EMERG'] if a['log-levels'] else []))
            e['ctx'] = gen_struct(rnd, 's', 0, 2) if rnd.random() < 0.35 else None
            e['payload'] = gen_struct(rnd, 'p', 1 if e['ctx'] is None or not e['ctx']['fields'] else 0, 4)
            evs[en] = e
        st['events'] = evs
        streams[n] = st
    a['streams'] = streams
    r = rnd.random()
    if r < 0.3:
        a['default'] = ('meta', rnd.choice(names))
    elif r < 0.6:
        a['default'] = ('stream', rnd.choice(names))
    else:
        a['default'] = None
    return a


# ---- barectf 2 rendering -------------------------------------------------------------------------

def ft2(ft, bo_spell=None):
    k = ft['k']
    if k == 'int':
        o = {'class': 'int', 'size': ft['size']}
        if ft['signed'] or ft.get('say_signed'):
            o['signed'] = ft['signed']
        if 'align' in ft:
            o['align'] = ft['align']
        if 'base' in ft:
            o['base'] = ft['base']
        if 'clock' in ft:
            o['property-mappings'] = [{'type': 'clock', 'name': ft['clock'], 'property': 'value'}]
        return o
    if k == 'enum':
        ms = []
        for m in ft['members']:
            if 'value' in m:
                ms.append({'label': m['label'], 'value': m['value']})
            elif 'range' in m:
                ms.append({'label': m['label'], 'value': list(m['range'])})
            else:
                ms.append(m['label'])
        return {'class': 'enum', 'value-type': ft2(ft['vt']), 'members': ms}
    if k == 'float':
        o = {'class': 'float', 'size': {'exp': 8, 'mant': 24} if ft['size'] == 32 else {'exp': 11, 'mant': 53}}
        if 'align' in ft:
            o['align'] = ft['align']
        return o
    if k == 'str':
        return {'class': 'string'}
    if k == 'array':
        return {'class': 'array', 'length': ft['length'], 'element-type': ft2(ft['elem'])}
    if k == 'struct':
        o = {'class': 'struct'}
        if 'min-align' in ft:
            o['min-align'] = ft['min-align']
        o['fields'] = {n: ft2(f) for n, f in ft['fields']}
        return o
    raise ValueError(k)


def render2(a):
    meta = {}
    if a['log-levels'] is not None:
        meta['$log-levels'] = dict(a['log-levels'])
    if a['env'] is not None:
        meta['env'] = dict(a['env'])
    tr = {'byte-order': a['bo']}
    if 'uuid' in a:
        tr['uuid'] = a['uuid']
    if a['ph'] is not None:
        f = {}
        if 'magic' in a['ph']:
            f['magic'] = ft2(a['ph']['magic'])
        if 'uuid' in a['ph']:
            f['uuid'] = {'class': 'array', 'length': 16,
                         'element-type': {'class': 'int', 'size': 8, 'align': a['ph']['uuid']}}
        if 'stream_id' in a['ph']:
            f['stream_id'] = ft2(a['ph']['stream_id'])
        tr['packet-header-type'] = {'class': 'struct', 'fields': f}
    meta['trace'] = tr
    if a['clocks']:
        cks = {}
        for n, ck in a['clocks'].items():
            o = {}
            for k in ('freq', 'description', 'error-cycles', 'offset', 'absolute'):
                if k in ck:
                    o[k] = copy.deepcopy(ck[k])
            if 'ctype' in ck:
                o[ck['ctype_key']] = ck['ctype']
            cks[n] = o
        meta['clocks'] = cks
    if a['default'] and a['default'][0] == 'meta':
        meta['$default-stream'] = a['default'][1]
    sts = {}
    for n, st in a['streams'].items():
        o = {}
        if a['default'] and a['default'] == ('stream', n):
            o['$default'] = True
        pc = {}
        # reserved members may appear in any order among the user's members
        for key in ('timestamp_begin', 'timestamp_end', 'packet_size', 'content_size', 'events_discarded', 'packet_seq_num'):
            if key in st:
                pc[key] = ft2(st[key])
        for xn, xf in st['extra']:
            pc[xn] = ft2(xf)
        o['packet-context-type'] = {'class': 'struct', 'fields': pc}
        if st['eh'] is not None:
            o['event-header-type'] = {'class': 'struct', 'fields': {k: ft2(v) for k, v in st['eh'].items()}}
        if st['ecc'] is not None:
            o['event-context-type'] = ft2(st['ecc'])
        evs = {}
        for en, e in st['events'].items():
            eo = {}
            if 'log-level' in e:
                eo['log-level'] = e['log-level']
            if e['ctx'] is not None:
                eo['context-type'] = ft2(e['ctx'])
            if e['payload'] is not None:
                eo['payload-type'] = ft2(e['payload'])
            evs[en] = eo
        o['events'] = evs
        sts[n] = o
    meta['streams'] = sts
    doc = {'version': '2.2'}
    if a['prefix'] is not None:
        doc['prefix'] = a['prefix']
    if a['options'] is not None:
        doc['options'] = dict(a['options'])
    doc['metadata'] = meta
    return doc


# ---- barectf 3 rendering (hand-derived equivalent) --------------------------------------------------

def ft3(ft):
    k = ft['k']
    if k == 'int':
        o = {'class': 'sint' if ft['signed'] else 'uint', 'size': ft['size']}
        if 'align' in ft:
            o['alignment'] = ft['align']
        if 'base' in ft:
            o['preferred-display-base'] = ft['base']
        return o
    if k == 'enum':
        o = ft3(ft['vt'])
        o['class'] = 'senum' if ft['vt']['signed'] else 'uenum'
        # barectf 2: a label without a value takes the value after the previous member's (first: 0)
        maps = {}
        cur = 0
        for m in ft['members']:
            if 'value' in m:
                v = m['value']
                cur = v + 1
            elif 'range' in m:
                v = list(m['range'])
                cur = m['range'][1] + 1
            else:
                v = cur
                cur += 1
            maps.setdefault(m['label'], []).append(v)
        o['mappings'] = maps
        return o
    if k == 'float':
        o = {'class': 'real', 'size': ft['size']}
        if 'align' in ft:
            o['alignment'] = ft['align']
        return o
    if k == 'str':
        return {'class': 'string'}
    if k == 'array':
        if ft['length'] == 'dynamic':
            return {'class': 'dynamic-array', 'element-field-type': ft3(ft['elem'])}
        return {'class': 'static-array', 'length': ft['length'], 'element-field-type': ft3(ft['elem'])}
    if k == 'struct':
        o = {'class': 'struct'}
        if 'min-align' in ft:
            o['minimum-alignment'] = ft['min-align']
        o['members'] = [{n: {'field-type': ft3(f)}} for n, f in ft['fields']]
        return o
    raise ValueError(k)


def rstrip_us(s):
    while s.endswith('_'):
        s = s[:-1]
    return s


def render3(a):
    tt = {'trace-byte-order': a['bo']}
    if 'uuid' in a:
        tt['uuid'] = a['uuid']
    if a['log-levels'] is not None:
        tt['$log-level-aliases'] = dict(a['log-levels'])
    if a['clocks']:
        cks = {}
        for n, ck in a['clocks'].items():
            o = {}
            if 'freq' in ck:
                o['frequency'] = ck['freq']
            if 'description' in ck:
                o['description'] = ck['description']
            if 'error-cycles' in ck:
                o['precision'] = ck['error-cycles']
            if 'offset' in ck:
                o['offset'] = dict(ck['offset'])
            if 'absolute' in ck:
                o['origin-is-unix-epoch'] = ck['absolute']
            if 'ctype' in ck:
                o['$c-type'] = ck['ctype']
            cks[n] = o
        tt['clock-types'] = cks
    ph = a['ph'] or {}
    feats = {'magic-field-type': ft3(ph['magic']) if 'magic' in ph else False}
    if 'uuid' in ph:
        feats['uuid-field-type'] = {'class': 'static-array', 'length': 16,
                                    'element-field-type': {'class': 'uint', 'size': 8, 'alignment': ph['uuid']}}
    else:
        feats['uuid-field-type'] = False
    feats['data-stream-type-id-field-type'] = ft3(ph['stream_id']) if 'stream_id' in ph else False
    tt['$features'] = feats
    dsts = {}
    for n, st in a['streams'].items():
        d = {}
        if a['default'] and a['default'][1] == n:
            d['$is-default'] = True
        if st['clock'] and ('timestamp_begin' in st or (st['eh'] and 'timestamp' in st['eh'])):
            d['$default-clock-type-name'] = st['clock']
        pkt = {'total-size-field-type': ft3(st['packet_size']), 'content-size-field-type': ft3(st['content_size'])}
        for key, fk in (('timestamp_begin', 'beginning-timestamp-field-type'), ('timestamp_end', 'end-timestamp-field-type'),
                        ('events_discarded', 'discarded-event-records-counter-snapshot-field-type'),
                        ('packet_seq_num', 'sequence-number-field-type')):
            pkt[fk] = ft3(st[key]) if key in st else False
        eh = st['eh'] or {}
        er = {'type-id-field-type': ft3(eh['id']) if 'id' in eh else False,
              'timestamp-field-type': ft3(eh['timestamp']) if 'timestamp' in eh else False}
        d['$features'] = {'packet': pkt, 'event-record': er}
        if st['extra']:
            d['packet-context-field-type-extra-members'] = [{xn: {'field-type': ft3(xf)}} for xn, xf in st['extra']]
        if st['ecc'] is not None:
            d['event-record-common-context-field-type'] = ft3(st['ecc'])
        evs = {}
        for en, e in st['events'].items():
            eo = {}
            if 'log-level' in e:
                eo['log-level'] = e['log-level']
            if e['ctx'] is not None:
                eo['specific-context-field-type'] = ft3(e['ctx'])
            if e['payload'] is not None:
                eo['payload-field-type'] = ft3(e['payload'])
            evs[en] = eo
        d['event-record-types'] = evs
        dsts[n] = d
    tt['data-stream-types'] = dsts
    trace = {'type': tt}
    if a['env'] is not None:
        trace['environment'] = dict(a['env'])
    pfx = a['prefix'] if a['prefix'] is not None else 'barectf_'
    cg = {'prefix': {'identifier': pfx, 'file-name': rstrip_us(pfx)}}
    if a['options'] is not None:
        h = {}
        if 'gen-prefix-def' in a['options']:
            h['identifier-prefix-definition'] = a['options']['gen-prefix-def']
        if 'gen-default-stream-def' in a['options']:
            h['default-data-stream-type-name-definition'] = a['options']['gen-default-stream-def']
        cg['header'] = h
    return {'options': {'code-generation': cg}, 'trace': trace}


# ---- decorations of a barectf 2 document: aliases, inheritance, inclusions ------------------------------

class Decorate2:
    def __init__(self, rnd, doc, ndirs=2):
        self.rnd, self.doc = rnd, copy.deepcopy(doc)
        self.aliases = {}
        self.dirs = [dict() for _ in range(ndirs)]
        self.nfile = 0
        self.stats = {'aliases': 0, 'inherits': 0, 'files': 0, 'std_includes': 0}

    def alias(self, node):
        n = f'T{len(self.aliases)}'
        self.aliases[n] = node
        self.stats['aliases'] += 1
        if self.rnd.random() < 0.3:
            n2 = f'L{len(self.aliases)}'
            self.aliases[n2] = n
            return n2
        return n

    def ft(self, node, depth=0):
        rnd = self.rnd
        node = dict(node)
        if 'element-type' in node:
            node['element-type'] = self.ft(node['element-type'], depth + 1)
        if 'value-type' in node and rnd.random() < 0.3:
            node['value-type'] = self.alias(node['value-type'])
        if 'fields' in node:
            node['fields'] = {k: self.ft(v, depth + 1) for k, v in node['fields'].items()}
        if rnd.random() < 0.3 and node.get('class') in ('int', 'float', 'struct', 'string'):
            base, ov = {}, {}
            for k, v in node.items():
                if k == 'class':
                    base[k] = v
                elif k == 'fields':
                    ks = list(v)
                    cut = rnd.randint(0, len(ks))
                    base[k] = {x: v[x] for x in ks[:cut]}
                    ov[k] = {x: v[x] for x in ks[cut:]}
                elif rnd.random() < 0.5:
                    base[k] = v
                else:
                    ov[k] = v
                    if k in ('align', 'min-align'):
                        base[k] = rnd.choice([8, 16])
            bn = self.alias(base)
            key = rnd.choice(['$inherit', 'inherit'])
            node = dict([(key, bn)] + list(ov.items()))
            self.stats['inherits'] += 1
            return node
        if rnd.random() < 0.3:
            return self.alias(node)
        return node

    def new_file(self, tree):
        name = f'v2inc{self.nfile}.yaml'
        self.nfile += 1
        self.rnd.choice(self.dirs)[name] = tree
        self.stats['files'] += 1
        return name

    def split(self, node):
        """(base, overlay) whose patch is `node` again, key order included: a prefix of the keys goes to the
        base file (some restated or split further in the overlay), the rest to the overlay; sequences and
        alias tables go to one side whole (sequences would append)"""
        rnd = self.rnd
        base, ov = {}, {}
        keys = list(node)
        cut = rnd.randint(0, len(keys))
        for i, k in enumerate(keys):
            v = node[k]
            if i >= cut or k == '$include':
                ov[k] = v
                continue
            r = rnd.random()
            if isinstance(v, list) or k == 'type-aliases' or r < 0.5:
                base[k] = v
            elif isinstance(v, dict) and v:
                base[k], ov[k] = self.split(v)
            elif isinstance(v, dict):
                base[k] = v
            else:
                base[k], ov[k] = self.other_scalar(v), v
        return base, ov

    def other_scalar(self, v):
        if isinstance(v, bool) or v is None:
            return v
        if isinstance(v, int):
            return v + self.rnd.choice([0, 1])
        return v

    def includable(self, node, children, p=0.4):
        node = dict(node)
        for key, how, ck in children:
            if key in node and isinstance(node[key], dict):
                if how == 'single':
                    node[key] = self.includable(node[key], ck)
                else:
                    node[key] = {n: self.includable(c, ck) for n, c in node[key].items()}
        if self.rnd.random() < p:
            b, o = self.split(node)
            f = self.new_file(b)
            return dict([('$include', [f] if self.rnd.random() < 0.5 else f)] + list(o.items()))
        return node

    def run(self):
        rnd = self.rnd
        meta = self.doc['metadata']
        tr = meta['trace']
        if 'packet-header-type' in tr and rnd.random() < 0.5:
            tr['packet-header-type'] = self.ft(tr['packet-header-type'])
        for st in meta['streams'].values():
            for k in ('event-context-type',):
                if k in st:
                    st[k] = self.ft(st[k])
            # reserved packet context / event header members stay in place; their types may be aliases
            pct = st['packet-context-type']
            pct['fields'] = {k: (self.alias(v) if rnd.random() < 0.25 else v) for k, v in pct['fields'].items()}
            if rnd.random() < 0.2:
                st['packet-context-type'] = self.alias(pct)
            for e in st['events'].values():
                for k in ('context-type', 'payload-type'):
                    if k in e:
                        e[k] = self.ft(e[k])
        if self.aliases or rnd.random() < 0.3:
            items = list(self.aliases.items())
            rnd.shuffle(items)
            meta['type-aliases'] = dict(items)
        ert = []
        dst = [('events', 'each', ert)]
        metac = [('trace', 'single', []), ('clocks', 'each', []), ('streams', 'each', dst)]
        self.doc['metadata'] = self.includable(meta, metac)
        return self.doc, self.dirs, self.stats
