"""An independent, strict TSDL (CTF 1.8) parser for the subset barectf emits, and a CTF reader
that decodes packets using only what the parsed metadata says.

"Strict": anything outside the forms below is a parse error (unknown block, unknown attribute,
raw newline inside a string literal, missing ';' …), so that "the metadata parses" is a real
statement about the emitted text.  The reader computes structure alignment itself (CTF: maximum
of the `align(N)` and of the members' alignments; arrays → element, strings → 8) and resolves
dynamic array lengths by name in the enclosing structure."""
import re


class TsdlError(Exception):
    pass


_TOKEN = re.compile(r'''
    (?P<ws>[ \t\r\n]+)
  | (?P<comment>/\*.*?\*/)
  | (?P<str>"(?:[^"\\\n]|\\.)*")
  | (?P<badstr>")
  | (?P<int>-?(?:0x[0-9a-fA-F]+|[0-9]+))
  | (?P<id>[A-Za-z_][A-Za-z0-9_]*)
  | (?P<op>:=|\.\.\.|[{};=:,\[\]().])
''', re.X | re.S)


def tokenize(text):
    pos = 0
    out = []
    while pos < len(text):
        m = _TOKEN.match(text, pos)
        if not m:
            raise TsdlError(f'bad character at {pos}: {text[pos:pos + 20]!r}')
        k = m.lastgroup
        if k == 'badstr':
            raise TsdlError(f'unterminated or multi-line string literal at {pos}: {text[pos:pos + 30]!r}')
        if k not in ('ws', 'comment'):
            out.append((k, m.group(k)))
        pos = m.end()
    return out


def unescape(s):
    body = s[1:-1]
    out = []
    i = 0
    while i < len(body):
        c = body[i]
        if c == '\\':
            n = body[i + 1]
            if n not in '"\\ntr\'?abfv0':
                raise TsdlError(f'unknown escape \\{n}')
            out.append({'n': '\n', 't': '\t', 'r': '\r', '0': '\0', 'a': '\a', 'b': '\b', 'f': '\f', 'v': '\v'}.get(n, n))
            i += 2
        else:
            out.append(c)
            i += 1
    return ''.join(out)


class Parser:
    def __init__(self, text):
        self.toks = tokenize(text)
        self.i = 0

    def peek(self):
        return self.toks[self.i] if self.i < len(self.toks) else ('eof', '')

    def next(self):
        t = self.peek()
        self.i += 1
        return t

    def expect(self, val):
        t = self.next()
        if t[1] != val:
            raise TsdlError(f'expected {val!r}, got {t[1]!r} (token {self.i})')

    def ident(self):
        t = self.next()
        if t[0] != 'id':
            raise TsdlError(f'expected identifier, got {t[1]!r}')
        return t[1]

    def integer(self):
        t = self.next()
        if t[0] != 'int':
            raise TsdlError(f'expected integer, got {t[1]!r}')
        return int(t[1], 0)

    # ---- types ----
    def attrs(self, allowed):
        """{ name = value; ... } with only allowed names, each at most once"""
        self.expect('{')
        out = {}
        while self.peek()[1] != '}':
            n = self.ident()
            if n not in allowed or n in out:
                raise TsdlError(f'unexpected or duplicate attribute {n!r}')
            self.expect('=')
            if n == 'map':
                self.expect('clock')
                self.expect('.')
                c = self.ident()
                self.expect('.')
                self.expect('value')
                out[n] = c
            else:
                t = self.next()
                if t[0] == 'int':
                    out[n] = int(t[1], 0)
                elif t[0] == 'id':
                    out[n] = t[1]
                else:
                    raise TsdlError(f'bad attribute value {t[1]!r}')
            self.expect(';')
        self.expect('}')
        return out

    def int_type(self):
        a = self.attrs({'signed', 'size', 'align', 'byte_order', 'base', 'map', 'encoding'})
        for req in ('signed', 'size', 'align'):
            if req not in a:
                raise TsdlError(f'integer without {req}')
        if a['signed'] not in ('true', 'false') or a.get('byte_order', 'native') not in ('native', 'le', 'be'):
            raise TsdlError('bad integer attribute')
        return {'t': 'int', 'signed': a['signed'] == 'true', 'size': a['size'], 'align': a['align'],
                'base': a.get('base', 10), 'map': a.get('map'), 'bo': a.get('byte_order', 'native')}

    def type(self):
        k = self.ident()
        if k == 'integer':
            return self.int_type()
        if k == 'floating_point':
            a = self.attrs({'mant_dig', 'exp_dig', 'align', 'byte_order'})
            if (a.get('mant_dig'), a.get('exp_dig')) not in ((24, 8), (53, 11)) or 'align' not in a:
                raise TsdlError('bad floating_point')
            return {'t': 'float', 'mant': a['mant_dig'], 'exp': a['exp_dig'], 'align': a['align'],
                    'size': a['mant_dig'] + a['exp_dig']}
        if k == 'string':
            a = self.attrs({'encoding'})
            return {'t': 'str', 'encoding': a.get('encoding', 'UTF8')}
        if k == 'enum':
            self.expect(':')
            self.expect('integer')
            it = self.int_type()
            self.expect('{')
            maps = []
            while self.peek()[1] != '}':
                t = self.next()
                if t[0] != 'str':
                    raise TsdlError(f'enum label must be a string literal, got {t[1]!r}')
                label = unescape(t[1])
                self.expect('=')
                lo = self.integer()
                hi = lo
                if self.peek()[1] == '...':
                    self.next()
                    hi = self.integer()
                maps.append((label, lo, hi))
                self.expect(',')
            self.expect('}')
            return {'t': 'enum', 'int': it, 'maps': maps}
        if k == 'struct':
            self.expect('{')
            members = []
            while self.peek()[1] != '}':
                ty = self.type()
                name = self.ident()
                lens = []
                while self.peek()[1] == '[':
                    self.next()
                    t = self.next()
                    if t[0] == 'int':
                        lens.append(int(t[1], 0))
                    elif t[0] == 'id':
                        lens.append(t[1])
                    else:
                        raise TsdlError(f'bad array length {t[1]!r}')
                    self.expect(']')
                self.expect(';')
                if any(m[0] == name for m in members):
                    raise TsdlError(f'duplicate member {name}')
                members.append((name, ty, lens))
            self.expect('}')
            self.expect('align')
            self.expect('(')
            al = self.integer()
            self.expect(')')
            return {'t': 'struct', 'align': al, 'members': members}
        raise TsdlError(f'unknown type {k!r}')

    # ---- blocks ----
    def block(self, scalars, types):
        """{ (name = value; | dotted.name := type;)* };"""
        self.expect('{')
        out = {}
        order = []
        while self.peek()[1] != '}':
            name = self.ident()
            while self.peek()[1] == '.':
                self.next()
                name += '.' + self.ident()
            if name in out:
                raise TsdlError(f'duplicate entry {name}')
            t = self.next()
            if t[1] == ':=':
                if name not in types:
                    raise TsdlError(f'unexpected type entry {name}')
                out[name] = self.type()
            elif t[1] == '=':
                if scalars is not None and name not in scalars:
                    raise TsdlError(f'unexpected attribute {name}')
                v = self.next()
                if v[0] == 'int':
                    out[name] = int(v[1], 0)
                elif v[0] == 'str':
                    out[name] = unescape(v[1])
                elif v[0] == 'id':
                    out[name] = ('id', v[1])
                else:
                    raise TsdlError(f'bad value {v[1]!r}')
            else:
                raise TsdlError(f'expected = or :=, got {t[1]!r}')
            order.append(name)
            self.expect(';')
        self.expect('}')
        self.expect(';')
        out['__order'] = order
        return out

    def metadata(self):
        md = {'trace': None, 'env': None, 'clocks': [], 'streams': [], 'events': []}
        while self.peek()[0] != 'eof':
            k = self.ident()
            if k == 'trace':
                if md['trace'] is not None:
                    raise TsdlError('two trace blocks')
                md['trace'] = self.block({'major', 'minor', 'byte_order', 'uuid'}, {'packet.header'})
            elif k == 'env':
                md['env'] = self.block(None, set())
            elif k == 'clock':
                md['clocks'].append(self.block({'name', 'description', 'uuid', 'freq', 'precision', 'offset_s',
                                                'offset', 'absolute'}, set()))
            elif k == 'stream':
                md['streams'].append(self.block({'id'}, {'packet.context', 'event.header', 'event.context'}))
            elif k == 'event':
                md['events'].append(self.block({'stream_id', 'id', 'name', 'loglevel'}, {'context', 'fields'}))
            else:
                raise TsdlError(f'unknown block {k!r}')
        if md['trace'] is None:
            raise TsdlError('no trace block')
        return md


def parse(text):
    if not text.startswith('/* CTF 1.8'):
        raise TsdlError('metadata does not start with /* CTF 1.8')
    return Parser(text).metadata()


# ------------------------------------------------------------------------------------------
# CTF reader


def type_align(ty):
    if ty['t'] in ('int', 'float'):
        return ty['align']
    if ty['t'] == 'enum':
        return ty['int']['align']
    if ty['t'] == 'str':
        return 8
    if ty['t'] == 'struct':
        a = ty['align']
        for _, mt, _ in ty['members']:
            a = max(a, type_align(mt))
        return a
    raise TsdlError('type_align')


class Reader:
    def __init__(self, data, bo):
        self.data = data
        self.bo = bo
        self.at = 0
        self.limit = 8 * len(data)

    def align(self, a):
        self.at = (self.at + a - 1) // a * a

    def bits(self, n, signed):
        if self.at + n > self.limit:
            raise TsdlError(f'read past the end: at={self.at} n={n} limit={self.limit}')
        v = 0
        for j in range(n):
            i = self.at + j
            byte = self.data[i // 8]
            if self.bo == 'le':
                bit = (byte >> (i % 8)) & 1
                v |= bit << j
            else:
                bit = (byte >> (7 - i % 8)) & 1
                v |= bit << (n - 1 - j)
        self.at += n
        if signed and n and (v >> (n - 1)) & 1:
            v -= 1 << n
        return v

    def scalar(self, ty):
        if ty['t'] == 'int':
            self.align(ty['align'])
            return self.bits(ty['size'], ty['signed'])
        if ty['t'] == 'enum':
            return self.scalar(ty['int'])
        if ty['t'] == 'float':
            self.align(ty['align'])
            return self.bits(ty['size'], False)
        if ty['t'] == 'str':
            self.align(8)
            b = self.at // 8
            e = b
            while True:
                if e >= len(self.data) or 8 * e >= self.limit:
                    raise TsdlError('unterminated string')
                if self.data[e] == 0:
                    break
                e += 1
            self.at = 8 * (e + 1)
            return bytes(self.data[b:e])
        raise TsdlError('scalar')

    def array(self, ty, lens, scope):
        if not lens:
            return self.scalar(ty)
        # CTF 1.8: arrays and sequences are aligned on their element's alignment, even when empty
        self.align(type_align(ty))
        n = lens[0]
        if isinstance(n, str):
            if n not in scope:
                raise TsdlError(f'length field {n} not found')
            n = scope[n]
        return [self.array(ty, lens[1:], scope) for _ in range(n)]

    def struct(self, ty):
        self.align(type_align(ty))
        out = {}
        for name, mt, lens in ty['members']:
            if mt['t'] == 'struct':
                raise TsdlError('nested structure')
            out[name] = self.array(mt, lens, out)
        return out


def read_packet(md, data, stream=None):
    """decodes one packet; returns dict(header, context, events=[(event block, header, stream ctx, ctx, fields,
    start bit, end bit)], content_end)"""
    bo = md['trace']['byte_order'][1]
    r = Reader(data, bo)
    ph = md['trace'].get('packet.header')
    header = r.struct(ph) if ph is not None else {}
    if stream is None:
        if 'stream_id' in header:
            cands = [s for s in md['streams'] if s.get('id') == header['stream_id']]
        else:
            cands = md['streams']
        if len(cands) != 1:
            raise TsdlError('cannot determine the stream of the packet')
        stream = cands[0]
    ctx = r.struct(stream['packet.context'])
    content = ctx.get('content_size', 8 * len(data))
    off_content = r.at
    if content > 8 * len(data):
        raise TsdlError(f'content_size {content} larger than the packet ({8 * len(data)} bits)')
    r.limit = content
    evs = [e for e in md['events'] if e.get('stream_id') == stream.get('id')] if 'id' in stream else md['events']
    events = []
    while r.at < content:
        start = r.at
        eh = r.struct(stream['event.header']) if 'event.header' in stream else {}
        if 'id' in eh:
            cand = [e for e in evs if e['id'] == eh['id']]
        else:
            cand = evs
        if len(cand) != 1:
            raise TsdlError(f'cannot determine the event record type at bit {start} (id field: {eh.get("id")})')
        ev = cand[0]
        sctx = r.struct(stream['event.context']) if 'event.context' in stream else {}
        ectx = r.struct(ev['context']) if 'context' in ev else {}
        fields = r.struct(ev['fields']) if 'fields' in ev else {}
        events.append({'name': ev['name'], 'id': ev['id'], 'header': eh, 'stream_ctx': sctx, 'ctx': ectx,
                       'fields': fields, 'start': start, 'end': r.at})
        if r.at == start:
            break       # zero-size record: a metadata-only reader cannot count these
    if r.at != content:
        raise TsdlError(f'content_size {content} is not the end of the last record ({r.at})')
    return {'header': header, 'context': ctx, 'events': events, 'off_content': off_content, 'content': content,
            'stream': stream}
