"""Proof-obligation side of a check: build the Lean library, re-elaborate the
property file so that `#print axioms` is printed on every run, audit axioms and
forbidden tokens."""
import os
import re
import subprocess
from . import common

ALLOWED_AXIOMS = {'propext', 'Classical.choice', 'Quot.sound'}
FORBIDDEN = [r'\bsorry\b', r'\badmit\b', r'^\s*axiom\s', r'native_decide', r'bv_decide',
             r'implemented_by', r'\bunsafe\s', r'maxHeartbeats\s+0\b']


def _strip_comments(src):
    # remove /- ... -/ (nested not handled beyond one level; fine for our files) and -- comments
    out = []
    i = 0
    depth = 0
    n = len(src)
    while i < n:
        if src.startswith('/-', i):
            depth += 1
            i += 2
        elif depth and src.startswith('-/', i):
            depth -= 1
            i += 2
        elif depth:
            if src[i] == '\n':
                out.append('\n')
            i += 1
        elif src.startswith('--', i):
            while i < n and src[i] != '\n':
                i += 1
        else:
            out.append(src[i])
            i += 1
    return ''.join(out)


def forbidden_tokens():
    hits = []
    for root, _, files in os.walk(os.path.join(common.LEAN_DIR, 'BVM')):
        for f in files:
            if not f.endswith('.lean'):
                continue
            p = os.path.join(root, f)
            src = _strip_comments(open(p).read())
            for ln, line in enumerate(src.split('\n'), 1):
                for pat in FORBIDDEN:
                    if re.search(pat, line):
                        hits.append(f'{os.path.relpath(p, common.LEAN_DIR)}:{ln}: {line.strip()[:100]}')
    return hits


def obligations(prop_id, extra_targets=()):
    """Returns dict(ok, obligations, discharged, theorems={name: [axioms]}, examples, failures=[...], log)."""
    res = dict(ok=False, obligations=0, discharged=0, theorems={}, examples=0, failures=[], log='')
    ok, log = common.ensure_lean_built(('BVM', 'drv') + tuple(extra_targets))
    res['log'] = log[-4000:]
    props_file = os.path.join(common.LEAN_DIR, 'BVM', 'Props', f'{prop_id}.lean')
    src = _strip_comments(open(props_file).read())
    declared = re.findall(r'^\s*theorem\s+([A-Za-z0-9_\.]+)', src, re.M)
    examples = len(re.findall(r'^\s*example\b', src, re.M))
    res['examples'] = examples
    res['obligations'] = len(declared) + examples
    if not ok:
        res['failures'].append('lake build failed: ' + _first_error(log))
        return res
    r = subprocess.run(['lake', 'env', 'lean', props_file], cwd=common.LEAN_DIR,
                       capture_output=True, text=True)
    out = r.stdout + r.stderr
    res['log'] = out[-4000:]
    if r.returncode != 0:
        res['failures'].append('property file does not check: ' + _first_error(out))
        return res
    thms = {}
    for m in re.finditer(r"'([^']+)' depends on axioms: \[([^\]]*)\]", out):
        thms[m.group(1)] = [a.strip() for a in m.group(2).replace('\n', ' ').split(',') if a.strip()]
    for m in re.finditer(r"'([^']+)' does not depend on any axioms", out):
        thms[m.group(1)] = []
    res['theorems'] = thms
    ns_declared = set(declared)
    printed_short = {k.split('.')[-1] for k in thms}
    for d in ns_declared:
        if d.split('.')[-1] not in printed_short:
            res['failures'].append(f'theorem {d} has no #print axioms line')
    bad = {k: v for k, v in thms.items() if not set(v) <= ALLOWED_AXIOMS}
    for k, v in bad.items():
        res['failures'].append(f'theorem {k} depends on non-standard axioms {v}')
    hits = forbidden_tokens()
    for h in hits:
        res['failures'].append('forbidden token: ' + h)
    if not res['failures']:
        res['discharged'] = res['obligations']
        res['ok'] = True
    else:
        good = [d for d in declared if d.split('.')[-1] in printed_short and
                not any(d.split('.')[-1] == k.split('.')[-1] for k in bad)]
        res['discharged'] = len(good)
    return res


def _first_error(log):
    for line in log.split('\n'):
        if 'error' in line:
            return line.strip()[:300]
    return log.strip()[-300:]


def leanchecker(modules):
    r = subprocess.run(['lake', 'env', 'leanchecker', *modules], cwd=common.LEAN_DIR,
                       capture_output=True, text=True)
    return r.returncode == 0, (r.stdout + r.stderr)[-2000:]
