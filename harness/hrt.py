"""H-runtime: scripted-platform history runner for the generated tracer.

For a configuration (real barectf objects + IR) and one data stream type, generates `runner.c`
(which `#include`s the generated barectf.c), compiles it and feeds it history scripts.  Every
history runs in a forked child; the packet buffer sits flush against a PROT_NONE guard page so an
out-of-bounds store is reported as `oob`.  Output lines have the same format as the Lean driver's
`hist` op."""
import json
import os
import subprocess
from . import common, gencfg

# ------------------------------------------------------------------------------------------
# C types (from the documentation, not from the generated header)


def c_int_type(sc):
    w = 8 if sc['sz'] <= 8 else 16 if sc['sz'] <= 16 else 32 if sc['sz'] <= 32 else 64
    return ('' if sc['s'] else 'u') + f'int{w}_t'


def c_scalar_type(sc):
    if sc['k'] == 'int':
        return c_int_type(sc)
    if sc['k'] == 'real':
        return 'float' if sc['sz'] == 32 else 'double'
    return 'const char *'


def c_elem_type(e):
    """storage type of one value of element type e"""
    if e['k'] == 'sarr':
        return c_elem_type(e['e']) + ' *'
    return c_scalar_type(e)


class _Gen:
    def __init__(self):
        self.n = 0
        self.lines = []

    def var(self, p='v'):
        self.n += 1
        return f'{p}{self.n}'

    def emit(self, s, ind=1):
        self.lines.append('\t' * ind + s)


def read_elem(g, e, ind):
    """emits statements that read one value of element type e from the leaf stream; returns the C
    expression holding it"""
    if e['k'] == 'sarr':
        t = c_elem_type(e['e'])
        a = g.var('a')
        i = g.var('i')
        g.emit(f'{t} *{a} = ({t} *) arena_alloc({max(e["n"], 1)} * sizeof({t})); unsigned {i};', ind)
        g.emit(f'for ({i} = 0; {i} < {e["n"]}u; {i}++) {{', ind)
        x = read_elem(g, e['e'], ind + 1)
        g.emit(f'{a}[{i}] = {x};', ind + 1)
        g.emit('}', ind)
        return a
    if e['k'] == 'int':
        return f'({c_int_type(e)}) next_num()'
    if e['k'] == 'real':
        return 'bits2f((uint32_t) next_num())' if e['sz'] == 32 else 'bits2d(next_num())'
    return 'next_str()'


def gen_call(g, fname, first_arg, params):
    """params: list of (member name with prefix, ft IR).  Emits a block that reads all
    parameters in order and calls fname."""
    g.emit('{', 1)
    argv = [first_arg]
    lens = {}
    for pname, ft in params:
        if ft['k'] == 'darr':
            cnt = lens[ft['lnp']]
            t = c_elem_type(ft['e'])
            a = g.var('d')
            i = g.var('i')
            g.emit(f'{t} *{a} = ({t} *) arena_alloc(({cnt} + 1) * sizeof({t})); uint32_t {i};', 2)
            g.emit(f'for ({i} = 0; {i} < {cnt}; {i}++) {{', 2)
            x = read_elem(g, ft['e'], 3)
            g.emit(f'{a}[{i}] = {x};', 3)
            g.emit('}', 2)
            argv.append(f'(const void *) {a}')
        elif ft['k'] == 'sarr':
            x = read_elem(g, ft, 2)
            argv.append(f'(const void *) {x}')
        else:
            v = g.var('s')
            g.emit(f'{c_scalar_type(ft)} {v} = {read_elem(g, ft, 2)};', 2)
            lens[pname] = v
            argv.append(v)
    g.emit(f'{fname}({", ".join(argv)});', 2)
    g.emit('}', 1)


def params_of(members, pfx, skip=()):
    out = []
    for m in members:
        if m['n'] in skip:
            continue
        ft = dict(m['ft'])
        if ft['k'] == 'darr':
            ft['lnp'] = f'{pfx}_{ft["ln"]}'
        out.append((f'{pfx}_{m["n"]}', ft))
    return out


RUNNER_HEAD = r'''
#define _GNU_SOURCE
#include <stdio.h>
#include <stdlib.h>
#include <stdarg.h>
#include <string.h>
#include <signal.h>
#include <unistd.h>
#include <sys/mman.h>
#include <sys/wait.h>
#include <ucontext.h>
#include "%(cfile)s"

/* per-context platform state: two independent instances (C17 runs two contexts interleaved) */
struct plat {
	unsigned char pre_[64];       /* the user data pointer given to barectf_init() (this structure) is NOT the address of the
	                                 context: the tracer must not confuse `ctx->data` with the context */
	struct %(sctx)s sctx_;
	unsigned char guard_[2048];   /* footprint canary: a call on this context must not write past the context structure */
	uint64_t clk_; uint64_t incs_[4096]; unsigned nincs_, iinc_;
	int fulls_[4096]; unsigned nfulls_, ifull_;
	unsigned toggles_[4096][2]; unsigned ntoggles_;
	unsigned setbufs_[1024][2]; unsigned nsetbufs_;
	unsigned cbseq_, closecount_, opencount_;
	char *openargs_[256]; unsigned nopenargs_;
	uint8_t *cur_buf_; size_t cur_size_;
	char *obuf_; size_t on_;
};
static struct plat PL[2]; static struct plat *P = &PL[0];
static int multi;
#define OBUFSZ (1 << 22)
#define obuf (P->obuf_)
#define on (P->on_)
static void oflush1(struct plat *q) { size_t o = 0; while (o < q->on_) { ssize_t r = write(1, q->obuf_ + o, q->on_ - o); if (r <= 0) break; o += (size_t) r; } q->on_ = 0; }
static void oflush(void) { if (multi) { const char m[] = "CTX 0\n", m2[] = "CTX 1\n"; if (write(1, m, 6)) {} oflush1(&PL[0]); if (write(1, m2, 6)) {} oflush1(&PL[1]); } else oflush1(P); }
static void oprintf(const char *fmt, ...) {
	va_list ap; int r;
	if (!obuf) { obuf = (char *) malloc(OBUFSZ); on = 0; }
	if (on > OBUFSZ - 70000) { if (!multi) oflush1(P); else return; }
	va_start(ap, fmt); r = vsnprintf(obuf + on, OBUFSZ - on, fmt, ap); va_end(ap);
	if (r > 0) on += (size_t) r;
}
static void on_segv(int sig) { (void) sig; oprintf("oob\n"); oflush(); _exit(0); }
/* store sampling (C16): in watch mode the data pages of the packet buffer are read-only; every store instruction
   that hits them faults, the handler logs the byte offset with the in-tracing-section flag as it reads at that
   instant, unprotects the pages and single-steps the instruction (EFLAGS.TF), after which they are protected again */
static int watch; static uint8_t *w_lo; static size_t w_len;
static void on_abrt(int sig) { (void) sig; oprintf("assert\n"); oflush(); _exit(0); }

/* arena for argument data */
static unsigned char arena[1 << 22]; static size_t arena_n;
static void *arena_alloc(size_t n) { void *p; arena_n = (arena_n + 15) & ~(size_t) 15; p = arena + arena_n; arena_n += n; if (arena_n > sizeof(arena)) { oprintf("arena-overflow\n"); oflush(); _exit(3); } return p; }
static float bits2f(uint32_t b) { float f; memcpy(&f, &b, 4); return f; }
static double bits2d(uint64_t b) { double f; memcpy(&f, &b, 8); return f; }

/* leaf stream of the current line */
static char *lp;
static char *next_tok(void) { char *s; while (*lp == ' ') lp++; s = lp; while (*lp && *lp != ' ' && *lp != '\n') lp++; if (*lp) *lp++ = 0; return s; }
static uint64_t next_num(void) { return strtoull(next_tok(), NULL, 10); }
static int hv(int c) { return c <= '9' ? c - '0' : c - 'a' + 10; }
static const char *next_str(void) { char *t = next_tok(); size_t n, i; char *d; if (*t == 's') t++; n = strlen(t) / 2; d = (char *) arena_alloc(n + 1); for (i = 0; i < n; i++) d[i] = (char) (hv(t[2*i]) * 16 + hv(t[2*i+1])); d[n] = 0; return d; }

/* guard-paged packet buffer, flush against the upper guard page */
#define cur_buf (P->cur_buf_)
#define cur_size (P->cur_size_)
static uint8_t *alloc_buf(size_t n) {
	size_t pg = 4096, data = ((n + pg - 1) / pg + 1) * pg;
	uint8_t *m = (uint8_t *) mmap(NULL, data + 2 * pg, PROT_NONE, MAP_PRIVATE | MAP_ANONYMOUS, -1, 0);
	if (m == MAP_FAILED) { oprintf("mmap-failed\n"); oflush(); _exit(3); }
	mprotect(m + pg, data, watch ? PROT_READ : (PROT_READ | PROT_WRITE));
	cur_buf = m + pg + data - n; cur_size = n;
	w_lo = m + pg; w_len = data;
	return cur_buf;
}

#define sctx (P->sctx_)
#define CTX (&sctx.parent)
#define clk (P->clk_)
#define incs (P->incs_)
#define nincs (P->nincs_)
#define iinc (P->iinc_)
#define fulls (P->fulls_)
#define nfulls (P->nfulls_)
#define ifull (P->ifull_)
#define toggles (P->toggles_)
#define ntoggles (P->ntoggles_)
#define setbufs (P->setbufs_)
#define nsetbufs (P->nsetbufs_)
#define cbseq (P->cbseq_)
#define closecount (P->closecount_)
#define opencount (P->opencount_)
#define openargs (P->openargs_)
#define nopenargs (P->nopenargs_)

static void cb_enter(const char *kind) {
	unsigned i, seq;
	seq = cbseq++;
	oprintf("cb %%s %%u f=%%d o=%%d\n", kind, seq, %(p)sis_in_tracing_section(CTX), %(p)spacket_is_open(CTX));
	for (i = 0; i < ntoggles; i++) if (toggles[i][0] == seq) { %(p)senable_tracing(CTX, (int) toggles[i][1]); break; }
}
'''

RUNNER_TAIL = r'''
static int cb_full(void *data) {
	int a; if (data) P = (struct plat *) data;
	cb_enter("full");
	a = ifull < nfulls ? fulls[ifull++] : 0;
	oprintf("cx full f=%%d\n", %(p)sis_in_tracing_section(CTX));
	return a;
}
static void cb_open(void *data) {
	char line[1 << 16]; if (data) P = (struct plat *) data;
	cb_enter("open");
	line[0] = 0;
	if (nopenargs) { strncpy(line, openargs[opencount %% nopenargs], sizeof(line) - 1); line[sizeof(line) - 1] = 0; }
	opencount++;
	lp = line;
	call_open();
	oprintf("cx open f=%%d\n", %(p)sis_in_tracing_section(CTX));
}
static void cb_close(void *data) {
	unsigned i, k; int wasopen; size_t j; if (data) P = (struct plat *) data;
	k = closecount++;
	cb_enter("close");
	wasopen = %(p)spacket_is_open(CTX);
	%(p)s%(dst)s_close_packet(&sctx);
	if (%(p)spacket_buf(CTX) != cur_buf || %(p)spacket_buf_addr(CTX) != cur_buf) oprintf("bufaddr-mismatch\n");
	oprintf("dl ");
	for (j = 0; j < cur_size; j++) oprintf("%%02x", cur_buf[j]);
	oprintf(" o=%%d n=%%d\n", wasopen, %(p)spacket_is_open(CTX));
	for (i = 0; i < nsetbufs; i++) if (setbufs[i][0] == k) { uint8_t *b = alloc_buf(setbufs[i][1]); %(p)spacket_set_buf(CTX, b, (uint32_t) setbufs[i][1]); break; }
	oprintf("cx close f=%%d\n", %(p)sis_in_tracing_section(CTX));
}
static void on_segv_watch(int sig, siginfo_t *si, void *uc_) {
	ucontext_t *uc = (ucontext_t *) uc_; uint8_t *a = (uint8_t *) si->si_addr;
	(void) sig;
	if (watch && w_lo && a >= w_lo && a < w_lo + w_len) {
		if (a < cur_buf) { oprintf("oob\n"); oflush(); _exit(0); }
		oprintf("st %%u f=%%d o=%%d\n", (unsigned) (a - cur_buf), (int) CTX->in_tracing_section, (int) CTX->packet_is_open);
		mprotect(w_lo, w_len, PROT_READ | PROT_WRITE);
		uc->uc_mcontext.gregs[REG_EFL] |= 0x100;
		return;
	}
	oprintf("oob\n"); oflush(); _exit(0);
}
static void on_trap(int sig, siginfo_t *si, void *uc_) {
	ucontext_t *uc = (ucontext_t *) uc_; (void) sig; (void) si;
	uc->uc_mcontext.gregs[REG_EFL] &= ~(greg_t) 0x100;
	if (watch && w_lo) mprotect(w_lo, w_len, PROT_READ);
}
/* the private control flag that makes the packet functions reuse the saved clock sample; if the context has no such
   member any more the runner is built with -DNO_UC and prints -1 (the model prints the flag: the streams then differ) */
#ifdef NO_UC
#define UCVAL (-1)
#else
#define UCVAL ((int) CTX->use_cur_last_event_ts)
#endif
static void ret(const char *api) {
	oprintf("ret %%s at=%%u ps=%%u full=%%d empty=%%d disc=%%u seq=%%u open=%%d f=%%d en=%%d bs=%%u uc=%%d\n", api,
		(unsigned) CTX->at, (unsigned) %(p)spacket_size(CTX), %(p)spacket_is_full(CTX), %(p)spacket_is_empty(CTX),
		(unsigned) %(p)sdiscarded_event_records_count(CTX), (unsigned) %(p)spacket_sequence_number(CTX),
		%(p)spacket_is_open(CTX), %(p)sis_in_tracing_section(CTX), %(p)sis_tracing_enabled(CTX),
		(unsigned) %(p)spacket_buf_size(CTX), UCVAL);
	if (%(p)spacket_events_discarded(CTX) != %(p)sdiscarded_event_records_count(CTX)) oprintf("accessor-mismatch\n");
	{ unsigned gi; for (gi = 0; gi < sizeof(P->guard_); gi++) if (P->guard_[gi] != 0x5c) { oprintf("ctx-overrun +%%u\n", gi); P->guard_[gi] = 0x5c; break; } }
}
static unsigned parse_list(char *s, uint64_t *out, unsigned max) { unsigned n, i; lp = s; n = (unsigned) next_num(); for (i = 0; i < n && i < max; i++) out[i] = next_num(); return i; }

static void run_history(char **lines, unsigned nl) {
	unsigned li; struct %(p)splatform_callbacks cbs; uint64_t tmp[8192]; unsigned n, i;
	signal(SIGSEGV, on_segv); signal(SIGBUS, on_segv); signal(SIGABRT, on_abrt);
	if (nl && lines[0][0] == 'W') {
		struct sigaction sa; memset(&sa, 0, sizeof(sa)); sa.sa_flags = SA_SIGINFO; sigemptyset(&sa.sa_mask);
		sa.sa_sigaction = on_segv_watch; sigaction(SIGSEGV, &sa, NULL);
		sa.sa_sigaction = on_trap; sigaction(SIGTRAP, &sa, NULL);
		watch = 1;
	}
	memset(&cbs, 0, sizeof(cbs));
	cbs.is_backend_full = cb_full; cbs.open_packet = cb_open; cbs.close_packet = cb_close;
%(setclocks)s
	for (li = 0; li < nl; li++) {
		char *l = lines[li];
		if (l[0] == 'M') { multi = 1; continue; }
		if (multi) { P = &PL[l[0] - '0']; l += 2; }
		switch (l[0]) {
		case 'H': lp = l + 1; n = (unsigned) next_num();
			/* the context memory is not zero when the platform hands it over (stack, malloc): everything barectf_init is
			   to initialise must be initialised by it; the members it leaves alone by design (content size, content
			   offset, saved offsets, last clock sample: written by the first opening / tracing call before they are read
			   on any documented call order) get the value the Lean model gives them */
			memset(&sctx, 0xa5, sizeof(sctx)); memset(P->guard_, 0x5c, sizeof(P->guard_)); memset(P->pre_, 0xff, sizeof(P->pre_));
			%(p)sinit(&sctx, alloc_buf(n), (uint32_t) n, cbs, P);
			CTX->off_content = 0; CTX->content_size = 0;%(resetts)s
			break;
		case 'I': nincs = parse_list(l + 1, incs, 4096); break;
		case 'F': n = parse_list(l + 1, tmp, 4096); for (i = 0; i < n; i++) fulls[i] = (int) tmp[i]; nfulls = n; break;
		case 'T': n = parse_list(l + 1, tmp, 8192); for (i = 0; i + 1 < n; i += 2) { toggles[i/2][0] = (unsigned) tmp[i]; toggles[i/2][1] = (unsigned) tmp[i+1]; } ntoggles = n / 2; break;
		case 'S': n = parse_list(l + 1, tmp, 2048); for (i = 0; i + 1 < n; i += 2) { setbufs[i/2][0] = (unsigned) tmp[i]; setbufs[i/2][1] = (unsigned) tmp[i+1]; } nsetbufs = n / 2; break;
		case 'A': if (nopenargs < 256) openargs[nopenargs++] = l + 1; break;
		case 'O': cb_open(NULL); ret("open"); break;
		case 'C': cb_close(NULL); ret("close"); break;
		case 'E': lp = l + 1; %(p)senable_tracing(CTX, (int) next_num()); ret("enable"); break;
		case 'Q': ret("query"); break;
		case 'Z': if (%(p)spacket_is_open(CTX) && !%(p)spacket_is_empty(CTX)) cb_close(NULL); ret("fin"); break;
		case 'R': lp = l + 1; n = (unsigned) next_num(); call_trace(n); ret("trace"); break;
		default: break;
		}
	}
	oflush();
}

int main(void) {
	static char *lines[1 << 16]; unsigned nl = 0; char *line = NULL; size_t cap = 0; ssize_t r;
	while ((r = getline(&line, &cap, stdin)) > 0) {
		if (line[r - 1] == '\n') line[r - 1] = 0;
		if (line[0] == 'X') {
			pid_t pid; int st; unsigned i;
			fflush(stdout);
			pid = fork();
			if (pid == 0) { run_history(lines, nl); _exit(0); }
			waitpid(pid, &st, 0);
			if (WIFSIGNALED(st)) printf("killed %%d\n", WTERMSIG(st));
			printf("END\n"); fflush(stdout);
			for (i = 0; i < nl; i++) free(lines[i]);
			nl = 0;
		} else if (nl < (1 << 16)) {
			lines[nl++] = strdup(line);
		}
	}
	return 0;
}
'''


def build_runner(cfg, ir, dst_name, workdir, extra_cflags=(), tag='runner'):
    """generates the tracer from the real configuration object and compiles the history runner"""
    os.makedirs(workdir, exist_ok=True)
    files = common.gen_files(cfg, workdir)
    fp = ir['prefix']['file']
    p = ir['prefix']['ident']
    d = [x for x in ir['dsts'] if x['name'] == dst_name][0]
    g = _Gen()
    # open call: packet context user members
    g.lines.append('static void call_open(void) {')
    gen_call(g, f'{p}{dst_name}_open_packet', '&sctx', params_of(d['pcExtra'], 'pc'))
    g.lines.append('}')
    g.lines.append('static void call_trace(unsigned idx) {')
    g.lines.append('\tswitch (idx) {')
    for idx, e in enumerate(d['erts']):
        g.lines.append(f'\tcase {idx}:')
        params = []
        if d['ercc']:
            params += params_of(d['ercc']['m'], 'cc')
        if e['sc']:
            params += params_of(e['sc']['m'], 'sc')
        if e['p']:
            params += params_of(e['p']['m'], 'p')
        gen_call(g, f'{p}{dst_name}_trace_{e["name"]}', '&sctx', params)
        g.lines.append('\t\tbreak;')
    g.lines.append('\tdefault: break;\n\t}\n}')
    # clock callbacks: one per clock type used by some data stream type
    clocks = {}
    for x in ir['dsts']:
        if x['clock']:
            clocks[x['clock']['name']] = x['clock']
    clk_code = []
    setclocks = []
    for name, c in sorted(clocks.items()):
        ct = ('' if not c['s'] else '') + ('u' if not c['s'] else '') + f'int{c["w"]}_t'
        clk_code.append(f'''static {ct} cb_clock_{name}(void *data) {{
	uint64_t inc; {ct} v; if (data) P = (struct plat *) data;
	cb_enter("clock");
	inc = iinc < nincs ? incs[iinc++] : 1;
	clk += inc; v = ({ct}) clk;
	oprintf("clk %llu\\n", (unsigned long long) v);
	oprintf("cx clock f=%d\\n", {p}is_in_tracing_section(CTX));
	return v;
}}''')
        setclocks.append(f'\tcbs.{name}_clock_get_value = cb_clock_{name};')
    subst = {'cfile': f'{fp}.c', 'sctx': f'{p}{dst_name}_ctx', 'p': p, 'dst': dst_name,
             'setclocks': '\n'.join(setclocks),
             'resetts': ' sctx.cur_last_event_ts = 0;' if d['clock'] else ''}
    src = (RUNNER_HEAD % subst) + '\n'.join(clk_code) + '\n' + '\n'.join(g.lines) + '\n' + (RUNNER_TAIL % subst)
    with open(os.path.join(workdir, f'{tag}.c'), 'w') as f:
        f.write(src)
    exe = os.path.join(workdir, tag)
    rc, log = common.cc(['gcc', '-O1', '-g', '-std=gnu99', '-w', *extra_cflags, '-o', exe, f'{tag}.c'], cwd=workdir)
    if rc != 0 and 'use_cur_last_event_ts' in log:
        rc, log = common.cc(['gcc', '-O1', '-g', '-std=gnu99', '-w', '-DNO_UC', *extra_cflags, '-o', exe, f'{tag}.c'], cwd=workdir)
    if rc != 0:
        return None, log
    return exe, files


# ------------------------------------------------------------------------------------------
# histories


def leaf_tok(l):
    if isinstance(l, dict):
        return 's' + l['s']
    return str(int(l) & 0xffffffffffffffff)


def args_line(params, args):
    toks = []
    for pname, _ in params:
        toks += [leaf_tok(x) for x in args.get(pname, [])]
    return ' '.join(toks)


def trace_params(d, e):
    params = []
    if d['ercc']:
        params += params_of(d['ercc']['m'], 'cc')
    if e['sc']:
        params += params_of(e['sc']['m'], 'sc')
    if e['p']:
        params += params_of(e['p']['m'], 'p')
    return params


def gen_trace_args(rnd, d, e, darr_len=None):
    args = {}
    if d['ercc']:
        args.update(gencfg.struct_args(rnd, d['ercc']['m'], 'cc', darr_len=darr_len))
    if e['sc']:
        args.update(gencfg.struct_args(rnd, e['sc']['m'], 'sc', darr_len=darr_len))
    if e['p']:
        args.update(gencfg.struct_args(rnd, e['p']['m'], 'p', darr_len=darr_len))
    return args


def script_text(ir, dst_name, h):
    """history (JSON form sent to Lean) → runner script"""
    d = [x for x in ir['dsts'] if x['name'] == dst_name][0]
    pl = h['plat']
    out = (['W'] if h.get('watch') else []) + [f'H {h["buf"]}']
    out.append('I ' + ' '.join(map(str, [len(pl['incs'])] + pl['incs'])))
    out.append('F ' + ' '.join(map(str, [len(pl['full'])] + pl['full'])))
    flat = [x for t in pl['toggles'] for x in t]
    out.append('T ' + ' '.join(map(str, [len(flat)] + flat)))
    flat = [x for t in pl['setbufs'] for x in t]
    out.append('S ' + ' '.join(map(str, [len(flat)] + flat)))
    oparams = params_of(d['pcExtra'], 'pc')
    for a in pl['openargs']:
        out.append('A ' + args_line(oparams, a))
    ert_idx = {e['name']: i for i, e in enumerate(d['erts'])}
    for c in h['calls']:
        if c[0] == 'open':
            out.append('O')
        elif c[0] == 'close':
            out.append('C')
        elif c[0] == 'enable':
            out.append(f'E {c[1]}')
        elif c[0] == 'query':
            out.append('Q')
        elif c[0] == 'fin':
            out.append('Z')
        elif c[0] == 'trace':
            e = d['erts'][ert_idx[c[1]]]
            out.append(f'R {ert_idx[c[1]]} ' + args_line(trace_params(d, e), c[2]))
    out.append('X')
    return '\n'.join(out) + '\n'


def run_impl(exe, ir, dst_name, hists, timeout=600):
    data = ''.join(script_text(ir, dst_name, h) for h in hists)
    r = subprocess.run([exe], input=data, capture_output=True, text=True, timeout=timeout)
    res, cur = [], []
    for line in r.stdout.split('\n'):
        if line == 'END':
            res.append(cur)
            cur = []
        elif line:
            cur.append(line)
    if len(res) != len(hists):
        raise RuntimeError(f'runner produced {len(res)} results for {len(hists)} histories; rc={r.returncode} {r.stderr[:300]}')
    return res


def run_model(ir, dst_name, hists, stores=False, hyps=False, hyps2=False):
    lines = [json.dumps(ir)]
    for h in hists:
        lines.append(json.dumps({'op': 'hist', 'dst': dst_name, 'buf': h['buf'], 'plat': h['plat'],
                                 'calls': h['calls'], 'stores': stores, 'hyps': hyps, 'hyps2': hyps2}))
    out = common.drv_run(lines)
    assert out[0] == 'ok', out[0]
    return [json.loads(x) for x in out[1:]]


# ------------------------------------------------------------------------------------------
# history generation


def probe(exe, ir, dname, openargs, recs):
    """asks the implementation for the header+context size of each open-argument set and for the
    size of each record when it starts right after header+context (big buffer)"""
    hists = []
    for oa in openargs:
        hists.append({'buf': 65536, 'plat': plat(openargs=[oa]), 'calls': [['open'], ['query']]})
    for (en, args) in recs:
        hists.append({'buf': 65536, 'plat': plat(openargs=[openargs[0]]), 'calls': [['open'], ['trace', en, args]]})
    res = run_impl(exe, ir, dname, hists)

    def at_of(lines, which=-1):
        rets = [l for l in lines if l.startswith('ret ')]
        return int(rets[which].split(' at=')[1].split()[0])
    hdr = [at_of(r) for r in res[:len(openargs)]]
    sizes = []
    for r in res[len(openargs):]:
        sizes.append(at_of(r, -1) - at_of(r, 0))
    return hdr, sizes


def plat(incs=None, full=None, toggles=None, setbufs=None, openargs=None):
    return {'incs': incs or [], 'full': full or [], 'toggles': toggles or [], 'setbufs': setbufs or [],
            'openargs': openargs or [{}]}


def gen_pool(rnd, ir, dname, nrec=10, nopen=2, darr_len=None):
    d = [x for x in ir['dsts'] if x['name'] == dname][0]
    openargs = [gencfg.struct_args(rnd, d['pcExtra'], 'pc', darr_len=darr_len) for _ in range(nopen)]
    recs = []
    for _ in range(nrec):
        e = rnd.choice(d['erts'])
        recs.append((e['name'], gen_trace_args(rnd, d, e, darr_len=darr_len)))
    return openargs, recs


def gen_history(rnd, ir, dname, openargs, recs, hdr, sizes, length=None, toggles=True, setbufs=True, mono_p=0.25, alone_p=0.15):
    """one random history.  Buffer sizes are drawn so that records end at, just before and past
    the end of the packet; 30 % of back-end answers are "full"."""
    length = length or rnd.randint(5, 40)
    hdr_bytes = (max(hdr) + 7) // 8
    typical = max(1, (sum(sizes) // max(1, len(sizes)) + 7) // 8)
    r = rnd.random()
    if r < 0.15:
        buf = hdr_bytes
    elif r < 0.3:
        buf = hdr_bytes + rnd.randint(0, 2)
    elif r < 0.8:
        k = rnd.randint(1, 4)
        idx = [rnd.randrange(len(sizes)) for _ in range(k)] if sizes else []
        tot = sum(sizes[i] for i in idx)
        buf = hdr_bytes + (tot + 7) // 8 + rnd.choice([-1, 0, 0, 0, 1, 2])
        buf = max(buf, hdr_bytes)
    else:
        buf = hdr_bytes + rnd.randint(0, 6 * typical + 8)
    # a family of histories that fill packets *exactly*: one record repeated, buffer = header + m records
    mono = None
    if recs and sizes and rnd.random() < mono_p:
        j = rnd.randrange(min(len(recs), len(sizes)))
        if sizes[j] % 8 == 0 and sizes[j] > 0:
            mono = recs[j]
            buf = hdr_bytes + rnd.choice([1, 2, 2, 3]) * (sizes[j] // 8)
            length = max(length, 12)
    if mono is None and recs and sizes and rnd.random() < alone_p:
        # one record of the pool fits an empty packet to the byte (its size is measured from the beginning of the packet
        # content): any record before it forces a packet switch after which it must still fit
        j = rnd.randrange(min(len(recs), len(sizes)))
        if sizes[j] > 0:
            buf = hdr_bytes + (sizes[j] + 7) // 8
            length = max(length, 10)
    calls = []
    if rnd.random() < 0.92:
        calls.append(['open'])
    for _ in range(length):
        x = rnd.random()
        if x < (0.8 if mono else 0.68) and recs:
            en, a = mono or rnd.choice(recs)
            calls.append(['trace', en, a])
        elif x < 0.76:
            calls.append(['close'])
        elif x < 0.84:
            calls.append(['open'])
        elif x < 0.92 and toggles:
            calls.append(['enable', rnd.choice([0, 1])])
        else:
            calls.append(['query'])
    # documented finalisation idiom is added by the oracle, not here
    p = plat(
        incs=[rnd.choice([0, 1, 1, 2, 5, 1000]) for _ in range(rnd.randint(0, 3 * length))],
        full=[1 if rnd.random() < 0.3 else 0 for _ in range(rnd.randint(0, length))],
        toggles=sorted({rnd.randint(0, 4 * length): rnd.choice([0, 1]) for _ in range(rnd.choice([0, 0, 1, 2, 4]))}.items()) if toggles else [],
        setbufs=[[k, max(hdr_bytes, buf + rnd.randint(-3, 5))] for k in sorted(rnd.sample(range(0, length), rnd.choice([0, 0, 1, 2])))] if setbufs else [],
        openargs=openargs)
    p['toggles'] = [list(t) for t in p['toggles']]
    if rnd.random() < 0.3:
        # clock values that do not fit 32 bits (or are about to wrap 64): the first read jumps far
        big = rnd.choice([2 ** 32 - 3, 2 ** 32 + 7, 5 * 10 ** 9, 2 ** 40 + 1, 2 ** 63, 2 ** 64 - 50])
        p['incs'] = [big] + p['incs'][1:]
    return {'buf': buf, 'plat': p, 'calls': calls}


# ---- two-thread driver for ThreadSanitizer (C17, thorough tier) ----------------------------------------

def const_elem(g, e, ind):
    """emits statements that build one constant value of element type e in memory owned by the calling
    thread; returns the C expression holding it"""
    if e['k'] == 'sarr':
        t = c_elem_type(e['e'])
        a = g.var('a')
        i = g.var('i')
        g.emit(f'{t} *{a} = ({t} *) malloc({max(e["n"], 1)} * sizeof({t})); unsigned {i};', ind)
        g.emit(f'for ({i} = 0; {i} < {e["n"]}u; {i}++) {{', ind)
        x = const_elem(g, e['e'], ind + 1)
        g.emit(f'{a}[{i}] = {x};', ind + 1)
        g.emit('}', ind)
        return a
    if e['k'] == 'int':
        return f'({c_int_type(e)}) (seed + 1)'
    if e['k'] == 'real':
        return '(float) seed + 0.5f' if e['sz'] == 32 else '(double) seed + 0.25'
    return '(seed ? "thread-one" : "thread-zero")'


def gen_const_call(g, fname, first_arg, params):
    g.emit('{', 1)
    argv = [first_arg]
    for pname, ft in params:
        if ft['k'] == 'darr':
            t = c_elem_type(ft['e'])
            a = g.var('d')
            i = g.var('i')
            g.emit(f'{t} *{a} = ({t} *) malloc(3 * sizeof({t})); uint32_t {i};', 2)
            g.emit(f'for ({i} = 0; {i} < 2; {i}++) {{', 2)
            x = const_elem(g, ft['e'], 3)
            g.emit(f'{a}[{i}] = {x};', 3)
            g.emit('}', 2)
            argv.append(f'(const void *) {a}')
        elif ft['k'] == 'sarr':
            argv.append(f'(const void *) {const_elem(g, ft, 2)}')
        elif ft['k'] == 'int' and pname.split('_', 1)[-1].startswith('__') and pname.endswith('_len'):
            argv.append('2')
        else:
            v = g.var('s')
            g.emit(f'{c_scalar_type(ft)} {v} = {const_elem(g, ft, 2)};', 2)
            argv.append(v)
    g.emit(f'{fname}({", ".join(argv)});', 2)
    g.emit('}', 1)


TSAN_SRC = r'''
#include <pthread.h>
#include <stdio.h>
#include <stdlib.h>
#include <string.h>
#include "%(cfile)s"

struct th { struct %(sctx)s ctx; uint64_t clk; uint8_t *buf; unsigned long packets; unsigned seed; };

%(clocks)s
static int cb_full(void *data) { (void) data; return 0; }
static void do_open(struct th *t) {
	unsigned seed = t->seed; (void) seed;
%(open)s
}
static void cb_open(void *data) { do_open((struct th *) data); }
static void cb_close(void *data) { struct th *t = (struct th *) data; %(p)s%(dst)s_close_packet(&t->ctx); t->packets++; }

static void trace_all(struct th *t) {
	unsigned seed = t->seed; (void) seed;
%(traces)s
}

static void *worker(void *arg) {
	struct th *t = (struct th *) arg;
	struct %(p)splatform_callbacks cbs;
	unsigned i;
	memset(&cbs, 0, sizeof(cbs));
	cbs.is_backend_full = cb_full; cbs.open_packet = cb_open; cbs.close_packet = cb_close;
%(setclocks)s
	t->buf = (uint8_t *) malloc(%(bufsz)d);
	%(p)sinit(&t->ctx, t->buf, %(bufsz)d, cbs, t);
	do_open(t);
	for (i = 0; i < %(iters)d; i++) trace_all(t);
	if (%(p)spacket_is_open(&t->ctx) && !%(p)spacket_is_empty(&t->ctx)) %(p)s%(dst)s_close_packet(&t->ctx);
	return NULL;
}

int main(void) {
	static struct th T[2];
	pthread_t a, b;
	T[0].seed = 0; T[1].seed = 1;
	pthread_create(&a, NULL, worker, &T[0]);
	pthread_create(&b, NULL, worker, &T[1]);
	pthread_join(a, NULL); pthread_join(b, NULL);
	printf("packets %%lu %%lu discarded %%lu %%lu\n", T[0].packets, T[1].packets,
	       (unsigned long) %(p)sdiscarded_event_records_count(&T[0].ctx), (unsigned long) %(p)sdiscarded_event_records_count(&T[1].ctx));
	return 0;
}
'''


def build_tsan(cfg, ir, dst_name, workdir, bufsz=4096, iters=400):
    """generates the tracer and a two-thread driver (one context, buffer and platform state per thread);
    returns (exe or None, log)"""
    os.makedirs(workdir, exist_ok=True)
    common.gen_files(cfg, workdir)
    fp = ir['prefix']['file']
    p = ir['prefix']['ident']
    d = [x for x in ir['dsts'] if x['name'] == dst_name][0]
    g = _Gen()
    gen_const_call(g, f'{p}{dst_name}_open_packet', '&t->ctx', params_of(d['pcExtra'], 'pc'))
    open_code = '\n'.join(g.lines)
    g = _Gen()
    for e in d['erts']:
        params = []
        if d['ercc']:
            params += params_of(d['ercc']['m'], 'cc')
        if e['sc']:
            params += params_of(e['sc']['m'], 'sc')
        if e['p']:
            params += params_of(e['p']['m'], 'p')
        gen_const_call(g, f'{p}{dst_name}_trace_{e["name"]}', '&t->ctx', params)
    clocks, setclocks = [], []
    seen = {}
    for x in ir['dsts']:
        if x['clock']:
            seen[x['clock']['name']] = x['clock']
    for name, c in sorted(seen.items()):
        ct = ('u' if not c['s'] else '') + f'int{c["w"]}_t'
        clocks.append(f'static {ct} cb_clock_{name}(void *data) {{ struct th *t = (struct th *) data; return ({ct}) ++t->clk; }}')
        setclocks.append(f'\tcbs.{name}_clock_get_value = cb_clock_{name};')
    src = TSAN_SRC % {'cfile': f'{fp}.c', 'sctx': f'{p}{dst_name}_ctx', 'p': p, 'dst': dst_name, 'clocks': '\n'.join(clocks),
                      'setclocks': '\n'.join(setclocks), 'open': open_code, 'traces': '\n'.join(g.lines), 'bufsz': bufsz, 'iters': iters}
    with open(os.path.join(workdir, 'tsan.c'), 'w') as f:
        f.write(src)
    for cc in ('gcc', 'clang'):
        rc, log = common.cc([cc, '-O0', '-g', '-fsanitize=thread', '-w', 'tsan.c', '-o', 'tsan', '-lpthread'], cwd=workdir)
        if rc == 0:
            return os.path.join(workdir, 'tsan'), cc
    return None, log
