"""Extraction of the configuration IR, the real operation trees and the real implicit root
structures from /repo's barectf objects (read-only walks over barectf.config / barectf.cgen)."""
from . import common


def _bc():
    import barectf.config as bc
    return bc


def scalar_ir(ft):
    bc = _bc()
    if isinstance(ft, bc._IntegerFieldType):
        return {'k': 'int', 's': not isinstance(ft, bc.UnsignedIntegerFieldType), 'sz': ft.size, 'al': ft.alignment}
    if type(ft) is bc.RealFieldType:
        return {'k': 'real', 'sz': ft.size, 'al': ft.alignment}
    if type(ft) is bc.StringFieldType:
        return {'k': 'str'}
    raise ValueError(f'not a scalar: {ft}')


def elem_ir(ft):
    bc = _bc()
    if type(ft) is bc.StaticArrayFieldType:
        return {'k': 'sarr', 'n': ft.length, 'e': elem_ir(ft.element_field_type)}
    return scalar_ir(ft)


def ft_ir(ft, root=None, name=None):
    bc = _bc()
    if root == 'ph' and name == 'uuid':
        return {'k': 'uuid'}
    if type(ft) is bc.DynamicArrayFieldType:
        return {'k': 'darr', 'ln': ft._length_ft_member_name, 'e': elem_ir(ft.element_field_type)}
    return elem_ir(ft)


def members_ir(members, root=None):
    return [{'n': n, 'ft': ft_ir(m.field_type, root, n)} for n, m in members.items()]


def struct_ir(sft, root=None):
    if sft is None:
        return None
    return {'ma': sft.minimum_alignment, 'm': members_ir(sft.members, root)}


_CTYPES = {'uint8_t': (8, False), 'uint16_t': (16, False), 'uint32_t': (32, False), 'uint64_t': (64, False),
           'int8_t': (8, True), 'int16_t': (16, True), 'int32_t': (32, True), 'int64_t': (64, True),
           'unsigned long long': (64, False), 'unsigned int': (32, False), 'unsigned char': (8, False)}


def opt_scalar(ft):
    return None if ft is None else scalar_ir(ft)


def cfg_ir(cfg):
    """IR of a barectf.config.Configuration (features, not the implicit structures: the Lean model
    rebuilds those, and `implicit_structs` below gives the real ones for comparison)."""
    bc = _bc()
    tt = cfg.trace.type
    cg = cfg.options.code_generation_options
    dsts = []
    for dst in sorted(tt.data_stream_types, key=lambda d: d.name):
        pf = dst.features.packet_features
        ef = dst.features.event_record_features
        clk = dst.default_clock_type
        clock = None
        if clk is not None:
            w, s = _CTYPES[cg.clock_type_c_types[clk]]
            clock = {'name': clk.name, 'w': w, 's': s}
        erts = []
        for ert in sorted(dst.event_record_types, key=lambda e: e.name):
            erts.append({'name': ert.name, 'id': ert.id, 'll': ert.log_level,
                         'sc': struct_ir(ert.specific_context_field_type),
                         'p': struct_ir(ert.payload_field_type)})
        dsts.append({
            'name': dst.name, 'id': dst.id, 'clock': clock,
            'feat': {'totalSize': opt_scalar(pf.total_size_field_type),
                     'contentSize': opt_scalar(pf.content_size_field_type),
                     'tsBegin': opt_scalar(pf.beginning_timestamp_field_type),
                     'tsEnd': opt_scalar(pf.end_timestamp_field_type),
                     'discarded': opt_scalar(pf.discarded_event_records_snapshot_counter_field_type),
                     'seqNum': opt_scalar(pf.sequence_number_field_type),
                     'ertId': opt_scalar(ef.type_id_field_type),
                     'erTs': opt_scalar(ef.timestamp_field_type)},
            'pcExtra': members_ir(dst.packet_context_field_type_extra_members),
            'ercc': struct_ir(dst.event_record_common_context_field_type),
            'erts': erts,
        })
    f = tt.features
    return {
        'op': 'cfg',
        'bo': tt.trace_byte_order.value,
        'fast': type(tt) is not bc.TraceTypeWithUnknownNativeByteOrder,
        'uuid': list(tt.uuid.bytes) if tt.uuid is not None else [],
        'feat': {'magic': opt_scalar(f.magic_field_type), 'uuid': f.uuid_field_type is not None,
                 'dstId': opt_scalar(f.data_stream_type_id_field_type)},
        'dsts': dsts,
        'prefix': {'ident': cg.identifier_prefix, 'file': cg.file_name_prefix},
        'default': cg.default_data_stream_type.name if cg.default_data_stream_type is not None else None,
        'hdropts': {'prefix': cg.header_options.identifier_prefix_definition,
                    'dst': cg.header_options.default_data_stream_type_name_definition},
    }


# ---- canonical strings, same format as the Lean driver ---------------------------------------

def show_scalar(j):
    if j['k'] == 'int':
        return ('s' if j['s'] else 'u') + f"{j['sz']}a{j['al']}"
    if j['k'] == 'real':
        return f"r{j['sz']}a{j['al']}"
    return 'str'


def show_ft(j):
    if j['k'] == 'sarr':
        return f"sarr({j['n']},{show_ft(j['e'])})"
    if j['k'] == 'darr':
        return f"darr({j['ln']},{show_ft(j['e'])})"
    if j['k'] == 'uuid':
        return 'uuid'
    return show_scalar(j)


def show_struct_real(sft, root):
    ms = ','.join(f"{m['n']}:{show_ft(m['ft'])}" for m in members_ir(sft.members, root))
    return f'ma={sft.minimum_alignment} al={sft.alignment} {ms}'


_SPEC = {'serialize-write-magic-statements.j2': 'magic', 'serialize-write-uuid-statements.j2': 'uuid',
         'serialize-write-dst-id-statements.j2': 'dstid', 'serialize-write-timestamp-statements.j2': None,
         'serialize-write-packet-size-statements.j2': 'pktsize', 'serialize-write-seq-num-statements.j2': 'seqnum',
         'serialize-write-skip-save-statements.j2': 'skip', 'serialize-write-ert-id-statements.j2': 'ertid'}


def real_ds_ops(cfg):
    """Runs the real operation builder exactly as `_CodeGen.gen_src` does and returns
    {dst name: {'ph','pc','h','cc', 'er': {ert name: {'sc','p'}}}} of real `_CompoundOp`s."""
    import barectf.cgen as cgen
    import copy
    cg = cgen._CodeGen(cfg)
    tt = cfg.trace.type
    out = {}
    for dst in tt.data_stream_types:
        builder = cgen._OpBuilder(cg)
        ph = None
        if tt._pkt_header_ft is not None:
            ph = builder.build_for_root_ft(tt._pkt_header_ft, cgen._RootFtPrefixes.PH, {
                'magic': cg._serialize_write_magic_statements_templ,
                'uuid': cg._serialize_write_uuid_statements_templ,
                'stream_id': cg._serialize_write_dst_id_statements_templ})
        pc = builder.build_for_root_ft(dst._pkt_ctx_ft, cgen._RootFtPrefixes.PC, {
            'timestamp_begin': cg._serialize_write_timestamp_statements_templ,
            'packet_size': cg._serialize_write_packet_size_statements_templ,
            'timestamp_end': cg._serialize_write_skip_save_statements_templ,
            'events_discarded': cg._serialize_write_skip_save_statements_templ,
            'content_size': cg._serialize_write_skip_save_statements_templ,
            'packet_seq_num': cg._serialize_write_seq_num_statements_templ})
        builder = cgen._OpBuilder(cg)
        h = None
        if dst._er_header_ft is not None:
            h = builder.build_for_root_ft(dst._er_header_ft, cgen._RootFtPrefixes.ERH, {
                'timestamp': cg._serialize_write_timestamp_statements_templ,
                'id': cg._serialize_write_ert_id_statements_templ})
        cc = None
        if dst.event_record_common_context_field_type is not None:
            cc = builder.build_for_root_ft(dst.event_record_common_context_field_type, cgen._RootFtPrefixes.ERCC)
        er = {}
        for ert in dst.event_record_types:
            evb = copy.copy(builder)
            sc = p = None
            if ert.specific_context_field_type is not None:
                sc = evb.build_for_root_ft(ert.specific_context_field_type, cgen._RootFtPrefixes.ERSC)
            if ert.payload_field_type is not None:
                p = evb.build_for_root_ft(ert.payload_field_type, cgen._RootFtPrefixes.ERP)
            er[ert.name] = {'sc': sc, 'p': p}
        out[dst.name] = {'ph': ph, 'pc': pc, 'h': h, 'cc': cc, 'er': er}
    return out


def _templ_name(t):
    return t._templ.name.split('/')[-1] if t is not None else None


def _src_of(op, root):
    """which serialise template the real write op carries → the model's source tag"""
    name = _templ_name(op._templates.serialize)
    if name in ('serialize-write-int-statements.j2', 'serialize-write-real-statements.j2',
                'serialize-write-string-statements.j2'):
        return 'arg'
    if name == 'serialize-write-timestamp-statements.j2':
        return 'tsbegin' if op.top_name == 'timestamp_begin' else 'ts'
    if name == 'serialize-write-skip-save-statements.j2':
        return 'skip:' + op.top_name
    return _SPEC.get(name, '?' + str(name))


def show_real_op(op, root):
    """canonical string of a real root `_CompoundOp`, in the Lean driver's `showRoot` format"""
    import barectf.cgen as cgen
    bc = _bc()

    def al(v):
        return f'(align {v})'

    def show_seq(ops):
        # a sequence of ops produced by _build_for_ft for ONE field type: [align?] + (write | compound)
        s = ''
        for o in ops:
            if type(o) is cgen._AlignOp:
                s += al(o.value)
            elif type(o) is cgen._WriteOp:
                src = _src_of(o, root)
                what = 'uuid' if src == 'uuid' else show_scalar(scalar_ir(o.ft))
                oib = '-' if o.offset_in_byte is None else str(o.offset_in_byte)
                s += f'(write {src} {what} oib={oib})'
            else:
                assert type(o) is cgen._CompoundOp
                if type(o.ft) is bc.StaticArrayFieldType:
                    s += f'(loop {o.ft.length} {show_seq(o.subops)})'
                elif type(o.ft) is bc.DynamicArrayFieldType:
                    s += f'(dloop {o.ft._length_ft_member_name} {show_seq(o.subops)})'
                else:
                    s += '(struct ' + show_seq(o.subops) + ')'
        return s

    assert type(op) is cgen._CompoundOp
    subs = list(op.subops)
    out = ''
    # the structure's own alignment is the first subop when present
    if subs and type(subs[0]) is cgen._AlignOp and len(subs[0].names) == 1:
        out += al(subs[0].value)
        subs = subs[1:]
    # group the remaining subops by member (names[1])
    groups = []
    for o in subs:
        key = o.names[1]
        if groups and groups[-1][0] == key:
            groups[-1][1].append(o)
        else:
            groups.append((key, [o]))
    for key, ops in groups:
        out += f'[{key} {show_seq(ops)}]'
    return out
