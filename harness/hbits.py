"""H-bits: exhaustive-shape differential of bt_bitfield_write_{le,be} as rendered from
/repo's bitfield.h.j2 against (a) the Lean model bfWrite and (b) a bit-by-bit reference."""
import json
import os
import random
from . import common

CFG = '''--- !<tag:barectf.org,2020/3/config>
trace:
  type:
    %s
    data-stream-types:
      default:
        $is-default: true
        event-record-types:
          ev:
            payload-field-type:
              class: struct
              members:
                - a: {field-type: {class: uint, size: 3}}
'''

VTS = ['u8', 'i8', 'u16', 'i16', 'u32', 'i32', 'u64', 'i64']
CT = {'u8': 'uint8_t', 'i8': 'int8_t', 'u16': 'uint16_t', 'i16': 'int16_t',
      'u32': 'uint32_t', 'i32': 'int32_t', 'u64': 'uint64_t', 'i64': 'int64_t'}

DRIVER_C = r'''
#include <stdio.h>
#include <stdint.h>
#include <string.h>
#include <stdlib.h>
#include "barectf-bitfield.h"
#define PASTE2(a,b) a##b
#define PASTE(a,b) PASTE2(a,b)
#define BFW PASTE(bt_bitfield_write_, BO)
#define LIT(T, S) case S: BFW(p, S, LEN, T, (T) raw); break;
#define W(T) do { if (lit) { switch (start) { LIT(T,0) LIT(T,1) LIT(T,2) LIT(T,3) LIT(T,4) LIT(T,5) LIT(T,6) LIT(T,7) } } \
  else { volatile uint32_t at = start; BFW(p, at % 8, LEN, T, (T) raw); } } while (0)
static void dowr(uint8_t *p, int vt, int lit, int start, unsigned long LEN, uint64_t raw) {
  switch (vt) {
  case 0: W(uint8_t); break; case 1: W(int8_t); break;
  case 2: W(uint16_t); break; case 3: W(int16_t); break;
  case 4: W(uint32_t); break; case 5: W(int32_t); break;
  case 6: W(uint64_t); break; case 7: W(int64_t); break;
  }
}
static int hv(int c) { return c <= '9' ? c - '0' : c - 'a' + 10; }
int main(void) {
  char line[256]; 
  while (fgets(line, sizeof line, stdin)) {
    int vt, lit, base, start; unsigned long len; unsigned long long v; char hex[128]; uint8_t buf[48]; size_t n, i;
    if (sscanf(line, "%d %d %d %d %lu %llu %127s", &vt, &lit, &base, &start, &len, &v, hex) != 7) { puts("bad"); continue; }
    n = strlen(hex) / 2;
    for (i = 0; i < n; i++) buf[i] = (uint8_t)(hv(hex[2*i]) * 16 + hv(hex[2*i+1]));
    dowr(&buf[base], vt, lit, start, len, (uint64_t) v);
    for (i = 0; i < n; i++) printf("%02x", buf[i]);
    putchar('\n');
  }
  return 0;
}
'''


def build(bo, workdir):
    """Renders the bit-field header from /repo for byte order bo and compiles the driver."""
    d = os.path.join(workdir, bo)
    os.makedirs(d, exist_ok=True)
    cfg = common.load_cfg(CFG % ('native-byte-order: le' if bo == 'le' else 'trace-byte-order: be'))
    common.gen_files(cfg, d)
    with open(os.path.join(d, 'drv.c'), 'w') as f:
        f.write(DRIVER_C)
    exe = os.path.join(d, 'bits')
    rc, log = common.cc(['gcc', '-O1', '-std=c99', f'-DBO={bo}', '-o', exe, 'drv.c'], cwd=d)
    if rc != 0:
        raise RuntimeError('bit-field driver does not compile: ' + log[:2000])
    # UBSan variant (shift exponent checks) used as the oracle for no_ub_shift
    exe_ub = os.path.join(d, 'bits_ub')
    rc, log = common.cc(['gcc', '-O1', '-std=gnu90', '-fsanitize=shift,bounds', '-fno-sanitize-recover=all',
                         f'-DBO={bo}', '-o', exe_ub, 'drv.c'], cwd=d)
    if rc != 0:
        exe_ub = None
    return exe, exe_ub


def rng_of(lo, hi, rnd):
    return rnd.randint(lo, hi)


def values_for(vt, length, rnd):
    w = int(vt[1:])
    signed = vt[0] == 'i'
    lo, hi = (-(1 << (w - 1)), (1 << (w - 1)) - 1) if signed else (0, (1 << w) - 1)
    vs = {0, hi, lo, 1, hi - 1}
    if signed:
        vs |= {-1, -2}
    # walking one / walking zero, alternating
    for k in {0, 1, length - 1, max(length - 2, 0), min(length, w - 1), w - 1, 7, 8, 9} & set(range(w)):
        x = 1 << k
        vs.add(x if x <= hi else x - (1 << w))
        y = hi ^ x if not signed else ~x
        if lo <= y <= hi:
            vs.add(y)
    alt = int('01' * 32, 2) & ((1 << w) - 1)
    for a in (alt, ((alt << 1) | 1) & ((1 << w) - 1)):
        vs.add(a if a <= hi else a - (1 << w))
    for _ in range(6):
        vs.add(rnd.randint(lo, hi))
    return sorted(vs)


def reference(bo, bg, base, start, length, v):
    """bit-by-bit oracle straight from the property text"""
    buf = list(bg)
    s0 = 8 * base + start
    for j in range(length):
        i = s0 + j
        if bo == 'le':
            bit = (v >> j) & 1
            pos = i % 8
        else:
            bit = (v >> (length - 1 - j)) & 1
            pos = 7 - i % 8
        if bit:
            buf[i // 8] |= (1 << pos)
        else:
            buf[i // 8] &= ~(1 << pos) & 0xff
    return buf


def shapes():
    for bo in ('le', 'be'):
        for vt in VTS:
            w = int(vt[1:])
            for start in range(8):
                for length in range(1, w + 1):
                    yield (bo, vt, start, length)


def gen_cases(tier, seed):
    rnd = random.Random(seed)
    allsh = list(shapes())
    if tier == 'quick':
        k = seed % 8
        sh = [s for i, s in enumerate(allsh) if i % 8 == k or s[3] in (1, 7, 8, 9, 63, 64)
              or s[3] == int(s[1][1:])]
    else:
        sh = allsh
    cases = []
    nbuf = 12
    for (bo, vt, start, length) in sh:
        vals = values_for(vt, length, rnd)
        if tier == 'quick':
            vals = vals[:6] + rnd.sample(vals[6:], min(6, max(0, len(vals) - 6)))
        for v in vals:
            for bgk in (0, 1, 2):
                if bgk == 0:
                    bg = [0] * nbuf
                elif bgk == 1:
                    bg = [255] * nbuf
                else:
                    bg = [rnd.randrange(256) for _ in range(nbuf)]
                base = rnd.choice((0, 1, 2))
                lit = rnd.choice((0, 1))
                cases.append(dict(bo=bo, vt=vt, lit=lit, base=base, start=start, len=length, v=v, bg=bytes(bg).hex()))
    return cases, len(sh), len(allsh)


def run_impl(exes, cases):
    import subprocess
    out = {}
    for bo in ('le', 'be'):
        idx = [i for i, c in enumerate(cases) if c['bo'] == bo]
        data = ''.join(f"{VTS.index(cases[i]['vt'])} {cases[i]['lit']} {cases[i]['base']} {cases[i]['start']} "
                       f"{cases[i]['len']} {cases[i]['v'] & 0xffffffffffffffff} {cases[i]['bg']}\n" for i in idx)
        r = subprocess.run([exes[bo]], input=data, capture_output=True, text=True, timeout=600)
        lines = r.stdout.split('\n')
        if r.returncode != 0 or len(lines) < len(idx):
            raise RuntimeError(f'implementation driver failed rc={r.returncode} {r.stderr[:500]}')
        for i, l in zip(idx, lines):
            out[i] = l
    return [out[i] for i in range(len(cases))]


def run_model(cases):
    lines = [json.dumps(dict(op='bf', bo=c['bo'], vt=c['vt'], base=c['base'], start=c['start'],
                             len=c['len'], v=str(c['v']), bg=c['bg'])) for c in cases]
    return common.drv_run(lines)
