#!/bin/bash
# usage: tools_seed5_verify.sh <ID>   -- confirms a round-6 seed in its own scratch worktree:
# patch = worktree diff, suite passes with the change, demonstration fails with it and passes without it
ID=$1; WT=/tmp/wt6-$ID; SD=/tmp/seed6-$ID; OUT=$SD/verify.txt
cd $WT || exit 3
{
echo "== $ID"
git diff > /tmp/seed6-$ID/wt.diff
if diff -q $SD/wt.diff $SD/patch.diff >/dev/null; then echo "patch=worktree-diff"; else echo "patch!=worktree-diff (re-applying patch.diff)"; git checkout -- . ; git apply $SD/patch.diff || echo "PATCH DOES NOT APPLY"; fi
if [ -f $SD/demo.sh ]; then DEMO="bash $SD/demo.sh"; else DEMO="/venv/bin/python $SD/demo.py"; fi
( cd $WT && timeout 600 $DEMO ) > $SD/demo_with.log 2>&1; echo "demo_with_change_rc=$?"
git apply -R $SD/patch.diff
( cd $WT && timeout 600 $DEMO ) > $SD/demo_without.log 2>&1; echo "demo_without_change_rc=$?"
git apply $SD/patch.diff
/venv/bin/python -m pytest -q -p no:cacheprovider --timeout=900 -n 0 2>&1 | tail -1
} > $OUT 2>&1
cat $OUT
