#!/bin/bash
# usage: tools_seed_eval.sh <ID> [check ids to run, default: the same ID]
# Applies /verif/seeded/<ID>/patch.diff to /repo, runs the quick checks, restores /repo.
set -u
ID=$1; shift
CHECKS=${@:-$ID}
cd /verif
git -C /repo status --short | grep -q . && { echo "/repo not clean"; exit 3; }
git -C /repo apply /verif/${SEEDDIR:-seeded}/$ID/patch.diff || { echo "patch does not apply"; exit 3; }
for C in $CHECKS; do
  out=$(./check $C --tier quick --seed 1 2>&1); rc=$?
  echo "== ${SEEDDIR:-seeded}/$ID under check $C: rc=$rc"
  echo "$out" | grep -E "VIOLATION|KNOWN-FINDING|INCONCLUSIVE" | head -5
done
git -C /repo checkout -- .
git -C /repo status --short
