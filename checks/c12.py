"""C12 — inclusion, aliases and inheritance follow the documented patching rules."""
import os
import random
import subprocess
import sys
from harness import common, hfront
from checks import frcommon

ASSUME = [
    'the reference is the Lean patcher (Model/Patch, Model/Expand), which Props/C12.lean proves to obey the documented '
    'patching table, base order, search order and cycle rules for all trees; the real `_update_node`, '
    '`_process_*_node_include`, `_resolve_ft_alias`, `_apply_ft_inheritance` are compared with it on generated inputs',
    'trees are compared after PyYAML loading (mapping keys are strings, key order significant); YAML syntax itself is '
    'outside the model',
    'recursion that follows names is bounded by fuel in the model; exhausted fuel is counted, never compared',
]

CLI_DOC = '''--- !<tag:barectf.org,2020/3/config>
trace:
  type:
    $include: [shadow.yaml]
    data-stream-types:
      d:
        $is-default: true
        event-record-types:
          e:
            payload-field-type:
              class: struct
              members:
                - a: {field-type: {class: uint, size: 8}}
'''


def run(c):
    c.assumptions += ASSUME
    ob = c.proof_obligations()
    rnd = random.Random(c.seed)
    thorough = c.tier == 'thorough'
    n = 1500 if thorough else 300
    r = frcommon.Runner(c)
    # witnesses of repaired findings run first: a regression is reported again
    import json
    for e in c.known_entries('fixed'):
        w = json.load(open(os.path.join(common.VERIF, e['witness'])))
        real, model, same = frcommon.replay_case(c, w['case'])
        c.coverage.setdefault('fixed_witnesses', {})[e['id']] = {'agrees_with_reference': same}
        if not same:
            c.violation(dict(w, property='C12', kind='a repaired finding is back: ' + e['line']))
    r.patch(rnd, 2 * n)
    r.alias(rnd, n)
    r.inherit(rnd, n)
    r.include(rnd, n)
    r.effective3(rnd, 400 if thorough else 60)
    r.effective2(rnd, 300 if thorough else 40)
    c.coverage['correspondence'] = r.evidence()
    c.coverage['evaluations'] = sum(v.get('cases', 0) for v in r.evidence().values())
    c.coverage['disagreements_checked'] = len(r.disagreements)
    # CLI: directory order of -I options
    cli = {}
    try:
        cli = cli_search_order_inproc(r.work)
    except Exception as ex:  # noqa
        c.inconclusive.append(f'CLI search-order probe failed to run: {ex}')
    c.coverage['cli_search_order'] = cli
    for want, (rc, ok, err) in cli.items():
        if rc != 0 or not ok:
            c.violation({'property': 'C12', 'kind': 'CLI: the inclusion file that comes first in the documented search order '
                         '(each -I directory in order, then the current directory, then the standard directory) is not the one used',
                         'probe': want, 'exit': rc, 'stderr': err, 'doc': CLI_DOC})
    indom = [d for d in r.disagreements if d['in_domain']]
    if indom and ob['ok']:
        d = indom[0]
        c.violation({'property': 'C12', 'kind': 'the real front end does not produce the result of the documented patching '
                     'rules (reference: Lean patcher, proved in Props/C12.lean)', 'case': d,
                     'replay_cmd': './check C12 --replay <this file>'})
    elif r.disagreements:
        d = r.disagreements[0]
        c.violation({'property': 'C12', 'kind': 'correspondence broken: the Lean front-end model no longer reproduces the '
                     'implementation; no input inside the property\'s domain on which the patching rules are violated '
                     'was found', 'obligation': d['kind'] + ' (implementation vs Lean Model/Patch, Model/Expand)',
                     'proofs_ok': ob['ok'], 'proof_failures': ob['failures'], 'case': d}, found_input=False)
    elif not ob['ok']:
        c.violation({'property': 'C12', 'kind': 'proof obligation no longer checks', 'failures': ob['failures'],
                     'log': ob['log'][-1500:]}, found_input=False)
    if thorough:
        ok, log = c.leanchecker(['BVM.Props.C12'])
        if not ok:
            c.violation({'property': 'C12', 'kind': 'leanchecker rejects the compiled proofs', 'log': log}, found_input=False)


def cli_search_order_inproc(work):
    """runs the real CLI entry point in a subprocess (PYTHONPATH=/repo)"""
    d1, d2 = os.path.join(work, 'cli1'), os.path.join(work, 'cli2')
    os.makedirs(d1), os.makedirs(d2)
    open(os.path.join(d1, 'shadow.yaml'), 'w').write('native-byte-order: le\n')
    open(os.path.join(d2, 'shadow.yaml'), 'w').write('native-byte-order: be\n')
    cfgp = os.path.join(work, 'cli.yaml')
    open(cfgp, 'w').write(CLI_DOC)
    env = dict(os.environ, PYTHONPATH=common.REPO, PYTHONWARNINGS='ignore')
    res = {}
    for order, want in (((d1, d2), 'little-endian'), ((d2, d1), 'big-endian')):
        p = subprocess.run(['/venv/bin/barectf', 'show-effective-configuration',
                            '-I', order[0], '-I', order[1], cfgp], capture_output=True, text=True, env=env, cwd=work)
        res[want] = (p.returncode, want in p.stdout, p.stderr[-300:])
    # the standard inclusion directory comes *last* (include.adoc: each --include-dir in order, then the current
    # working directory, then the standard directory): a user file named like a packaged one wins, whether it sits in
    # a --include-dir directory or in the current working directory
    d3 = os.path.join(work, 'cli3')
    os.makedirs(d3)
    for shipped, body, doc, marker in (
            ('stdint.yaml', '$field-type-aliases:\n  uint16: {class: uint, size: 16, alignment: 8, preferred-display-base: hex}\n',
             SHADOW_DOC % {'inc': 'stdint.yaml', 'ft': 'uint16', 'll': '7'}, 'preferred-display-base: hex'),
            ('lttng-ust-log-levels.yaml', '$log-level-aliases:\n  WARNING: 77\n',
             SHADOW_DOC % {'inc': 'lttng-ust-log-levels.yaml', 'ft': '{class: uint, size: 8}', 'll': 'WARNING'}, 'log-level: 77')):
        for where in ('include-dir', 'cwd'):
            wd = os.path.join(d3, f'{shipped}-{where}')
            inc = os.path.join(wd, 'inc') if where == 'include-dir' else wd
            os.makedirs(inc)
            open(os.path.join(inc, shipped), 'w').write(body)
            cp = os.path.join(wd, 'config.yaml')
            open(cp, 'w').write(doc)
            cmd = ['/venv/bin/barectf', 'show-effective-configuration'] + (['-I', 'inc'] if where == 'include-dir' else []) + ['config.yaml']
            p = subprocess.run(cmd, capture_output=True, text=True, env=env, cwd=wd)
            res[f'user {shipped} in {where} shadows the packaged file'] = (p.returncode, marker in p.stdout, p.stderr[-300:])
    return res


SHADOW_DOC = '''--- !<tag:barectf.org,2020/3/config>
trace:
  type:
    $include: [%(inc)s]
    native-byte-order: le
    data-stream-types:
      s:
        $is-default: true
        event-record-types:
          e:
            log-level: %(ll)s
            payload-field-type:
              class: struct
              members:
                - b: {field-type: %(ft)s}
'''


def replay(c, path):
    import json
    rep = json.load(open(path))
    case = rep.get('case')
    if not case:
        print('nothing to replay in', path)
        return
    real, model, same = frcommon.replay_case(c, case)
    print('real :', frcommon.show(real))
    print('model:', frcommon.show(model))
    c.coverage.update({'obligations': 1, 'discharged': 1, 'checker_cmd': 'replay of ' + path})
    if not same:
        c.violation(rep)
