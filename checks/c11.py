"""C11 — the effective configuration is equivalent to the original and a fixed point."""
import io
import os
import random
import re
from harness import common, hfront, genfront, genv2
from checks import frcommon

ASSUME = [
    'generated configurations never use `uuid: auto` (a fresh UUID per run is documented behaviour)',
    'files are compared byte for byte after removing the generation date (metadata `barectf_gen_date`, the licence '
    'header line " * on <date>.")',
    'the effective document is re-loaded with barectf\'s own YAML loader before it is compared with the Lean model',
]

FT_SLOTS_TT = ['magic-field-type', 'uuid-field-type', 'data-stream-type-id-field-type']
PKT = ['total-size-field-type', 'content-size-field-type', 'beginning-timestamp-field-type', 'end-timestamp-field-type',
       'discarded-event-records-counter-snapshot-field-type', 'sequence-number-field-type']
ER = ['type-id-field-type', 'timestamp-field-type']


def strip_dates(name, text):
    text = re.sub(r'barectf_gen_date = "[^"]*";', 'barectf_gen_date = "";', text)
    text = re.sub(r'^ \* on .*\.$', ' * on DATE.', text, flags=re.M)
    return text


def ft_problems(ft, path, out):
    """inside an effective field type: no alias names, no inheritance"""
    if isinstance(ft, str):
        out.append(f'{path}: alias name {ft!r} left')
    elif isinstance(ft, dict):
        for k in ('$inherit', 'inherit'):
            if k in ft:
                out.append(f'{path}: `{k}` left')
        if 'element-field-type' in ft:
            ft_problems(ft['element-field-type'], path + '/element-field-type', out)
        for m in ft.get('members') or []:
            for n, v in m.items():
                if isinstance(v, dict):
                    if 'field-type' in v:
                        ft_problems(v['field-type'], f'{path}/members/{n}', out)
                else:
                    out.append(f'{path}/members/{n}: short member form left')


def null_props(t, path, out):
    if isinstance(t, dict):
        for k, v in t.items():
            if v is None:
                out.append(f'{path}/{k}: null property left')
            null_props(v, f'{path}/{k}', out)
    elif isinstance(t, list):
        for i, x in enumerate(t):
            null_props(x, f'{path}[{i}]', out)


def effective_problems(cfg):
    """what the statement demands of the printed document ("free of inclusions, aliases, inheritance and
    log level aliases"); also the hypotheses of Lean `effective_fixed_point`"""
    out = []
    tr = cfg.get('trace')
    if not isinstance(tr, dict) or not isinstance(tr.get('type'), dict):
        return ['no trace/type mapping']
    tt = tr['type']
    if '$include' in tr:
        out.append('trace: $include left')
    if '$include' in tt:
        out.append('trace type: $include left')
    for k in ('$field-type-aliases', '$log-level-aliases'):
        if k in tt:
            out.append(f'trace type: `{k}` left')
    for n, ck in (tt.get('clock-types') or {}).items():
        if '$include' in ck:
            out.append(f'clock type {n}: $include left')
    f = tt.get('$features') or {}
    for k in FT_SLOTS_TT:
        if k in f and not isinstance(f[k], bool):
            ft_problems(f[k], f'$features/{k}', out)
    for dn, d in tt['data-stream-types'].items():
        if '$include' in d:
            out.append(f'dst {dn}: $include left')
        df = d.get('$features') or {}
        for grp, keys in (('packet', PKT), ('event-record', ER)):
            g = df.get(grp) or {}
            for k in keys:
                if k in g and not isinstance(g[k], bool):
                    ft_problems(g[k], f'{dn}/$features/{grp}/{k}', out)
        for m in d.get('packet-context-field-type-extra-members') or []:
            for n, v in m.items():
                ft_problems(v.get('field-type') if isinstance(v, dict) else v, f'{dn}/extra/{n}', out)
        if 'event-record-common-context-field-type' in d:
            ft_problems(d['event-record-common-context-field-type'], f'{dn}/ercc', out)
        for en, e in d['event-record-types'].items():
            if '$include' in e:
                out.append(f'ert {dn}/{en}: $include left')
            if isinstance(e.get('log-level'), str):
                out.append(f'ert {dn}/{en}: log level alias {e["log-level"]!r} left')
            for k in ('specific-context-field-type', 'payload-field-type'):
                if k in e:
                    ft_problems(e[k], f'{dn}/{en}/{k}', out)
    null_props(tt, 'type', out)
    if 'environment' in tr and tr['environment'] is None:
        out.append('trace: null environment left')
    return out


def oracle(text, world, eff_text, eff_tree, version, workdir):
    """the property's relation between runs of the tool, on the implementation: (violations, stats)"""
    b = common.barectf()
    st = {'documents': 1, 'effective_marks_ok': 0, 'fixed_point_ok': 0, 'generated_identical': 0}
    rep = {'property': 'C11', 'dialect': f'barectf {version}', 'doc_yaml': text, 'dirs': world.dirs}
    probs = effective_problems(eff_tree)
    if probs:
        return [dict(rep, kind='the printed effective document is not free of inclusions/aliases/inheritance/'
                     'log level aliases/null properties', problems=probs[:10], effective=eff_text)], st
    st['effective_marks_ok'] = 1
    empty = hfront.World([], False, True, 3)
    empty.paths = []
    r2 = hfront.real_effective(eff_text, empty)
    if r2[0] != 'ok':
        return [dict(rep, kind='the printed effective document is not itself a valid configuration',
                     error=list(r2[1:]), effective=eff_text)], st
    if r2[1] != eff_text:
        return [dict(rep, kind='printing the effective configuration again gives another document',
                     effective=eff_text, second=r2[1])], st
    st['fixed_point_ok'] = 1
    try:
        cfg1 = b.configuration_from_file(io.StringIO(text), inclusion_directories=world.paths or [])
        cfg2 = b.configuration_from_file(io.StringIO(eff_text), inclusion_directories=[])
        d1, d2 = os.path.join(workdir, 'ga'), os.path.join(workdir, 'gb')
        os.makedirs(d1), os.makedirs(d2)
        f1 = common.gen_files(cfg1, d1)
        f2 = common.gen_files(cfg2, d2)
    except Exception as ex:  # noqa
        return [dict(rep, kind='generation fails for the original or for the effective document',
                     error=f'{type(ex).__name__}: {ex}', effective=eff_text)], st
    if sorted(f1) != sorted(f2):
        return [dict(rep, kind='different file names', a=sorted(f1), b=sorted(f2))], st
    for name in f1:
        if strip_dates(name, f1[name]) != strip_dates(name, f2[name]):
            la, lb = strip_dates(name, f1[name]).split('\n'), strip_dates(name, f2[name]).split('\n')
            i = next((i for i, (x, y) in enumerate(zip(la, lb)) if x != y), min(len(la), len(lb)))
            return [dict(rep, kind=f'generated file {name} differs between the original and the effective document',
                         line=i + 1, original=la[i:i + 3], effective_doc=lb[i:i + 3], effective=eff_text)], st
    st['generated_identical'] = 1
    return [], st


frcommon.ORACLES['c11'] = oracle


def run(c):
    c.assumptions += ASSUME
    ob = c.proof_obligations()
    rnd = random.Random(c.seed)
    thorough = c.tier == 'thorough'
    r = frcommon.Runner(c)
    o3 = r.effective3(rnd, 400 if thorough else 60, oracle='c11')
    o2 = r.effective2(rnd, 300 if thorough else 40, oracle='c11')
    c.coverage['correspondence'] = r.evidence()
    c.coverage['oracle'] = {'barectf 3': o3, 'barectf 2': o2}
    c.coverage['evaluations'] = o3.get('documents', 0) + o2.get('documents', 0)
    c.coverage['disagreements_checked'] = len(r.disagreements)
    if c.violations:
        return
    if r.disagreements:
        d = r.disagreements[0]
        c.violation({'property': 'C11', 'kind': 'correspondence broken: the Lean expansion model no longer reproduces the '
                     'effective document the implementation prints; the property\'s own oracle (valid, free of expansion '
                     'features, same generated files, same text when printed again) found nothing on the documents explored',
                     'obligation': d['kind'] + ' (real effective document vs Lean expand3/expand2)', 'case': d,
                     'proofs_ok': ob['ok']}, found_input=False)
    elif not ob['ok']:
        c.violation({'property': 'C11', 'kind': 'proof obligation no longer checks', 'failures': ob['failures'],
                     'log': ob['log'][-1500:]}, found_input=False)
    if thorough:
        ok, log = c.leanchecker(['BVM.Props.C11'])
        if not ok:
            c.violation({'property': 'C11', 'kind': 'leanchecker rejects the compiled proofs', 'log': log}, found_input=False)


def replay(c, path):
    import json
    rep = json.load(open(path))
    work = common.scratch()
    c.coverage.update({'obligations': 1, 'discharged': 1, 'checker_cmd': 'replay of ' + path})
    if 'case' in rep:
        real, model, same = frcommon.replay_case(c, rep['case'])
        print('real :', str(frcommon.show(real))[:2000])
        print('model:', str(frcommon.show(model))[:2000])
        if not same:
            c.violation(rep)
        return
    ver = 2 if rep.get('dialect') == 'barectf 2' else 3
    w = hfront.World(rep['dirs'], False, True, ver)
    w.materialise(os.path.join(work, 'w'))
    real = hfront.real_effective(rep['doc_yaml'], w)
    print('effective:', real[0], str(real[1])[:1500])
    if real[0] == 'ok':
        vs, st = oracle(rep['doc_yaml'], w, real[1], hfront.load_yaml(real[1])[0], ver, os.path.join(work, 'o'))
        print(st)
        for v in vs:
            print('oracle:', v['kind'])
            c.violation(rep)
