"""C05 — packet and record timestamps are consistent snapshots of a monotonic clock."""
from checks import rtcommon as rt
from harness import common, hrt, oracles, tsdl


ASSUME = [
    'the scripted clock source never goes backwards and does not wrap its C type within a history (increments are '
    'bounded so that the unwrapped clock stays below 2^width)',
    'timestamps are compared on the sampled values, the fields holding them modulo their size (property text)',
    'configurations are filtered to those whose data stream type has a default clock',
]


def oracle(cs, h, lines, order=True):
    fails = []
    if cs.md is None or cs.d['clock'] is None:
        return []
    if lines and (lines[-1] in ('oob', 'assert') or lines[-1].startswith('killed')):
        return []
    f = cs.d['feat']
    tot = 8 * max([h['buf']] + [b for _, b in h['plat']['setbufs']])
    if not (tot < (1 << f['totalSize']['sz']) and tot < (1 << f['contentSize']['sz'])):
        return []
    samples = [int(l.split()[1]) for l in lines if l.startswith('clk ')]
    # entry sample of each tracing call
    facts = rt.call_facts(cs, h, lines)
    entry = []
    for fa in facts:
        if fa['call'][0] == 'trace' and fa['ret'] and fa['en_at_test'] and (fa['disc_after'] - fa['disc_before']) % (1 << 32) == 0:
            clk = [l for l in fa['seg'] if l.startswith('clk ')]
            entry.append(int(clk[0].split()[1]) if clk else None)
    pkts, errs = oracles.decode_all(cs.md, lines, cs.d['id'])
    if errs:
        return []          # undecodable packets are C03/C04's subject
    sample_set = set(samples)

    def is_sample(v, sz):
        m = (1 << sz) - 1
        return any((s & m) == v for s in sample_set)

    def back(v, sz):
        """the samples whose reduction to sz bits is v"""
        m = (1 << sz) - 1
        return [s for s in samples if (s & m) == v]
    k = 0
    prev_end = None
    for idx, p in pkts:
        ctx = p['context']
        b = ctx.get('timestamp_begin')
        e = ctx.get('timestamp_end')
        if b is not None and not is_sample(b, f['tsBegin']['sz']):
            fails.append(f'packet at log line {idx}: beginning timestamp {b} is not a sampled clock value')
        if e is not None and not is_sample(e, f['tsEnd']['sz']):
            fails.append(f'packet at log line {idx}: end timestamp {e} is not a sampled clock value')
        rec_ts = []
        for ev in p['events']:
            want = entry[k] if k < len(entry) else None
            k += 1
            if 'timestamp' in ev['header']:
                m = (1 << f['erTs']['sz']) - 1
                if want is None or ev['header']['timestamp'] != (want & m):
                    fails.append(f'record {k - 1}: timestamp {ev["header"]["timestamp"]} is not the clock value sampled at '
                                 f'the entry of its tracing call ({want})')
                rec_ts.append(want)
        # order on the sampled values: use the unique preimage when the field is wide enough
        def unique(v, sz):
            c = sorted(set(back(v, sz)))
            return c[0] if len(c) == 1 else None
        bs = unique(b, f['tsBegin']['sz']) if b is not None else None
        es = unique(e, f['tsEnd']['sz']) if e is not None else None
        seq = [x for x in ([bs] + rec_ts + [es]) if x is not None]
        if not order:
            continue
        if any(x > y for x, y in zip(seq, seq[1:])):
            fails.append(f'packet at log line {idx}: begin <= record timestamps <= end violated: {seq}')
        if prev_end is not None and bs is not None and prev_end > bs:
            fails.append(f'packet at log line {idx}: previous packet ends at {prev_end}, this one begins at {bs}')
        prev_end = es if es is not None else prev_end
    return fails


def oracle_values(cs, h, lines):
    """only the value clauses (every timestamp field holds a sampled clock value reduced to the field size): valid
    for clocks that wrap their C type, where the order clauses are not"""
    return oracle(cs, h, lines, order=False)


def gen(rnd, ir, dn, oa, recs, hdr, sizes, **kw):
    h = hrt.gen_history(rnd, ir, dn, oa, recs, hdr, sizes, **kw)
    d = [x for x in ir['dsts'] if x['name'] == dn][0]
    w = d['clock']['w'] if d['clock'] else 32
    # keep the unwrapped clock below 2^w: at most ~6 callbacks per call
    budget = (1 << w) - 2
    n = 8 * (len(h['calls']) + 4)
    per = max(0, min(5, budget // n - 1))
    h['plat']['incs'] = [rnd.randint(0, per) for _ in range(n)] if per > 0 else [0] * n
    if per == 0:
        h['plat']['incs'] = [1 if rnd.random() < budget / (2 * n) else 0 for _ in range(n)] + [0] * 4096
        h['plat']['incs'] = h['plat']['incs'][:4000]
    # the clock need not start near 0: high values (beyond 16 / 32 bits when its C type allows) that still do not wrap
    total = sum(h['plat']['incs'])
    starts = [v for v in ((1 << (w // 2)) + 3, 1 << (w - 1), (1 << w) - 2 - total, 5 * 10 ** 9) if 0 < v and v + total <= (1 << w) - 2]
    if starts and h['plat']['incs'] and rnd.random() < 0.6:
        h['plat']['incs'][0] += rnd.choice(starts)
    return h


def run(c):
    ob = c.proof_obligations()
    c.assumptions += ASSUME
    n, k = (8, 40) if c.tier == 'quick' else (60, 150)
    rt.replay_witnesses(c, oracle)
    cases, dis, stats = rt.run_rt(c, oracle, n, k, gen_hist=rt.flushing(gen),
                                  cfg_filter=lambda ir: any(d['clock'] for d in ir['dsts']),
                                  dst_pred=lambda d: d['clock'] is not None,
                                  known_classifier=rt.known_by(c, [('F9', rt.f9_territory)]))
    rt.decide(c, ob, dis, oracle=oracle, gen_hist=rt.flushing(gen), cfg_filter=lambda ir: any(d['clock'] for d in ir['dsts']),
              dst_pred=lambda d: d['clock'] is not None, known_classifier=rt.known_by(c, [('F9', rt.f9_territory)]))
    if c.tier == 'thorough' and ob['ok']:
        ok, log = c.leanchecker(['BVM.Props.C05'])
        if not ok:
            c.violation({'property': 'C05', 'kind': 'leanchecker rejects the compiled proofs', 'log': log}, found_input=False)


def replay(c, path):
    rt.replay(c, path, oracle)
