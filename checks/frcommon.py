"""Shared flow of the front-end checks (C09–C12, C18): correspondence runs between the real front
end of /repo and the Lean model (Model/Yaml, Patch, Expand, V2, Schema) over the line protocol."""
import collections
import copy
import json
import os
import multiprocessing as mp
import random
from concurrent.futures import ProcessPoolExecutor
from harness import common, hfront, genfront

ORACLES = {}     # name -> function(text, world, eff_text, eff_tree, version, workdir) -> (violations, stats)


def eval_effective(task):
    """worker: one document through the real front end (and the registered oracle)"""
    version, text, dirs, workdir, oracle = task
    w = hfront.World(dirs, False, True, version)
    w.materialise(workdir)
    tree, _ = hfront.load_yaml(text)
    real = hfront.real_effective(text, w)
    res = {'real': real if real[0] != 'ok' else ('ok', None), 'loaded': w.loaded, 'tree': hfront.yj(tree)}
    if real[0] == 'ok':
        eff_tree = hfront.load_yaml(real[1])[0]
        res['eff_text'] = real[1]
        res['eff_tree'] = hfront.yj(eff_tree)
        if oracle:
            res['violations'], res['ostats'] = ORACLES[oracle](text, w, real[1], eff_tree, version, workdir)
    return res


def _members_ok(t):
    """every `members` sequence holds single-property mappings only (what a member object is)"""
    if isinstance(t, dict):
        for k, v in t.items():
            if k == 'members' and isinstance(v, list):
                for it in v:
                    if not (isinstance(it, dict) and len(it) == 1):
                        return False
            if not _members_ok(v):
                return False
        return True
    if isinstance(t, list):
        return all(_members_ok(x) for x in t)
    return True


def agree(r, m):
    """real outcome vs model outcome"""
    if r[0] == 'ok' and m[0] == 'ok':
        return hfront.tree_eq(r[1], m[1])
    if r[0] == 'err' and m[0] == 'err':
        return r[1] == m[1] or (r[1] == 'schema' and m[1] == 'shape')
    if r[0] == 'crash' and m[0] == 'err':
        return m[1] == 'crash'
    return False


def show(r):
    if r[0] == 'ok':
        return ['ok', hfront.plain(r[1]) if not isinstance(r[1], str) else r[1]]
    return list(r)


class Runner:
    def __init__(self, c):
        self.c = c
        self.work = common.scratch()
        self.stats = {}
        self.disagreements = []     # dicts: kind, input, real, model, in_domain
        self.crashes = []
        self.nworld = 0

    def _record(self, label, outcomes, n):
        st = self.stats.setdefault(label, collections.Counter())
        st['cases'] += n
        for k, v in outcomes.items():
            st[k] += v

    def _cmp(self, label, cases, lines, parse=hfront.parse_model, dom=lambda i: True):
        out = common.drv_run(lines)
        oc = collections.Counter()
        for (inp, r), line in zip(cases, out):
            m = parse(line)
            if m[0] == 'err' and m[1] == 'fuel':
                oc['model_fuel_exhausted'] += 1
                continue
            oc[f'real_{r[0]}' + (f'_{r[1]}' if r[0] != 'ok' else '')] += 1
            if not agree(r, m):
                oc['disagreements'] += 1
                self.disagreements.append({'kind': label, 'input': inp, 'real': show(r), 'model': show(m),
                                           'in_domain': bool(dom(inp)),
                                           'first_diff': hfront.first_diff(r[1], m[1]) if r[0] == m[0] == 'ok' else None})
        self._record(label, oc, len(cases))

    # ---- component correspondences ----------------------------------------------------
    def patch(self, rnd, n):
        cases, lines = [], []
        for _ in range(n):
            b, o = genfront.gen_patch_pair(rnd)
            v = rnd.choice([2, 3])
            bt, ot = hfront.to_od(b), hfront.to_od(o)
            r = hfront.run_real(lambda: hfront.real_patch(v, bt, ot))
            lines.append({'op': 'patch', 'v3': v == 3, 'base': hfront.yj(bt), 'overlay': hfront.yj(ot)})
            cases.append(({'version': v, 'base': b, 'overlay': o}, r))
        self._cmp('H-patch', cases, lines, parse=lambda l: ('ok', hfront.jy(json.loads(l))),
                  dom=lambda i: _members_ok(i['base']) and _members_ok(i['overlay']))

    def alias(self, rnd, n):
        cases, lines = [], []
        for _ in range(n):
            v3 = rnd.random() < 0.6
            al, t = genfront.gen_alias_universe(rnd, v3)
            alt, par = hfront.to_od(al), hfront.to_od({'k': t})
            p = hfront.mk_parser(3 if v3 else 2)

            def f():
                a2, p2 = copy.deepcopy(alt), copy.deepcopy(par)
                p._resolve_ft_alias(a2, p2, 'k', 'ctx')
                return p2['k']
            lines.append({'op': 'resolve', 'v3': v3, 'aliases': hfront.yj(alt), 'target': hfront.yj(par['k'])})
            cases.append(({'v3': v3, 'aliases': al, 'target': t}, hfront.run_real(f)))
        self._cmp('H-alias', cases, lines)

    def inherit(self, rnd, n):
        cases, lines = [], []
        for _ in range(n):
            v3 = rnd.random() < 0.6
            t = genfront.gen_ft_like(rnd, [], 0, v3)
            par = hfront.to_od({'k': t})
            p = hfront.mk_parser(3 if v3 else 2)

            def g():
                p2 = copy.deepcopy(par)
                p._apply_ft_inheritance(p2, 'k')
                return p2['k']
            lines.append({'op': 'inherit', 'v3': v3, 'target': hfront.yj(par['k'])})
            cases.append(({'v3': v3, 'target': t}, hfront.run_real(g)))
        self._cmp('H-inherit', cases, lines)

    def include(self, rnd, n):
        cases, lines = [], []
        for _ in range(n):
            kind = rnd.choice(genfront.KINDS3 + genfront.KINDS2)
            node, dirs, ign = genfront.gen_include_world(rnd, kind)
            w = hfront.World(dirs, ign, with_pkg=False, version=2 if kind.endswith('2') else 3)
            self.nworld += 1
            w.materialise(os.path.join(self.work, f'w{self.nworld}'))
            nt = hfront.to_od(node)
            r = hfront.real_include(kind, nt, w)
            d = w.to_json()
            d.update({'op': 'include', 'kind': kind, 'node': hfront.yj(nt)})
            lines.append(d)
            cases.append(({'kind': kind, 'node': node, 'dirs': dirs, 'ignore': ign}, r))
        self._cmp('H-include', cases, lines, dom=lambda i: _members_ok(i['node']) and _members_ok(i['dirs']))

    # ---- whole documents ---------------------------------------------------------------
    def effective_docs(self, label, version, docs, oracle=None):
        """docs: [(yaml text, dirs)].  The real effective document (re-loaded) vs Lean `expand3`/`expand2`;
        `oracle` (a registered name) is evaluated on every accepted document, in worker processes."""
        tasks = []
        for text, dirs in docs:
            self.nworld += 1
            tasks.append((version, text, dirs, os.path.join(self.work, f'w{self.nworld}'), oracle))
        with ProcessPoolExecutor(max_workers=min(common.NPROC, 12), mp_context=mp.get_context('fork')) as ex:
            results = list(ex.map(eval_effective, tasks, chunksize=1))
        pk2 = hfront.pkg_dir_files(2) if version == 2 else None
        pk3 = hfront.pkg_dir_files(3)
        lines, oc = [], collections.Counter()
        for res in results:
            if version == 3:
                lines.append({'op': 'expand3', 'doc': res['tree'], 'dirs': res['loaded'] + [pk3], 'ignore': False})
            else:
                lines.append({'op': 'expand2', 'doc': res['tree'], 'dirs2': res['loaded'] + [pk2],
                              'dirs3': res['loaded'] + [pk3]})
        out = common.drv_run(lines)
        ostats = collections.Counter()
        for (text, dirs), res, line in zip(docs, results, out):
            m = hfront.parse_model(line)
            r = res['real']
            inp = {'doc_yaml': text, 'dirs': dirs}
            if r[0] == 'ok':
                r = ('ok', hfront.jy(res['eff_tree']))
                oc['accepted'] += 1
                if not agree(r, m):
                    oc['disagreements'] += 1
                    self.disagreements.append({'kind': label, 'input': inp, 'real': show(r), 'model': show(m),
                                               'in_domain': True,
                                               'first_diff': hfront.first_diff(r[1], m[1]) if m[0] == 'ok' else None})
                for k, v in (res.get('ostats') or {}).items():
                    ostats[k] += v
                for v in res.get('violations') or []:
                    self.c.violation(v)
            else:
                oc[f'rejected_{r[1]}'] += 1
                if r[0] == 'crash':
                    oc['crash'] += 1
                    self.crashes.append({'kind': label, 'input': inp, 'real': list(r)})
        self._record(label, oc, len(docs))
        return dict(ostats), results

    def effective3(self, rnd, n, oracle=None):
        docs, agg = [], collections.Counter()
        for _ in range(n):
            cfg, doc, dirs, st = genfront.gen_effective_case(rnd)
            for k, v in st.items():
                agg['gen_' + k] += v
            docs.append((hfront.dump_yaml(doc, v3root=True), dirs))
            if len(docs) == 1:
                # one plain document whose environment holds every string a YAML resolver may take for something else
                import copy
                from harness import gencfg as _g
                plain = copy.deepcopy(cfg)
                plain['trace']['environment'] = {f't{i}': v for i, v in enumerate(_g.TRICKY_STRINGS)}
                docs.append((hfront.dump_yaml(plain, v3root=True), [{}]))
        ostats, _ = self.effective_docs('H-effective3', 3, docs, oracle)
        self._record('H-effective3', agg, 0)
        return ostats

    def effective2(self, rnd, n, oracle=None):
        from harness import genv2
        docs, agg = [], collections.Counter()
        for _ in range(n):
            a = genv2.gen_abs(rnd)
            doc, dirs = genv2.render2(a), [{}]
            if rnd.random() < 0.7:
                doc, dirs, st = genv2.Decorate2(rnd, doc, rnd.choice([1, 2])).run()
                for k, v in st.items():
                    agg['gen_' + k] += v
            docs.append((hfront.dump_yaml(doc), dirs))
        ostats, _ = self.effective_docs('H-effective2', 2, docs, oracle)
        self._record('H-effective2', agg, 0)
        return ostats

    def evidence(self):
        return {k: dict(v) for k, v in self.stats.items()}


def replay_case(c, case):
    """re-runs one recorded disagreement (kind + input) on the implementation and the model"""
    r = Runner(c)
    kind, inp = case['kind'], case['input']
    if kind == 'H-patch':
        bt, ot = hfront.to_od(inp['base']), hfront.to_od(inp['overlay'])
        real = hfront.run_real(lambda: hfront.real_patch(inp['version'], bt, ot))
        line = common.drv_run([{'op': 'patch', 'v3': inp['version'] == 3, 'base': hfront.yj(bt), 'overlay': hfront.yj(ot)}])[0]
        model = ('ok', hfront.jy(json.loads(line)))
    elif kind == 'H-include':
        w = hfront.World(inp['dirs'], inp['ignore'], with_pkg=False, version=2 if inp['kind'].endswith('2') else 3)
        w.materialise(os.path.join(r.work, 'w'))
        nt = hfront.to_od(inp['node'])
        real = hfront.real_include(inp['kind'], nt, w)
        d = w.to_json()
        d.update({'op': 'include', 'kind': inp['kind'], 'node': hfront.yj(nt)})
        model = hfront.parse_model(common.drv_run([d])[0])
    elif kind in ('H-alias', 'H-inherit'):
        v3 = inp['v3']
        p = hfront.mk_parser(3 if v3 else 2)
        par = hfront.to_od({'k': inp['target']})
        if kind == 'H-alias':
            alt = hfront.to_od(inp['aliases'])

            def f():
                a2, p2 = copy.deepcopy(alt), copy.deepcopy(par)
                p._resolve_ft_alias(a2, p2, 'k', 'ctx')
                return p2['k']
            real = hfront.run_real(f)
            model = hfront.parse_model(common.drv_run([{'op': 'resolve', 'v3': v3, 'aliases': hfront.yj(alt), 'target': hfront.yj(par['k'])}])[0])
        else:
            def g():
                p2 = copy.deepcopy(par)
                p._apply_ft_inheritance(p2, 'k')
                return p2['k']
            real = hfront.run_real(g)
            model = hfront.parse_model(common.drv_run([{'op': 'inherit', 'v3': v3, 'target': hfront.yj(par['k'])}])[0])
    elif kind == 'H-effective3':
        w = hfront.World(inp['dirs'], False, True, 3)
        w.materialise(os.path.join(r.work, 'w'))
        tree, _ = hfront.load_yaml(inp['doc_yaml'])
        real = hfront.real_effective(inp['doc_yaml'], w)
        if real[0] == 'ok':
            real = ('ok', hfront.load_yaml(real[1])[0])
        d = w.to_json()
        d.update({'op': 'expand3', 'doc': hfront.yj(tree)})
        model = hfront.parse_model(common.drv_run([d])[0])
    elif kind == 'H-effective2':
        w = hfront.World(inp['dirs'], False, True, 2)
        w.materialise(os.path.join(r.work, 'w'))
        tree, _ = hfront.load_yaml(inp['doc_yaml'])
        real = hfront.real_effective(inp['doc_yaml'], w)
        if real[0] == 'ok':
            real = ('ok', hfront.load_yaml(real[1])[0])
        model = hfront.parse_model(common.drv_run([{'op': 'expand2', 'doc': hfront.yj(tree),
                                                    'dirs2': w.loaded + [hfront.pkg_dir_files(2)],
                                                    'dirs3': w.loaded + [hfront.pkg_dir_files(3)]}])[0])
    else:
        raise SystemExit('unknown replay kind ' + kind)
    return real, model, agree(real, model)
