"""C15 — the metadata states every configured descriptive attribute in well-formed TSDL."""
import json
import os
import random
import yaml
from harness import common, gencfg, tsdl, irx

ASSUME = [
    '"parses under the CTF 1.8 TSDL grammar" is established per sample by the strict parser of harness/tsdl.py (forms '
    'barectf emits; string literals may not contain a raw new-line or an unescaped double quote), not by a theorem',
    'attribute values are drawn at boundaries: 0, maxima, negative offsets and ranges, quotes, backslashes, trailing '
    'backslash, new-line, non-ASCII',
]

NASTY = ['plain', 'with "quotes"', 'back\\slash', 'trailing\\', 'new\nline', 'tab\there', 'é non-ascii ✓', '\\"', '', '"',
         # characters Python's str.splitlines() treats as line boundaries, all legal inside a TSDL string literal
         'CARRIAGE\rRETURN', 'FORM\fFEED', 'VT\x0bTAB', 'LINE\u2028SEP', 'PARA\u2029SEP', 'NEL\x85X', 'FS\x1cGS\x1dRS\x1eEND']
BASES = {'bin': 2, 'oct': 8, 'dec': 10, 'hex': 16, 'binary': 2, 'octal': 8, 'decimal': 10, 'hexadecimal': 16}


def decorate(text, rnd):
    """adds descriptive attributes with boundary values to a generated configuration"""
    cfg = yaml.safe_load(text.split('\n', 1)[1])
    tt = cfg['trace']['type']
    env = {'zero': 0, 'neg': -rnd.randint(1, 10 ** 12), 'big': 2 ** 63 - 1}
    for i in range(3):
        env[f's{i}'] = rnd.choice(NASTY)
    # entries bearing the names of barectf's own default entries: the configured value is the one to state
    if rnd.random() < 0.5:
        env['domain'] = rnd.choice(['ust', 'kernel', 'my "domain"'])
    if rnd.random() < 0.4:
        env['tracer_name'] = 'my-tracer'
    if rnd.random() < 0.4:
        env['tracer_major'] = rnd.choice([0, 7, 42])
    cfg['trace']['environment'] = env
    for name, ck in (tt.get('clock-types') or {}).items():
        if rnd.random() < 0.7:
            ck['description'] = rnd.choice(NASTY)
        if rnd.random() < 0.5:
            ck['uuid'] = '%08x-%04x-%04x-%04x-%012x' % (rnd.getrandbits(32), rnd.getrandbits(16), rnd.getrandbits(16), rnd.getrandbits(16), rnd.getrandbits(48))
        # every property is optional: an omitted one must be stated with its documented default
        if rnd.random() < 0.7:
            ck['frequency'] = rnd.choice([1, 1000, 10 ** 9, 2 ** 40])
        elif 'frequency' in ck and rnd.random() < 0.5:
            del ck['frequency']
        if rnd.random() < 0.6:
            ck['precision'] = rnd.choice([0, 1, 999])
        if rnd.random() < 0.6:
            off = {}
            if rnd.random() < 0.7:
                off['seconds'] = rnd.choice([0, 1, 1600000000])
            if rnd.random() < 0.7:
                off['cycles'] = rnd.choice([0, 5, 10 ** 9])
            ck['offset'] = off
        if rnd.random() < 0.6:
            ck['origin-is-unix-epoch'] = rnd.random() < 0.5
    for dn, d in tt['data-stream-types'].items():
        for en, e in d['event-record-types'].items():
            e['log-level'] = rnd.choice([0, 0, 1, 7, 14, 'warning', None])
            if e['log-level'] is None:
                del e['log-level']
            # enumeration labels are TSDL string literals too
            if rnd.random() < 0.4:
                labels = [x for x in rnd.sample(NASTY, 3) if x != '']
                pf = e.setdefault('payload-field-type', {'class': 'struct', 'members': []})
                if isinstance(pf, dict) and isinstance(pf.get('members'), list):
                    pf['members'].append({'nasty_labels': {'field-type': {
                        'class': 'uenum', 'size': 8, 'mappings': {lab: ([i] if i % 2 == 0 else [[10 * i, 10 * i + 3]])
                                                                   for i, lab in enumerate(labels)}}}})
    return gencfg.HEADER + yaml.safe_dump(cfg, sort_keys=False, default_flow_style=False, allow_unicode=True)


def walk_ints(struct_real, struct_md, path, fails):
    """every integer/enumeration member: signedness, size, alignment, base, clock mapping, labels and ranges"""
    import barectf.config as bc
    mdm = {n: (ty, lens) for n, ty, lens in struct_md['members']}
    for n, m in struct_real.members.items():
        ft = m.field_type
        while isinstance(ft, bc._ArrayFieldType):
            ft = ft.element_field_type
        if n not in mdm:
            fails.append(f'{path}.{n}: member missing from the metadata')
            continue
        ty = mdm[n][0]
        if isinstance(ft, bc._IntegerFieldType):
            it = ty['int'] if ty['t'] == 'enum' else ty
            if it['t'] != 'int':
                fails.append(f'{path}.{n}: not an integer in the metadata')
                continue
            want = (not isinstance(ft, bc.UnsignedIntegerFieldType), ft.size, ft.alignment, ft.preferred_display_base.value,
                    getattr(ft, '_mapped_clk_type_name', None))
            got = (it['signed'], it['size'], it['align'], it['base'], it['map'])
            if want != got:
                fails.append(f'{path}.{n}: integer attributes (signed,size,align,base,map) configured {want}, metadata {got}')
            if isinstance(ft, bc._EnumerationFieldType):
                if ty['t'] != 'enum':
                    fails.append(f'{path}.{n}: enumeration emitted as a plain integer')
                    continue
                want_m = sorted((lab, r.lower, r.upper) for lab, mp in ft.mappings.items() for r in mp.ranges)
                got_m = sorted(ty['maps'])
                if want_m != got_m:
                    fails.append(f'{path}.{n}: enumeration mappings configured {want_m}, metadata {got_m}')


SIGNED = {'sint': True, 'senum': True, 'uint': False, 'uenum': False}


def yaml_int_expect(ft):
    """(signed, size, alignment, base, mappings) an integer / enumeration field type node of the *document* states
    (documented defaults filled in), or None for other classes; arrays are followed to their element type.  Only the
    spellings the generator emits are handled (no alias, no inheritance: the documents of this check are plain)."""
    while isinstance(ft, dict) and 'element-field-type' in ft:
        ft = ft['element-field-type']
    if not isinstance(ft, dict) or ft.get('class') not in SIGNED:
        return None
    size = ft['size']
    maps = None
    if ft['class'] in ('uenum', 'senum'):
        maps = []
        for lab, rs in (ft.get('mappings') or {}).items():
            for r in rs:
                maps.append((lab, r, r) if isinstance(r, int) else (lab, r[0], r[1]))
        maps = sorted(set(maps))
    return (SIGNED[ft['class']], size, ft.get('alignment', 8 if size % 8 == 0 else 1),
            BASES[ft.get('preferred-display-base', 'dec')], maps)


def walk_yaml(members, struct_md, path, fails):
    """user members of a structure of the document against the metadata"""
    mdm = {n: ty for n, ty, lens in struct_md['members']}
    for m in members or []:
        (n, v), = m.items()
        want = yaml_int_expect(v['field-type'])
        if want is None:
            continue
        ty = mdm.get(n)
        if ty is None:
            fails.append(f'{path}.{n}: member missing from the metadata')
            continue
        it = ty['int'] if ty['t'] == 'enum' else ty
        got = (it.get('signed'), it.get('size'), it.get('align'), it.get('base'),
               sorted(set(ty['maps'])) if ty['t'] == 'enum' else None)
        if want != got:
            fails.append(f'{path}.{n}: the document states (signed,size,align,base,mappings) {want}, the metadata {got}')


def yaml_members_check(doc, md, fails):
    tt = doc['trace']['type']
    dsts = tt['data-stream-types']
    for dn, d in dsts.items():
        # the stream block of this data stream type: IDs are ranks of the sorted names
        sid = sorted(dsts).index(dn)
        sm = [s for s in md['streams'] if s.get('id', sid) == sid] if len(md['streams']) > 1 else md['streams']
        if len(sm) != 1:
            continue
        walk_yaml(d.get('packet-context-field-type-extra-members'), sm[0]['packet.context'], f'{dn}.packet.context', fails)
        cc = d.get('event-record-common-context-field-type')
        if cc and 'event.context' in sm[0]:
            walk_yaml(cc.get('members'), sm[0]['event.context'], f'{dn}.event.context', fails)
        for en, e in d['event-record-types'].items():
            em = [x for x in md['events'] if x['name'] == en and (len(md['streams']) == 1 or x.get('stream_id', sid) == sid)]
            if len(em) != 1:
                continue
            sc, pl = e.get('specific-context-field-type'), e.get('payload-field-type')
            if sc and em[0].get('context'):
                walk_yaml(sc.get('members'), em[0]['context'], f'{en}.context', fails)
            if pl and em[0].get('fields'):
                walk_yaml(pl.get('members'), em[0]['fields'], f'{en}.fields', fails)


def oracle(cfg, md_text, yaml_text=None):
    fails = []
    try:
        md = tsdl.parse(md_text)
    except tsdl.TsdlError as ex:
        return [f'metadata does not parse under the TSDL grammar: {ex}'], None
    tt = cfg.trace.type
    tr = md['trace']
    if tr.get('byte_order') != ('id', tt.trace_byte_order.value):
        fails.append(f'trace byte order {tr.get("byte_order")} != {tt.trace_byte_order.value}')
    if (str(tt.uuid) if tt.uuid else None) != tr.get('uuid'):
        fails.append(f'trace uuid {tr.get("uuid")} != {tt.uuid}')
    env = md['env'] or {}
    # what the user configured (the YAML document), not what the configuration object holds after barectf merged
    # it with its own default entries: a configured entry must be stated with its configured value
    configured = dict(cfg.trace.environment.items())
    if yaml_text is not None:
        doc = yaml.safe_load(yaml_text.split('\n', 1)[1])
        configured = dict(configured, **((doc.get('trace') or {}).get('environment') or {}))
    for k, v in configured.items():
        if k in ('barectf_gen_date',) and (yaml_text is None or k not in ((yaml.safe_load(yaml_text.split('\n', 1)[1]).get('trace') or {}).get('environment') or {})):
            continue
        if env.get(k) != v:
            fails.append(f'environment entry {k}: configured {v!r}, metadata {env.get(k)!r}')
    clocks = {c['name'][1] if isinstance(c['name'], tuple) else c['name']: c for c in md['clocks']}
    # clock type attributes as the document states them, with the defaults of docs/modules/yaml/pages/clk-type-obj.adoc
    if yaml_text is not None:
        ydoc = yaml.safe_load(yaml_text.split('\n', 1)[1])
        for name, yck in ((ydoc['trace']['type'].get('clock-types')) or {}).items():
            m = clocks.get(name)
            if m is None:
                continue          # unused clock types are not emitted (checked below for the used ones)
            yck = yck or {}
            off = yck.get('offset') or {}
            want = {'freq': yck.get('frequency', 10 ** 9), 'precision': yck.get('precision', 0),
                    'offset_s': off.get('seconds', 0), 'offset': off.get('cycles', 0),
                    'absolute': ('id', 'true' if yck.get('origin-is-unix-epoch', True) else 'false'),
                    'uuid': yck.get('uuid'), 'description': yck.get('description') or None}
            for k, v in want.items():
                got = (m.get(k) or None) if k == 'description' else m.get(k)
                if got != v:
                    fails.append(f'clock type {name}: {k} stated by the document (or its documented default) {v!r}, metadata {m.get(k)!r}')
    for ck in tt.clock_types:
        m = clocks.get(ck.name)
        if m is None:
            fails.append(f'clock type {ck.name} missing')
            continue
        want = {'freq': ck.frequency, 'precision': ck.precision, 'offset_s': ck.offset.seconds, 'offset': ck.offset.cycles,
                'absolute': ('id', 'true' if ck.origin_is_unix_epoch else 'false'),
                'uuid': str(ck.uuid) if ck.uuid else None, 'description': ck.description or None}
        for k, v in want.items():
            if (m.get(k) or None if k == 'description' else m.get(k)) != v:
                fails.append(f'clock type {ck.name}: {k} configured {v!r}, metadata {m.get(k)!r}')
    has_id = tt.features.data_stream_type_id_field_type is not None
    for dst in tt.data_stream_types:
        sm = [s for s in md['streams'] if s.get('id') == dst.id] if has_id else md['streams']
        if len(sm) != 1:
            fails.append(f'stream block of {dst.name} not found')
            continue
        walk_ints(dst._pkt_ctx_ft, sm[0]['packet.context'], f'{dst.name}.packet.context', fails)
        if dst._er_header_ft is not None and 'event.header' in sm[0]:
            walk_ints(dst._er_header_ft, sm[0]['event.header'], f'{dst.name}.event.header', fails)
        if dst.event_record_common_context_field_type is not None:
            walk_ints(dst.event_record_common_context_field_type, sm[0]['event.context'], f'{dst.name}.event.context', fails)
        for ert in dst.event_record_types:
            em = [e for e in md['events'] if e['name'] == ert.name and (not has_id or e.get('stream_id') == dst.id)]
            if len(em) != 1:
                fails.append(f'event block of {dst.name}/{ert.name} not found')
                continue
            e = em[0]
            if e['id'] != ert.id:
                fails.append(f'event {ert.name}: id configured {ert.id}, metadata {e["id"]}')
            if e.get('loglevel') != ert.log_level:
                fails.append(f'event {ert.name}: log level configured {ert.log_level}, metadata {e.get("loglevel")}')
            if ert.specific_context_field_type is not None:
                walk_ints(ert.specific_context_field_type, e['context'], f'{ert.name}.context', fails)
            if ert.payload_field_type is not None:
                walk_ints(ert.payload_field_type, e['fields'], f'{ert.name}.fields', fails)
    if tt._pkt_header_ft is not None and 'packet.header' in tr:
        walk_ints(tt._pkt_header_ft, tr['packet.header'], 'packet.header', fails)
    # the same attributes as the *document* states them (the configuration object is built by the code under test)
    if yaml_text is not None:
        try:
            yaml_members_check(yaml.safe_load(yaml_text.split('\n', 1)[1]), md, fails)
        except (KeyError, TypeError, ValueError) as ex:     # a document shape this reference does not handle
            fails.append(f'reference derivation from the document failed: {ex!r}')
    return fails, md


def null_reset_variant(text, rnd, workdir):
    """the same trace written differently: every clock type and event record type includes a partial file that states
    further attributes (description, precision, offset, origin, UUID; log level), and resets to null each of them
    that the original leaves out — by the documented patching rules (null in the including object resets the property to
    its default) the metadata must state exactly what it states for the original.  Returns the root document."""
    import yaml
    from harness import gencfg
    doc = yaml.safe_load(text.split('\n', 1)[1])
    tt = doc['trace']['type']
    extra = {'description': 'stated by the included file only', 'precision': 99,
             'offset': {'seconds': 1600463226, 'cycles': 200000}, 'origin-is-unix-epoch': False,
             'uuid': 'aaaaaaaa-bbbb-cccc-dddd-eeeeeeeeeeee'}
    os.makedirs(workdir, exist_ok=True)
    n = 0
    for cn, ck in list((tt.get('clock-types') or {}).items()):
        ck = ck or {}
        base = dict(ck)
        root = {'$include': [f'base-clock-{cn}.yaml']}
        root.update(ck)
        for k, v in extra.items():
            if k not in ck and rnd.random() < 0.8:
                base[k] = v
                root[k] = None
                n += 1
        with open(os.path.join(workdir, f'base-clock-{cn}.yaml'), 'w') as f:
            yaml.dump(base, f, Dumper=gencfg.QuotingDumper, sort_keys=False)
        tt['clock-types'][cn] = root
    for dn, d in tt['data-stream-types'].items():
        for en, e in list(d['event-record-types'].items()):
            e = e or {}
            if 'log-level' in e or rnd.random() < 0.3:
                continue
            with open(os.path.join(workdir, f'base-ert-{dn}-{en}.yaml'), 'w') as f:
                yaml.dump({'log-level': 4}, f, Dumper=gencfg.QuotingDumper, sort_keys=False)
            root = {'$include': [f'base-ert-{dn}-{en}.yaml']}
            root.update(e)
            root['log-level'] = None
            d['event-record-types'][en] = root
            n += 1
    return gencfg.HEADER + yaml.dump(doc, Dumper=gencfg.QuotingDumper, sort_keys=False, default_flow_style=False), n


def run(c):
    ob = c.proof_obligations()
    c.assumptions += ASSUME
    rnd = random.Random(c.seed)
    n = 40 if c.tier == 'quick' else 400
    import barectf
    import barectf.template as bt
    done = nfail = rej = 0
    samples = []
    work = common.scratch()
    nullreset = {'documents': 0, 'properties_reset': 0, 'failures': 0, 'rejected': 0}
    for i in range(n * 3):
        if done >= n:
            break
        text = decorate(gencfg.gen_config(rnd)[0], rnd)
        try:
            cfg = common.load_cfg(text)
        except Exception:
            rej += 1
            continue
        done += 1
        mdt = barectf.CodeGenerator(cfg).generate_metadata_stream().contents
        fails, md = oracle(cfg, mdt, text)
        if fails:
            nfail += 1
            if len(c.violations) < 5:
                c.violation({'property': 'C15', 'kind': 'metadata does not state a configured attribute / is not well-formed',
                             'failures': fails[:5], 'config_yaml': text})
        if len(samples) < 2:
            samples.append({'clock_types': len(cfg.trace.type.clock_types), 'env': list(cfg.trace.environment)[:4]})
        # the same trace with included partial files whose additional attributes the document resets to null: the
        # expectations stay those of the plain document
        if done % 2 == 0:
            wd = os.path.join(work, f'nr{done}')
            text2, nres = null_reset_variant(text, rnd, wd)
            if nres:
                try:
                    cfg2 = common.load_cfg(text2, [wd])
                except Exception as e:
                    nullreset['rejected'] += 1
                    if not c.violations:
                        c.violation({'property': 'C15', 'kind': 'a document that resets included properties to null is refused',
                                     'error': str(e)[:300], 'config_yaml': text2})
                    continue
                nullreset['documents'] += 1
                nullreset['properties_reset'] += nres
                mdt2 = barectf.CodeGenerator(cfg2).generate_metadata_stream().contents
                fails2, _ = oracle(cfg2, mdt2, text)
                if fails2:
                    nullreset['failures'] += 1
                    if len(c.violations) < 5:
                        c.violation({'property': 'C15', 'kind': 'metadata states an attribute of an included file that the document '
                                     'resets to null (or misses a configured one)', 'failures': fails2[:5], 'config_yaml': text2,
                                     'inclusion_directory_files': {fn: open(os.path.join(wd, fn)).read() for fn in sorted(os.listdir(wd))[:6]}})
    # the escape filter and the emission rules: real filter vs Lean model
    strs = NASTY + [''.join(rnd.choice('ab"\\\n\t é') for _ in range(rnd.randint(0, 12))) for _ in range(200)]
    q = [json.dumps({'op': 'escape', 'hex': s.encode().hex()}) for s in strs]
    got = common.drv_run(q)
    ndiff = 0
    for s, g in zip(strs, got):
        real = bt._filt_escape_dq(s).encode().hex()
        if real != g:
            ndiff += 1
            if ndiff == 1 and not c.violations:
                bare = '\n' in bt._filt_escape_dq(s)
                c.violation({'property': 'C15', 'kind': 'escape filter differs from the model' + (': a raw new-line survives escaping' if bare else ''),
                             'string': s, 'implementation': bt._filt_escape_dq(s), 'model_hex': g}, found_input=bare)
    c.coverage.update({'correspondence': {'configurations': done, 'attribute_failures': nfail, 'generator_rejections': rej,
                                          'escape_strings': len(strs), 'escape_differences': ndiff,
                                          'null_reset_variants': nullreset},
                       'evaluations': done + len(strs), 'disagreements_checked': ndiff, 'samples': samples})
    if not c.violations and not ob['ok']:
        c.violation({'property': 'C15', 'kind': 'proof obligation no longer checks', 'failures': ob['failures'],
                     'log': ob['log'][-1500:]}, found_input=False)
    if c.tier == 'thorough' and ob['ok']:
        ok, log = c.leanchecker(['BVM.Props.C15'])
        if not ok:
            c.violation({'property': 'C15', 'kind': 'leanchecker rejects the compiled proofs', 'log': log}, found_input=False)


def replay(c, path):
    import barectf
    r = json.load(open(path))
    c.coverage.update({'obligations': 1, 'discharged': 1, 'checker_cmd': 'replay', 'samples': [path]})
    if 'config_yaml' in r:
        cfg = common.load_cfg(r['config_yaml'])
        fails, _ = oracle(cfg, barectf.CodeGenerator(cfg).generate_metadata_stream().contents, r['config_yaml'])
        print(fails)
        if fails:
            c.violation(r)
