"""C09 — configurations violating a documented constraint are never accepted."""
import collections
import io
import multiprocessing as mp
import os
import random
from concurrent.futures import ProcessPoolExecutor
from harness import common, hfront, gencfg, genfront, genv2, faults, schematr

ASSUME = [
    'every operator of the fault catalogue (harness/faults.py) makes the document violate a constraint stated in '
    'docs/modules/yaml/pages/*.adoc; "accepted" means configuration_from_file returned a configuration',
    'the schema half of the model is regenerated from /repo/barectf/schemas on every run (harness/schematr.py) and '
    'interpreted by Model/Schema.lean; the Python half (Model/Build.lean) and the interpreter are tied to the code by '
    'accept/reject agreement in both directions on valid documents and on every mutant',
    'unreferenced field type aliases are not validated by barectf (finding F16, recorded): operators are applied to '
    'objects that are used',
]

STAGES3 = ['config/3/config-pre-include', 'config/3/config-pre-field-type-expansion',
           'config/3/config-pre-log-level-alias-sub', 'config/3/config']


def real_load(text, world):
    r = hfront.real_config(text, world)
    if r[0] == 'ok':
        return ('accept',)
    if r[0] == 'err':
        return ('reject', r[1], r[2][-300:])
    return ('crash', r[1], r[2][-300:])


def real_schema(tree, sid, version):
    p = hfront.mk_parser(version)
    r = hfront.run_real(lambda: p._schema_validator.validate(tree, sid))
    return {'ok': 'valid', 'err': 'invalid'}.get(r[0], 'crash:' + str(r[1]))


def worker(task):
    seed, workdir, nmut, slot = task
    rnd = random.Random(seed)
    cfg, _ = gencfg.gen_config_tree(rnd, rnd.choice([1, 2, 3, 3]), 'layout')
    recs = []
    # the valid document itself (re-expressed half of the time)
    docs = [('valid', None, 'valid', cfg)]
    app = faults.applicable(cfg)
    rnd.shuffle(app)
    # prefer distinct operators
    seen, picks = set(), []
    for oi, site in app:
        if oi not in seen:
            seen.add(oi)
            picks.append((oi, site))
    rnd.shuffle(picks)
    # round-robin over the whole catalogue: this configuration's slots come first, so that every operator is applied
    # several times in every run whatever the seed
    nops = len(faults.OPS)
    mine = [(slot * nmut + j) % nops for j in range(nmut)]
    picks.sort(key=lambda x: (0 if x[0] in mine else 1))
    extra = [x for x in app if x not in picks]
    for oi, site in (picks + extra)[:nmut]:
        m = faults.apply(cfg, oi, site, rnd)
        if m is not None:
            docs.append((faults.OPS[oi][0], site[0], site[2], m))
    for i, (op, sk, where, tree) in enumerate(docs):
        variants = [(tree, [{}], False)]
        if rnd.random() < 0.4:
            try:
                doc, dirs, _ = genfront.Reexpress(rnd, tree, p_alias=0.4, p_inherit=0.3, p_include=0.6, ndirs=2).run()
                variants.append((doc, dirs, True))
            except Exception:  # a mutant may break the re-expression's assumptions: plain only
                pass
        for j, (doc, dirs, reexpressed) in enumerate(variants):
            w = hfront.World(dirs, False, True, 3)
            w.materialise(os.path.join(workdir, f'd{i}_{j}'))
            try:
                text = hfront.dump_yaml(doc, v3root=True)
                loaded = hfront.load_yaml(text)[0]
                tj = hfront.yj(loaded)
            except Exception as ex:  # noqa
                continue
            verdict = real_load(text, w)
            stages = {sid: real_schema(loaded, sid, 3) for sid in STAGES3} if not reexpressed else {}
            recs.append({'op': op, 'site': sk, 'where': where, 'text': text, 'dirs': dirs, 'loaded': w.loaded, 'tree': tj,
                         'verdict': verdict, 'stages': stages, 'reexpressed': reexpressed, 'group': f'{seed}:{i}'})
    return recs


def unordered(t):
    """canonical form of a tree up to the key order of its mappings"""
    if isinstance(t, dict):
        return ('m', tuple(sorted((k, unordered(v)) for k, v in t.items())))
    if isinstance(t, list):
        return ('s', tuple(unordered(x) for x in t))
    return (type(t).__name__, repr(t))


def run(c):
    c.assumptions += ASSUME
    # the schema half of the model is regenerated from /repo; if the schema files can no longer be translated
    # (a keyword, pattern or shape the interpreter does not model) the model is not compared with anything: the
    # obligation is broken and only the implementation-side search runs
    model_ok = True
    try:
        tstats = schematr.write_if_changed()
        c.coverage['schema_translation'] = {k: tstats[k] for k in ('files', 'definitions', 'store_entries', 'dangling_refs', 'changed')}
    except schematr.Untranslatable as ex:
        model_ok = False
        c.coverage['schema_translation'] = {'error': f'schema files of /repo cannot be translated: {ex}'}
    ob = c.proof_obligations()
    if not model_ok:
        ob = dict(ob, ok=False, failures=[c.coverage['schema_translation']['error']] + list(ob['failures']))
    thorough = c.tier == 'thorough'
    work = common.scratch()
    # witnesses first: repaired findings must stay repaired, the recorded one is replayed
    import json
    wst = {}
    for e in c.known_entries('fixed') + c.known_entries('known'):
        wt = json.load(open(os.path.join(common.VERIF, e['witness'])))
        w = hfront.World(wt['dirs'], False, True, 3)
        w.materialise(os.path.join(work, 'wit_' + e['id'] + e['status']))
        v = real_load(wt['doc_yaml'], w)
        wst[e['id'] + ':' + e['status']] = v[0]
        if e['status'] == 'fixed' and v[0] != 'reject':
            c.violation(dict(wt, property='C09', kind='a repaired finding is back: ' + e['line'], real=list(v)))
        elif e['status'] == 'known' and v[0] == 'accept':
            c.known_finding(e, 'an unused field type alias holding an invalid field type object (size 99) is accepted')
    c.coverage['finding_witnesses'] = wst
    ncfg, nmut = (120, 40) if thorough else (16, 22)
    tasks = [(c.seed * 100000 + i, os.path.join(work, f'c{i}'), nmut, i) for i in range(ncfg)]
    with ProcessPoolExecutor(max_workers=min(common.NPROC, 14), mp_context=mp.get_context('fork')) as ex:
        results = [r for rs in ex.map(worker, tasks, chunksize=1) for r in rs]
    pk3 = hfront.pkg_dir_files(3)
    # A re-expressed mutant counts only if the reference expansion (Lean expand3, the patcher proved in
    # Props/C12) gives it the same effective tree as the plain mutant: re-expression can erase a fault.
    elines = [{'op': 'expand3', 'doc': r['tree'], 'dirs': r['loaded'] + [pk3], 'ignore': False} for r in results]
    eout = common.drv_run(elines)       # expansion model only (no schema inside): usable even if translation failed
    plain_eff = {}
    for r, line in zip(results, eout):
        m = hfront.parse_model(line)
        r['eff'] = unordered(m[1]) if m[0] == 'ok' else None
        if not r['reexpressed']:
            plain_eff[r['group']] = r['eff']
    kept = []
    dropped = 0
    for r in results:
        if r['reexpressed'] and (r['eff'] is None or plain_eff.get(r['group']) != r['eff']):
            dropped += 1
            continue
        kept.append(r)
    results = kept
    lines = []
    for r in results:
        lines.append({'op': 'load3', 'doc': r['tree'], 'dirs': r['loaded'] + [pk3], 'ignore': False})
        for sid in r['stages']:
            lines.append({'op': 'validate', 'schema': sid, 'doc': r['tree']})
    out = common.drv_run(lines)
    st = collections.Counter()
    per_op = collections.defaultdict(collections.Counter)
    per_where = collections.Counter()
    dis, k = [], 0
    known16 = {e['id']: e for e in c.known_entries('known')}
    for r in results:
        mline = out[k]
        k += 1
        v = r['verdict']
        st['documents'] += 1
        st['reexpressed'] += r['reexpressed']
        st['reexpressions_dropped_as_not_equivalent'] = dropped
        model = 'accept' if mline.startswith('ok ') else mline.split()[0]
        per_op[r['op']][v[0]] += 1
        per_where[r['where']] += 1
        rep = {'property': 'C09', 'operator': r['op'], 'site': r['site'], 'where': r['where'], 'doc_yaml': r['text'],
               'dirs': r['dirs'], 'real': list(v), 'model': mline[:200]}
        if r['op'] == 'valid':
            st['valid_' + v[0]] += 1
        else:
            st['mutants'] += 1
            if v[0] == 'accept' and r['op'] == 'unused-alias-invalid-object' and 'F16' in known16:
                st['mutants_accepted_known_finding'] += 1
                c.known_finding(known16['F16'], 'an unused field type alias holding an invalid field type object '
                                '(size 99) is accepted')
            elif v[0] == 'accept':
                st['mutants_accepted'] += 1
                c.violation(dict(rep, kind=f'a configuration violating a documented constraint ({r["op"]} at {r["where"]}) is accepted'))
            elif v[0] == 'crash':
                st['mutants_crashing'] += 1      # C10's oracle reports these
            else:
                st['mutants_rejected'] += 1
        # accept/reject agreement with the model (both directions)
        if not model_ok:
            for _sid in r['stages']:
                k += 1
            continue
        if model == 'unknown':
            st['model_unknown'] += 1
        elif (model == 'accept') != (v[0] == 'accept') or (model == 'crash') != (v[0] == 'crash'):
            st['load_disagreements'] += 1
            dis.append(dict(rep, kind='H-load'))
        for sid, rv in r['stages'].items():
            ml = out[k]
            k += 1
            st['schema_evaluations'] += 1
            if ml == 'unknown' and rv.startswith('crash'):
                continue
            if ml != rv:
                st['schema_disagreements'] += 1
                dis.append(dict(rep, kind='H-schema', schema=sid, real_schema=rv, model_schema=ml))
    c.coverage['correspondence'] = {'H-frontend (fault catalogue)': dict(st), 'per_operator': {k_: dict(v_) for k_, v_ in sorted(per_op.items())},
                                    'sites': dict(per_where), 'operators': len(faults.OPS)}
    c.coverage['evaluations'] = st['documents']
    c.coverage['disagreements_checked'] = len(dis)
    c.coverage['disagreement_samples'] = [{k_: d[k_] for k_ in d if k_ not in ('dirs',)} for d in dis[:12]]
    if c.violations:
        return
    if dis:
        d = dis[0]
        c.violation({'property': 'C09', 'kind': 'correspondence broken: the Lean model of the loader (translated schemas + Python '
                     'checks) no longer gives the verdict of the implementation; no accepted configuration that violates a '
                     'documented constraint was found by the fault catalogue', 'obligation': d['kind'], 'case': d,
                     'proofs_ok': ob['ok']}, found_input=False)
    elif not ob['ok']:
        c.violation({'property': 'C09', 'kind': 'proof obligation no longer checks', 'failures': ob['failures'],
                     'log': ob['log'][-1500:]}, found_input=False)
    if thorough:
        ok, log = c.leanchecker(['BVM.Props.C09'])
        if not ok:
            c.violation({'property': 'C09', 'kind': 'leanchecker rejects the compiled proofs', 'log': log}, found_input=False)


def replay(c, path):
    import json
    rep = json.load(open(path))
    rep = rep.get('case', rep)
    work = common.scratch()
    w = hfront.World(rep['dirs'], False, True, 3)
    w.materialise(os.path.join(work, 'w'))
    v = real_load(rep['doc_yaml'], w)
    print('real loader:', v)
    c.coverage.update({'obligations': 1, 'discharged': 1, 'checker_cmd': 'replay of ' + path})
    if v[0] != 'reject':
        c.violation(rep)
