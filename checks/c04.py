"""C04 — every packet given to the back end is a well-formed CTF packet."""
from checks import rtcommon as rt
from harness import common, hrt, oracles, tsdl

ASSUME = [
    'a packet "given to the back end at packet closing time" is a delivery where the packet was open before the '
    'closing function ran and is closed after it; deliveries of a platform whose close was ignored are finding F9',
    'fields are compared reduced to their field size, as the property says; content-size equality with the end of '
    'the last record is checked by decoding (the reader must land exactly on content_size) when the size fields are '
    'wide enough to be decodable',
]


def oracle(cs, h, lines):
    fails = []
    if cs.md is None:
        return []
    if lines and (lines[-1] in ('oob', 'assert') or lines[-1].startswith('killed')):
        return []
    f = cs.d['feat']
    tf = cs.ir['feat']
    facts = rt.call_facts(cs, h, lines)
    # discarded count visible before each log line: the `disc` of the previous `ret`
    disc_at, disc = {}, 0
    for i, l in enumerate(lines):
        disc_at[i] = disc
        if l.startswith('ret '):
            disc = int(rt.kv(l)['disc'])
    stream = [s for s in cs.md['streams'] if s.get('id', cs.d['id']) == cs.d['id']]
    stream = stream[0] if len(cs.md['streams']) > 1 else cs.md['streams'][0]
    closed_before = 0
    bo = cs.md['trace']['byte_order'][1]
    for data, really, idx in oracles.delivered_packets(lines):
        if not really:
            continue
        r = tsdl.Reader(data, bo)
        try:
            ph = cs.md['trace'].get('packet.header')
            hd = r.struct(ph) if ph is not None else {}
            ctx = r.struct(stream['packet.context'])
        except tsdl.TsdlError as ex:
            fails.append(f'packet at log line {idx}: header/context do not decode: {ex}')
            closed_before += 1
            continue
        total = 8 * len(data)
        if tf['magic'] and hd.get('magic') != 0xc1fc1fc1 & ((1 << tf['magic']['sz']) - 1):
            fails.append(f'packet at log line {idx}: magic is {hd.get("magic"):#x}')
        if tf['uuid'] and bytes(hd.get('uuid', [])) != bytes(cs.ir['uuid']):
            fails.append(f'packet at log line {idx}: uuid differs from the trace type UUID')
        if tf['dstId'] and hd.get('stream_id') != cs.d['id']:
            fails.append(f'packet at log line {idx}: stream_id is {hd.get("stream_id")}, data stream type ID is {cs.d["id"]}')
        if ctx['packet_size'] != total & ((1 << f['totalSize']['sz']) - 1):
            fails.append(f'packet at log line {idx}: packet_size field {ctx["packet_size"]} != buffer size {total} bits')
        if f['seqNum'] and ctx['packet_seq_num'] != closed_before & ((1 << f['seqNum']['sz']) - 1):
            fails.append(f'packet at log line {idx}: packet_seq_num {ctx["packet_seq_num"]} but {closed_before} packets were closed before')
        if f['discarded'] and ctx['events_discarded'] != disc_at[idx] & ((1 << f['discarded']['sz']) - 1):
            fails.append(f'packet at log line {idx}: events_discarded {ctx["events_discarded"]} but {disc_at[idx]} records were discarded before')
        wide = total < (1 << f['totalSize']['sz']) and total < (1 << f['contentSize']['sz'])
        if wide:
            if ctx['content_size'] > total:
                fails.append(f'packet at log line {idx}: content_size {ctx["content_size"]} > total size {total}')
            else:
                try:
                    tsdl.read_packet(cs.md, data, stream)
                except tsdl.TsdlError as ex:
                    fails.append(f'packet at log line {idx}: {ex}')
        closed_before += 1
    return fails


def run(c):
    ob = c.proof_obligations()
    c.assumptions += ASSUME
    n, k = (8, 40) if c.tier == 'quick' else (60, 150)
    rt.replay_witnesses(c, oracle)
    cases, dis, stats = rt.run_rt(c, oracle, n, k, gen_hist=rt.flushing(hrt.gen_history),
                                  known_classifier=rt.known_by(c, [('F9', rt.f9_territory)]))
    # bit-packed packet headers / contexts (feature field types with sub-byte alignments and odd sizes)
    cases_b, dis_b, stats_b = rt.run_rt(c, oracle, max(3, n // 2), k, gen_hist=rt.flushing(hrt.gen_history),
                                        known_classifier=rt.known_by(c, [('F9', rt.f9_territory)]),
                                        label='H-runtime (bit-packed features)', profile='rt-bits', seed_base=300)
    dis = dis + dis_b
    # data stream type ID field types at the capacity boundary (exactly wide enough; one bit short must be refused —
    # a configuration that is accepted is run like any other, and the packet's stream ID must be its data stream type's)
    import random as _random, yaml as _yaml
    from harness import gencfg
    rb = _random.Random(c.seed * 31 + 5)
    bound = {'generated': 0, 'accepted': 0, 'refused': 0}
    work_b = common.scratch()
    combos = [(cls, narrow, nd) for cls in ('uint', 'uenum') for narrow in (True, False) for nd in (3, 5)]
    combos = combos * (1 if c.tier == 'quick' else 4)
    for bi, (cls, narrow, nd) in enumerate(combos):
        tree, _info = gencfg.gen_config_tree(rb, nd, 'rt')
        bits = (nd - 1).bit_length()
        sz = bits - (1 if narrow else 0)
        ft = {'class': cls, 'size': max(1, sz), 'alignment': 8}
        if ft['class'] == 'uenum':
            ft['mappings'] = {'ALL': [[0, (1 << ft['size']) - 1]]}
        tree['trace']['type'].setdefault('$features', {})['data-stream-type-id-field-type'] = ft
        text = gencfg.HEADER + _yaml.safe_dump(tree, sort_keys=False, default_flow_style=False)
        bound['generated'] += 1
        try:
            common.load_cfg(text)
        except Exception:
            bound['refused'] += 1
            continue
        bound['accepted'] += 1
        names = sorted(tree['trace']['type']['data-stream-types'])
        made = rt.make_case(c.seed * 1000 + 7000 + bi, work_b, yaml_text=text, dname=names[-1])
        cs = made[0]
        if not isinstance(cs, rt.Case):
            continue
        hs = [rt.flushing(hrt.gen_history)(rb, cs.ir, cs.dname, cs.openargs, cs.recs, cs.hdr, cs.sizes, toggles=False) for _ in range(6)]
        for h, lines in zip(hs, hrt.run_impl(cs.exe, cs.ir, cs.dname, hs)):
            fails = oracle(cs, h, lines)
            if fails:
                c.violation({'property': 'C04', 'kind': 'property fails on the implementation (data stream type ID field type at the '
                             'capacity boundary)', 'failures': fails[:5], 'config_yaml': cs.text, 'dst': cs.dname, 'history': h})
                break
    c.coverage['correspondence']['data stream type ID field types at the capacity boundary'] = bound
    # layouts of the packet header / context (feature field types with every alignment) without compiling: the
    # operation trees must be the model's; if not, the differing configuration is built and run under this oracle
    from checks import lycommon as ly
    bad = ly.op_tree_sweep(c, 300 if c.tier == 'thorough' else 60, seed_base=900)
    if bad and not c.violations:
        cs, (qq, exp, got, lab) = bad
        if not ly.hunt_layout_failure(c, cs, 'C04', nhist=30, oracle=oracle):
            c.violation({'property': 'C04', 'kind': f'correspondence broken ({lab}): the operation tree differs from the Lean '
                         'builder, and no malformed delivered packet was found', 'obligation': f'H-layout {lab} stream',
                         'config_yaml': cs.text, 'query': qq, 'implementation': exp, 'model': got}, found_input=False)
    rt.decide(c, ob, dis, oracle=oracle, known_classifier=rt.known_by(c, [('F9', rt.f9_territory)]))
    if c.tier == 'thorough' and ob['ok']:
        ok, log = c.leanchecker(['BVM.Props.C04'])
        if not ok:
            c.violation({'property': 'C04', 'kind': 'leanchecker rejects the compiled proofs', 'log': log}, found_input=False)


def replay(c, path):
    rt.replay(c, path, oracle)
