"""C08 — integer fields of any size, bit offset and byte order are encoded bit-exactly."""
import json
import subprocess
from harness import common, hbits


def oracle_ints(cs, h, lines):
    """every integer the tracer writes, read back bit by bit with the metadata layout: user fields (C01's oracle), the
    timestamps the tracer samples (C05's: written through the same macros, with the clock value as the macro
    argument) and the packet header / context fields (C04's)"""
    from checks import c01, c04, c05
    return c01.oracle(cs, h, lines) + c05.oracle_values(cs, h, lines) + c04.oracle(cs, h, lines)


def run(c):
    ob = c.proof_obligations()
    c.assumptions += [
        'right shift of a negative signed carrier is arithmetic (gcc/clang; implementation-defined in ISO C)',
        'bit-field unit type is uint8_t (bt_bitfield_write_{le,be} wrappers), as in the generated code',
        'host is little-endian (memcpy fast path model); big-endian hosts are excluded by the generated #error',
    ]
    work = common.scratch()
    exes, exes_ub = {}, {}
    for bo in ('le', 'be'):
        exes[bo], exes_ub[bo] = hbits.build(bo, work)
    cases, nshapes, allshapes = hbits.gen_cases(c.tier, c.seed)
    impl = hbits.run_impl(exes, cases)
    model_ok = ob['ok']
    model = hbits.run_model(cases) if common.os.path.exists(common.DRV) else None
    ref_bad, corr_bad = [], []
    for i, cs in enumerate(cases):
        ref = bytes(hbits.reference(cs['bo'], bytes.fromhex(cs['bg']), cs['base'], cs['start'], cs['len'], cs['v'])).hex()
        if impl[i] != ref:
            ref_bad.append((i, ref))
        if model is not None and model[i] != impl[i]:
            corr_bad.append(i)
    # UBSan run over the same cases (oracle for no_ub_shift)
    ub_fail = None
    if all(exes_ub.values()):
        try:
            hbits.run_impl(exes_ub, cases)
        except RuntimeError as e:
            ub_fail = str(e)
    c.coverage.update({
        'correspondence': {
            'harness': 'H-bits', 'cases': len(cases), 'shapes_covered': nshapes, 'shapes_total': allshapes,
            'exhaustive_over_shapes': nshapes == allshapes,
            'model_vs_impl_disagreements': len(corr_bad), 'impl_vs_bitwise_reference_failures': len(ref_bad),
            'ubsan_shift_run': 'clean' if ub_fail is None else ub_fail,
        },
        'evaluations': len(cases),
        'disagreements_checked': len(corr_bad),
        'samples': cases[:3] + cases[len(cases) // 2:len(cases) // 2 + 2],
        'exhaustive': nshapes == allshapes,
    })
    # decision
    for (i, ref) in ref_bad[:5]:
        c.violation({'property': 'C08', 'kind': 'implementation differs from the bit-by-bit reference',
                     'case': cases[i], 'impl': impl[i], 'expected': ref,
                     'replay_cmd': './check C08 --replay <this file>'})
    if ub_fail is not None and not ref_bad:
        c.violation({'property': 'C08', 'kind': 'undefined shift reported by UBSan in the bit-field macro', 'detail': ub_fail})
    if not ref_bad and ub_fail is None:
        if corr_bad:
            i = corr_bad[0]
            c.violation({'property': 'C08', 'kind': 'correspondence broken: Lean bfWrite differs from the macro, '
                         'but no input on which the macro differs from the bit-by-bit reference was found',
                         'obligation': 'H-bits model-vs-implementation stream', 'case': cases[i],
                         'impl': impl[i], 'model': model[i]}, found_input=False)
        elif not model_ok:
            c.violation({'property': 'C08', 'kind': 'proof obligation no longer checks', 'failures': ob['failures'],
                         'log': ob['log']}, found_input=False)
    # the start bit and alignment every generated serialisation function passes to the macros (static in-byte
    # offsets of the operation builder): real `_OpBuilder` vs the Lean builder, many layouts, nothing compiled
    from checks import lycommon as ly
    bad = ly.op_tree_sweep(c, 300 if c.tier == 'thorough' else 60)
    if bad and not c.violations:
        cs, (qq, exp, got, lab) = bad
        if not ly.hunt_layout_failure(c, cs, 'C08'):
            c.violation({'property': 'C08', 'kind': f'correspondence broken ({lab}): the operation tree (alignments, static start '
                         'bits of bit-field writes) differs from the Lean builder, and no value that decodes wrongly was found',
                         'obligation': f'H-layout {lab} stream', 'config_yaml': cs.text, 'query': qq,
                         'implementation': exp, 'model': got}, found_input=False)
    # the serialisation templates choose between the macros and the memcpy fast path: integers of generated, bit-packed
    # configurations (byte-sized integers that are not byte-aligned among them) written by the compiled tracer and read
    # back bit by bit with the metadata layout
    if not c.violations:
        from checks import rtcommon as rt, c01
        from harness import hrt
        nb, kb = (8, 30) if c.tier == 'quick' else (40, 80)
        # tracing stays enabled in these histories (what a disabled tracer ignores is finding F9, registered under the
        # properties it belongs to, not under C08)
        cases_b, dis_b, stats_b = rt.run_rt(c, oracle_ints, nb, kb, gen_hist=rt.flushing(hrt.gen_history),
                                            hist_kwargs={'toggles': False},
                                            label='H-runtime (bit-packed integers)', profile='rt-bits', seed_base=800)
        # configurations with several data stream types (event record types of the same name in different data stream
        # types, each with its own integer sizes): every tracing function must encode with its own field types
        cases_m, dis_m, stats_m = rt.run_rt(c, oracle_ints, max(4, nb // 2), kb, gen_hist=rt.flushing(hrt.gen_history),
                                            hist_kwargs={'toggles': False}, cfg_filter=lambda ir: len(ir['dsts']) >= 2,
                                            label='H-runtime (several data stream types)', profile='layout', seed_base=850)
        rt.decide(c, ob, dis_b + dis_m, oracle=oracle_ints, hist_kwargs={'toggles': False})
    if c.tier == 'thorough' and ob['ok']:
        ok, log = c.leanchecker(['BVM.Props.C08'])
        if not ok:
            c.violation({'property': 'C08', 'kind': 'leanchecker rejects the compiled proofs', 'log': log}, found_input=False)


def replay(c, path):
    r = json.load(open(path))
    cs = r['case']
    work = common.scratch()
    exe, _ = hbits.build(cs['bo'], work)
    impl = hbits.run_impl({cs['bo']: exe, ('be' if cs['bo'] == 'le' else 'le'): exe}, [cs])[0]
    ref = bytes(hbits.reference(cs['bo'], bytes.fromhex(cs['bg']), cs['base'], cs['start'], cs['len'], cs['v'])).hex()
    print('impl', impl, 'reference', ref)
    c.coverage.update({'obligations': 1, 'discharged': 1, 'checker_cmd': 'replay', 'samples': [cs]})
    if impl != ref:
        c.violation(r)
