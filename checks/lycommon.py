"""Shared pieces of the layout-family checks (C01, C13, C14, C15, C19): correspondence of what the real
generator produced (operation trees, metadata, header, object) with what the Lean model says."""
import json
from harness import common, irx, hlayout, tsdl, oracles


def stream_of(cs):
    return [s for s in cs.md['streams'] if s.get('id', cs.d['id']) == cs.d['id']][0] if len(cs.md['streams']) > 1 \
        else cs.md['streams'][0]


def static_queries(cs):
    """(query, expected-from-the-implementation, stream label) for op trees, implicit structures, TSDL IR, prototypes"""
    q = []
    tt = cs.cfg.trace.type
    real = irx.real_ds_ops(cs.cfg)
    protos = hlayout.header_protos(cs.files[cs.ir['prefix']['file'] + '.h'], cs.ir['prefix']['ident'])
    p = cs.ir['prefix']['ident']
    for d in cs.ir['dsts']:
        dn = d['name']
        dst = [x for x in tt.data_stream_types if x.name == dn][0]
        for root, sft in (('ph', tt._pkt_header_ft), ('pc', dst._pkt_ctx_ft), ('h', dst._er_header_ft)):
            q.append(({'op': 'struct', 'dst': dn, 'root': root}, irx.show_struct_real(sft, root), 'implicit-struct'))
        for root in ('ph', 'pc', 'h', 'cc'):
            r = real[dn][root]
            q.append(({'op': 'ops', 'dst': dn, 'root': root, 'ert': ''},
                      irx.show_real_op(r, root) if r is not None else 'none', 'op-tree'))
            st = hlayout.md_struct(cs.md, cs.ir, dn, root) if cs.md else None
            if cs.md:
                q.append(({'op': 'tsdl', 'dst': dn, 'root': root, 'ert': ''},
                          hlayout.tstruct_str(st) if st else 'none', 'tsdl-ir'))
        for e in d['erts']:
            for root in ('sc', 'p'):
                r = real[dn]['er'][e['name']][root]
                q.append(({'op': 'ops', 'dst': dn, 'root': root, 'ert': e['name']},
                          irx.show_real_op(r, root) if r is not None else 'none', 'op-tree'))
                if cs.md:
                    st = hlayout.md_struct(cs.md, cs.ir, dn, root, e['name'])
                    q.append(({'op': 'tsdl', 'dst': dn, 'root': root, 'ert': e['name']},
                              hlayout.tstruct_str(st) if st else 'none', 'tsdl-ir'))
            q.append(({'op': 'proto', 'dst': dn, 'fn': 'trace', 'ert': e['name']},
                      protos.get(f"{p}{dn}_trace_{e['name']}"), 'prototype'))
        q.append(({'op': 'proto', 'dst': dn, 'fn': 'open'}, protos.get(f"{p}{dn}_open_packet"), 'prototype'))
    return q


def run_queries(cs, queries):
    """returns list of (query, impl, model, label) that differ, and the number compared"""
    lines = [json.dumps(cs.ir)] + [json.dumps(x[0]) for x in queries]
    got = common.drv_run(lines)[1:]
    bad = [(q, exp, g, lab) for (q, exp, lab), g in zip(queries, got) if exp != g]
    return bad, len(queries)
