"""Shared pieces of the layout-family checks (C01, C13, C14, C15, C19): correspondence of what the real
generator produced (operation trees, metadata, header, object) with what the Lean model says."""
import json
from harness import common, irx, hlayout, tsdl, oracles


def stream_of(cs):
    return [s for s in cs.md['streams'] if s.get('id', cs.d['id']) == cs.d['id']][0] if len(cs.md['streams']) > 1 \
        else cs.md['streams'][0]


def static_queries(cs):
    """(query, expected-from-the-implementation, stream label) for op trees, implicit structures, TSDL IR, prototypes"""
    q = []
    tt = cs.cfg.trace.type
    real = irx.real_ds_ops(cs.cfg)
    protos = hlayout.header_protos(cs.files[cs.ir['prefix']['file'] + '.h'], cs.ir['prefix']['ident'])
    p = cs.ir['prefix']['ident']
    for d in cs.ir['dsts']:
        dn = d['name']
        dst = [x for x in tt.data_stream_types if x.name == dn][0]
        for root, sft in (('ph', tt._pkt_header_ft), ('pc', dst._pkt_ctx_ft), ('h', dst._er_header_ft)):
            q.append(({'op': 'struct', 'dst': dn, 'root': root}, irx.show_struct_real(sft, root), 'implicit-struct'))
        for root in ('ph', 'pc', 'h', 'cc'):
            r = real[dn][root]
            q.append(({'op': 'ops', 'dst': dn, 'root': root, 'ert': ''},
                      irx.show_real_op(r, root) if r is not None else 'none', 'op-tree'))
            st = hlayout.md_struct(cs.md, cs.ir, dn, root) if cs.md else None
            if cs.md:
                q.append(({'op': 'tsdl', 'dst': dn, 'root': root, 'ert': ''},
                          hlayout.tstruct_str(st) if st else 'none', 'tsdl-ir'))
        for e in d['erts']:
            for root in ('sc', 'p'):
                r = real[dn]['er'][e['name']][root]
                q.append(({'op': 'ops', 'dst': dn, 'root': root, 'ert': e['name']},
                          irx.show_real_op(r, root) if r is not None else 'none', 'op-tree'))
                if cs.md:
                    st = hlayout.md_struct(cs.md, cs.ir, dn, root, e['name'])
                    q.append(({'op': 'tsdl', 'dst': dn, 'root': root, 'ert': e['name']},
                              hlayout.tstruct_str(st) if st else 'none', 'tsdl-ir'))
            q.append(({'op': 'proto', 'dst': dn, 'fn': 'trace', 'ert': e['name']},
                      protos.get(f"{p}{dn}_trace_{e['name']}"), 'prototype'))
        q.append(({'op': 'proto', 'dst': dn, 'fn': 'open'}, protos.get(f"{p}{dn}_open_packet"), 'prototype'))
    return q


def run_queries(cs, queries):
    """returns list of (query, impl, model, label) that differ, and the number compared"""
    lines = [json.dumps(cs.ir)] + [json.dumps(x[0]) for x in queries]
    got = common.drv_run(lines)[1:]
    bad = [(q, exp, g, lab) for (q, exp, lab), g in zip(queries, got) if exp != g]
    return bad, len(queries)


class _Lite:
    """a configuration loaded by the real front end, without building or running anything"""

    def __init__(self, text, cfg, ir):
        self.text, self.cfg, self.ir = text, cfg, ir


def op_tree_sweep(c, n, seed_base=700, profiles=('layout', 'layout-pad', 'layout-bits'), label='H-layout op-tree sweep'):
    """operation trees (alignment statements and the *static* start bit of every bit-field write) and implicit
    structures of `n` generated configurations: real `_OpBuilder` output vs Lean `buildRoot`.  Cheap (no C is
    compiled), so it covers many more layouts than the runs of the compiled tracer."""
    import random
    from harness import gencfg
    ncmp, bad_first, nbad, ncfg = 0, None, 0, 0
    bad_scored = c.__dict__.setdefault('bad_layout_scored', [])
    for i in range(n):
        rnd = random.Random(c.seed * 100000 + seed_base + i)
        text = gencfg.gen_config(rnd, profile=profiles[i % len(profiles)])[0]
        try:
            cfg = common.load_cfg(text)
        except Exception:
            continue
        ir = irx.cfg_ir(cfg)
        cs = _Lite(text, cfg, ir)
        tt = cfg.trace.type
        real = irx.real_ds_ops(cfg)
        q = []
        for d in ir['dsts']:
            dn = d['name']
            dst = [x for x in tt.data_stream_types if x.name == dn][0]
            for root, sft in (('ph', tt._pkt_header_ft), ('pc', dst._pkt_ctx_ft), ('h', dst._er_header_ft)):
                q.append(({'op': 'struct', 'dst': dn, 'root': root}, irx.show_struct_real(sft, root), 'implicit-struct'))
            for root in ('ph', 'pc', 'h', 'cc'):
                r = real[dn][root]
                q.append(({'op': 'ops', 'dst': dn, 'root': root, 'ert': ''},
                          irx.show_real_op(r, root) if r is not None else 'none', 'op-tree'))
            for e in d['erts']:
                for root in ('sc', 'p'):
                    r = real[dn]['er'][e['name']][root]
                    q.append(({'op': 'ops', 'dst': dn, 'root': root, 'ert': e['name']},
                              irx.show_real_op(r, root) if r is not None else 'none', 'op-tree'))
        bad, n1 = run_queries(cs, q)
        ncfg += 1
        ncmp += n1
        nbad += len(bad)
        if bad and bad_first is None:
            bad_first = (cs, bad[0])
        if bad:
            # how harmful the difference looks: a static start bit which is a number on the implementation side and
            # differs from the model's (a benign difference is `oib=0` against `oib=-` on byte-sized elements)
            import re
            score = 0
            for (_q, exp, got, _lab) in bad:
                a, b = re.findall(r'oib=(\S+?)[)\]]', exp or ''), re.findall(r'oib=(\S+?)[)\]]', got or '')
                score += sum(1 for x, y in zip(a, b) if x != y and x not in ('-', '0')) + (5 if len(a) != len(b) else 0)
            bad_scored.append((score, text))
    c.coverage.setdefault('correspondence', {})[label] = {'configs': ncfg, 'comparisons': ncmp, 'disagreements': nbad}
    return bad_first


def hunt_layout_failure(c, cs, prop, nhist=30, oracle=None):
    """configurations whose operation tree differs from the model: their tracers are built and run (then tracers of
    fresh configurations, until the time budget of `rtcommon.search_impl` is spent) under the property's oracle
    (default: the C01 oracle — every delivered packet is decoded with the generated metadata).  Reports a violation
    with the failing history if one is found; returns True in that case."""
    from checks import rtcommon as rt, c01
    scored = getattr(c, 'bad_layout_scored', [])
    if sum(1 for s_, _ in scored if s_ > 0) < 6:
        # look at many more layouts (cheap: nothing is compiled) for differences that look harmful
        op_tree_sweep(c, 500, seed_base=20000, label='H-layout op-tree sweep (failing-input search)')
    scored = sorted(getattr(c, 'bad_layout_scored', []), key=lambda x: -x[0])
    texts = []
    for _s, t in [x for x in scored if x[0] > 0][:40] + scored[:6] + [(0, cs.text)]:
        if t not in texts:
            texts.append(t)
    return rt.search_impl(c, oracle or c01.oracle, nhist=nhist, texts=texts, profiles=('layout-pad', 'layout-bits', 'layout', 'rt', 'rt-pad', 'rt-bits'),
                          known_classifier=rt.known_by(c, [('F9', rt.f9_territory)]), hist_kwargs={'toggles': False})
