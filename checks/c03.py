"""C03 — each tracing call is recorded exactly once, in order, or counted as discarded."""
from checks import rtcommon as rt
from harness import common, hrt, oracles

ASSUME = [
    'ProtocolOK: the first packet is opened before the first tracing call; buffers are at least header+context large',
    'the decoding oracle needs content/total size fields wide enough to hold the sizes (8*bufBytes < 2^width); '
    'configurations whose size fields are narrower are skipped by the decoding oracle (undecodable by design)',
    'histories end with enable(1) + the documented finalisation idiom so that every kept record is delivered',
]


def size_fields_wide_enough(cs, h):
    f = cs.d['feat']
    mx = 8 * max([h['buf']] + [b for _, b in h['plat']['setbufs']])
    return mx < (1 << f['totalSize']['sz']) and mx < (1 << f['contentSize']['sz'])


def oracle(cs, h, lines):
    fails = []
    if lines and lines[-1] == 'oob':
        # the run stopped at a store outside the packet buffer (guard page).  If that happened inside a tracing
        # call which had passed its enable test and was not counted as discarded, the record of that call is not
        # inside any packet and is not counted: neither outcome of the property
        segs = rt.segments(lines)
        ncalls = len(segs)
        if ncalls and ncalls <= len(h['calls']) and h['calls'][ncalls - 1][0] == 'trace':
            return [f'tracing call #{ncalls} ({h["calls"][ncalls - 1][1]}) stores outside the packet buffer while its record is '
                    'serialised: the record is neither inside a delivered packet nor counted as discarded']
        return []
    if lines and (lines[-1] == 'assert' or lines[-1].startswith('killed')):
        return []          # nothing to decode after a crash; C02 reports it
    if cs.md is None or not size_fields_wide_enough(cs, h):
        return []
    facts = rt.call_facts(cs, h, lines)
    pkts, errs = oracles.decode_all(cs.md, lines, cs.d['id'])
    fails += errs
    if errs:
        return fails
    decoded = [ev for _, p in pkts for ev in p['events']]
    enabled = [f for f in facts if f['call'][0] == 'trace' and f['en_at_test'] and f['ret']]
    kept = [f for f in enabled if (f['disc_after'] - f['disc_before']) % (1 << 32) == 0]
    final_disc = facts[-1]['disc_after'] if facts and facts[-1]['ret'] else None
    if final_disc is not None and (len(enabled) - len(decoded)) % (1 << 32) != final_disc:
        fails.append(f'{len(enabled)} tracing calls while enabled, {len(decoded)} records in delivered packets, '
                     f'discarded counter {final_disc}')
    if len(kept) != len(decoded):
        fails.append(f'{len(kept)} calls not counted as discarded but {len(decoded)} records delivered')
    erts = {e['name']: e for e in cs.d['erts']}
    for i, (f, ev) in enumerate(zip(kept, decoded)):
        e = erts[f['call'][1]]
        exp = oracles.expected_record(cs.d, e, f['call'][2])
        got = (ev['stream_ctx'], ev['ctx'], ev['fields'])
        if ev['name'] != e['name'] or ev['id'] != e['id']:
            fails.append(f'record {i}: expected event record type {e["name"]} (id {e["id"]}), decoded {ev["name"]} (id {ev["id"]})')
            break
        if exp != got:
            fails.append(f'record {i} ({e["name"]}): decoded values differ from the traced arguments: expected {exp}, decoded {got}')
            break
    # a discarded call: back end answered "full" during the call, or the record cannot fit an empty packet
    nfull = 0
    for f in facts:
        fulls = [l for l in f['seg'] if l.startswith('cb full')]
        answers = [(h['plat']['full'][nfull + j] if nfull + j < len(h['plat']['full']) else 0) for j in range(len(fulls))]
        nfull += len(fulls)
        if f['call'][0] == 'trace' and f['ret'] and (f['disc_after'] - f['disc_before']) % (1 << 32) != 0:
            switched_to_empty = any(l.startswith('cb open') and ' f=1' in l for l in f['seg']) and f['ret']['empty'] == '1'
            if not any(answers) and not switched_to_empty and \
                    any(l.startswith('cb ') and not l.startswith('cb clock') for l in f['seg']):
                fails.append('record discarded although the back end never answered "full" during the call and the '
                             'current packet is not an empty one it was just moved to')
    return fails




def run(c):
    ob = c.proof_obligations()
    c.assumptions += ASSUME
    n, k = (8, 40) if c.tier == 'quick' else (60, 150)
    rt.replay_witnesses(c, oracle)
    cases, dis, stats = rt.run_rt(c, oracle, n, k, gen_hist=rt.flushing(hrt.gen_history), known_classifier=rt.known_by(c, [('F9', rt.f9_territory)]))
    cases_b, dis_b, stats_b = rt.run_rt(c, oracle, max(3, n // 2), k, gen_hist=rt.flushing(hrt.gen_history),
                                        known_classifier=rt.known_by(c, [('F9', rt.f9_territory)]),
                                        label='H-runtime (bit-packed)', profile='rt-bits', seed_base=300)
    # packets that one record fills alone, in layouts with several record types of mixed sizes: the size of a record
    # depends on the offset it is written at, and after a packet switch it is the size at the new offset that counts
    cases_a, dis_a, stats_a = rt.run_rt(c, oracle, n + n // 2, k + 20, gen_hist=rt.flushing(hrt.gen_history),
                                        hist_kwargs={'alone_p': 0.85, 'mono_p': 0.05},
                                        known_classifier=rt.known_by(c, [('F9', rt.f9_territory)]),
                                        label='H-runtime (one record fills the packet)', profile='layout', seed_base=600)
    dis = dis + dis_b + dis_a
    rt.decide(c, ob, dis, oracle=oracle, known_classifier=rt.known_by(c, [('F9', rt.f9_territory)]))
    if c.tier == 'thorough' and ob['ok']:
        ok, log = c.leanchecker(['BVM.Props.C03'])
        if not ok:
            c.violation({'property': 'C03', 'kind': 'leanchecker rejects the compiled proofs', 'log': log}, found_input=False)


def replay(c, path):
    rt.replay(c, path, oracle)
