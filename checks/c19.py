"""C19 — generated names carry the configured prefixes; distinct-prefix tracers coexist."""
import json
import os
import random
import re
import subprocess
from checks import rtcommon as rt
from checks import lycommon as ly
from harness import common, hlayout, gencfg, irx, tsdl

ASSUME = [
    'reading: "different prefixes" means neither is a prefix of the other (prefix_overlap_possible exhibits two unequal, '
    'nested prefixes whose symbol sets intersect); nested pairs are linked too and their outcome is logged, not judged',
    'external symbols are read from the compiled object with nm -g --defined-only; file names from the directory the '
    'CLI wrote into',
]

BARECTF = '/venv/bin/barectf'


def cli_generate(yaml_text, outdir, prefix=None):
    os.makedirs(outdir, exist_ok=True)
    cfgp = os.path.join(outdir, 'config.yaml')
    with open(cfgp, 'w') as f:
        f.write(yaml_text)
    gen = os.path.join(outdir, 'gen')
    os.makedirs(gen, exist_ok=True)
    cmd = [BARECTF, 'generate', '-c', gen, '-H', gen, '-m', gen]
    if prefix is not None:
        cmd += ['--prefix', prefix]
    cmd.append(cfgp)
    env = dict(os.environ, PYTHONPATH=common.REPO, PYTHONWARNINGS='ignore')
    r = subprocess.run(cmd, capture_output=True, text=True, env=env)
    return r.returncode, r.stderr, gen


MAIN2 = r'''
#include <stdio.h>
#include <string.h>
#include "%(f1)s.h"
#include "%(f2)s.h"
static int full(void *d) { (void) d; return 0; }
static struct %(p1)s%(dst)s_ctx c1; static struct %(p2)s%(dst)s_ctx c2;
static unsigned char b1[512], b2[512];
static void o1(void *d) { (void) d; %(p1)s%(dst)s_open_packet(&c1); }
static void cl1(void *d) { (void) d; %(p1)s%(dst)s_close_packet(&c1); }
static void o2(void *d) { (void) d; %(p2)s%(dst)s_open_packet(&c2); }
static void cl2(void *d) { (void) d; %(p2)s%(dst)s_close_packet(&c2); }
%(clk)s
int main(void) {
	struct %(p1)splatform_callbacks k1; struct %(p2)splatform_callbacks k2; int i;
	memset(&k1, 0, sizeof k1); memset(&k2, 0, sizeof k2);
	k1.is_backend_full = full; k1.open_packet = o1; k1.close_packet = cl1;
	k2.is_backend_full = full; k2.open_packet = o2; k2.close_packet = cl2;
	%(setclk)s
	%(p1)sinit(&c1, b1, sizeof b1, k1, NULL); %(p2)sinit(&c2, b2, sizeof b2, k2, NULL);
	o1(NULL); o2(NULL);
	for (i = 0; i < 3; i++) { %(p1)s%(dst)s_trace_%(ev)s(&c1, (unsigned char) (i + 1)); %(p2)s%(dst)s_trace_%(ev)s(&c2, (unsigned char) (i + 1)); }
	cl1(NULL); cl2(NULL);
	for (i = 0; i < 512; i++) printf("%%02x", b1[i]); putchar('\n');
	for (i = 0; i < 512; i++) printf("%%02x", b2[i]); putchar('\n');
	return 0;
}
'''

LINK_CFG = '''--- !<tag:barectf.org,2020/3/config>
trace:
  type:
    native-byte-order: le
    %(clocks)s
    data-stream-types:
      main:
        $is-default: true
        %(defclk)s
        event-record-types:
          ev:
            payload-field-type:
              class: struct
              members:
                - a: {field-type: {class: uint, size: 8}}
options:
  code-generation:
    header:
      identifier-prefix-definition: true
      default-data-stream-type-name-definition: true
'''


def link_two(work, p1, p2, with_clock, files=None):
    """two tracers generated from the same configuration with identifier prefixes p1/p2 — given on the command line
    (`--prefix`), or, when `files` = (file name prefix 1, file name prefix 2) is given, by the object form of the
    configuration's `prefix` option — linked into one program"""
    y = LINK_CFG % {'clocks': 'clock-types:\n      clk: {$c-type: uint32_t}' if with_clock else '',
                    'defclk': '$default-clock-type-name: clk' if with_clock else ''}
    d = os.path.join(work, f'link_{p1}_{p2}_{int(with_clock)}_{"o" if files else "c"}')
    if files:
        ys = [y.replace('  code-generation:\n', '  code-generation:\n    prefix: {identifier: %s, file-name: "%s"}\n' % (p, f))
              for p, f in zip((p1, p2), files)]
        rc1, e1, g1 = cli_generate(ys[0], os.path.join(d, 'a'))
        rc2, e2, g2 = cli_generate(ys[1], os.path.join(d, 'b'))
    else:
        rc1, e1, g1 = cli_generate(y, os.path.join(d, 'a'), p1)
        rc2, e2, g2 = cli_generate(y, os.path.join(d, 'b'), p2)
    if rc1 or rc2:
        return 'generation failed: ' + (e1 + e2)[:300], None
    f1, f2 = files if files else (p1.rstrip('_'), p2.rstrip('_'))
    clk = ('static uint32_t tick; static uint32_t clkcb(void *d) { (void) d; return ++tick; }' if with_clock else '')
    setclk = ('k1.clk_clock_get_value = clkcb; k2.clk_clock_get_value = clkcb;' if with_clock else '')
    with open(os.path.join(d, 'main.c'), 'w') as f:
        f.write(MAIN2 % {'f1': f1, 'f2': f2, 'p1': p1, 'p2': p2, 'dst': 'main', 'ev': 'ev', 'clk': clk, 'setclk': setclk})
    rc, log = common.cc(['gcc', '-O1', '-I', g1, '-I', g2, 'main.c', os.path.join(g1, f1 + '.c'), os.path.join(g2, f2 + '.c'),
                         '-o', 'two'], cwd=d)
    if rc != 0:
        return 'link failed: ' + log[:500], None
    r = subprocess.run([os.path.join(d, 'two')], capture_output=True, text=True, timeout=20)
    return None, r.stdout.split('\n')[:2]


def shim_check(work):
    """tracepoint() shim of extra/barectf-tracepoint.h on the header option definitions (CLI-generated header)"""
    y = (LINK_CFG % {'clocks': '', 'defclk': ''}).replace('          ev:', '          prov_tp:')
    d = os.path.join(work, 'shim')
    rc, err, gen = cli_generate(y, d, 'sh_')
    if rc:
        return ['generation failed: ' + err[:200]]
    with open(os.path.join(gen, 'm.c'), 'w') as f:
        f.write('#include "sh.h"\n#define BARECTF_TRACEPOINT_CTX ctx\n#include "%s/extra/barectf-tracepoint.h"\n'
                'TP = tracepoint(prov, tp, 3) ;\nSH = sh_trace_prov_tp ;\n' % common.REPO)
    r = subprocess.run(['gcc', '-E', '-P', 'm.c'], cwd=gen, capture_output=True, text=True)
    fails = []
    if not re.search(r'TP = sh_main_trace_prov_tp\s*\(ctx, 3\) ;', r.stdout):
        fails.append('tracepoint(prov, tp, 3) does not expand to sh_main_trace_prov_tp(ctx, 3): ' + r.stdout[-200:] + r.stderr[-200:])
    if 'SH = sh_main_trace_prov_tp ;' not in r.stdout:
        fails.append('sh_trace_prov_tp does not expand to sh_main_trace_prov_tp')
    return fails


def doc_default(cs):
    """the default data stream type as the *document* states it (`$is-default: true`), not as the configuration object
    built by the code under test reports it"""
    import yaml
    doc = yaml.safe_load(cs.text.split('\n', 1)[1])
    names = [n for n, d in doc['trace']['type']['data-stream-types'].items() if d.get('$is-default') is True]
    return names[0] if names else None


def doc_prefixes(cs):
    """(identifier prefix, file name prefix) as the *document* states them, by the documented rule (cfg-obj.adoc,
    code generation options: a string PREFIX means identifier prefix `PREFIX_` and file name prefix `PREFIX`; an
    object gives both; the default is `barectf`)"""
    import yaml
    doc = yaml.safe_load(cs.text.split('\n', 1)[1])
    pn = ((doc.get('options') or {}).get('code-generation') or {}).get('prefix', 'barectf')
    if isinstance(pn, str):
        return pn + '_', pn
    return pn['identifier'], pn['file-name']


def doc_header_options(cs):
    """(identifier-prefix-definition, default-data-stream-type-name-definition) as the document states them (both
    default to false: cfg-obj.adoc)"""
    import yaml
    doc = yaml.safe_load(cs.text.split('\n', 1)[1])
    h = ((doc.get('options') or {}).get('code-generation') or {}).get('header') or {}
    return bool(h.get('identifier-prefix-definition', False)), bool(h.get('default-data-stream-type-name-definition', False))


def header_definitions(cs):
    """the object-like macros the public header defines (gcc -dM -E)"""
    d = os.path.dirname(cs.exe)
    fp = cs.ir['prefix']['file']
    r = subprocess.run(['gcc', '-dM', '-E', f'{fp}.h'], cwd=d, capture_output=True, text=True)
    out = {}
    for line in r.stdout.split('\n'):
        m = re.match(r'#define (_BARECTF_\w+)\s*(.*)$', line)
        if m:
            out[m.group(1)] = m.group(2).strip()
    return out


def macro_expansions(cs, work):
    """preprocessor view of the shorthand macros and of the tracepoint() shim"""
    d = os.path.dirname(cs.exe)
    fp, p = cs.ir['prefix']['file'], cs.ir['prefix']['ident']
    out = {}
    dflt = doc_default(cs)
    if dflt is None:
        return out, {}
    dd = [x for x in cs.ir['dsts'] if x['name'] == dflt][0]
    src = f'#include "{fp}.h"\n' + ''.join(f'MACRO {e["name"]} = {p}trace_{e["name"]} ;\n' for e in dd['erts'])
    tp = {}
    if all(doc_header_options(cs)):
        src += f'#define BARECTF_TRACEPOINT_CTX ctx\n#include "{common.REPO}/extra/barectf-tracepoint.h"\n'
        for e in dd['erts']:
            if '_' in e['name'].strip('_'):
                a, b = e['name'].split('_', 1)
                if a and b:
                    src += f'TP {e["name"]} = tracepoint({a}, {b}) ;\n'
    with open(os.path.join(d, 'macros.c'), 'w') as f:
        f.write(src)
    r = subprocess.run(['gcc', '-E', '-P', 'macros.c'], cwd=d, capture_output=True, text=True)
    for line in r.stdout.split('\n'):
        m = re.match(r'MACRO (\w+) = (\S+) ;', line)
        if m:
            out[m.group(1)] = m.group(2)
        m = re.match(r'TP (\w+) = (\S+?)\s*\(ctx\) ;', line)
        if m:
            tp[m.group(1)] = m.group(2)
    return out, tp


def run(c):
    ob = c.proof_obligations()
    c.assumptions += ASSUME
    n = 10 if c.tier == 'quick' else 60
    work = common.scratch()
    from concurrent.futures import ThreadPoolExecutor
    seeds = [c.seed * 1000 + i for i in range(n)]
    with ThreadPoolExecutor(max_workers=min(common.NPROC, 12)) as ex:
        made = list(ex.map(lambda s: rt.make_case(s, work), seeds))
    cases = [m[0] for m in made if isinstance(m[0], rt.Case)]
    rnd = random.Random(c.seed)
    stats = {'symbol_sets_compared': 0, 'symbol_differences': 0, 'cli_runs': 0, 'file_name_differences': 0,
             'macros_checked': 0, 'tracepoint_shims_checked': 0, 'two_tracer_links': 0}
    for cs in cases:
        d = os.path.dirname(cs.exe)
        fp, p = cs.ir['prefix']['file'], cs.ir['prefix']['ident']
        dp, dfp = doc_prefixes(cs)
        stats['prefixes_compared_with_the_document'] = stats.get('prefixes_compared_with_the_document', 0) + 1
        if (p, fp) != (dp, dfp):
            c.violation({'property': 'C19', 'kind': 'the prefixes of the configuration differ from those the document states '
                         '(string form: identifier prefix PREFIX_, file name prefix PREFIX)', 'document': [dp, dfp],
                         'configuration_object': [p, fp], 'config_yaml': cs.text})
            continue
        rc, log = common.cc(['gcc', '-c', '-O1', f'{fp}.c', '-o', 'names.o'], cwd=d)
        syms = hlayout.nm_defined('names.o', d)
        model = common.drv_run([json.dumps(cs.ir), json.dumps({'op': 'syms'}), json.dumps({'op': 'macros'})])
        stats['symbol_sets_compared'] += 1
        if ' '.join(syms) != model[1]:
            stats['symbol_differences'] += 1
            extra = sorted(set(syms) - set(model[1].split()))
            bad = [s for s in syms if not s.startswith(p)]
            if bad:
                c.violation({'property': 'C19', 'kind': 'external symbol without the identifier prefix', 'symbols': bad[:10],
                             'prefix': p, 'config_yaml': cs.text})
            else:
                c.violation({'property': 'C19', 'kind': 'correspondence broken: external symbols of the compiled tracer differ '
                             'from the model; all carry the prefix', 'obligation': 'nm vs symbolsOf', 'only_in_object': extra[:10],
                             'only_in_model': sorted(set(model[1].split()) - set(syms))[:10], 'config_yaml': cs.text},
                            found_input=False)
        # the header option definitions, as the document asks for them
        want_p, want_d = doc_header_options(cs)
        defs = header_definitions(cs)
        stats['header_option_definitions_checked'] = stats.get('header_option_definitions_checked', 0) + 2
        got_p = defs.get('_BARECTF_IDENTIFIER_PREFIX')
        got_d = defs.get('_BARECTF_DEFAULT_DATA_STREAM_TYPE_NAME')
        exp_p = p if want_p else None
        exp_d = doc_default(cs) if want_d else None
        if got_p != exp_p or got_d != exp_d:
            c.violation({'property': 'C19', 'kind': 'the header does not define exactly the prefix / default data stream type '
                         'name macros the document asks for (header options)', 'document_options':
                         {'identifier-prefix-definition': want_p, 'default-data-stream-type-name-definition': want_d},
                         'expected': {'_BARECTF_IDENTIFIER_PREFIX': exp_p, '_BARECTF_DEFAULT_DATA_STREAM_TYPE_NAME': exp_d},
                         'header': {'_BARECTF_IDENTIFIER_PREFIX': got_p, '_BARECTF_DEFAULT_DATA_STREAM_TYPE_NAME': got_d},
                         'config_yaml': cs.text})
        # shorthand macros and the tracepoint shim
        exp, tp = macro_expansions(cs, work)
        want = dict(x.split('=') for x in model[2].split()) if model[2] else {}
        for ev, got in exp.items():
            stats['macros_checked'] += 1
            if got != f'{p}{doc_default(cs)}_trace_{ev}' or (cs.ir['default'] == doc_default(cs) and want.get(f'{p}trace_{ev}') != got):
                c.violation({'property': 'C19', 'kind': 'shorthand macro does not resolve to the default stream tracing function',
                             'macro': f'{p}trace_{ev}', 'expands_to': got, 'config_yaml': cs.text})
        for ev, got in tp.items():
            stats['tracepoint_shims_checked'] += 1
            if got != f'{p}{doc_default(cs)}_trace_{ev}':
                c.violation({'property': 'C19', 'kind': 'tracepoint() shim does not resolve to the tracing function',
                             'event': ev, 'expands_to': got, 'config_yaml': cs.text})
        # CLI file names, with and without --prefix
        for pref in (None, rnd.choice(['zz_', 'q', 'my_pfx__'])):
            rcg, err, gen = cli_generate(cs.text, os.path.join(d, f'cli_{pref}'), pref)
            stats['cli_runs'] += 1
            if rcg != 0:
                c.inconclusive.append('CLI failed on a valid configuration: ' + err[:200])
                continue
            files = sorted(os.listdir(gen))
            ir2 = dict(cs.ir)
            if pref is not None:
                ir2['prefix'] = {'ident': pref, 'file': pref.rstrip('_')}
            want_files = sorted(common.drv_run([json.dumps(ir2), json.dumps({'op': 'files'})])[1].split())
            fpx = ir2['prefix']['file']
            if files != want_files:
                stats['file_name_differences'] += 1
                notp = [f for f in files if f != 'metadata' and not f.startswith(fpx)]
                c.violation({'property': 'C19', 'kind': 'generated file names do not carry the file name prefix' if notp else
                             'correspondence broken: file names differ from the model', 'files': files, 'expected': want_files,
                             'cli_prefix': pref, 'config_yaml': cs.text}, found_input=bool(notp))
            if pref is not None:
                rc2, _ = common.cc(['gcc', '-c', '-O1', f'{fpx}.c', '-o', 'p.o'], cwd=gen)
                s2 = hlayout.nm_defined('p.o', gen)
                bad = [s for s in s2 if not s.startswith(pref)]
                if rc2 != 0 or bad:
                    c.violation({'property': 'C19', 'kind': 'external symbol without the --prefix identifier prefix',
                                 'symbols': bad[:10], 'cli_prefix': pref, 'config_yaml': cs.text})
    for f in shim_check(work):
        c.violation({'property': 'C19', 'kind': f})
    stats['tracepoint_shims_checked'] += 1
    # two tracers in one program
    for (p1, p2) in [('aa_', 'bb_'), ('x_', 'y1_'), ('t', 'u_')] + ([('ab_', 'ba_'), ('k_', 'kk_')] if c.tier == 'thorough' else []):
        for wc in (False, True):
            err, outs = link_two(work, p1, p2, wc)
            stats['two_tracer_links'] += 1
            nested = p1.startswith(p2) or p2.startswith(p1)
            if err:
                if nested:
                    c.coverage.setdefault('nested_prefix_outcomes', []).append(f'{p1}/{p2}: {err[:80]}')
                else:
                    c.violation({'property': 'C19', 'kind': 'two tracers with prefix-free prefixes do not link/run', 'prefixes': [p1, p2],
                                 'detail': err})
            elif outs and len(outs) == 2 and not wc and outs[0] != outs[1]:
                c.violation({'property': 'C19', 'kind': 'two tracers of the same configuration linked together produce different '
                             'streams', 'prefixes': [p1, p2], 'streams': outs})
    # the same with the object form of the `prefix` option: identifier and file name prefixes chosen independently
    # (file name prefixes need not be identifiers: the documentation's own example is `acme-corp`)
    for (p1, f1), (p2, f2) in [(('net_', 'tracer-net'), ('disk_', 'tracer-disk')), (('a_', 'acme-corp'), ('b_', 'acme.corp2')),
                               (('x_', 'one'), ('y_', 'two'))]:
        err, outs = link_two(work, p1, p2, False, files=(f1, f2))
        stats['two_tracer_links'] += 1
        if err:
            c.violation({'property': 'C19', 'kind': 'two tracers with different identifier and file name prefixes (object form of '
                         'the prefix option) do not link/run', 'prefixes': [[p1, f1], [p2, f2]], 'detail': err})
        elif outs and len(outs) == 2 and outs[0] != outs[1]:
            c.violation({'property': 'C19', 'kind': 'two tracers of the same configuration linked together produce different '
                         'streams', 'prefixes': [[p1, f1], [p2, f2]], 'streams': outs})
    c.coverage.update({'correspondence': stats, 'evaluations': sum(stats.values()), 'disagreements_checked': stats['symbol_differences'] + stats['file_name_differences'],
                       'samples': [{'config_seed': cs.seed, 'prefix': cs.ir['prefix'], 'default': cs.ir['default']} for cs in cases[:4]]})
    if not c.violations and not ob['ok']:
        c.violation({'property': 'C19', 'kind': 'proof obligation no longer checks', 'failures': ob['failures'],
                     'log': ob['log'][-1500:]}, found_input=False)
    if c.tier == 'thorough' and ob['ok']:
        ok, log = c.leanchecker(['BVM.Props.C19'])
        if not ok:
            c.violation({'property': 'C19', 'kind': 'leanchecker rejects the compiled proofs', 'log': log}, found_input=False)


def replay(c, path):
    print(open(path).read()[:2000])
    c.coverage.update({'obligations': 1, 'discharged': 1, 'checker_cmd': 'replay (inspect)', 'samples': [path]})
