"""Shared flow of the runtime-property checks (C02–C07, C16, C17): proof obligations, H-runtime
correspondence (implementation vs Lean model on the same histories), property oracle evaluated on
the implementation's own output, decision, evidence."""
import json
import os
import random
from concurrent.futures import ThreadPoolExecutor
from harness import common, gencfg, irx, hrt, oracles


class Case:
    """one configuration under test: real objects, IR, compiled runner, probes, pools"""

    def __init__(self, seed, text, cfg, ir, dname, exe, openargs, recs, hdr, sizes):
        self.seed, self.text, self.cfg, self.ir, self.dname = seed, text, cfg, ir, dname
        self.exe, self.openargs, self.recs, self.hdr, self.sizes = exe, openargs, recs, hdr, sizes
        self.d = [x for x in ir['dsts'] if x['name'] == dname][0]
        self.files = None
        self.md = None
        self.md_error = None


def make_case(seed, work, cfg_filter=None, extra_cflags=(), max_tries=40, yaml_text=None, dname=None, profile='rt',
              dst_pred=None, darr_len=None, nrec=10):
    """generates (or takes) a configuration, loads it with the real front end, builds its runner"""
    rnd = random.Random(seed)
    rejected = 0
    for _ in range(max_tries):
        text = yaml_text or gencfg.gen_config(rnd, profile=profile)[0]
        try:
            cfg = common.load_cfg(text)
        except Exception:
            rejected += 1
            if yaml_text:
                raise
            continue
        ir = irx.cfg_ir(cfg)
        if cfg_filter and not cfg_filter(ir):
            rejected += 1
            if yaml_text:
                break
            continue
        pool = [x for x in ir['dsts'] if dst_pred is None or dst_pred(x)] or ir['dsts']
        dn = dname or rnd.choice(pool)['name']
        exe, files = hrt.build_runner(cfg, ir, dn, os.path.join(work, f'c{seed}'), extra_cflags=extra_cflags)
        if exe is None:
            # whose fault: does the generated source compile on its own (plain gcc, no runner)?
            fpx = ir['prefix']['file']
            rc_alone, log_alone = common.cc(['gcc', '-c', f'{fpx}.c', '-o', 'alone.o'], cwd=os.path.join(work, f'c{seed}'))
            return ('compile-failed', text, files, rejected, rc_alone == 0, log_alone)
        openargs, recs = hrt.gen_pool(rnd, ir, dn, nrec=nrec, darr_len=darr_len)
        hdr, sizes = hrt.probe(exe, ir, dn, openargs, recs)
        cs = Case(seed, text, cfg, ir, dn, exe, openargs, recs, hdr, sizes)
        cs.files = files
        try:
            from harness import tsdl
            cs.md = tsdl.parse(files['metadata'])
        except Exception as ex:
            cs.md_error = str(ex)
        return cs, rejected
    return None, rejected


def segments(lines):
    """splits an output log into per-API-call segments (each ends with its `ret` line)"""
    segs, cur = [], []
    for l in lines:
        cur.append(l)
        if l.startswith('ret '):
            segs.append(cur)
            cur = []
    if cur:
        segs.append(cur)
    return segs


def kv(line):
    out = {}
    for tok in line.split()[1:]:
        if '=' in tok:
            k, v = tok.split('=', 1)
            out[k] = v
    return out


def run_rt(c, oracle, nconfigs, nhist, gen_hist=None, cfg_filter=None, hist_kwargs=None,
           known_classifier=None, extra_cflags=(), label='H-runtime', profile='rt', seed_base=0, dst_pred=None):
    """oracle(case, hist, impl_lines) -> list of failure strings (empty = property held on this run).
    known_classifier(case, hist, impl_lines, failures) -> known-finding entry or None."""
    work = common.scratch()
    seeds = [c.seed * 1000 + seed_base + i for i in range(nconfigs)]
    with ThreadPoolExecutor(max_workers=min(common.NPROC, 12)) as ex:
        made = list(ex.map(lambda s: make_case(s, work, cfg_filter, extra_cflags, profile=profile, dst_pred=dst_pred), seeds))
    cases, rejected, compile_failed = [], 0, []
    for m in made:
        if isinstance(m[0], Case):
            cases.append(m[0])
            rejected += m[1]
        elif m[0] == 'compile-failed':
            compile_failed.append(m)
        else:
            rejected += m[1]
    stats = {'configs': len(cases), 'histories': 0, 'calls': 0, 'model_vs_impl_disagreements': 0,
             'oracle_failures': 0, 'generator_rejections': rejected, 'compile_failures': len(compile_failed),
             'halting_histories': 0, 'packets_delivered': 0, 'discards': 0, 'tracer_packet_switches': 0}
    samples = []
    gen_hist = gen_hist or hrt.gen_history
    hist_kwargs = hist_kwargs or {}
    disagreements = []
    for cs in cases:
        rnd = random.Random(cs.seed * 7 + 1)
        hists = [gen_hist(rnd, cs.ir, cs.dname, cs.openargs, cs.recs, cs.hdr, cs.sizes, **hist_kwargs)
                 for _ in range(nhist)]
        impl = hrt.run_impl(cs.exe, cs.ir, cs.dname, hists)
        model = hrt.run_model(cs.ir, cs.dname, hists) if os.path.exists(common.DRV) else [None] * len(hists)
        for h, a, b in zip(hists, impl, model):
            stats['histories'] += 1
            stats['calls'] += len(h['calls'])
            stats['packets_delivered'] += sum(1 for l in a if l.startswith('dl '))
            if a and a[-1] in ('oob', 'assert') or any(l.startswith('killed') for l in a):
                stats['halting_histories'] += 1
            stats['tracer_packet_switches'] += sum(1 for l in a if l.startswith('cb close') and ' f=1' in l)
            fails = oracle(cs, h, a)
            if fails:
                stats['oracle_failures'] += 1
                entry = known_classifier(cs, h, a, fails) if known_classifier else None
                if entry is not None:
                    c.known_finding(entry, fails[0])
                else:
                    c.violation({'property': c.id, 'kind': 'property fails on the implementation',
                                 'failures': fails[:5], 'config_yaml': cs.text, 'dst': cs.dname, 'history': h,
                                 'impl_log': a[:400], 'model_log': b[:400] if b else None,
                                 'replay_cmd': f'./check {c.id} --replay <this file>'})
            if b is not None and a != b:
                stats['model_vs_impl_disagreements'] += 1
                first = next((i for i, (x, y) in enumerate(zip(a, b)) if x != y), min(len(a), len(b)))
                disagreements.append((cs, h, first, a[first] if first < len(a) else None,
                                      b[first] if first < len(b) else None, bool(fails)))
            if len(samples) < 3 and len(h['calls']) < 12:
                samples.append({'config_seed': cs.seed, 'dst': cs.dname, 'buf': h['buf'], 'calls': [x[:2] for x in h['calls']],
                                'impl_tail': a[-2:]})
    c.coverage.setdefault('correspondence', {})[label] = stats
    c.coverage['evaluations'] = c.coverage.get('evaluations', 0) + stats['histories']
    c.coverage['disagreements_checked'] = c.coverage.get('disagreements_checked', 0) + len(disagreements)
    c.coverage.setdefault('samples', [])
    c.coverage['samples'] += samples
    for m in compile_failed[:3]:
        if len(m) > 4 and not m[4]:
            # the generated C source itself is rejected by the compiler, for a configuration the front end accepted:
            # there is no tracer, so no property of the tracer holds for this configuration
            if not c.violations:
                c.violation({'property': c.id, 'kind': 'the generated tracer does not compile '
                             '(gcc, default flags, no harness code involved) for a configuration the front end accepts: no '
                             'tracer exists for it, so the property does not hold', 'config_yaml': m[1],
                             'compiler': m[5][:1500]})
        else:
            c.inconclusive.append('generated tracer + runner does not compile: ' + m[2][:300])
    return cases, disagreements, stats


def search_impl(c, oracle, seconds=None, nhist=40, profiles=('rt', 'layout-pad', 'rt-bits', 'layout', 'rt-pad', 'layout-bits'), cfg_filter=None,
                dst_pred=None, known_classifier=None, texts=(), gen_hist=None, hist_kwargs=None, extra_cflags=()):
    """DESIGN §4 step 4, search on the implementation alone: a proof obligation or a correspondence stopped
    checking and the regular exploration found no input on which the property fails.  Before that is reported as
    `no-failing-input-found`, the implementation is run (no model) on `texts` (configurations on which the
    correspondence broke) and then on fresh generated configurations of several profiles, under the property's
    oracle, until one fails or the time budget is spent.  Returns True iff a violation with its input was reported."""
    import time
    seconds = seconds or (100 if c.tier == 'quick' else 400)
    t0 = time.time()
    work = common.scratch()
    gen_hist = gen_hist or flushing(hrt.gen_history)
    hist_kwargs = hist_kwargs or {}
    st = {'configs': 0, 'histories': 0, 'seconds': 0}
    c.coverage.setdefault('failing_input_search', st)
    batch, found = 0, False
    pending = list(texts)[:48]
    while time.time() - t0 < seconds and not found:
        if pending:
            # configurations on which a correspondence broke: more records, empty arrays favoured, every data
            # stream type, more histories
            jobs = [dict(seed=880000 + len(pending) * 100 + i, yaml_text=t, nrec=24, darr_len=lambda r: r.choice([0, 0, 0, 1, 2, 3]))
                    for i, t in enumerate(pending[:12])]
            pending = pending[12:]
            this_nhist = max(nhist, 150)
        else:
            jobs = [dict(seed=c.seed * 1000 + 500000 + batch * 12 + i, profile=profiles[(batch * 12 + i) % len(profiles)],
                         cfg_filter=cfg_filter, dst_pred=dst_pred) for i in range(12)]
            batch += 1
            this_nhist = nhist

        def mk(j):
            try:
                return make_case(j.pop('seed'), work, extra_cflags=extra_cflags, **j)
            except Exception:
                return (None, 0)
        with ThreadPoolExecutor(max_workers=min(common.NPROC, 12)) as ex:
            made = list(ex.map(mk, jobs))
        for m in made:
            cs = m[0]
            if not isinstance(cs, Case):
                continue
            st['configs'] += 1
            rnd = random.Random(cs.seed * 13 + 5)
            hk = dict(hist_kwargs)
            targeted = []
            if this_nhist > nhist:
                # every record of the pool alone, 1–3 times, in a buffer that it fills to the byte
                hdr_bytes = (max(cs.hdr) + 7) // 8
                for (en, a), sz in zip(cs.recs, cs.sizes):
                    for k in (1, 2, 3):
                        for slack in (0, 1):
                            targeted.append({'buf': hdr_bytes + (k * sz + 7) // 8 + slack,
                                             'plat': hrt.plat(openargs=cs.openargs), 'calls': [['open']] + [['trace', en, a]] * k})
            if this_nhist > nhist:
                hk.setdefault('mono_p', 0.6)      # exact fills: where a misplaced write leaves the buffer
            try:
                hists = [gen_hist(rnd, cs.ir, cs.dname, cs.openargs, cs.recs, cs.hdr, cs.sizes, **hk) for _ in range(this_nhist)]
            except TypeError:                   # a generator that does not take the extra keyword
                hists = [gen_hist(rnd, cs.ir, cs.dname, cs.openargs, cs.recs, cs.hdr, cs.sizes, **hist_kwargs)
                         for _ in range(this_nhist)]
            hists = targeted + hists
            for h, a in zip(hists, hrt.run_impl(cs.exe, cs.ir, cs.dname, hists)):
                st['histories'] += 1
                fails = oracle(cs, h, a)
                if not fails:
                    continue
                if known_classifier and known_classifier(cs, h, a, fails) is not None:
                    continue
                c.violation({'property': c.id, 'kind': 'property fails on the implementation (found by the search that '
                             'follows a broken proof obligation / correspondence)',
                             'failures': fails[:5], 'config_yaml': cs.text, 'dst': cs.dname, 'history': h,
                             'impl_log': a[:400], 'replay_cmd': f'./check {c.id} --replay <this file>'})
                found = True
                break
            if found:
                break
    st['seconds'] = round(time.time() - t0, 1)
    return found


def decide(c, ob, disagreements, hunt=None, oracle=None, **search_kw):
    """DESIGN §4 step 4 for the cases where model and code (or proof) stopped agreeing while the
    property oracle stayed quiet on everything explored."""
    if c.violations:
        return
    unexplained = [d for d in disagreements if not d[5]]
    if unexplained:
        cs, h, first, a, b, _ = unexplained[0]
        found = hunt(cs) if hunt else None
        if found:
            return
        if oracle is not None:
            texts = []
            for d in unexplained:
                if d[0].text not in texts:
                    texts.append(d[0].text)
            if search_impl(c, oracle, texts=texts, **search_kw):
                return
        c.violation({'property': c.id, 'kind': 'correspondence broken: the Lean runtime model no longer reproduces the '
                     'implementation, and no history on which the property fails on the implementation was found',
                     'obligation': 'H-runtime event stream (implementation vs Lean Model/Rt)',
                     'config_yaml': cs.text, 'dst': cs.dname, 'history': h, 'first_diff_index': first,
                     'impl_line': a, 'model_line': b}, found_input=False)
    elif not ob['ok']:
        if oracle is not None and search_impl(c, oracle, **search_kw):
            return
        c.violation({'property': c.id, 'kind': 'proof obligation no longer checks', 'failures': ob['failures'],
                     'log': ob['log'][-1500:]}, found_input=False)


def replay(c, path, oracle):
    r = json.load(open(path))
    work = common.scratch()
    made = make_case(1, work, yaml_text=r['config_yaml'], dname=r['dst'])
    cs = made[0]
    impl = hrt.run_impl(cs.exe, cs.ir, cs.dname, [r['history']])[0]
    fails = oracle(cs, r['history'], impl)
    print('\n'.join(impl[-10:]))
    print('oracle failures:', fails)
    c.coverage.update({'obligations': 1, 'discharged': 1, 'checker_cmd': 'replay of ' + path, 'samples': [r['history']]})
    if fails:
        c.violation(r)


# ---- helpers shared by the decoding oracles ------------------------------------------------

def call_facts(cs, h, lines):
    """per API call: (call, segment, enabled_at_test (trace only), disc_before, disc_after, ret kv)"""
    toggles = dict((a, b) for a, b in h['plat']['toggles'])
    has_clock = cs.d['clock'] is not None
    out = []
    en, disc = 1, 0
    for seg, call in zip(segments(lines), h['calls']):
        ret = kv(seg[-1]) if seg[-1].startswith('ret ') else None
        en_at_test = None
        if call[0] == 'trace':
            en_at_test = en
            cbs = [l for l in seg if l.startswith('cb ')]
            if has_clock and cbs:
                seq = int(cbs[0].split()[2])
                if seq in toggles:
                    en_at_test = toggles[seq]
        out.append({'call': call, 'seg': seg, 'en_at_test': en_at_test, 'disc_before': disc,
                    'disc_after': int(ret['disc']) if ret else None, 'ret': ret})
        if ret:
            en, disc = int(ret['en']), int(ret['disc'])
    return out


def flushing(gen):
    """wraps a history generator: re-enable tracing and run the documented finalisation idiom at the end"""
    def g(rnd, ir, dn, oa, recs, hdr, sizes, **kw):
        h = gen(rnd, ir, dn, oa, recs, hdr, sizes, **kw)
        if not h['calls'] or h['calls'][0][0] != 'open':
            h['calls'].insert(0, ['open'])
        h['calls'] += [['enable', 1], ['fin']]
        return h
    return g


def f9_territory(cs, h, lines):
    """True iff a platform-initiated open/close ran while tracing was disabled at some point of it
    (finding F9: those calls are silently ignored, which the documentation does not say)"""
    en = 1
    for f in call_facts(cs, h, lines):
        after = int(f['ret']['en']) if f['ret'] else en
        if f['call'][0] in ('open', 'close', 'fin') and any(l.startswith('cb open') or l.startswith('cb close') for l in f['seg']):
            if en == 0 or after == 0:
                return True
        en = after
    return False


def known_by(c, tests):
    """builds a known-finding classifier from [(finding id, predicate(cs, h, lines))]: a failing history
    belongs to a listed finding iff the finding is in known_findings.json (status known) and its
    predicate holds on that history"""
    entries = {e['id']: e for e in c.known_entries('known')}

    def classify(cs, h, lines, fails):
        for fid, pred in tests:
            if fid in entries and pred(cs, h, lines):
                return entries[fid]
        return None
    return classify


def replay_witnesses(c, oracle):
    """replays the committed witness of every `known` finding of this property on the implementation:
    prints its KNOWN-FINDING line if it still fails"""
    work = common.scratch()
    for e in c.known_entries('known'):
        w = json.load(open(os.path.join(common.VERIF, e['witness'])))
        h = w['histories'].get(c.id)
        if h is None:
            continue
        made = make_case(4242, work, yaml_text=w['config_yaml'], dname=w['dst'])
        cs = made[0]
        if not isinstance(cs, Case):
            c.inconclusive.append(f'witness of {e["id"]} does not build')
            continue
        lines = hrt.run_impl(cs.exe, cs.ir, cs.dname, [h])[0]
        fails = oracle(cs, h, lines)
        c.coverage.setdefault('known_finding_witnesses', {})[e['id']] = {'still_fails': bool(fails), 'first': fails[:1]}
        if fails:
            c.known_finding(e, fails[0])


def size_unstable(cs, h, lines):
    """True iff the hypothesis SizeStable is false on this history (finding F8), as evaluated by the
    Lean model: some record's size computed at call entry differs from its size at the content
    offset or at the offset where it is written"""
    out = hrt.run_model(cs.ir, cs.dname, [h], hyps=True)[0]
    return out[-1] == 'hyp SizeStable=0'
