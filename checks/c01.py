"""C01 — round trip: metadata-driven decoding returns exactly the traced values."""
import json
from checks import rtcommon as rt
from checks import lycommon as ly
from harness import common, hrt, oracles, tsdl, hlayout

ASSUME = [
    'the independent CTF reader (Python, strict TSDL parser + CTF 1.8 rules) is the oracle; the Lean reader is its '
    'twin and both are compared on every delivered packet',
    'size fields must be wide enough for the packet to be decodable at all (narrower fields are legal for C04 and make '
    'the stream undecodable by design); such histories are skipped by the decoding oracle',
    'caller memory (argument arrays, C strings) is outside the model',
]


def oracle(cs, h, lines):
    fails = []
    if cs.md is None:
        return [f'generated metadata does not parse: {cs.md_error}']
    if lines and (lines[-1] in ('oob', 'assert') or lines[-1].startswith('killed')):
        return []
    f = cs.d['feat']
    tot = 8 * max([h['buf']] + [b for _, b in h['plat']['setbufs']])
    if not (tot < (1 << f['totalSize']['sz']) and tot < (1 << f['contentSize']['sz'])):
        return []
    facts = rt.call_facts(cs, h, lines)
    kept = [x for x in facts if x['call'][0] == 'trace' and x['en_at_test'] and x['ret'] and
            (x['disc_after'] - x['disc_before']) % (1 << 32) == 0]
    # which open arguments each effective opening used
    nopen = 0
    pending = None
    used = {}
    en = 1
    toggles = dict((a, b) for a, b in h['plat']['toggles'])
    for i, l in enumerate(lines):
        if l.startswith('cb '):
            seq = int(l.split()[2])
            if l.startswith('cb open'):
                k = rt.kv(l)
                idx = nopen % max(1, len(h['plat']['openargs']))
                nopen += 1
                en_now = toggles.get(seq, en)
                if k['o'] == '0' and (en_now or k['f'] == '1'):
                    pending = h['plat']['openargs'][idx] if h['plat']['openargs'] else {}
            if seq in toggles:
                en = toggles[seq]
        elif l.startswith('ret '):
            en = int(rt.kv(l)['en'])
        elif l.startswith('dl '):
            used[i] = pending
    stream = ly.stream_of(cs)
    erts = {e['name']: e for e in cs.d['erts']}
    k = 0
    for data, really, idx in oracles.delivered_packets(lines):
        if not really:
            continue
        try:
            p = tsdl.read_packet(cs.md, data, stream)
        except tsdl.TsdlError as ex:
            fails.append(f'packet at log line {idx} does not decode with its own metadata: {ex}')
            break
        if used.get(idx) is not None and cs.d['pcExtra']:
            exp = oracles.expected_struct(cs.d['pcExtra'], 'pc', used[idx])
            got = {n: p['context'].get(n) for n in exp}
            if exp != got:
                fails.append(f'packet at log line {idx}: packet context user members decode to {got}, opened with {exp}')
        for ev in p['events']:
            if k >= len(kept):
                fails.append('more records decoded than calls kept')
                break
            call = kept[k]['call']
            e = erts[call[1]]
            exp = oracles.expected_record(cs.d, e, call[2])
            got = (ev['stream_ctx'], ev['ctx'], ev['fields'])
            if (ev['name'], ev['id']) != (e['name'], e['id']):
                fails.append(f'record {k}: traced {e["name"]} (id {e["id"]}), decoded {ev["name"]} (id {ev["id"]})')
            elif exp != got:
                fails.append(f'record {k} ({e["name"]}): decoded {got}, traced {exp}')
            k += 1
        if fails:
            break
    return fails


def run(c):
    ob = c.proof_obligations()
    c.assumptions += ASSUME
    n, k = (8, 30) if c.tier == 'quick' else (60, 100)
    rt.replay_witnesses(c, oracle)
    cases, dis, stats = rt.run_rt(c, oracle, n, k, gen_hist=rt.flushing(hrt.gen_history),
                                  known_classifier=rt.known_by(c, [('F9', rt.f9_territory)]))
    # bit-packed layouts (sub-byte alignments, byte-sized integers that are not byte-aligned)
    cases_b, dis_b, stats_b = rt.run_rt(c, oracle, max(3, n // 2), k, gen_hist=rt.flushing(hrt.gen_history),
                                        known_classifier=rt.known_by(c, [('F9', rt.f9_territory)]),
                                        label='H-runtime (bit-packed)', profile='rt-bits', seed_base=300)
    cases = cases + cases_b
    dis = dis + dis_b
    # static correspondences: op trees, implicit structures, TSDL IR, and the two readers on real packets
    ncmp, nbad, first = 0, 0, None
    bad_texts = []
    dist = {}
    for cs in cases:
        if cs.md is None:
            continue
        q = ly.static_queries(cs)
        q = [x for x in q if x[2] in ('op-tree', 'implicit-struct', 'tsdl-ir')]
        bad, n1 = ly.run_queries(cs, q)
        ncmp += n1
        for x in q:
            dist[x[2]] = dist.get(x[2], 0) + 1
        if bad and first is None:
            first = (cs, bad[0])
        if bad:
            bad_texts.append(cs.text)
        nbad += len(bad)
    # operation trees and implicit structures of many more layouts (nothing compiled)
    swept = ly.op_tree_sweep(c, 300 if c.tier == 'thorough' else 60, seed_base=1300)
    if swept and first is None:
        first = swept
        nbad += 1
    bad_texts = [t for _s, t in sorted(getattr(c, 'bad_layout_scored', []), key=lambda x: -x[0])[:8]] + bad_texts
    # the two readers on real packets: Python reader on the parsed real metadata vs Lean reader on tsdlStruct
    import random
    rnd = random.Random(c.seed + 101)
    npk = 0
    for cs in cases:
        if cs.md is None:
            continue
        hs = [rt.flushing(hrt.gen_history)(rnd, cs.ir, cs.dname, cs.openargs, cs.recs, cs.hdr, cs.sizes, toggles=False)
              for _ in range(6)]
        q = []
        for lines in hrt.run_impl(cs.exe, cs.ir, cs.dname, hs):
            for data, really, idx in oracles.delivered_packets(lines):
                if not really:
                    continue
                try:
                    pe = hlayout.packet_str(tsdl.read_packet(cs.md, data, ly.stream_of(cs)))
                except tsdl.TsdlError:
                    pe = 'undecodable'
                q.append(({'op': 'decode', 'dst': cs.dname, 'hex': data.hex()}, pe, 'reader-twin'))
        bad, n1 = ly.run_queries(cs, q)
        ncmp += n1
        npk += n1
        dist['reader-twin'] = dist.get('reader-twin', 0) + n1
        if bad and first is None:
            first = (cs, bad[0])
        nbad += len(bad)
    # the executable precondition of `record_roundtrip` (Props/C01.lean) evaluated by the Lean driver on the records
    # traced above: the theorem is about a record iff `rootPreb` holds for each of its user roots
    hyp = {'records': 0, 'roots': 0, 'roots_meeting_precondition': 0, 'roots_not_meeting': []}
    for cs in cases:
        lines = [json.dumps(cs.ir)]
        for en, a in cs.recs:
            lines.append(json.dumps({'op': 'rtpre', 'dst': cs.dname, 'ert': en, 'args': a, 'buf': 4096}))
        for (en, a), out in zip(cs.recs, common.drv_run(lines)[1:]):
            hyp['records'] += 1
            for tok in out.split():
                if tok.endswith('=-') or '=' not in tok:
                    continue
                hyp['roots'] += 1
                if tok.endswith('=1'):
                    hyp['roots_meeting_precondition'] += 1
                elif len(hyp['roots_not_meeting']) < 5:
                    hyp['roots_not_meeting'].append({'config_seed': cs.seed, 'ert': en, 'root': tok})
    c.coverage['correspondence']['theorem hypotheses (record_roundtrip) on traced records'] = hyp
    c.coverage['correspondence']['H-layout'] = {'comparisons': ncmp, 'disagreements': nbad, 'streams': dist}
    c.coverage['disagreements_checked'] = c.coverage.get('disagreements_checked', 0) + nbad
    if nbad and not c.violations and not rt.search_impl(
            c, oracle, nhist=30, texts=bad_texts, profiles=('layout-pad', 'layout', 'rt', 'rt-pad'),
            known_classifier=rt.known_by(c, [('F9', rt.f9_territory)]), hist_kwargs={'toggles': False}):
        cs, (qq, exp, got, lab) = first
        c.violation({'property': 'C01', 'kind': f'correspondence broken ({lab}): the Lean layout model differs from what the '
                     'generator produced, and no decoded value that differs from a traced argument was found',
                     'obligation': f'H-layout {lab} stream', 'config_yaml': cs.text, 'query': qq,
                     'implementation': exp, 'model': got}, found_input=False)
    rt.decide(c, ob, dis, oracle=oracle, known_classifier=rt.known_by(c, [('F9', rt.f9_territory)]))
    if c.tier == 'thorough' and ob['ok']:
        ok, log = c.leanchecker(['BVM.Props.C01'])
        if not ok:
            c.violation({'property': 'C01', 'kind': 'leanchecker rejects the compiled proofs', 'log': log}, found_input=False)


def replay(c, path):
    rt.replay(c, path, oracle)
