"""C02 — the tracer never touches memory outside the current packet buffer."""
from checks import rtcommon as rt
from harness import common, hrt

ASSUME = [
    'every packet buffer (initial and swapped in) is at least as large as packet header + context (property precondition)',
    'the buffer sits flush against a PROT_NONE guard page: a store past its end faults at byte granularity; the C '
    'assertion of _reserve_er_space is enabled; thorough tier adds an ASan+UBSan build',
    'caller argument memory is exempt (property text); uint32 bit offsets are assumed not to wrap (records and packets '
    'smaller than 2^32 bits: finding F11 is recorded as unreplayed)',
]


def oracle(cs, h, lines):
    fails = []
    if not lines:
        return ['no output']
    last = lines[-1]
    if last == 'oob':
        fails.append('store outside the packet buffer (guard page hit)')
    elif last == 'assert':
        fails.append('assertion `er_size <= packet_size - at` failed inside _reserve_er_space')
    elif any(l.startswith('killed') for l in lines):
        fails.append('tracer crashed: ' + [l for l in lines if l.startswith('killed')][0])
    elif any('runtime error' in l or 'AddressSanitizer' in l for l in lines):
        fails.append('sanitizer report')
    if any(l.startswith('ctx-overrun') for l in lines):
        fails.append('store past the end of the context structure (footprint canary of the runner)')
    return fails


def run(c):
    ob = c.proof_obligations()
    c.assumptions += ASSUME
    n, k = (8, 40) if c.tier == 'quick' else (60, 150)
    rt.replay_witnesses(c, oracle)
    cls = rt.known_by(c, [('F8', rt.size_unstable), ('F9', rt.f9_territory)])
    cases, dis, stats = rt.run_rt(c, oracle, n, k, known_classifier=cls)
    # arrays whose elements are padded (alignment > size), tight buffers: where the size pass and the
    # serialise pass can drift apart
    cases2, dis2, stats2 = rt.run_rt(c, oracle, n, k, known_classifier=cls, label='H-runtime (padded arrays)',
                                     profile='rt-pad', seed_base=500)
    # the position invariant `PosOK` that `tracing_call_writes_inside_the_packet` (Props/C02.lean) assumes, evaluated by
    # the Lean driver after every operation of sampled histories: it is expected to fail only where a platform-initiated
    # closing was ignored (finding F9) and the buffer was then swapped
    import random as _r
    pos = {'histories': 0, 'PosOK_throughout': 0, 'not_PosOK_in_F9_territory': 0, 'not_PosOK_elsewhere': 0, 'samples': []}
    rnd = _r.Random(c.seed + 4242)
    for cs in (cases[:4] + cases2[:4]):
        hs = [hrt.gen_history(rnd, cs.ir, cs.dname, cs.openargs, cs.recs, cs.hdr, cs.sizes) for _ in range(25)]
        impl = hrt.run_impl(cs.exe, cs.ir, cs.dname, hs)
        for h, a, m in zip(hs, impl, hrt.run_model(cs.ir, cs.dname, hs, hyps=True)):
            pos['histories'] += 1
            if 'hyp PosOK=1' in m[-2:]:
                pos['PosOK_throughout'] += 1
            elif rt.f9_territory(cs, h, a):
                pos['not_PosOK_in_F9_territory'] += 1
            else:
                pos['not_PosOK_elsewhere'] += 1
                if len(pos['samples']) < 3:
                    pos['samples'].append({'config_seed': cs.seed, 'history': h})
    c.coverage['correspondence']['theorem hypothesis PosOK on model runs'] = pos
    # the global theorem `no_store_outside_the_buffer` (Props/C02.lean): its configuration hypothesis `CfgOK` is "what the
    # front end guarantees" -- evaluated (executable form `cfgOKb`, proved sound) on every real configuration used
    # here; on the histories that also meet the platform hypotheses (all buffers of one size, header + context fit)
    # the theorem says the model does not halt: cross-checked on the model run and on the implementation
    glob = {'configurations': 0, 'configurations_meeting_CfgOK': 0, 'configurations_not_meeting_CfgOK': [],
            'histories': 0, 'histories_meeting_all_hypotheses': 0, 'of_those_model_halted': 0,
            'of_those_implementation_out_of_bounds': 0, 'hypothesis_false': {'HdrFits': 0, 'SameSize': 0, 'Small': 0},
            'any_sizes_theorem': {'histories_meeting_all_hypotheses': 0, 'of_those_with_buffers_of_different_sizes': 0,
                                  'of_those_model_halted': 0, 'of_those_implementation_out_of_bounds': 0}}
    for cs in (cases + cases2):
        hs = [hrt.gen_history(rnd, cs.ir, cs.dname, cs.openargs, cs.recs, cs.hdr, cs.sizes) for _ in range(10)]
        # the same histories with every swapped-in buffer of the initial size: the theorem's platform
        hs2 = []
        for h in hs:
            h2 = dict(h)
            pl = dict(h2.get('plat') or {})
            if pl.get('setbufs'):
                pl['setbufs'] = [[n, h2['buf']] for n, _b in pl['setbufs']]
            h2['plat'] = pl
            hs2.append(h2)
        # histories of the second theorem's platform: buffers of different sizes, tracing never disabled, first call opens
        hs3 = [rt.flushing(hrt.gen_history)(rnd, cs.ir, cs.dname, cs.openargs, cs.recs, cs.hdr, cs.sizes, toggles=False)
               for _ in range(10)]
        hs = hs + hs2 + hs3
        impl = hrt.run_impl(cs.exe, cs.ir, cs.dname, hs)
        mod = hrt.run_model(cs.ir, cs.dname, hs, hyps2=True)
        glob['configurations'] += 1
        cfgok = None
        for h, a, m in zip(hs, impl, mod):
            line = [x for x in m if x.startswith('hyp2 ')]
            if not line:
                continue
            kv = dict(t.split('=') for t in line[0].split()[1:])
            cfgok = kv['CfgOK'] == '1'
            glob['histories'] += 1
            for k in ('HdrFits', 'SameSize', 'Small'):
                if kv[k] != '1':
                    glob['hypothesis_false'][k] += 1
            if cfgok and all(kv[k] == '1' for k in ('HdrFits', 'SameSize', 'Small')):
                glob['histories_meeting_all_hypotheses'] += 1
                if kv['halted'] == '1':
                    glob['of_those_model_halted'] += 1
                if oracle(cs, h, a):
                    glob['of_those_implementation_out_of_bounds'] += 1
                    if not c.violations:
                        c.violation({'property': 'C02', 'kind': 'store outside the buffer on a history that meets every '
                                     'hypothesis of no_store_outside_the_buffer', 'config_yaml': cs.text, 'history': h,
                                     'implementation': a[-5:]}, found_input=True)
            # the second theorem (buffers of different sizes; tracing never disabled, history starts with an opening)
            if cfgok and all(kv.get(k) == '1' for k in ('GoodBufs', 'NoToggle', 'NeverDisabled', 'StartsOpen')):
                b = glob['any_sizes_theorem']
                b['histories_meeting_all_hypotheses'] += 1
                if kv['SameSize'] != '1':
                    b['of_those_with_buffers_of_different_sizes'] += 1
                if kv['halted'] == '1':
                    b['of_those_model_halted'] += 1
                if oracle(cs, h, a):
                    b['of_those_implementation_out_of_bounds'] += 1
                    if not c.violations:
                        c.violation({'property': 'C02', 'kind': 'store outside the buffer on a history that meets every '
                                     'hypothesis of no_store_outside_the_buffer_any_sizes', 'config_yaml': cs.text,
                                     'history': h, 'implementation': a[-5:]}, found_input=True)
        if cfgok:
            glob['configurations_meeting_CfgOK'] += 1
        elif cfgok is False and len(glob['configurations_not_meeting_CfgOK']) < 3:
            glob['configurations_not_meeting_CfgOK'].append(cs.seed)
    c.coverage['correspondence']['theorem no_store_outside_the_buffer: hypotheses on real configurations'] = glob
    if glob['of_those_model_halted'] or glob['any_sizes_theorem']['of_those_model_halted']:
        c.violation({'property': 'C02', 'kind': 'the model halted on a history that meets every hypothesis of '
                     'no_store_outside_the_buffer: the driver and the proved model disagree', 'obligation':
                     'no_store_outside_the_buffer'}, found_input=False)
    # operation trees (where every write lands relative to `at`) of many more layouts, nothing compiled; a layout
    # that differs from the model is built and run against the guard page
    from checks import lycommon as ly
    bad = ly.op_tree_sweep(c, 300 if c.tier == 'thorough' else 60, seed_base=1100)
    if bad and not c.violations:
        cs, (qq, exp, got, lab) = bad
        if not ly.hunt_layout_failure(c, cs, 'C02', nhist=40, oracle=oracle):
            c.violation({'property': 'C02', 'kind': f'correspondence broken ({lab}): the operation tree differs from the Lean '
                         'builder, and no store outside the packet buffer was found', 'obligation': f'H-layout {lab} stream',
                         'config_yaml': cs.text, 'query': qq, 'implementation': exp, 'model': got}, found_input=False)
    rt.decide(c, ob, dis + dis2, oracle=oracle, known_classifier=cls, gen_hist=hrt.gen_history,
              profiles=('rt-pad', 'rt', 'layout-pad', 'layout'))
    if c.tier == 'thorough' and ob['ok']:
        ok, log = c.leanchecker(['BVM.Props.C02'])
        if not ok:
            c.violation({'property': 'C02', 'kind': 'leanchecker rejects the compiled proofs', 'log': log}, found_input=False)


def replay(c, path):
    rt.replay(c, path, oracle)
