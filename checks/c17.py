"""C17 — contexts are independent: one context per thread needs no locking."""
import os
import random
import subprocess
from checks import rtcommon as rt
from harness import common, hrt

ASSUME = [
    'the theorems are about a model in which a step takes exactly one context: the tie is (a) the symbol table of the '
    'compiled generated object has no writable object (nm classes b B d D C V s S g G), (b) two contexts driven with '
    'interleaved histories each produce exactly the output they produce alone',
    'hardware memory models weaker than sequential consistency and sub-store interleavings are not modelled; the '
    'two real threads on two contexts run under ThreadSanitizer at -O0 (2 configurations in the quick tier, all in the thorough tier)',
]

WRITABLE = set('bBdDCVsSgG')


def nm_check(cs, workdir):
    fp = cs.ir['prefix']['file']
    d = os.path.dirname(cs.exe)
    rc, log = common.cc(['gcc', '-c', '-O0', f'{fp}.c', '-o', 'tracer.o'], cwd=d)
    if rc != 0:
        return [f'generated source does not compile: {log[:200]}'], []
    out = subprocess.run(['nm', 'tracer.o'], cwd=d, capture_output=True, text=True).stdout
    bad, syms = [], []
    for line in out.split('\n'):
        parts = line.split()
        if len(parts) >= 2:
            cls, name = parts[-2], parts[-1]
            syms.append((cls, name))
            if cls in WRITABLE:
                bad.append(f'writable object in the generated tracer: {name} (nm class {cls})')
    return bad, syms


def interleave(rnd, a, b):
    out, i, j = [], 0, 0
    while i < len(a) or j < len(b):
        if j >= len(b) or (i < len(a) and rnd.random() < 0.5):
            out.append('0 ' + a[i]); i += 1
        else:
            out.append('1 ' + b[j]); j += 1
    return out


def run_multi(cs, ha, hb, rnd):
    la = hrt.script_text(cs.ir, cs.dname, ha).strip().split('\n')[:-1]
    lb = hrt.script_text(cs.ir, cs.dname, hb).strip().split('\n')[:-1]
    data = 'M\n' + '\n'.join(interleave(rnd, la, lb)) + '\nX\n'
    r = subprocess.run([cs.exe], input=data, capture_output=True, text=True, timeout=120)
    outs, cur = {0: [], 1: []}, None
    for line in r.stdout.split('\n'):
        if line.startswith('CTX '):
            cur = int(line[4:])
        elif line == 'END':
            break
        elif line and cur is not None:
            outs[cur].append(line)
    return outs


def run(c):
    ob = c.proof_obligations()
    c.assumptions += ASSUME
    n, k = (8, 12) if c.tier == 'quick' else (40, 60)
    cases, dis, stats = rt.run_rt(c, lambda cs, h, l: [], n, 10)
    rnd = random.Random(c.seed + 17)
    pairs = diffs = 0
    nsyms = 0
    # footprint of a call on one context: every data stream type of the configuration gets its own runner (contexts of
    # different types have different sizes); the runner keeps a canary right after the context structure and reports
    # any byte of it that a call (barectf_init included) changes
    fp = {'data_stream_types_run': 0, 'histories': 0, 'overruns': 0}
    work = common.scratch()
    for cs in cases:
        for dd in cs.ir['dsts']:
            if dd['name'] == cs.dname:
                exe, oa, recs, hdr, sizes = cs.exe, cs.openargs, cs.recs, cs.hdr, cs.sizes
            else:
                exe, _files = hrt.build_runner(cs.cfg, cs.ir, dd['name'], os.path.join(work, f'fp{cs.seed}_{dd["name"]}'))
                if exe is None:
                    continue
                oa, recs = hrt.gen_pool(rnd, cs.ir, dd['name'], nrec=4)
                hdr, sizes = hrt.probe(exe, cs.ir, dd['name'], oa, recs)
            fp['data_stream_types_run'] += 1
            hs = [hrt.gen_history(rnd, cs.ir, dd['name'], oa, recs, hdr, sizes) for _ in range(3)]
            for h, lines in zip(hs, hrt.run_impl(exe, cs.ir, dd['name'], hs)):
                fp['histories'] += 1
                if any(l.startswith('ctx-overrun') for l in lines):
                    fp['overruns'] += 1
                    if not c.violations:
                        c.violation({'property': 'C17', 'kind': 'a call on one context writes past the end of its context structure '
                                     '(into whatever the platform stores next to it: another context)', 'config_yaml': cs.text,
                                     'dst': dd['name'], 'history': h, 'impl_log': [l for l in lines if not l.startswith('dl ')][:12]})
    c.coverage['correspondence']['context footprint (canary after the context structure, every data stream type)'] = fp
    for cs in cases:
        bad, syms = nm_check(cs, None)
        nsyms += len(syms)
        for b in bad[:3]:
            c.violation({'property': 'C17', 'kind': b, 'config_yaml': cs.text, 'symbols': syms[:80]})
        hs = [hrt.gen_history(rnd, cs.ir, cs.dname, cs.openargs, cs.recs, cs.hdr, cs.sizes) for _ in range(2 * k)]
        solo = hrt.run_impl(cs.exe, cs.ir, cs.dname, hs)
        for i in range(0, len(hs), 2):
            if any(l in ('oob', 'assert') for l in solo[i] + solo[i + 1]):
                continue
            outs = run_multi(cs, hs[i], hs[i + 1], rnd)
            pairs += 1
            for j in (0, 1):
                if outs[j] != solo[i + j]:
                    diffs += 1
                    first = next((x for x, (p, q) in enumerate(zip(outs[j], solo[i + j])) if p != q), -1)
                    c.violation({'property': 'C17', 'kind': 'a context interleaved with another one does not produce the '
                                 'output it produces alone', 'config_yaml': cs.text, 'dst': cs.dname,
                                 'history': hs[i + j], 'other_history': hs[i + 1 - j], 'first_diff': first,
                                 'interleaved': outs[j][max(0, first - 2):first + 3], 'alone': solo[i + j][max(0, first - 2):first + 3]})
                    break
    c.coverage['correspondence']['two_context_interleavings'] = {'pairs': pairs, 'differences': diffs,
                                                                 'symbols_inspected': nsyms}
    # two real threads, one context / buffer / platform state each, under ThreadSanitizer (-O0)
    ts = {'configs': 0, 'reports': 0, 'build_failures': 0}
    work = common.scratch()
    for cs in cases[:(2 if c.tier == 'quick' else len(cases))]:
        exe, info = hrt.build_tsan(cs.cfg, cs.ir, cs.dname, os.path.join(work, f't{cs.seed}'))
        if exe is None:
            ts['build_failures'] += 1
            continue
        r = subprocess.run([exe], capture_output=True, text=True, timeout=300,
                           env=dict(os.environ, TSAN_OPTIONS='halt_on_error=0 report_signal_unsafe=0'))
        ts['configs'] += 1
        nrep = r.stderr.count('WARNING: ThreadSanitizer')
        if nrep or r.returncode != 0:
            ts['reports'] += nrep
            c.violation({'property': 'C17', 'kind': 'ThreadSanitizer reports a data race (or the run fails) with two threads '
                         'tracing on two distinct contexts', 'config_yaml': cs.text, 'dst': cs.dname, 'exit': r.returncode,
                         'report': r.stderr[:3000]})
    c.coverage['correspondence']['two_threads_tsan'] = ts
    rt.decide(c, ob, dis)
    if c.tier == 'thorough' and ob['ok']:
        ok, log = c.leanchecker(['BVM.Props.C17'])
        if not ok:
            c.violation({'property': 'C17', 'kind': 'leanchecker rejects the compiled proofs', 'log': log}, found_input=False)


def replay(c, path):
    rt.replay(c, path, lambda cs, h, l: [])
