"""C16 — the in-tracing-section flag brackets every modification of the packet."""
from checks import rtcommon as rt
from harness import common, hrt

ASSUME = [
    'reading: the clock callback at the very entry of a tracing function (and in the preamble of a platform-initiated '
    'open/close) runs before the section is entered, with flag 0; no packet byte is touched there',
    'the flag is sampled on the implementation at callback entry/exit, at API return, and (watch-mode histories: buffer '
    'pages read-only, SIGSEGV + single-step) at every store instruction that hits the packet buffer; the theorem '
    'stores_under_flag covers every store of the model',
    'asynchronous observers are represented by the callback/store instants of a sequential execution',
]


def oracle(cs, h, lines):
    """on the implementation's log: flag = 1 inside callbacks invoked on behalf of a tracing call,
    flag = 0 when a public API call returns"""
    fails = []
    has_clock = cs.d['clock'] is not None
    segs = rt.segments(lines)
    for seg, call in zip(segs, h['calls']):
        ret = seg[-1] if seg[-1].startswith('ret ') else None
        if ret is not None and rt.kv(ret).get('f') != '0':
            fails.append(f'flag reads {rt.kv(ret).get("f")} when `{call[0]}` returns: {ret}')
        if call[0] == 'trace':
            cbs = [l for l in seg if l.startswith('cb ')]
            if has_clock and cbs:
                cbs = cbs[1:]       # the clock sample at entry
            for l in cbs:
                if rt.kv(l).get('f') != '1':
                    fails.append(f'callback on behalf of a tracing call entered with flag 0: {l}')
        # store sampling (histories run in watch mode): every store instruction that hits the packet buffer, in any call
        for l in seg:
            if l.startswith('st ') and rt.kv(l).get('f') != '1':
                fails.append(f'store into the packet buffer with the flag at 0, during `{call[0]}`: {l}')
    return fails


def run(c):
    ob = c.proof_obligations()
    c.assumptions += ASSUME
    n, k = (8, 40) if c.tier == 'quick' else (60, 150)
    cases, dis, stats = rt.run_rt(c, oracle, n, k)
    # per-store sampling on the implementation (mprotect + single-step): the same configurations, further histories
    # run in watch mode; the flag must read 1 at every store instruction that hits the packet buffer
    import random
    rnd = random.Random(c.seed + 1616)
    ws = {'histories': 0, 'stores_sampled': 0, 'stores_with_flag_0': 0, 'by_call': {}}
    for cs in cases:
        hs = [dict(rt.flushing(hrt.gen_history)(rnd, cs.ir, cs.dname, cs.openargs, cs.recs, cs.hdr, cs.sizes), watch=True)
              for _ in range(12 if c.tier == 'quick' else 40)]
        for h, lines in zip(hs, hrt.run_impl(cs.exe, cs.ir, cs.dname, hs)):
            ws['histories'] += 1
            for seg, call in zip(rt.segments(lines), h['calls']):
                nst = sum(1 for l in seg if l.startswith('st '))
                ws['stores_sampled'] += nst
                ws['by_call'][call[0]] = ws['by_call'].get(call[0], 0) + nst
            fails = [f for f in oracle(cs, h, lines) if 'store into the packet buffer' in f]
            if fails:
                ws['stores_with_flag_0'] += len(fails)
                if not c.violations:
                    c.violation({'property': 'C16', 'kind': 'property fails on the implementation', 'failures': fails[:5],
                                 'config_yaml': cs.text, 'dst': cs.dname, 'history': h, 'impl_log': lines[-40:]})
    c.coverage['correspondence']['per-store flag sampling on the implementation (watch mode)'] = ws
    rt.decide(c, ob, dis, oracle=oracle, gen_hist=hrt.gen_history)
    if c.tier == 'thorough' and ob['ok']:
        ok, log = c.leanchecker(['BVM.Props.C16'])
        if not ok:
            c.violation({'property': 'C16', 'kind': 'leanchecker rejects the compiled proofs', 'log': log}, found_input=False)


def replay(c, path):
    rt.replay(c, path, oracle)
