"""C16 — the in-tracing-section flag brackets every modification of the packet."""
from checks import rtcommon as rt
from harness import common, hrt

ASSUME = [
    'reading: the clock callback at the very entry of a tracing function (and in the preamble of a platform-initiated '
    'open/close) runs before the section is entered, with flag 0; no packet byte is touched there',
    'quick tier samples the flag at callback entry/exit and at API return on the implementation; per-store sampling '
    '(mprotect + single-step) is the thorough tier; the theorem stores_under_flag covers every store of the model',
    'asynchronous observers are represented by the callback/store instants of a sequential execution',
]


def oracle(cs, h, lines):
    """on the implementation's log: flag = 1 inside callbacks invoked on behalf of a tracing call,
    flag = 0 when a public API call returns"""
    fails = []
    has_clock = cs.d['clock'] is not None
    segs = rt.segments(lines)
    for seg, call in zip(segs, h['calls']):
        ret = seg[-1] if seg[-1].startswith('ret ') else None
        if ret is not None and rt.kv(ret).get('f') != '0':
            fails.append(f'flag reads {rt.kv(ret).get("f")} when `{call[0]}` returns: {ret}')
        if call[0] == 'trace':
            cbs = [l for l in seg if l.startswith('cb ')]
            if has_clock and cbs:
                cbs = cbs[1:]       # the clock sample at entry
            for l in cbs:
                if rt.kv(l).get('f') != '1':
                    fails.append(f'callback on behalf of a tracing call entered with flag 0: {l}')
            for l in seg:
                if l.startswith('st ') and rt.kv(l).get('f') != '1':
                    fails.append(f'store with flag 0: {l}')
    return fails


def run(c):
    ob = c.proof_obligations()
    c.assumptions += ASSUME
    n, k = (8, 40) if c.tier == 'quick' else (60, 150)
    cases, dis, stats = rt.run_rt(c, oracle, n, k)
    rt.decide(c, ob, dis, oracle=oracle, gen_hist=hrt.gen_history)
    if c.tier == 'thorough' and ob['ok']:
        ok, log = c.leanchecker(['BVM.Props.C16'])
        if not ok:
            c.violation({'property': 'C16', 'kind': 'leanchecker rejects the compiled proofs', 'log': log}, found_input=False)


def replay(c, path):
    rt.replay(c, path, oracle)
