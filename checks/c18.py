"""C18 — a barectf 2 configuration behaves exactly like its barectf 3 equivalent."""
import collections
import io
import multiprocessing as mp
import os
import random
import subprocess
from concurrent.futures import ProcessPoolExecutor
from harness import common, hfront, genv2
from checks import frcommon
from checks.c11 import strip_dates

ASSUME = [
    '"the barectf 3 configuration expressing the same trace" is produced by harness/genv2.render3, written from the '
    'documentation of both dialects independently of config_parse_v2; abstract configurations always state what the two '
    'dialects default differently or cannot both express (uuid element alignment 8; no packet_seq_num / '
    'stream_instance_id members, which barectf 2 accepts and the conversion drops: recorded in DESIGN.md)',
    'field-type level: the abstract field types of Proofs/V2.lean are rendered by the Lean driver and by '
    'harness/genv2.ft2/ft3 and compared tree for tree, which ties the statement of `field_type_conversion` to the '
    'documents given to the real tool',
    'files are compared byte for byte after removing the generation date',
]


def abs_ft_json(ft):
    """harness abstract field type -> JSON for the Lean driver (`aft`)"""
    k = ft['k']
    if k == 'int':
        return {x: ft[x] for x in ('k', 'size', 'signed', 'align', 'base', 'clock', 'say_signed') if x in ft}
    if k == 'enum':
        return {'k': 'enum', 'vt': abs_ft_json(ft['vt']), 'members': ft['members']}
    if k == 'float':
        return {x: ft[x] for x in ('k', 'size', 'align') if x in ft}
    if k == 'str':
        return {'k': 'str'}
    if k == 'array':
        o = {'k': 'array', 'elem': abs_ft_json(ft['elem'])}
        if ft['length'] != 'dynamic':
            o['length'] = ft['length']
        return o
    o = {'k': 'struct', 'fields': [[n, abs_ft_json(f)] for n, f in ft['fields']]}
    if 'min-align' in ft:
        o['min-align'] = ft['min-align']
    return o


def renderer_agreement(c, rnd, n):
    """Lean AFt.r2 / AFt.r3 vs harness ft2 / ft3"""
    import json
    fts = [genv2.gen_struct(rnd, 'm', 0, 5) for _ in range(n)]
    out = common.drv_run([{'op': 'aft', 'ft': abs_ft_json(ft)} for ft in fts])
    bad = 0
    for ft, line in zip(fts, out):
        l2, l3 = [hfront.jy(x) for x in json.loads(line)]
        p2, p3 = hfront.to_od(genv2.ft2(ft)), hfront.to_od(genv2.ft3(ft))
        if not (hfront.tree_eq(l2, p2) and hfront.tree_eq(l3, p3)):
            bad += 1
            if bad == 1:
                c.violation({'property': 'C18', 'kind': 'correspondence broken: Lean rendering of an abstract field type differs '
                             'from the harness rendering', 'abstract': ft, 'diff2': hfront.first_diff(l2, p2),
                             'diff3': hfront.first_diff(l3, p3)}, found_input=False)
    return {'abstract_field_types': n, 'differences': bad}


def gen_both(text, world):
    b = common.barectf()
    cfg = b.configuration_from_file(io.StringIO(text), inclusion_directories=world.paths or [])
    cg = b.CodeGenerator(cfg)
    files = list(cg.generate_c_headers()) + list(cg.generate_c_sources()) + [cg.generate_metadata_stream()]
    return {f.name: strip_dates(f.name, f.contents) for f in files}


def worker(task):
    seed, workdir = task
    rnd = random.Random(seed)
    a = genv2.gen_abs(rnd)
    doc2, dirs = genv2.render2(a), [{}]
    decorated = rnd.random() < 0.6
    if decorated:
        doc2, dirs, _ = genv2.Decorate2(rnd, doc2, rnd.choice([1, 2])).run()
    doc3 = genv2.render3(a)
    w2 = hfront.World(dirs, False, True, 2)
    w2.materialise(workdir)
    text2 = hfront.dump_yaml(doc2)
    text3 = hfront.dump_yaml(doc3, v3root=True)
    res = {'text2': text2, 'text3': text3, 'dirs': dirs, 'loaded': w2.loaded, 'decorated': decorated,
           'tree2': hfront.yj(hfront.load_yaml(text2)[0]), 'violations': [], 'st': collections.Counter()}
    b = common.barectf()
    from barectf import config_parse_v2, config_parse_common as cpc
    # the node the barectf 2 parser hands over
    def conv():
        root = cpc._yaml_load(io.StringIO(text2))
        p = config_parse_v2._Parser(io.StringIO(text2), root, True, w2.paths, False)
        return p.config_node.config_node
    rc = hfront.run_real(conv)
    res['conv'] = (rc[0], hfront.yj(rc[1])) if rc[0] == 'ok' else rc
    re_ = hfront.real_effective(text2, w2)
    res['eff'] = ('ok', hfront.yj(hfront.load_yaml(re_[1])[0])) if re_[0] == 'ok' else re_
    rep = {'property': 'C18', 'v2_yaml': text2, 'v3_yaml': text3, 'dirs': dirs}
    # versions
    v2 = hfront.run_real(lambda: b.configuration_file_major_version(io.StringIO(text2)))
    v3 = hfront.run_real(lambda: b.configuration_file_major_version(io.StringIO(text3)))
    if v2 != ('ok', 2) or v3 != ('ok', 3):
        res['violations'].append(dict(rep, kind='configuration_file_major_version does not report 2 / 3', got=[list(v2), list(v3)]))
    # same generated files
    empty = hfront.World([], False, True, 3)
    empty.paths = []
    g2 = hfront.run_real(lambda: gen_both(text2, w2))
    g3 = hfront.run_real(lambda: gen_both(text3, empty))
    res['st']['v2_accepted'] += g2[0] == 'ok'
    res['st']['v3_accepted'] += g3[0] == 'ok'
    if g2[0] != g3[0]:
        if g2[0] == 'ok' or g3[0] == 'ok':
            # the generator only claims mostly-valid documents; a one-sided rejection of a decorated
            # document may come from the decoration (counted); of a plain one it is a difference in behaviour
            if not decorated:
                res['violations'].append(dict(rep, kind='one dialect accepts the configuration and the other rejects it',
                                              v2=list(g2)[:2] if g2[0] != 'ok' else 'ok', v3=list(g3)[:2] if g3[0] != 'ok' else 'ok'))
            else:
                res['st']['one_sided_rejection_of_decorated'] += 1
    elif g2[0] == 'ok':
        res['st']['pairs_compared'] += 1
        f2, f3 = g2[1], g3[1]
        if sorted(f2) != sorted(f3):
            res['violations'].append(dict(rep, kind='different generated file names', v2=sorted(f2), v3=sorted(f3)))
        else:
            for name in f2:
                if f2[name] != f3[name]:
                    la, lb = f2[name].split('\n'), f3[name].split('\n')
                    i = next((i for i, (x, y) in enumerate(zip(la, lb)) if x != y), min(len(la), len(lb)))
                    res['violations'].append(dict(rep, kind=f'generated file {name} differs between the barectf 2 document '
                                                  'and its barectf 3 equivalent', line=i + 1, from_v2=la[i:i + 3], from_v3=lb[i:i + 3]))
                    break
            else:
                res['st']['identical'] += 1
    res['st'] = dict(res['st'])
    return res


def cli_versions(c, work):
    p2, p3 = os.path.join(work, 'v2.yaml'), os.path.join(work, 'v3.yaml')
    a = genv2.gen_abs(random.Random(7))
    open(p2, 'w').write(hfront.dump_yaml(genv2.render2(a)))
    open(p3, 'w').write(hfront.dump_yaml(genv2.render3(a), v3root=True))
    env = dict(os.environ, PYTHONPATH=common.REPO, PYTHONWARNINGS='ignore')
    out = {}
    for p, want in ((p2, '2'), (p3, '3')):
        r = subprocess.run(['/venv/bin/barectf', 'show-configuration-version', p], capture_output=True, text=True, env=env)
        out[want] = (r.returncode, r.stdout.strip())
        if r.returncode != 0 or r.stdout.strip() != want:
            c.violation({'property': 'C18', 'kind': 'show-configuration-version', 'file': open(p).read(), 'expected': want,
                         'got': r.stdout, 'stderr': r.stderr[-300:]})
    return out


def run(c):
    c.assumptions += ASSUME
    ob = c.proof_obligations()
    rnd = random.Random(c.seed)
    thorough = c.tier == 'thorough'
    work = common.scratch()
    cov = {}
    import json
    for e in c.known_entries('fixed'):
        wt = json.load(open(os.path.join(common.VERIF, e['witness'])))
        w2 = hfront.World(wt['dirs'], False, True, 2)
        w2.materialise(os.path.join(work, 'fixed_' + e['id']))
        empty = hfront.World([], False, True, 3)
        empty.paths = []
        g2 = hfront.run_real(lambda: gen_both(wt['v2_yaml'], w2))
        g3 = hfront.run_real(lambda: gen_both(wt['v3_yaml'], empty))
        same = g2[0] == g3[0] == 'ok' and g2[1] == g3[1]
        cov.setdefault('fixed_witnesses', {})[e['id']] = {'identical_files': same}
        if not same:
            c.violation(dict(wt, property='C18', kind='a repaired finding is back: ' + e['line']))
    cov['renderers'] = renderer_agreement(c, rnd, 1500 if thorough else 300)
    n = 400 if thorough else 70
    tasks = [(c.seed * 100000 + i, os.path.join(work, f'w{i}')) for i in range(n)]
    with ProcessPoolExecutor(max_workers=min(common.NPROC, 12), mp_context=mp.get_context('fork')) as ex:
        results = list(ex.map(worker, tasks, chunksize=1))
    pk2, pk3 = hfront.pkg_dir_files(2), hfront.pkg_dir_files(3)
    lines = []
    for r in results:
        lines.append({'op': 'convert2', 'doc': r['tree2'], 'dirs2': r['loaded'] + [pk2]})
        lines.append({'op': 'expand2', 'doc': r['tree2'], 'dirs2': r['loaded'] + [pk2], 'dirs3': r['loaded'] + [pk3]})
    out = common.drv_run(lines)
    st = collections.Counter()
    dis = []
    for i, r in enumerate(results):
        for k, v in r['st'].items():
            st[k] += v
        st['decorated'] += r['decorated']
        for v in r['violations']:
            c.violation(v)
        for what, line in (('conv', out[2 * i]), ('eff', out[2 * i + 1])):
            real = r[what]
            m = hfront.parse_model(line)
            if real[0] == 'ok':
                real = ('ok', hfront.jy(real[1]))
                st[f'{what}_compared'] += 1
                if not frcommon.agree(real, m):
                    st[f'{what}_disagreements'] += 1
                    dis.append({'kind': 'H-convert2' if what == 'conv' else 'H-effective2',
                                'input': {'doc_yaml': r['text2'], 'dirs': r['dirs']}, 'real': frcommon.show(real),
                                'model': frcommon.show(m), 'first_diff': hfront.first_diff(real[1], m[1]) if m[0] == 'ok' else None})
            else:
                st[f'{what}_rejected_{real[1]}'] += 1
    cov['documents'] = dict(st)
    cov['cli_versions'] = cli_versions(c, work)
    c.coverage['correspondence'] = cov
    c.coverage['evaluations'] = st.get('pairs_compared', 0)
    c.coverage['disagreements_checked'] = len(dis)
    if c.violations:
        return
    if dis:
        d = dis[0]
        c.violation({'property': 'C18', 'kind': 'correspondence broken: the Lean conversion model no longer reproduces the real '
                     'barectf 2 parser; no configuration on which the two dialects generate different files was found',
                     'obligation': d['kind'] + ' (real config_parse_v2 / effective document vs Lean convert2 / expand2)',
                     'case': d, 'proofs_ok': ob['ok']}, found_input=False)
    elif not ob['ok']:
        c.violation({'property': 'C18', 'kind': 'proof obligation no longer checks', 'failures': ob['failures'],
                     'log': ob['log'][-1500:]}, found_input=False)
    if thorough:
        ok, log = c.leanchecker(['BVM.Props.C18'])
        if not ok:
            c.violation({'property': 'C18', 'kind': 'leanchecker rejects the compiled proofs', 'log': log}, found_input=False)


def replay(c, path):
    import json
    rep = json.load(open(path))
    work = common.scratch()
    c.coverage.update({'obligations': 1, 'discharged': 1, 'checker_cmd': 'replay of ' + path})
    if 'case' in rep:
        case = dict(rep['case'])
        if case['kind'] == 'H-convert2':
            case['kind'] = 'H-effective2'
        real, model, same = frcommon.replay_case(c, case)
        print('real :', str(frcommon.show(real))[:1500])
        print('model:', str(frcommon.show(model))[:1500])
        if not same:
            c.violation(rep)
        return
    w2 = hfront.World(rep['dirs'], False, True, 2)
    w2.materialise(os.path.join(work, 'w'))
    empty = hfront.World([], False, True, 3)
    empty.paths = []
    g2 = hfront.run_real(lambda: gen_both(rep['v2_yaml'], w2))
    g3 = hfront.run_real(lambda: gen_both(rep['v3_yaml'], empty))
    print('v2:', g2[0], 'v3:', g3[0])
    if g2[0] != g3[0] or (g2[0] == 'ok' and g2[1] != g3[1]):
        for name in (g2[1] if g2[0] == 'ok' and g3[0] == 'ok' else []):
            if g2[1][name] != g3[1].get(name):
                print('differs:', name)
        c.violation(rep)
