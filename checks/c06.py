"""C06 — packet life cycle: tracer and platform callbacks follow the documented protocol; accessors tell the truth."""
from checks import rtcommon as rt
from harness import common, hrt

ASSUME = [
    'sequence number when the feature is off follows api.adoc ("if the feature is enabled: increments"): 0',
    'histories start with an open (ProtocolOK) and buffers are strictly larger than header+context except where the '
    'generator deliberately draws the degenerate size (those histories are judged only on the clauses that do not '
    'depend on a record fitting)',
    'thorough tier adds exhaustive enumeration of all histories up to length 5 over a reduced alphabet',
]

ACC = ('at', 'ps', 'full', 'empty', 'disc', 'seq', 'open', 'bs')


def oracle(cs, h, lines):
    fails = []
    if lines and (lines[-1] in ('oob', 'assert') or lines[-1].startswith('killed')):
        return []
    has_seq = cs.d['feat']['seqNum'] is not None
    facts = rt.call_facts(cs, h, lines)
    nfull = 0
    closed = 0        # packets really closed so far
    bufsize = h['buf']
    setbufs = dict((a, b) for a, b in h['plat']['setbufs'])
    nclosecb = 0
    is_open = False
    records_in_packet = 0
    prev = None
    for f in facts:
        seg, call, ret = f['seg'], f['call'], f['ret']
        last_full_answer = None
        swapped = False
        for l in seg:
            if l.startswith('cb full'):
                last_full_answer = h['plat']['full'][nfull] if nfull < len(h['plat']['full']) else 0
                nfull += 1
            elif l.startswith('cb open'):
                k = rt.kv(l)
                if k['f'] == '1':       # invoked by the tracer
                    if k['o'] != '0':
                        fails.append(f'tracer invoked the open callback while a packet is open: {l}')
                    if last_full_answer != 0:
                        fails.append(f'tracer invoked the open callback without a preceding "not full" answer: {l}')
                last_full_answer = None
            elif l.startswith('cb close'):
                k = rt.kv(l)
                if k['f'] == '1' and k['o'] != '1':
                    fails.append(f'tracer invoked the close callback on a packet that is not open: {l}')
            elif l.startswith('dl '):
                parts = l.split()
                if 'o=1' in parts[-2:] and 'n=0' in parts[-2:]:
                    closed += 1
                    is_open = False
                if nclosecb in setbufs:
                    bufsize = setbufs[nclosecb]
                    swapped = True
                nclosecb += 1
            elif l.startswith('cx open'):
                pass
        if ret is None:
            continue
        now_open = ret['open'] == '1'
        # open on open / close on closed are no-ops
        if call[0] == 'open' and prev is not None and prev['open'] == '1' and prev['en'] == '1' and ret['en'] == '1':
            for k in ACC:
                if prev[k] != ret[k]:
                    fails.append(f'opening an open packet changed {k}: {prev[k]} -> {ret[k]}')
        if call[0] == 'close' and prev is not None and prev['open'] == '0' and prev['en'] == '1' and ret['en'] == '1':
            # (the platform's close callback may install another buffer: position and sizes then follow it)
            for k in (('disc', 'seq', 'open') if swapped else ('at', 'full', 'empty', 'disc', 'seq', 'open')):
                if prev[k] != ret[k]:
                    fails.append(f'closing a closed packet changed {k}: {prev[k]} -> {ret[k]}')
        # is-open follows open/close (platform calls made while tracing is enabled)
        if call[0] == 'open' and not now_open:
            fails.append('packet is not open after an open call')
        if call[0] == 'close' and now_open:
            fails.append('packet is still open after a close call')
        # is-empty: while open, holds exactly until the first record of the packet
        if now_open and (prev is None or prev['open'] == '0' or any(l.startswith('cb open') and rt.kv(l)['o'] == '0' for l in seg)):
            records_in_packet = 0
        if call[0] == 'trace' and f['en_at_test'] and (f['disc_after'] - f['disc_before']) % (1 << 32) == 0:
            records_in_packet += 1
        if now_open and (ret['empty'] == '1') != (records_in_packet == 0) and int(ret['ps']) > int(ret['at']):
            fails.append(f'is-empty is {ret["empty"]} with {records_in_packet} record(s) in the open packet: after {call[0]}')
        # counters and buffer
        exp_seq = closed % (1 << 32) if has_seq else 0
        if int(ret['seq']) != exp_seq:
            fails.append(f'sequence number accessor {ret["seq"]} but {closed} packets closed (feature {"on" if has_seq else "off"})')
        if int(ret['bs']) != bufsize or int(ret['ps']) != (8 * bufsize) % (1 << 32):
            fails.append(f'buffer size accessor {ret["bs"]} / packet size {ret["ps"]} but the installed buffer has {bufsize} bytes')
        if any(l.startswith('bufaddr-mismatch') or l.startswith('accessor-mismatch') for l in seg):
            fails.append('buffer address accessor does not return the installed buffer / accessor aliases disagree')
        prev = ret
    return fails


def run(c):
    ob = c.proof_obligations()
    c.assumptions += ASSUME
    n, k = (8, 40) if c.tier == 'quick' else (60, 150)
    rt.replay_witnesses(c, oracle)
    cases, dis, stats = rt.run_rt(c, oracle, n, k, gen_hist=rt.flushing(hrt.gen_history),
                                  known_classifier=rt.known_by(c, [('F9', rt.f9_territory)]))
    rt.decide(c, ob, dis, oracle=oracle, known_classifier=rt.known_by(c, [('F9', rt.f9_territory)]))
    if c.tier == 'thorough' and ob['ok']:
        ok, log = c.leanchecker(['BVM.Props.C06'])
        if not ok:
            c.violation({'property': 'C06', 'kind': 'leanchecker rejects the compiled proofs', 'log': log}, found_input=False)


def replay(c, path):
    rt.replay(c, path, oracle)
