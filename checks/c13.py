"""C13 — generation is a deterministic function of the configuration; IDs are stable."""
import itertools
import json
import os
import random
import re
import subprocess
import yaml
from concurrent.futures import ThreadPoolExecutor
from harness import common, gencfg, itersites, tsdl

ASSUME = [
    'CPython hash randomisation is represented as "iteration order of a set of name-hashed objects is an arbitrary '
    'permutation"; the iteration-site table is regenerated from /repo on every run (translator harness/itersites.py)',
    'Python compares str by code point, as Lean String order does; names are identifiers',
    'the generation date lines are stripped before comparing; uuid: auto is not generated (documented fresh UUID)',
]


def gen_sub(path, seed):
    env = dict(os.environ, PYTHONHASHSEED=str(seed), PYTHONPATH=common.REPO)
    r = subprocess.run(['/venv/bin/python', os.path.join(common.VERIF, 'harness', 'gen_sub.py'), path, common.REPO],
                       capture_output=True, text=True, env=env, timeout=120)
    if r.returncode != 0:
        return None, r.stderr[-500:]
    return json.loads(r.stdout), None


def permuted(text, rnd):
    """the same configuration with the data-stream-types / event-record-types / clock-types mappings listed in
    another order"""
    body = text.split('\n', 1)[1]
    cfg = yaml.safe_load(body)

    def shuf(d):
        items = list(d.items())
        rnd.shuffle(items)
        return dict(items)
    tt = cfg['trace']['type']
    if 'clock-types' in tt:
        tt['clock-types'] = shuf(tt['clock-types'])
    for dn in list(tt['data-stream-types']):
        tt['data-stream-types'][dn]['event-record-types'] = shuf(tt['data-stream-types'][dn]['event-record-types'])
    tt['data-stream-types'] = shuf(tt['data-stream-types'])
    return gencfg.HEADER + yaml.safe_dump(cfg, sort_keys=False, default_flow_style=False)


def ids_of(md):
    """{stream name → id} cannot be read (streams are anonymous in TSDL); events: (stream id, event name) → id"""
    return {(e.get('stream_id'), e['name']): e['id'] for e in md['events']}


def many_clocks_config(rnd):
    import yaml
    nclk = rnd.choice([3, 4, 5])
    cnames = rnd.sample(['cycles', 'wall', 'rtc', 'mono', 'tsc', 'Zclk', 'a_clk'], nclk)
    tt = {'native-byte-order': 'le', 'clock-types': {}, 'data-stream-types': {}}
    for cn in cnames:
        tt['clock-types'][cn] = {'$c-type': rnd.choice(['uint8_t', 'uint16_t', 'uint32_t', 'uint64_t']),
                                 'frequency': rnd.choice([1000, 1000000])}
    dnames = rnd.sample(['fast', 'slow', 'lowpower', 'Alpha', 'b2', '_z', 'mid'], nclk)
    for dn, cn in zip(dnames, cnames):
        erts = {}
        for en in rnd.sample(['tick', 'note', 'wake', 'Zed', 'a', 'ev_9'], rnd.choice([2, 3])):
            erts[en] = {'payload-field-type': {'class': 'struct', 'members': [{'v': {'field-type': {'class': 'uint', 'size': 32}}}]}}
        tt['data-stream-types'][dn] = {'$default-clock-type-name': cn, 'event-record-types': erts}
    cfg = {'trace': {'type': tt, 'environment': {'zz': 1, 'aa': 'x', 'mm': 2}}}
    return gencfg.HEADER + yaml.safe_dump(cfg, sort_keys=False, default_flow_style=False)


def multi_include_config(rnd, work, tag):
    """an event record type and a data stream type that each include several partial files patching the same
    properties: the documented result depends on the order in which the files are listed, and only on it"""
    import yaml
    names = [f'{tag}_inc{i}.yaml' for i in range(rnd.choice([2, 3, 4]))]
    for i, n in enumerate(names):
        with open(os.path.join(work, n), 'w') as f:
            yaml.safe_dump({'log-level': 3 + i, 'payload-field-type': {'class': 'struct', 'members': [
                {f'm{i}': {'field-type': {'class': 'uint', 'size': 8 * (1 + i % 4)}}}]}}, f, sort_keys=False)
    dnames = [f'{tag}_dinc{i}.yaml' for i in range(rnd.choice([2, 3]))]
    for i, n in enumerate(dnames):
        with open(os.path.join(work, n), 'w') as f:
            yaml.safe_dump({'event-record-common-context-field-type': {'class': 'struct', 'members': [
                {f'c{i}': {'field-type': {'class': 'uint', 'size': 16}}}]}}, f, sort_keys=False)
    tt = {'native-byte-order': 'le', 'data-stream-types': {
        'main': {'$include': dnames, '$is-default': True, 'event-record-types': {
            'sample': {'$include': names}, 'other': {'payload-field-type': {'class': 'struct', 'members': [
                {'x': {'field-type': {'class': 'uint', 'size': 8}}}]}}}}}}
    return gencfg.HEADER + yaml.safe_dump({'trace': {'type': tt}}, sort_keys=False, default_flow_style=False)


def run(c):
    ss, changed = itersites.regenerate()
    ob = c.proof_obligations()
    c.assumptions += ASSUME
    rnd = random.Random(c.seed)
    nconf = 4 if c.tier == 'quick' else 16
    nseeds = 4 if c.tier == 'quick' else 16
    nperm = 2 if c.tier == 'quick' else 6
    work = common.scratch()
    configs = []
    tries = 0
    while len(configs) < nconf and tries < 400:
        tries += 1
        text, info = gencfg.gen_config(rnd, ndst=rnd.choice([2, 3]))
        try:
            cfg = common.load_cfg(text)
        except Exception:
            continue
        if sum(len(d.event_record_types) for d in cfg.trace.type.data_stream_types) < 4:
            continue
        configs.append((text, cfg))
    # a family in which every mapping of the configuration is large and every data stream type has its own default
    # clock type with a C type (clock callbacks, clock declarations, per-stream code all depend on iteration order)
    for k in range(2 if c.tier == 'quick' else 6):
        text = many_clocks_config(rnd)
        try:
            configs.append((text, common.load_cfg(text)))
        except Exception as ex:  # noqa
            c.inconclusive.append(f'many-clocks configuration rejected: {ex}')
    # a family with several partial files per `$include` list, all patching the same properties
    for k in range(2 if c.tier == 'quick' else 6):
        text = multi_include_config(rnd, work, f'mi{k}')
        try:
            configs.append((text, common.load_cfg(text, [work])))
        except Exception as ex:  # noqa
            c.inconclusive.append(f'multi-include configuration rejected: {ex}')
    jobs = []
    for ci, (text, cfg) in enumerate(configs):
        variants = [text] + [permuted(text, rnd) for _ in range(nperm)]
        for vi, v in enumerate(variants):
            p = os.path.join(work, f'c{ci}_{vi}.yaml')
            with open(p, 'w') as f:
                f.write(v)
            for s in ([0, 1, 12345, 4242] + [rnd.randrange(1, 2 ** 32 - 1) for _ in range(nseeds)])[:nseeds]:
                jobs.append((ci, vi, s, p))
    with ThreadPoolExecutor(max_workers=common.NPROC) as ex:
        res = list(ex.map(lambda j: gen_sub(j[3], j[2]), jobs))
    ndiff = 0
    ref = {}
    id_checks = 0
    for (ci, vi, s, p), (out, err) in zip(jobs, res):
        if out is None:
            c.inconclusive.append(f'generation subprocess failed: {err[:200]}')
            continue
        if ci not in ref:
            ref[ci] = (out, vi, s)
            continue
        base, bvi, bs = ref[ci]
        for name in base:
            if base[name] != out.get(name):
                ndiff += 1
                a, b = base[name].split('\n'), (out.get(name) or '').split('\n')
                first = next((i for i, (x, y) in enumerate(zip(a, b)) if x != y), min(len(a), len(b)))
                c.violation({'property': 'C13', 'kind': f'generated file {name} differs between two generations of the same '
                             'configuration', 'run_a': {'mapping_order_variant': bvi, 'PYTHONHASHSEED': bs},
                             'run_b': {'mapping_order_variant': vi, 'PYTHONHASHSEED': s},
                             'first_difference': {'line': first, 'a': a[first:first + 2], 'b': b[first:first + 2]},
                             'config_yaml': open(p).read(), 'replay_cmd': f'PYTHONHASHSEED={s} /venv/bin/python harness/gen_sub.py <config>'})
                break
        if ndiff:
            break
    # IDs: ascending name order, compared with the Lean idOf
    for ci, (text, cfg) in enumerate(configs):
        out = ref.get(ci, (None,))[0]
        if not out:
            continue
        md = tsdl.parse(out['metadata'])
        tt = cfg.trace.type
        dnames = [d.name for d in tt.data_stream_types]
        lines = [json.dumps({'op': 'ids', 'names': dnames})]
        for d in tt.data_stream_types:
            lines.append(json.dumps({'op': 'ids', 'names': [e.name for e in d.event_record_types]}))
        got = common.drv_run(lines)
        want_d = got[0].split()
        for d in tt.data_stream_types:
            id_checks += 1
            if d.id != want_d.index(d.name):
                c.violation({'property': 'C13', 'kind': 'data stream type ID is not its position in ascending name order',
                             'name': d.name, 'id': d.id, 'order': want_d, 'config_yaml': text})
        for d, g in zip(tt.data_stream_types, got[1:]):
            order = g.split()
            for e in d.event_record_types:
                id_checks += 1
                mdid = [x['id'] for x in md['events'] if x['name'] == e.name and x.get('stream_id', d.id) == d.id]
                if e.id != order.index(e.name) or mdid != [e.id]:
                    c.violation({'property': 'C13', 'kind': 'event record type ID is not its position in ascending name order '
                                 '(or metadata and configuration disagree)', 'name': e.name, 'id': e.id, 'metadata_ids': mdid,
                                 'order': order, 'config_yaml': text})
    c.coverage.update({
        'correspondence': {'iteration_sites': len(ss), 'sites_emitting_over_randomised_sets': sum(1 for s in ss if s['emits'] and s['randomized']),
                           'table_changed_this_run': changed, 'generations': len(jobs), 'configs': len(configs),
                           'hash_seeds_per_variant': nseeds, 'mapping_order_variants': nperm + 1,
                           'byte_differences': ndiff, 'id_checks': id_checks},
        'evaluations': len(jobs) + id_checks, 'disagreements_checked': ndiff,
        'samples': [{'site': s} for s in ss[:3]] + [{'job': list(j[:3])} for j in jobs[:3]],
    })
    if not c.violations and not ob['ok']:
        c.violation({'property': 'C13', 'kind': 'proof obligation no longer checks (set_iterations_sorted over the regenerated '
                     'iteration-site table, or an ID theorem); no two generations of the same configuration differed',
                     'failures': ob['failures'], 'unsorted_emitting_sites': [s for s in ss if s['emits'] and s['randomized'] and not s['sorted']],
                     'log': ob['log'][-1500:]}, found_input=False)
    if c.tier == 'thorough' and ob['ok']:
        ok, log = c.leanchecker(['BVM.Props.C13'])
        if not ok:
            c.violation({'property': 'C13', 'kind': 'leanchecker rejects the compiled proofs', 'log': log}, found_input=False)


def replay(c, path):
    r = json.load(open(path))
    p = os.path.join(common.scratch(), 'c.yaml')
    open(p, 'w').write(r['config_yaml'])
    a, _ = gen_sub(p, r['run_a']['PYTHONHASHSEED'])
    b, _ = gen_sub(p, r['run_b']['PYTHONHASHSEED'])
    c.coverage.update({'obligations': 1, 'discharged': 1, 'checker_cmd': 'replay', 'samples': [path]})
    if a != b:
        c.violation(r)
