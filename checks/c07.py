"""C07 — while tracing is disabled, tracing functions have no effect; calls are atomic w.r.t. the switch."""
import copy
import random
from checks import rtcommon as rt
from harness import common, hrt

ASSUME = [
    'reading: a tracing call is "past its clock sampling" from its test of the enable flag on; a toggle performed '
    'inside the clock callback at the entry of a tracing call counts as a toggle before the call',
    'an asynchronous interrupt landing between the clock sample and the enable test cannot be expressed at callback '
    'granularity and is not claimed',
    'toggles are scripted at callback entries (every callback position is reachable); the theorem '
    'trace_atomic_wrt_toggle quantifies over every enable value and every toggle script',
]

# the public accessors, and the private control flag that makes the packet functions reuse the saved clock sample
ACC = ('at', 'ps', 'full', 'empty', 'disc', 'seq', 'open', 'f', 'bs', 'uc')


def oracle(cs, h, lines):
    fails = []
    toggles = dict((a, b) for a, b in h['plat']['toggles'])
    has_clock = cs.d['clock'] is not None
    segs = rt.segments(lines)
    prev = None
    en = 1
    for seg, call in zip(segs, h['calls']):
        ret = seg[-1] if seg[-1].startswith('ret ') else None
        if call[0] == 'trace' and ret is not None:
            en_at_test = en
            cbs = [l for l in seg if l.startswith('cb ')]
            if has_clock and cbs:
                seq = int(cbs[0].split()[2])
                if seq in toggles:
                    en_at_test = toggles[seq]
            if not en_at_test:
                other = [l for l in seg[:-1] if not (l.startswith('cb clock') or l.startswith('clk ') or l.startswith('cx clock'))]
                if other:
                    fails.append(f'disabled tracing call did something other than sampling the clock: {other[0]}')
                if prev is not None:
                    a, b = rt.kv(prev), rt.kv(ret)
                    for k in ACC:
                        if a.get(k) != b.get(k):
                            fails.append(f'disabled tracing call changed accessor {k}: {a.get(k)} -> {b.get(k)}')
        if ret is not None:
            prev = ret
            en = int(rt.kv(ret)['en'])
    return fails


def metamorphic(c, cases, npairs):
    """atomicity on the implementation: adding toggles at the callbacks of the last tracing call (after its
    entry clock sample) must not change anything that call does, except the final enable flag"""
    rnd = random.Random(c.seed + 77)
    pairs = fails = 0
    for cs in cases:
        hs = []
        for _ in range(npairs):
            h = hrt.gen_history(rnd, cs.ir, cs.dname, cs.openargs, cs.recs, cs.hdr, cs.sizes, toggles=False)
            if not cs.recs:
                continue
            en, a = rnd.choice(cs.recs)
            h['calls'].append(['trace', en, a])
            hs.append(h)
        if not hs:
            continue
        base = hrt.run_impl(cs.exe, cs.ir, cs.dname, hs)
        hs2, keep = [], []
        for h, lines in zip(hs, base):
            segs = rt.segments(lines)
            if len(segs) != len(h['calls']):
                continue
            cbs = [l for l in segs[-1] if l.startswith('cb ')]
            if cs.d['clock'] is not None:
                cbs = cbs[1:]
            if not cbs:
                continue
            h2 = copy.deepcopy(h)
            seqs = [int(l.split()[2]) for l in cbs]
            h2['plat']['toggles'] = [[s, rnd.choice([0, 0, 1])] for s in seqs if rnd.random() < 0.7] or [[seqs[0], 0]]
            hs2.append(h2)
            keep.append(lines)
        if not hs2:
            continue
        got = hrt.run_impl(cs.exe, cs.ir, cs.dname, hs2)
        for h2, a, b in zip(hs2, keep, got):
            pairs += 1
            strip = lambda ls: [' '.join(t for t in l.split() if not t.startswith('en=')) for l in ls]
            if strip(a) != strip(b):
                fails += 1
                first = next((i for i, (x, y) in enumerate(zip(strip(a), strip(b))) if x != y), -1)
                c.violation({'property': 'C07', 'kind': 'a tracing call past its enable test behaved differently when '
                             'tracing was toggled from its callbacks', 'config_yaml': cs.text, 'dst': cs.dname,
                             'history': h2, 'without_toggles': a[-12:], 'with_toggles': b[-12:], 'first_diff': first})
    c.coverage['correspondence']['metamorphic_toggle_pairs'] = {'pairs': pairs, 'differences': fails}


def run(c):
    ob = c.proof_obligations()
    c.assumptions += ASSUME
    n, k = (8, 40) if c.tier == 'quick' else (60, 150)

    def gen(rnd, ir, dn, oa, recs, hdr, sizes):
        h = hrt.gen_history(rnd, ir, dn, oa, recs, hdr, sizes)
        # dense toggles: every callback position is a candidate
        L = len(h['calls'])
        h['plat']['toggles'] = sorted([s, rnd.choice([0, 1])] for s in rnd.sample(range(0, 5 * L), min(5 * L, rnd.randint(1, 8))))
        return h
    cases, dis, stats = rt.run_rt(c, oracle, n, k, gen_hist=gen)
    metamorphic(c, cases, 10 if c.tier == 'quick' else 60)
    rt.decide(c, ob, dis, oracle=oracle, gen_hist=gen)
    if c.tier == 'thorough' and ob['ok']:
        ok, log = c.leanchecker(['BVM.Props.C07'])
        if not ok:
            c.violation({'property': 'C07', 'kind': 'leanchecker rejects the compiled proofs', 'log': log}, found_input=False)


def replay(c, path):
    rt.replay(c, path, oracle)
