"""C10 — the front end is total: any input gives a configuration or a configuration error."""
import collections
import copy
import io
import multiprocessing as mp
import os
import random
import signal
import subprocess
from concurrent.futures import ProcessPoolExecutor
from harness import common, hfront, gencfg, genfront, genv2, faults, schematr

ASSUME = [
    'all byte strings: explored as structural single faults and multi-fault mutants of valid barectf 2 and 3 documents '
    '(loaded trees, the model\'s domain) plus raw byte corruption of their YAML text (PyYAML and Python I/O are outside '
    'any model: implementation-side search only)',
    'a hang is a load that takes more than 20 s of wall time in its worker; unbounded recursion shows as RecursionError',
    '"the generated C files compile": gcc -std=c99 -fsyntax-only on the generated source (strict ISO checks are C14\'s); '
    'a clock type `$c-type` is a user-supplied C type name emitted verbatim: configurations whose `$c-type` is not a standard '
    'unsigned integer type name are exempt from the compile oracle',
]

TIMEOUT = 20
GOOD_C_TYPES = {'uint8_t', 'uint16_t', 'uint32_t', 'uint64_t', 'unsigned long', 'unsigned long long', 'unsigned int',
                'unsigned char', 'unsigned short'}


class Hang(Exception):
    pass


def _alarm(signum, frame):
    raise Hang()


def load_and_generate(text, paths, outdir, path=None):
    """('accept', compile status) | ('reject', class) | ('crash', exception) | ('hang',).
    With `path`, the file is opened in text mode as the command-line tool does (decoding errors included)."""
    b = common.barectf()
    signal.signal(signal.SIGALRM, _alarm)
    signal.alarm(TIMEOUT)
    try:
        try:
            if path is not None:
                with open(path) as fobj:
                    cfg = b.configuration_from_file(fobj, inclusion_directories=paths)
            else:
                cfg = b.configuration_from_file(io.StringIO(text), inclusion_directories=paths)
        except b._ConfigurationParseError as exc:
            if not exc.context or not any(c.name for c in exc.context):
                return ('crash', 'configuration error without a context path', '')
            return ('reject', hfront.err_class(exc))
        except Hang:
            return ('hang',)
        except RecursionError:
            return ('crash', 'RecursionError', '')
        except Exception as exc:  # noqa
            return ('crash', type(exc).__name__, str(exc)[:200])
        # whenever loading succeeds, generation succeeds and the C compiles
        try:
            os.makedirs(outdir, exist_ok=True)
            files = common.gen_files(cfg, outdir)
        except Hang:
            return ('hang',)
        except Exception as exc:  # noqa
            return ('accept', 'generation-failed', f'{type(exc).__name__}: {str(exc)[:200]}')
        src = [n for n in files if n.endswith('.c')][0]
        rc, log = common.cc(['gcc', '-std=c99', '-fsyntax-only', '-I', outdir, os.path.join(outdir, src)])
        if rc != 0:
            # the C type of a clock source (`$c-type`) is a user-supplied C type name which barectf emits
            # verbatim and cannot validate: a configuration naming a type that does not exist is not counted
            ctypes = {str(v) for v in (cfg.options.code_generation_options.clock_type_c_types or {}).values()}
            if not ctypes <= GOOD_C_TYPES:
                return ('accept', 'ok', 'user C type: ' + ', '.join(sorted(ctypes - GOOD_C_TYPES))[:80])
            return ('accept', 'compile-failed', log[:300])
        return ('accept', 'ok', '')
    finally:
        signal.alarm(0)


def corrupt_bytes(rnd, text):
    b = bytearray(text.encode())
    for _ in range(rnd.choice([1, 1, 2, 4])):
        op = rnd.random()
        i = rnd.randrange(len(b))
        if op < 0.4:
            b[i] = rnd.choice(b' \t\n:-[]{}#&*!|>\'"%@`,?\\\x00\xff0azA')
        elif op < 0.6:
            del b[i:i + rnd.choice([1, 2, 8])]
        elif op < 0.8:
            b[i:i] = bytes(rnd.choice([b'  ', b'\n', b': ', b'- ', b'&a ', b'*a ', b'!!python/object:os.system ', b'\t', b'? ']))
        else:
            j = rnd.randrange(len(b))
            b[i:i + 10] = b[j:j + 10]
    if rnd.random() < 0.15:
        i = rnd.randrange(len(b))
        b[i:i] = rnd.choice([b'\xff', b'\xc3\x28', b'\xed\xa0\x80', b'\xfe\xff'])      # invalid UTF-8
    return bytes(b)


def worker(task):
    seed, workdir, nmut, nbytes = task
    rnd = random.Random(seed)
    recs = []
    for dialect in (3, 2):
        if dialect == 3:
            cfg, _ = gencfg.gen_config_tree(rnd, rnd.choice([1, 2, 3]), 'layout')
            dirs = [{}]
            if rnd.random() < 0.5:
                try:
                    cfg, dirs, _ = genfront.Reexpress(rnd, cfg, p_alias=0.4, p_inherit=0.3, p_include=0.6, ndirs=2).run()
                except Exception:
                    pass
        else:
            cfg, dirs = genv2.render2(genv2.gen_abs(rnd)), [{}]
            if rnd.random() < 0.5:
                cfg, dirs, _ = genv2.Decorate2(rnd, cfg, 2).run()
        docs = []
        for i in range(nmut):
            # one or several structural faults, in the root document or in an inclusion file
            target_inc = dirs and any(dirs) and rnd.random() < 0.25
            try:
                if target_inc:
                    di = rnd.choice([k for k, d in enumerate(dirs) if d])
                    fn = rnd.choice(list(dirs[di]))
                    m, what = faults.structural_mutant(rnd, dirs[di][fn])
                    nd = [dict(d) for d in dirs]
                    nd[di][fn] = m
                    docs.append((cfg, nd, 'inc:' + what))
                else:
                    m, what = faults.structural_mutant(rnd, cfg)
                    for _ in range(rnd.choice([0, 0, 0, 1, 3])):
                        m, w2 = faults.structural_mutant(rnd, m)
                        what += '+' + w2
                    docs.append((m, dirs, what))
            except Exception:
                continue
        # faults of the documented-constraint catalogue too (cycles, unknown names, bad kinds...): for this
        # property they only have to end in a configuration error
        if dialect == 3 and dirs == [{}]:
            # every operator of the catalogue is visited across the configurations of a run (round robin from the
            # task's seed), at a random applicable site
            app = faults.applicable(cfg)
            rnd.shuffle(app)
            nops = len(faults.OPS)
            want = [((seed % 1000) * max(6, nmut) + j) % nops for j in range(max(6, nmut))]
            picked = []
            for w_ in want:
                for oi, site in app:
                    if oi == w_:
                        picked.append((oi, site))
                        break
            for oi, site in picked:
                try:
                    m = faults.apply(cfg, oi, site, rnd)
                except Exception:
                    m = None
                if m is not None:
                    docs.append((m, dirs, 'catalogue:' + faults.OPS[oi][0]))
        if dialect == 2:
            for shape in rnd.sample(['member', 'element', 'inherit', 'chain'], 2):
                m = copy.deepcopy(cfg)
                meta = m.get('metadata')
                if isinstance(meta, dict) and '$include' not in meta and isinstance(meta.get('streams'), dict):
                    al = meta.get('type-aliases')
                    if not isinstance(al, dict):
                        al = {}
                        meta['type-aliases'] = al
                    if shape == 'member':
                        al['cyc'] = {'class': 'struct', 'fields': {'v': {'class': 'int', 'size': 8}, 'next': 'cyc'}}
                    elif shape == 'element':
                        al['cyc'] = {'class': 'array', 'length': 2, 'element-type': 'cyc'}
                    elif shape == 'inherit':
                        al['cyc'] = {'$inherit': 'cyc2', 'size': 8}
                        al['cyc2'] = {'inherit': 'cyc'}
                    else:
                        al['cyc'] = 'cyc2'
                        al['cyc2'] = 'cyc3'
                        al['cyc3'] = 'cyc'
                    st = rnd.choice(list(meta['streams'].values()))
                    if isinstance(st, dict) and isinstance(st.get('events'), dict) and st['events']:
                        ev = rnd.choice(list(st['events'].values()))
                        if isinstance(ev, dict):
                            ev['payload-type'] = {'class': 'struct', 'fields': {'c': 'cyc'}}
                            docs.append((m, dirs, 'v2-alias-cycle:' + shape))
        for i, (doc, dd, what) in enumerate(docs):
            w = hfront.World(dd, False, True, dialect)
            wd = os.path.join(workdir, f'v{dialect}_{i}')
            try:
                w.materialise(wd)
                text = hfront.dump_yaml(doc, v3root=(dialect == 3))
            except Exception:
                continue          # not representable as YAML text by the dumper
            out = load_and_generate(text, w.paths, os.path.join(wd, 'gen'))
            rec = {'dialect': dialect, 'what': what, 'text': text, 'dirs': dd, 'out': list(out), 'kind': 'structural'}
            try:
                rec['tree'] = hfront.yj(hfront.load_yaml(text)[0])
                rec['loaded'] = w.loaded
            except Exception:
                rec['tree'] = None
            recs.append(rec)
        # mapping keys that are not strings, written in the text: a sequence or a mapping as a key (unhashable), a number,
        # a boolean, null — at a random mapping of the document
        base_text = hfront.dump_yaml(cfg, v3root=(dialect == 3))
        tl = base_text.split('\n')
        keyed = [i for i, l in enumerate(tl) if l.strip() and not l.strip().startswith(('-', '#', '%', '?')) and ':' in l
                 and not l.startswith('---')]
        for ck in rnd.sample(['? [cx, cy]', '? {ca: 1}', '? 12', '? true', '? ~', '? [[1]]'], 3):
            if not keyed:
                break
            i = rnd.choice(keyed)
            ind = tl[i][:len(tl[i]) - len(tl[i].lstrip())]
            text = '\n'.join(tl[:i] + [ind + ck, ind + ': 1'] + tl[i:])
            w = hfront.World(dirs, False, True, dialect)
            wd = os.path.join(workdir, f'k{dialect}_{abs(hash(ck)) % 1000}')
            w.materialise(wd)
            out = load_and_generate(text, w.paths, os.path.join(wd, 'gen'))
            recs.append({'dialect': dialect, 'what': 'text:key ' + ck, 'text': text, 'dirs': dirs, 'out': list(out),
                         'kind': 'text', 'tree': None})
        # raw byte corruption of the text
        w = hfront.World(dirs, False, True, dialect)
        w.materialise(os.path.join(workdir, f'b{dialect}'))
        for i in range(nbytes):
            raw = corrupt_bytes(rnd, base_text)
            fp = os.path.join(workdir, f'b{dialect}', f'in{i}.yaml')
            with open(fp, 'wb') as fb:
                fb.write(raw)
            out = load_and_generate(None, w.paths, os.path.join(workdir, f'b{dialect}', f'gen{i}'), path=fp)
            recs.append({'dialect': dialect, 'what': 'bytes', 'text': raw.decode('latin-1'), 'encoding': 'latin-1 (raw bytes)',
                         'dirs': dirs, 'out': list(out), 'kind': 'bytes', 'tree': None})
    return recs


def cli_runs(c, work, samples):
    """exit status 1 with an error message, no traceback, no output file; exit 0 and files otherwise"""
    env = dict(os.environ, PYTHONPATH=common.REPO, PYTHONWARNINGS='ignore')
    st = collections.Counter()
    for i, rec in enumerate(samples):
        d = os.path.join(work, f'cli{i}')
        w = hfront.World(rec['dirs'], False, True, rec['dialect'])
        w.materialise(d)
        cfgp = os.path.join(d, 'config.yaml')
        with open(cfgp, 'wb') as fb:
            fb.write(rec['text'].encode('latin-1') if rec.get('encoding') else rec['text'].encode())
        gen = os.path.join(d, 'out')
        os.makedirs(gen)
        cmd = ['/venv/bin/barectf', 'generate', '-c', gen, '-H', gen, '-m', gen]
        for p in w.paths:
            cmd += ['-I', p]
        cmd.append(cfgp)
        try:
            r = subprocess.run(cmd, capture_output=True, text=True, env=env, timeout=60, cwd=d)
        except subprocess.TimeoutExpired:
            c.violation({'property': 'C10', 'kind': 'CLI hangs', 'doc_yaml': rec['text'], 'dirs': rec['dirs']})
            continue
        files = os.listdir(gen)
        st['runs'] += 1
        expected_ok = rec['out'][0] == 'accept'
        bad = None
        if 'Traceback' in r.stderr:
            bad = 'Python traceback on stderr'
        elif expected_ok and (r.returncode != 0 or not files):
            bad = f'API accepts but the CLI exits {r.returncode} with {len(files)} files'
        elif not expected_ok and (r.returncode != 1 or files or not r.stderr.strip()):
            bad = f'rejected configuration: exit status {r.returncode}, {len(files)} output files, stderr {len(r.stderr)} bytes'
        st['exit_%d' % r.returncode] += 1
        if bad:
            c.violation({'property': 'C10', 'kind': 'CLI: ' + bad, 'doc_yaml': rec['text'], 'dirs': rec['dirs'],
                         'stderr': r.stderr[-500:], 'api_outcome': rec['out']})
    return dict(st)


def run(c):
    c.assumptions += ASSUME
    # the schema half of the model is regenerated from /repo; if the schema files can no longer be translated
    # (a keyword, pattern or shape the interpreter does not model) the model is not compared with anything: the
    # obligation is broken and only the implementation-side search runs
    model_ok = True
    try:
        tstats = schematr.write_if_changed()
        c.coverage['schema_translation'] = {k: tstats[k] for k in ('files', 'definitions', 'store_entries', 'dangling_refs', 'changed')}
    except schematr.Untranslatable as ex:
        model_ok = False
        c.coverage['schema_translation'] = {'error': f'schema files of /repo cannot be translated: {ex}'}
    ob = c.proof_obligations()
    if not model_ok:
        ob = dict(ob, ok=False, failures=[c.coverage['schema_translation']['error']] + list(ob['failures']))
    thorough = c.tier == 'thorough'
    work = common.scratch()
    import json
    wst = {}
    for e in c.known_entries('fixed'):
        wt = json.load(open(os.path.join(common.VERIF, e['witness'])))
        w = hfront.World(wt['dirs'], False, True, wt.get('dialect', 3))
        w.materialise(os.path.join(work, 'wit_' + e['id']))
        if wt.get('encoding'):
            fp = os.path.join(work, 'wit_' + e['id'], 'in.yaml')
            with open(fp, 'wb') as fb:
                fb.write(wt['doc_yaml'].encode('latin-1'))
            out = load_and_generate(None, w.paths, os.path.join(work, 'wit_' + e['id'], 'gen'), path=fp)
        else:
            out = load_and_generate(wt['doc_yaml'], w.paths, os.path.join(work, 'wit_' + e['id'], 'gen'))
        wst[e['id']] = out[0] + ((':' + out[1]) if len(out) > 1 else '')
        if out[0] in ('crash', 'hang') or (out[0] == 'accept' and out[1] != 'ok'):
            c.violation(dict(wt, property='C10', kind='a repaired finding is back: ' + e['line'], outcome=list(out)))
    c.coverage['finding_witnesses'] = wst
    ncfg, nmut, nbytes = (150, 20, 40) if thorough else (14, 10, 8)
    tasks = [(c.seed * 100000 + i, os.path.join(work, f'c{i}'), nmut, nbytes) for i in range(ncfg)]
    with ProcessPoolExecutor(max_workers=min(common.NPROC, 14), mp_context=mp.get_context('fork')) as ex:
        results = [r for rs in ex.map(worker, tasks, chunksize=1) for r in rs]
    st = collections.Counter()
    ops = collections.Counter()
    for r in results:
        o = r['out']
        st[f'{r["kind"]}_v{r["dialect"]}'] += 1
        st['outcome_' + o[0] + ('_' + o[1] if o[0] == 'accept' else '')] += 1
        if r['kind'] == 'structural':
            ops[r['what'].split('@')[0].replace('inc:', '').split(':')[0]] += 1
        rep = {'property': 'C10', 'dialect': r['dialect'], 'fault': r['what'], 'doc_yaml': r['text'], 'dirs': r['dirs'], 'outcome': o}
        if r.get('encoding'):
            rep['encoding'] = r['encoding']
        if o[0] == 'crash':
            c.violation(dict(rep, kind=f'loading raises {o[1]} instead of a configuration error'))
        elif o[0] == 'hang':
            c.violation(dict(rep, kind='loading does not return'))
        elif o[0] == 'accept' and o[1] != 'ok':
            c.violation(dict(rep, kind=f'loading succeeds but {o[1]}', detail=o[2]))
    # inclusion worlds: files including each other (cyclically in one case out of five), missing files, shadowing, paths
    # that are not in normal form — the real `_process_*_node_include` must answer with a result or a configuration error
    import random as _random
    from harness import genfront
    rndw = _random.Random(c.seed * 7919 + 17)
    nw = 400 if thorough else 80
    for wi in range(nw):
        kind = rndw.choice(genfront.KINDS3 + genfront.KINDS2)
        node, dirs, ign = genfront.gen_include_world(rndw, kind, p_acyclic=0.4)
        w = hfront.World(dirs, ign, with_pkg=False, version=2 if kind.endswith('2') else 3)
        w.materialise(os.path.join(work, f'incw{wi}'))
        r = hfront.real_include(kind, hfront.to_od(node), w)
        st['inclusion_worlds'] += 1
        st['inclusion_' + r[0]] += 1
        if r[0] not in ('ok', 'err'):
            c.violation({'property': 'C10', 'kind': f'inclusion processing raises {r[1]} instead of a configuration error',
                         'include_kind': kind, 'node': node, 'dirs': dirs, 'ignore_missing': ign, 'detail': str(r[2])[-400:]})
    # model vs implementation on the structural mutants the model can read
    pk2, pk3 = hfront.pkg_dir_files(2), hfront.pkg_dir_files(3)
    lines, idx = [], []
    for i, r in enumerate(results):
        if r['kind'] == 'structural' and r.get('tree') is not None:
            if r['dialect'] == 3:
                lines.append({'op': 'load3', 'doc': r['tree'], 'dirs': r['loaded'] + [pk3], 'ignore': False})
            else:
                lines.append({'op': 'load2', 'doc': r['tree'], 'dirs2': r['loaded'] + [pk2], 'dirs3': r['loaded'] + [pk3]})
            idx.append(i)
    out = common.drv_run(lines) if model_ok else []
    dis = []
    for i, line in zip(idx, out):
        r = results[i]
        model = 'accept' if line.startswith('ok ') else line.split()[0]
        real = r['out'][0]
        if model == 'unknown':
            st['model_unknown'] += 1
            continue
        st['verdicts_compared'] += 1
        if model != real:
            st['verdict_disagreements'] += 1
            dis.append({'dialect': r['dialect'], 'fault': r['what'], 'doc_yaml': r['text'], 'dirs': r['dirs'], 'real': r['out'], 'model': line[:200]})
    # CLI on a sample of rejected and accepted documents
    rej = [r for r in results if r['out'][0] == 'reject' and r['kind'] == 'structural'][:6 if not thorough else 40]
    acc = [r for r in results if r['out'][0] == 'accept'][:3 if not thorough else 15]
    byt = [r for r in results if r['kind'] == 'bytes' and r['out'][0] == 'reject'][:4 if not thorough else 30]
    cli = cli_runs(c, work, rej + acc + byt)
    c.coverage['correspondence'] = {'H-frontend (structural faults, byte corruption)': dict(st), 'structural_operators': dict(ops), 'cli': cli}
    c.coverage['evaluations'] = len(results)
    c.coverage['disagreements_checked'] = len(dis)
    c.coverage['disagreement_samples'] = dis[:8]
    if c.violations:
        return
    if dis:
        c.violation({'property': 'C10', 'kind': 'correspondence broken: the Lean model of the loader no longer gives the verdict '
                     '(accept / configuration error / other exception) of the implementation; no input on which the real '
                     'front end crashes, hangs or accepts a configuration it cannot generate was found',
                     'obligation': 'H-load (verdicts of load3/load2 vs configuration_from_file)', 'case': dis[0],
                     'proofs_ok': ob['ok']}, found_input=False)
    elif not ob['ok']:
        c.violation({'property': 'C10', 'kind': 'proof obligation no longer checks', 'failures': ob['failures'],
                     'log': ob['log'][-1500:]}, found_input=False)
    if thorough:
        ok, log = c.leanchecker(['BVM.Props.C10'])
        if not ok:
            c.violation({'property': 'C10', 'kind': 'leanchecker rejects the compiled proofs', 'log': log}, found_input=False)


def replay(c, path):
    import json
    rep = json.load(open(path))
    rep = rep.get('case', rep)
    work = common.scratch()
    w = hfront.World(rep['dirs'], False, True, rep.get('dialect', 3))
    w.materialise(os.path.join(work, 'w'))
    if rep.get('encoding'):
        fp = os.path.join(work, 'in.yaml')
        with open(fp, 'wb') as fb:
            fb.write(rep['doc_yaml'].encode('latin-1'))
        out = load_and_generate(None, w.paths, os.path.join(work, 'gen'), path=fp)
    else:
        out = load_and_generate(rep['doc_yaml'], w.paths, os.path.join(work, 'gen'))
    print('outcome:', out)
    c.coverage.update({'obligations': 1, 'discharged': 1, 'checker_cmd': 'replay of ' + path})
    if out[0] in ('crash', 'hang') or (out[0] == 'accept' and out[1] != 'ok'):
        c.violation(rep)
