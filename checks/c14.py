"""C14 — generated code is strict ANSI C (and valid C++) with the documented API."""
import json
import os
import random
from concurrent.futures import ThreadPoolExecutor
from checks import rtcommon as rt
from checks import lycommon as ly
from harness import common, hlayout, irx

ASSUME = [
    'conformance of the emitted text to ISO C90 / C++98 is NOT a theorem: it is evaluated by gcc, clang, g++ and '
    'clang++ with -ansi / -std=c++98 and -pedantic-errors on every sample: a diagnostic the standard requires is a '
    'violation; -Wall -Wextra warnings (unused variable/parameter in corner configurations) are counted in the evidence '
    'but are not conformance diagnostics',
    'the prototypes expected by the check are derived from the documentation (the Lean protoParams), not from the header',
]

C_FLAGS = ['-ansi', '-pedantic-errors', '-Wall', '-Wextra', '-Wno-unused-function', '-c']
CXX_FLAGS = ['-std=c++98', '-pedantic-errors', '-Wall', '-Wextra', '-Wno-unused-function', '-Wno-long-long', '-x', 'c++', '-c']


def ctype_table():
    """exhaustive comparison of the real _ft_c_type with the Lean model over its finite domain"""
    import barectf.config as bc
    import barectf.cgen as cgen
    cfg = common.load_cfg(HOST_CFG)
    cg = cgen._CodeGen(cfg)
    q = []
    for sz in range(1, 65):
        for signed in (False, True):
            ft = (bc.SignedIntegerFieldType if signed else bc.UnsignedIntegerFieldType)(sz)
            q.append(({'op': 'ctype', 'k': 'int', 's': signed, 'sz': sz}, str(cg._ft_c_type(ft)), 'ctype-table'))
    for sz in (32, 64):
        for al in (1, 2, 4, 8, 16, 32, 64):
            q.append(({'op': 'ctype', 'k': 'real', 'sz': sz, 'al': al}, str(cg._ft_c_type(bc.RealFieldType(sz, al))), 'ctype-table'))
    lines = [json.dumps(x[0]) for x in q]
    got = common.drv_run(lines)
    return [(x[0], x[1], g) for x, g in zip(q, got) if x[1] != g], len(q)


HOST_CFG = '''--- !<tag:barectf.org,2020/3/config>
trace:
  type:
    native-byte-order: le
    data-stream-types:
      d:
        event-record-types:
          e:
            payload-field-type:
              class: struct
              members:
                - a: {field-type: {class: uint, size: 8}}
'''


def compile_sample(cs):
    """every strict compile of one generated tracer; returns list of diagnostics"""
    d = os.path.dirname(cs.exe)
    fp = cs.ir['prefix']['file']
    fails = []
    with open(os.path.join(d, 'hdr_only.c'), 'w') as f:
        f.write(f'#include "{fp}.h"\nint hdr_only_dummy;\n')
    jobs = []
    for cc in ('gcc', 'clang'):
        jobs.append(([cc] + C_FLAGS + [f'{fp}.c', '-o', f'o_{cc}.o'], f'{cc} -ansi -pedantic'))
        jobs.append(([cc] + C_FLAGS + ['hdr_only.c', '-o', f'h_{cc}.o'], f'{cc} header-only'))
    for cxx in ('g++', 'clang++'):
        jobs.append(([cxx] + CXX_FLAGS + [f'{fp}.c', '-o', f'o_{cxx}.o'], f'{cxx} -std=c++98'))
        jobs.append(([cxx] + CXX_FLAGS + ['hdr_only.c', '-o', f'h_{cxx}.o'], f'{cxx} header-only'))
    nwarn = 0
    for cmd, what in jobs:
        rc, log = common.cc(cmd, cwd=d)
        nwarn += log.count('warning:')
        if rc != 0:
            fails.append(f'{what}: {log.strip()[:400]}')
    cs.nwarn = nwarn
    return fails, len(jobs)


LATTICE = ['clock', 'ts_begin', 'ts_end', 'discarded', 'seq_num', 'type_id', 'er_ts', 'magic', 'uuid', 'dst_id', 'common_ctx',
           'spec_ctx', 'payload']


def lattice_config(on):
    """a small configuration with exactly the features of `on` enabled (every other one explicitly disabled): each
    combination makes the templates emit a different set of declarations and statements"""
    import yaml
    from harness import gencfg
    u = lambda n: {'class': 'uint', 'size': n}
    clk = 'clock' in on
    tf = {'magic-field-type': True if 'magic' in on else False, 'uuid-field-type': True if 'uuid' in on else False,
          'data-stream-type-id-field-type': u(8) if 'dst_id' in on else False}
    pkt = {'total-size-field-type': u(32), 'content-size-field-type': u(32),
           'beginning-timestamp-field-type': u(64) if clk and 'ts_begin' in on else False,
           'end-timestamp-field-type': u(64) if clk and 'ts_end' in on else False,
           'discarded-event-records-counter-snapshot-field-type': u(16) if 'discarded' in on else False,
           'sequence-number-field-type': u(16) if 'seq_num' in on else False}
    er = {'type-id-field-type': u(8) if 'type_id' in on else False,
          'timestamp-field-type': u(64) if clk and 'er_ts' in on else False}
    st = lambda n: {'class': 'struct', 'members': [{n: {'field-type': u(16)}}, {n + '2': {'field-type': {'class': 'str'}}}]}
    e = {}
    if 'spec_ctx' in on:
        e['specific-context-field-type'] = st('s')
    if 'payload' in on:
        e['payload-field-type'] = st('p')
    d = {'$features': {'packet': pkt, 'event-record': er}, 'event-record-types': {'e': e}}
    if clk:
        d['$default-clock-type-name'] = 'c'
    if 'common_ctx' in on:
        d['event-record-common-context-field-type'] = st('c')
    tt = {'native-byte-order': 'le', '$features': tf, 'data-stream-types': {'s': d}}
    if 'uuid' in on:
        tt['uuid'] = '79e49040-21b5-42d4-a873-677261696e65'
    if clk:
        tt['clock-types'] = {'c': {'$c-type': 'uint64_t'}}
    return gencfg.HEADER + yaml.safe_dump({'trace': {'type': tt}}, sort_keys=False, default_flow_style=False)


def run(c):
    ob = c.proof_obligations()
    c.assumptions += ASSUME
    n = 12 if c.tier == 'quick' else 80
    work = common.scratch()
    seeds = [c.seed * 1000 + i for i in range(n)]
    with ThreadPoolExecutor(max_workers=min(common.NPROC, 12)) as ex:
        made = list(ex.map(lambda s: rt.make_case(s, work), seeds))
    cases = [m[0] for m in made if isinstance(m[0], rt.Case)]
    for m in made:
        if m[0] == 'compile-failed':
            c.violation({'property': 'C14', 'kind': 'generated tracer does not compile with the documented prototypes',
                         'config_yaml': m[1], 'log': m[2][:1500]})
    bad_tab, ntab = ctype_table()
    for q, impl, model in bad_tab[:3]:
        doc = None
        c.violation({'property': 'C14', 'kind': 'C type of a field type differs from the documented one (model of the '
                     'documentation table)', 'query': q, 'implementation': impl, 'documented': model})
    ncmp = nbad = ncompiles = 0
    with ThreadPoolExecutor(max_workers=min(common.NPROC, 12)) as ex:
        comp = list(ex.map(compile_sample, cases))
    for cs, (fails, nj) in zip(cases, comp):
        ncompiles += nj
        for f in fails[:2]:
            c.violation({'property': 'C14', 'kind': 'strict compilation diagnostic', 'diagnostic': f, 'config_yaml': cs.text})
        q = [x for x in ly.static_queries(cs) if x[2] == 'prototype']
        bad, n1 = ly.run_queries(cs, q)
        ncmp += n1
        nbad += len(bad)
        for (qq, impl, model, lab) in bad[:2]:
            c.violation({'property': 'C14', 'kind': 'prototype differs from the documented one', 'query': qq,
                         'header': impl, 'documented': model, 'config_yaml': cs.text})
    # the feature lattice: every on/off combination of the 13 packet / event record / trace features changes which
    # declarations and statements the templates emit; a sample of the 2^13 combinations (all singletons, all
    # complements of singletons, random ones) is generated and compiled under the strict flags
    import random as _random
    lrnd = _random.Random(c.seed + 1414)
    combos = [frozenset(LATTICE)] + [frozenset([x]) for x in LATTICE] + [frozenset(LATTICE) - {x} for x in LATTICE]
    combos += [frozenset(x for x in LATTICE if lrnd.random() < 0.5) for _ in range(24 if c.tier == 'quick' else 400)]
    combos = list(dict.fromkeys(combos))
    lat = {'combinations': len(combos), 'of': 2 ** len(LATTICE), 'compiled': 0, 'rejected_by_front_end': 0, 'diagnostics': 0}

    def one(i_on):
        i, on = i_on
        try:
            made = rt.make_case(900000 + i, work, yaml_text=lattice_config(on))
        except Exception as e:      # a combination the front end refuses (configuration error) is not C14's subject
            return ('rejected', on, str(e)[:200])
        cs = made[0]
        if not isinstance(cs, rt.Case):
            return ('nobuild', on, made)
        return ('ok', on, cs, compile_sample(cs))
    with ThreadPoolExecutor(max_workers=min(common.NPROC, 12)) as ex:
        res = list(ex.map(one, enumerate(combos)))
    for r in res:
        if r[0] == 'rejected':
            lat['rejected_by_front_end'] += 1
        elif r[0] == 'nobuild':
            if r[2][0] == 'compile-failed' and not c.violations:
                c.violation({'property': 'C14', 'kind': 'generated tracer does not compile with the documented prototypes',
                             'features_on': sorted(r[1]), 'config_yaml': r[2][1], 'log': r[2][2][:1500]})
        else:
            lat['compiled'] += 1
            fails, nj = r[3]
            ncompiles += nj
            if fails:
                lat['diagnostics'] += 1
                if not c.violations:
                    c.violation({'property': 'C14', 'kind': 'strict compilation diagnostic', 'diagnostic': fails[0],
                                 'features_on': sorted(r[1]), 'config_yaml': r[2].text})
    # the command line: `barectf generate --prefix=P` must produce what the same document produces with its prefix
    # option set to P (identifier prefix P, file name prefix P without trailing underscores: barectf(1)); every
    # generated file is compared (prototypes, C types of the clock callbacks, everything)
    from checks import c19, c11
    import yaml as _yaml
    cli = {'configurations': 0, 'files_compared': 0, 'differences': 0}
    for cs in cases[:(4 if c.tier == 'quick' else 20)]:
        pref = lrnd.choice(['zz_', 'q_x_', 'my_pfx__'])
        doc = _yaml.safe_load(cs.text.split('\n', 1)[1])
        doc.setdefault('options', {}).setdefault('code-generation', {})['prefix'] = {'identifier': pref, 'file-name': pref.rstrip('_')}
        from harness import gencfg as _g
        text2 = _g.HEADER + _yaml.dump(doc, Dumper=_g.QuotingDumper, sort_keys=False, default_flow_style=False)
        d = os.path.dirname(cs.exe)
        rc1, err1, g1 = c19.cli_generate(cs.text, os.path.join(d, 'cliA'), pref)
        rc2, err2, g2 = c19.cli_generate(text2, os.path.join(d, 'cliB'), None)
        if rc1 != 0 or rc2 != 0:
            c.inconclusive.append('CLI failed on a valid configuration: ' + (err1 or err2)[:200])
            continue
        cli['configurations'] += 1
        f1 = {n: open(os.path.join(g1, n)).read() for n in sorted(os.listdir(g1))}
        f2 = {n: open(os.path.join(g2, n)).read() for n in sorted(os.listdir(g2))}
        for n in sorted(set(f1) | set(f2)):
            cli['files_compared'] += 1
            a, b = c11.strip_dates(n, f1.get(n, '')), c11.strip_dates(n, f2.get(n, ''))
            if a != b:
                cli['differences'] += 1
                if not c.violations:
                    la, lb = a.split('\n'), b.split('\n')
                    k = next((i for i, (x, y) in enumerate(zip(la, lb)) if x != y), min(len(la), len(lb)))
                    c.violation({'property': 'C14', 'kind': 'the files generated with --prefix differ from those generated from '
                                 'the same document with that prefix configured (the documented API depends on how the prefix '
                                 'was given)', 'file': n, 'first_difference': {'with --prefix': la[k:k + 2], 'configured': lb[k:k + 2]},
                                 'cli_prefix': pref, 'config_yaml': cs.text})
    c.coverage.update({
        'correspondence': {'ctype_table': {'entries': ntab, 'differences': len(bad_tab), 'exhaustive': True},
                           'feature_lattice': lat, 'cli_prefix_equivalence': cli,
                           'prototypes': {'compared': ncmp, 'differences': nbad},
                           'strict_compiles': ncompiles, 'configs': len(cases),
                           'non_conformance_warnings_Wall_Wextra': sum(getattr(cs, 'nwarn', 0) for cs in cases)},
        'evaluations': ntab + ncmp + ncompiles, 'disagreements_checked': len(bad_tab) + nbad,
        'samples': [{'config_seed': cs.seed, 'prototypes': len([x for x in ly.static_queries(cs) if x[2] == 'prototype'])} for cs in cases[:3]],
    })
    if not c.violations and not ob['ok']:
        c.violation({'property': 'C14', 'kind': 'proof obligation no longer checks', 'failures': ob['failures'],
                     'log': ob['log'][-1500:]}, found_input=False)
    if c.tier == 'thorough' and ob['ok']:
        ok, log = c.leanchecker(['BVM.Props.C14'])
        if not ok:
            c.violation({'property': 'C14', 'kind': 'leanchecker rejects the compiled proofs', 'log': log}, found_input=False)


def replay(c, path):
    r = json.load(open(path))
    work = common.scratch()
    made = rt.make_case(1, work, yaml_text=r['config_yaml'])
    cs = made[0]
    fails, _ = compile_sample(cs) if isinstance(cs, rt.Case) else (['does not build'], 0)
    q = [x for x in ly.static_queries(cs) if x[2] == 'prototype'] if isinstance(cs, rt.Case) else []
    bad, _ = ly.run_queries(cs, q) if q else ([], 0)
    print(fails, bad)
    c.coverage.update({'obligations': 1, 'discharged': 1, 'checker_cmd': 'replay', 'samples': [path]})
    if fails or bad:
        c.violation(r)
