#!/usr/bin/env python3
"""Regenerates MANIFEST.json from the per-property table below (kept in one place so that
the manifest is always valid and complete)."""
import json
import os

HERE = os.path.dirname(os.path.abspath(__file__))
BASELINE = "cd /repo && /venv/bin/python -m pytest -ra -q -p no:cacheprovider --timeout=900 --continue-on-collection-errors"

CHECKS = {
    'C08': dict(
        engine='h-bits',
        technique='Lean 4 proof (bit-level specification of both bit-field macros, all values/offsets/buffers) '
                  '+ exhaustive-shape correspondence of the Lean model with the rendered C macro',
        text='Full: bfWriteLE_bits / bfWriteBE_bits / bf_touch / memcpy_eq_bitfield / no_ub_shift are proved in Lean for '
             'every carrier width, value, start offset, length and prior buffer content. The model is a statement-by-'
             'statement transcription of bitfield.h.j2 and is compared with the macro rendered from /repo on every run, '
             'over every (byte order, start, length, carrier) shape in the thorough tier and a seeded slice in quick.',
        note='Trusted: Lean kernel; axioms propext/Classical.choice/Quot.sound; gcc arithmetic right shift of negative '
             'values; unit type uint8_t; little-endian host for the memcpy path; the H-bits harness and its bit-by-bit '
             'reference. UBSan (-fsanitize=shift) run of the real macro is search, not proof.',
        design='5 (C08), 3.2 (H-bits)'),
}

CHECKS['C16'] = dict(
    engine='h-runtime',
    technique='Lean 4 proof (invariant by induction over all API histories of the runtime model) + '
              'event-stream correspondence with the generated C tracer',
    text='Full over the model: stores_under_flag, flag_restored (every store of every history under flag 1; flag 0 at '
         'every API return) and callbacks_under_flag (every callback and store of a tracing call after its enable test) '
         'are proved for all configurations, histories, platform scripts and buffer sizes. The runtime model is a '
         'line-by-line transcription of barectf.c.j2 compared with the compiled generated tracer on random histories '
         '(flag sampled at every callback entry/exit and API return).',
    note='Trusted: Lean kernel and standard axioms; the model-vs-code tie is differential (H-runtime generators); '
         'the entry clock sample of a tracing call is outside the section by construction of the code (reading recorded '
         'in the evidence); asynchronous observers are represented by callback/store instants.',
    design='5 (C16), 3.2 (H-runtime)')
CHECKS['C07'] = dict(
    engine='h-runtime',
    technique='Lean 4 proof (no-op lemma + commutation of every in-section function with an arbitrary change of the '
              'enable flag and toggle script) + event-stream correspondence + metamorphic toggle test on the C tracer',
    text='Full over the model: disabled_trace_is_noop, disabled_period_is_noop and trace_atomic_wrt_toggle (a call past '
         'its enable test yields the same buffer, event log and context whatever the enable flag and toggle script are) '
         'are proved for all configurations, arguments and states. Tie: H-runtime with toggles at random callback '
         'positions; implementation-side metamorphic pairs (same history with/without in-call toggles).',
    note='Trusted: Lean kernel and standard axioms; differential tie; interrupt between clock sample and enable test is '
         'not expressible at callback granularity (not claimed).',
    design='5 (C07), 3.2 (H-runtime)')

CHECKS['C03'] = dict(
    engine='h-runtime',
    technique='Lean 4 proof (counting invariants by induction over all API histories) + event-stream correspondence + '
              'decoding of the delivered packets of the C tracer with an independent CTF reader driven by the real metadata',
    text='Partial. Proved for all configurations/histories/platform scripts: every tracing call that passed its enable '
         'test ends as exactly one serialised record or exactly one counted discard (calls_recorded_or_discarded, '
         'one_call_one_outcome), the discarded counter is the number of discards mod 2^32 (discarded_counter_exact), a '
         'record is refused only when it cannot fit an empty packet or the back end answered full (discard_only_if); for '
         'platforms with one buffer size the first holds along every history with no side condition '
         '(calls_recorded_or_discarded_always, from the C02 position invariant), and every serialised record begins at or '
         'after the end of the previous record of its packet (or of the packet context) and ends inside the packet: no '
         'overlap, call order (records_laid_out_in_order). Not '
         'proved: that the delivered bytes decode to those records in order without overlap (needs the layout round trip '
         'and the packet position invariant; false on the pinned tree in the corners of findings F8/F9). That part is '
         'evaluated on the implementation: every delivered packet is decoded with the parsed real metadata and compared '
         'with the calls made.',
    note='Trusted: Lean kernel/standard axioms; differential tie; the Python TSDL parser + CTF reader (the oracle); '
         'known finding F9 (platform open/close ignored while tracing is disabled) suppresses only histories in which a '
         'platform-initiated open/close ran while tracing was disabled.',
    design='5 (C03), 3.2')
CHECKS['C04'] = dict(
    engine='h-runtime',
    technique='Lean 4 proof (ghost snapshot invariant over all histories) + event-stream correspondence + field-by-field '
              'decoding of every delivered packet of the C tracer',
    text='Partial. Proved for all configurations/histories: at every packet closing the discarded-records snapshot is the '
         'number of discards before it, and the sequence number is the number of packets closed before it (mod 2^32; 0 '
         'with the feature off); for platforms with one buffer size, from any reachable state with an open packet the '
         'closing saves as content size exactly the end of the last record (or of the packet context), at most the packet size = '
         'buffer size, and leaves the packet closed with at = packet_size (closing_saves_the_end_of_the_last_record); the same '
         'for every closing event of the log of every history (every_closing_saves_the_end_of_the_last_record). '
         'Not proved: the statement about the delivered bytes (magic, UUID, stream id, sizes read '
         'back at the reader offsets) - evaluated on the implementation on every delivered packet instead.',
    note='Trusted: as C03. Known finding F9.',
    design='5 (C04), 3.2')
CHECKS['C06'] = dict(
    engine='h-runtime',
    technique='Lean 4 proof (accessor/ghost-counter invariant over all histories; no-op lemmas) + event-stream '
              'correspondence + protocol oracle on the C tracer log',
    text='Partial. Proved for all configurations/histories: is-open is exactly "the newest effective opening/closing is an '
         'opening"; discarded and sequence accessors equal the numbers of discards and closed packets; opening an open '
         'packet and closing a closed one are identities; for platforms with one buffer size, after any history packet_size '
         'is the buffer size, at <= packet_size, an open packet has off_content <= at (is-empty <=> at = off_content) and '
         'the saved content size is <= packet_size (open_packet_position, is_empty_iff_at_content_start); for platforms '
         'installing buffers of different sizes whose histories start by opening a packet and never disable tracing, a closed '
         'packet is parked at its end (closed_packet_is_parked_at_the_end: is-full is true, the next tracing call asks the back '
         'end). Not proved: '
         'callback-protocol clauses (need closed => at = packet_size, false in the corners of F9) - evaluated on the '
         'implementation log by the oracle (tracer-invoked open only on a closed packet after a not-full answer, close '
         'only on an open packet, is-empty until the first record, buffer accessors).',
    note='Trusted: as C03. Known finding F9.',
    design='5 (C06), 3.2')

CHECKS['C02'] = dict(
    engine='h-runtime',
    technique='Lean 4 proof (global theorem no_store_outside_the_buffer: position invariant by induction over all API '
              'histories and platform scripts, composed from the size-pass/serialise-pass agreement of every root, the '
              'saved-offset lemma of the packet context and the fit checks of the tracing function; hypotheses evaluated '
              'by the compiled driver on real configurations) + event-stream correspondence + guard-page / assertion / '
              'sanitizer oracle on the C tracer',
    text='Full over the model for platforms whose packet buffers all have one size; partial otherwise. Proved '
         '(no_store_outside_the_buffer): from barectf_init on a buffer of L bytes, after any sequence of API calls (any '
         'order, misuse included) against any platform script (back-end answers, clock, toggles of is_tracing_enabled '
         'inside any callback, swaps to buffers of L bytes) no store falls outside the buffer, packet_size is the buffer '
         'size, at is inside the packet and the offsets saved for the closing write-backs are inside the buffer; stated '
         'also on the log itself (every_store_inside_the_buffer: every store event has off + n <= L). The same for platforms '
         'installing buffers of different sizes when the history starts by opening a packet and never disables tracing '
         '(no_store_outside_the_buffer_any_sizes). '
         'Hypotheses: CfgOK (power-of-two alignments, distinct packet context member names: executable as cfgOKb, '
         'proved sound, evaluated on every real configuration the check uses), the property precondition (buffer >= '
         'header + context), the uint32_t no-wrap conditions (buffers below 512 MiB, records whose size does not wrap). '
         'Also proved: every serialisation primitive logs exactly the bytes it may modify; size pass = serialise advance '
         'for every root; no shift amount reaches its operand width. Not proved because false on the current tree: buffers of '
         'different sizes combined with disabled tracing (a swap that follows an ignored closing: finding F9) or with '
         'tracing calls before the first opening - '
         'decided on the implementation by the guard page, the C assertion, crash detection; ASan/UBSan in thorough.',
    note='Trusted: Lean kernel/standard axioms; differential tie; guard page granularity (upper end exact, lower end page). '
         'F11 (2^32-bit wrap) is outside every run (unreplayed) and outside the theorem (hypothesis).',
    design='5 (C02), 3.2, 10.7')
CHECKS['C05'] = dict(
    engine='h-runtime',
    technique='Lean 4 proof (timestamp invariant by induction over all API histories, two modes: inside/outside '
              '_reserve_er_space) + event-stream correspondence + decoding of the timestamps of the C tracer packets',
    text='Full over the model under NoWrap (the clock source does not wrap its C type during the history) for data '
         'stream types with a default clock: the values written to timestamp positions are non-decreasing in write order '
         '(beginning <= record timestamps <= end <= next beginning) and never exceed the clock; a record receives the '
         'value sampled at the entry of its tracing call whatever packet switching _reserve_er_space does. Fields hold '
         'the values modulo their size (C08). Tie: H-runtime with a scripted monotone clock and clock C types of '
         '8..64 bits; oracle: decoded packet/record timestamps vs the clock log.',
    note='Trusted: Lean kernel/standard axioms; differential tie; the Python TSDL parser/CTF reader. Known finding F9.',
    design='5 (C05), 3.2')

CHECKS['C17'] = dict(
    engine='h-runtime',
    technique='Lean 4 proof (frame/projection/commutation over a system of any number of contexts; disjoint-footprint '
              'commutation on a sequentially consistent memory) + nm symbol-class inspection of the compiled generated '
              'object + two-context interleaving differential on the C tracer',
    text='Partial by nature. Proved: a call on one context changes no other context, every interleaving gives each '
         'context the state it reaches alone, calls on distinct contexts commute, disjoint store footprints commute on '
         'shared memory. The premise "a step takes exactly one context" is tied to the code by the symbol table of the '
         'compiled object (no writable object) and by interleaved two-context runs compared with solo runs. Not '
         'modelled: weak hardware memory models (TSan two-thread run in the thorough tier is search, not proof).',
    note='Trusted: Lean kernel/standard axioms; gcc/nm; the harness.',
    design='5 (C17), 3.2')

CHECKS['C01'] = dict(
    engine='h-layout',
    technique='Lean 4 proof (reader/writer round trip and frame at the scalar level for both byte orders and the memcpy '
              'path; agreement of structure alignment between the TSDL text and the C layout) + three ties of the layout '
              'model to the code (real operation trees, parsed real metadata, two independent CTF readers on real packets) + '
              'decoding oracle on the C tracer',
    text='Partial. Proved for every carrier, value, size, offset and buffer: reading a field back with the CTF reader '
         'returns the written value reduced to the field size (signed reduction included), a later write does not disturb '
         'a non-overlapping field, the alignment a reader computes from the text equals the alignment the serialiser uses, '
         'the text states the sizes/signedness/lengths the serialiser uses. Not proved: the composition to whole records and '
         'packets (decodePacket o serRecord). That is evaluated on every run: real packets are decoded with the parsed real '
         'metadata by an independent reader and compared with the traced arguments (all scopes, user packet context members).',
    note='Trusted: Lean kernel/standard axioms; the strict TSDL parser + CTF reader (oracle) and its Lean twin; differential '
         'ties. Known finding F9. F7 (real fields converted through uint64_t) fixed in /repo.',
    design='5 (C01), 3.2 (H-layout)')
CHECKS['C13'] = dict(
    engine='h-layout',
    technique='Lean 4 proof (ID assignment is invariant under permutation, sorted, injective; decide over the iteration-site '
              'table REGENERATED from /repo by a translator) + generation under several PYTHONHASHSEED values and mapping '
              'permutations, byte-compared',
    text='IDs: full (ids_perm_invariant, ids_sorted, ids_injective, ids_complete over the transcription of '
         'sorted(key=name)+enumerate). Hash-seed independence: partial by nature: CPython hash randomisation is represented as '
         'an arbitrary iteration order of name-hashed sets, and set_iterations_sorted proves, over the table of every such '
         'iteration regenerated from the templates and Python sources on every run, that each one that emits text is sorted. '
         'Oracle: real generation in subprocesses under different hash seeds and permuted mappings must be byte-identical.',
    note='Trusted: Lean kernel/standard axioms; the translator harness/itersites.py (regex over Jinja for-loops incl. set '
         'aliases; ast over the Python sources); str order = code point order.',
    design='5 (C13), 3.3')
CHECKS['C14'] = dict(
    engine='h-layout',
    technique='Lean 4 proof (C type selection and prototype construction) + exhaustive table comparison of _ft_c_type + '
              'prototype differential + strict compilation by gcc/clang/g++/clang++',
    text='Partial. Proved: the carrier of an integer is the smallest of 8/16/32/64 that holds it with its signedness; reals are '
         'float/double whatever the alignment; a tracing function takes exactly the members of common context, specific '
         'context and payload in order; arrays are pointers to const elements, a dynamic array is preceded by its uint32_t '
         'length. Ties: exhaustive comparison of the real _ft_c_type over its whole domain, every prototype of every '
         'generated header. NOT a theorem: ISO C90 / C++ conformance of the emitted text - evaluated by four compilers with '
         '-pedantic-errors on every sample, header-only translation units included.',
    note='Trusted: Lean kernel/standard axioms; the compilers; rendering of C type strings is tied by the prototype diff.',
    design='5 (C14)')
CHECKS['C15'] = dict(
    engine='h-layout',
    technique='Lean 4 proof (escape/unescape round trip, no bare quote or raw new-line, log level 0 emitted, value forms) + '
              'strict TSDL parsing of every generated metadata + attribute-by-attribute comparison with the configuration + '
              'differential of the real escape filter',
    text='Partial. Proved over the transcription of _filt_escape_dq and of the emission tests: a reader recovers every string '
         'exactly, a literal can neither end early nor span lines, a log level (including 0) is always stated. "Parses under '
         'the grammar" and "states every attribute" are established per sample by the strict parser and the attribute '
         'comparison (trace, environment, clocks, events, every integer and enumeration of every root structure), with '
         'boundary values. F5 (log level 0 dropped) and F6 (raw new-line in literals) were found by this check and fixed.',
    note='Trusted: Lean kernel/standard axioms; the strict TSDL parser.',
    design='5 (C15)')
CHECKS['C19'] = dict(
    engine='h-layout',
    technique='Lean 4 proof (every symbol/file name carries its prefix; prefix-free prefixes give disjoint symbol sets; '
              'shorthand macros resolve) + nm of the compiled object, CLI file names with/without --prefix, preprocessor '
              'expansion of the macros and of the tracepoint() shim, two tracers linked and run in one program',
    text='Full under the recorded reading "different = prefix-free" (prefix_overlap_possible proves that unequal nested '
         'prefixes can collide). symbols_prefixed, files_prefixed, cli_prefix_override, prefixfree_disjoint, '
         'shorthand_resolves, shorthand_target_defined over the transcription of the naming templates; tied to the code by the '
         'external symbols of the compiled object, the files the CLI writes, gcc -E expansions and link+run of two tracers.',
    note='Trusted: Lean kernel/standard axioms; gcc, nm; the harness.',
    design='5 (C19)')

CHECKS['C12'] = dict(
    engine='h-frontend',
    technique='Lean 4 proof (the patching table, base order, directory search order, alias chains of any depth, cycle '
              'and unknown-name errors over a transcription of _update_node / _process_node_include / '
              '_resolve_ft_alias / _apply_ft_inheritance) + differential runs of those four real functions and of '
              'whole effective documents against the Lean definitions',
    text='Props/C12.lean proves, for all trees, worlds and fuel: scalars/null replace, mappings merge recursively, '
         'sequences append, barectf 3 members merge as the ordered map they denote, kind clashes replace, value and key '
         'order of every patched property; include_order (bases in listed order, including object last); search_order; '
         'a file on the inclusion stack, an alias met while being resolved, an unknown alias are errors; alias chains of '
         'any length resolve. Partial: sufficiency of fuel (termination) is not proved. The reference patcher is the Lean '
         'one; every run compares the real functions with it on generated base/overlay trees (both dialects), inclusion '
         'worlds at all ten includable object kinds (cycles, missing files, shadowing directories, ignore flag), alias '
         'universes and inheritance trees, and compares whole effective documents of re-expressed valid configurations; '
         'plus a CLI run for the order of -I options.',
    note='Trusted: Lean kernel/standard axioms; PyYAML loading (trees are compared after loading); the harness and '
         'its generators. F13 (IndexError on an empty member item) was found by this correspondence and repaired in /repo.',
    design='5 (C12), 3.2 (H-frontend)')

CHECKS['C11'] = dict(
    engine='h-frontend',
    technique='Lean 4 proof (marks of every output of the expansion pipeline; an effective node is a fixed point of the '
              'whole pipeline in any world; normalisation idempotent) over a transcription of config_parse_v3._parse and '
              'config_parse_v2 + tree-for-tree comparison of the real printed effective document with the model, both '
              'dialects + the property\'s own two-run oracle on the implementation',
    text='Props/C11.lean: effective_marks (no $field-type-aliases / $log-level-aliases, normalised trace type without '
         'null properties, no null environment in whatever expand3 returns), effective_fixed_point (such a node without '
         '$include at includable objects is returned unchanged, any world, any fuel >= 4), normalisation_idempotent, '
         'null_reset_removed. Partial: absence of $include / alias names / $inherit inside the output is not proved; the '
         'check evaluates exactly those hypotheses on every real effective document. Every run: generated valid documents '
         'of both dialects re-expressed with multi-level inclusions, alias and inheritance chains, null resets and all '
         'spelling aliases; real effective_configuration_file output re-loaded and compared with expand3/expand2 '
         '(ordered trees); on the implementation: the printed document is free of expansion features, is accepted again, '
         'prints to the same text, and generates byte-identical files (date lines removed).',
    note='Trusted: Lean kernel/standard axioms; PyYAML load/dump; the harness and its generators. uuid: auto excluded '
         '(documented fresh UUID).',
    design='5 (C11), 3.2 (H-frontend)')

CHECKS['C18'] = dict(
    engine='h-frontend',
    technique='Lean 4 proof (conversion of every abstract barectf 2 field type to its barectf 3 spelling, enumeration '
              'auto-increment and label grouping, prefix splitting) over a transcription of config_parse_v2 + differential '
              'runs of the real barectf 2 parser against it + the two-dialect oracle on the implementation',
    text='Props/C18.lean: field_type_conversion (integers with every optional property, enumerations, reals, strings, '
         'static/dynamic arrays, structures, nested to any depth: convFt (r2 a) = r3 a), enum_mappings / enum_conversion / '
         'enum_implicit_* (values of a label in member order; implicit value = 0 or previous last value + 1), '
         'v2_prefix_split, v2_file_prefix_no_trailing_underscore, stream_conversion (a whole abstract data stream type: features '
         'inferred from the reserved members, default clock from the property mappings, extra members in order, event '
         'record types). Partial: the metadata level of the conversion (packet header features, clock renames, '
         '$default-stream, options) is covered by correspondence and oracle only. '
         'Every run: Lean vs harness renderings of abstract field types; the node the real barectf 2 parser hands over vs '
         'Lean convert2 and the real effective document vs expand2 on generated barectf 2 documents (plain and with '
         'aliases, inheritance, inclusions); on the implementation: files generated from the barectf 2 document and from '
         'the independently rendered barectf 3 document of the same abstract configuration are byte-identical, versions '
         '2/3 are reported by the API and the CLI.',
    note='Trusted: Lean kernel/standard axioms; PyYAML; the harness renderers (render3 is the definition of "equivalent"). '
         'F17 (packet_seq_num dropped) found by this oracle and repaired in /repo. Observations recorded in DESIGN.md: '
         'stream_instance_id is accepted and dropped (no barectf 3 equivalent exists); uuid element alignment 1/2/4 is '
         'accepted by the barectf 2 schema and rejected after conversion.',
    design='5 (C18), 3.2 (H-frontend)')

CHECKS['C09'] = dict(
    engine='h-frontend',
    technique='Lean 4 proof over a model of the loader whose schema half is regenerated from /repo\'s schema files on every '
              'run (translator harness/schematr.py -> Gen/Schemas.lean, interpreted by a draft-07 interpreter) and whose '
              'Python half transcribes _create_config + verdict agreement with the real loader in both directions + the '
              'fault catalogue (every documented constraint x every location) on the real loader',
    text='Props/C09.lean: accepted_passed_every_stage; on the regenerated table: int_size_constraint (1..64, integers only), '
         'opt_int_min_1/0_constraint, byte_order_constraint, identifier_constraint (letters/digits/underscore, no trailing '
         'new-line, none of the 28 documented TSDL keywords) - each lookup_* lemma re-checks the translated schema file; '
         'alignment_power_of_two (the a & (a-1) test passes iff a = 2^k), member_names_distinct, python_keywords_cover_docs '
         '(keyword set regenerated from config_parse_v3.py), id_width. Partial: no single accepts -> Spec theorem over the '
         'whole grammar. Every run: 60+ operators (sizes, alignments, kinds, unknown/missing properties, nested types, unknown '
         'aliases/clocks/log levels/files, duplicate/reserved/invalid names, ID widths, size ordering, defaults, cycles) at '
         'every site of generated valid configurations, plain and re-expressed through aliases/inheritance/inclusions (kept '
         'only when the reference expansion proves the re-expression equivalent); the real loader must reject each; Lean '
         'load3 verdict and per-stage schema verdicts must equal the real ones.',
    note='Trusted: Lean kernel/standard axioms; the translator; PyYAML, jsonschema 3.2 semantics as transcribed; the harness. '
         'Found and repaired in /repo: F1, F2, F3, F4, F14, F15, F16 (alias names), F18, F20. Recorded known finding: F16 '
         '(unused alias objects are never validated).',
    design='5 (C09), 3.3 (translators)')

CHECKS['C10'] = dict(
    engine='h-frontend',
    technique='Lean 4 proof (bounded inclusion recursion; the expansion stage hands unknown shapes to the schema stage '
              'instead of failing) over the loader model whose schemas are regenerated from /repo + verdict agreement '
              '(accept / configuration error / other exception) with the real loader + implementation-side search: '
              'structural faults, multi-fault mutants, byte corruption, generation and compilation of every accepted '
              'document, CLI runs',
    text='Partial by nature. Props/C10.lean: include_recursion_bounded(_v2) (never more than 4*N+4 nested calls for N '
         'inclusion files: no unbounded recursion), non_object_field_type_is_left_alone, null_members_are_skipped, '
         'inherit_from_non_object_is_config_error, model_verdict_total. Not carried by any theorem: all byte strings (PyYAML, '
         'Python I/O), absence of hangs (20 s watchdog), generation + compilation of accepted documents, and schema => shape. '
         'Every run: every structural operator (delete, retype to each kind, out-of-range number, self reference, duplicate, '
         'splice, non-string key, empty) at random nodes of valid barectf 2 and 3 documents and of their inclusion files, '
         'multi-fault mutants, raw byte corruption; the real loader must answer a configuration or a configuration error '
         'with a context path; accepted documents are generated and compiled; the CLI must exit 1 with a message, no '
         'traceback and no file, or 0 with files; load3/load2 must give the same verdict class.',
    note='Trusted: Lean kernel/standard axioms; the translator; the harness. Found and repaired in /repo: F13, F19, F21, F22, '
         'F23, F24 (unsafe YAML loader), F25, F26, F27, F28 (+ F1, F2, F15, F18 shared with C09). A clock `$c-type` is a '
         'user-supplied C type name: exempt from the compile oracle.',
    design='5 (C10)')

NOT_APPLICABLE = {
}

ALL = ['C%02d' % i for i in range(1, 20)]


def main():
    checks = []
    for pid in ALL:
        if pid not in CHECKS:
            continue
        c = CHECKS[pid]
        checks.append({
            'property_id': pid,
            'quick_cmd': f'./check {pid} --tier quick',
            'thorough_cmd': f'./check {pid} --tier thorough',
            'evidence_file': f'evidence/{pid}.json',
            'replay_cmd_template': f'./check {pid} --replay {{path}}',
            'engine': c['engine'],
            'level_claimed': {'category': 'proof', 'text': c['text'], 'design_ref': 'DESIGN.md section ' + c['design']},
            'level_note': c['note'],
            'technique': c['technique'],
        })
    na = [{'property_id': p, 'reason': NOT_APPLICABLE.get(p, 'check not built yet in this round (planned, see DESIGN.md section 8); nothing is claimed')}
          for p in ALL if p not in CHECKS]
    m = {
        'version': 1,
        'setup_cmd': 'cd lean && lake build',
        'hooks': {
            'guard': 'BARECTF_VERIF',
            'enable': 'no hook is needed: checks import barectf from /repo (PYTHONPATH), render its templates, compile '
                      'and run the generated C; the guard variable is reserved and unused',
            'baseline_off_cmd': BASELINE,
            'source_commits': [],
            'add_only': True,
        },
        'engines': [
            {'name': 'lean', 'path': 'lean', 'serves_properties': sorted(CHECKS), 'kind_free_text': 'Lean 4 model (lean/BVM/Model), proofs (lean/BVM/Proofs), property theorems (lean/BVM/Props), compiled line-protocol driver (lean/Driver)'},
            {'name': 'h-bits', 'path': 'harness/hbits.py', 'serves_properties': ['C08'], 'kind_free_text': 'exhaustive-shape differential of the rendered bit-field macros vs the Lean model vs a bit-by-bit reference'},
            {'name': 'h-layout', 'path': 'harness/hlayout.py', 'serves_properties': [p for p in sorted(CHECKS) if CHECKS[p]['engine'] == 'h-layout'], 'kind_free_text': 'real operation trees, parsed real metadata (strict TSDL parser), prototypes, symbols, file names, generation subprocesses vs the Lean layout/API/ID/metadata models'},
            {'name': 'h-runtime', 'path': 'harness/hrt.py', 'serves_properties': [p for p in sorted(CHECKS) if CHECKS[p]['engine'] == 'h-runtime'], 'kind_free_text': 'scripted-platform history runner for the generated tracer (guard-paged buffer, forked per history) vs the Lean runtime model'},
        ],
        'checks': checks,
        'not_applicable': na,
        'notes': 'All checks: ./check <id> --tier quick|thorough [--seed N]; VERIF_SEED/VERIF_TIER honoured. Exit 2 = inconclusive.',
    }
    with open(os.path.join(HERE, 'MANIFEST.json'), 'w') as f:
        json.dump(m, f, indent=1)


if __name__ == '__main__':
    main()
