import Lean.Data.Json
import BVM.Model.Bits
open Lean BVM

namespace Drv

def hexDigit (n : Nat) : Char := "0123456789abcdef".toList.getD n '0'
def toHex (b : Buf) : String := String.mk (b.flatMap fun x => [hexDigit (x / 16 % 16), hexDigit (x % 16)])
def hexVal (c : Char) : Nat :=
  if c.isDigit then c.toNat - '0'.toNat else if 'a' ≤ c ∧ c ≤ 'f' then c.toNat - 'a'.toNat + 10 else c.toNat - 'A'.toNat + 10
partial def ofHexL : List Char → Buf
  | a :: b :: r => (hexVal a * 16 + hexVal b) :: ofHexL r
  | _ => []
def ofHex (s : String) : Buf := ofHexL s.toList

def getNat (j : Json) (k : String) : Nat := (j.getObjValAs? Nat k).toOption.getD 0
def getStr (j : Json) (k : String) : String := (j.getObjValAs? String k).toOption.getD ""
def getInt (j : Json) (k : String) : Int :=
  match j.getObjVal? k with
  | .ok (.str s) => s.toInt?.getD 0
  | .ok v => (v.getInt?).toOption.getD 0
  | _ => 0

def vtOf (s : String) : CInt :=
  { width := (s.drop 1).toNat!, signed := s.startsWith "i" }

def handle (j : Json) : String :=
  match getStr j "op" with
  | "bf" =>
    let bo := if getStr j "bo" == "le" then ByteOrder.le else ByteOrder.be
    let vt := vtOf (getStr j "vt")
    let buf := ofHex (getStr j "bg")
    toHex (bfWrite bo vt buf (getNat j "base") (getNat j "start") (getNat j "len") (getInt j "v"))
  | "shifts" =>
    let l := bfShifts (getStr j "bo" == "le") (getNat j "w") (getNat j "start") (getNat j "len")
    toString (l.all fun (w, a) => a < w)
  | op => "bad-op " ++ op

partial def loop (h : IO.FS.Stream) (out : IO.FS.Stream) : IO Unit := do
  let line ← h.getLine
  if line.isEmpty then return ()
  let r := match Json.parse line with
    | .ok j => handle j
    | .error e => "bad-json " ++ e
  out.putStrLn r
  loop h out

end Drv

def main : IO Unit := do
  let i ← IO.getStdin
  let o ← IO.getStdout
  Drv.loop i o
  o.flush
