/-
  Driver/Main.lean — line protocol: one JSON object per input line, one output line per input line.
  The harness sends the same inputs to the implementation and diffs the streams.
-/
import Lean.Data.Json
import BVM.Model.Bits
import BVM.Model.Rt
import BVM.Model.Api
import BVM.Model.Tsdl
import BVM.Model.Meta
import BVM.Model.Decode
import BVM.Proofs.CfgOKb
import Driver.Front
open Lean BVM

namespace Drv

def hexDigit (n : Nat) : Char := "0123456789abcdef".toList.getD n '0'
def toHex (b : Buf) : String := String.ofList (b.flatMap fun x => [hexDigit (x / 16 % 16), hexDigit (x % 16)])
def hexVal (c : Char) : Nat :=
  if c.isDigit then c.toNat - '0'.toNat else if 'a' ≤ c ∧ c ≤ 'f' then c.toNat - 'a'.toNat + 10 else c.toNat - 'A'.toNat + 10
partial def ofHexL : List Char → Buf
  | a :: b :: r => (hexVal a * 16 + hexVal b) :: ofHexL r
  | _ => []
def ofHex (s : String) : Buf := ofHexL s.toList

def getNat (j : Json) (k : String) : Nat := (j.getObjValAs? Nat k).toOption.getD 0
def getStr (j : Json) (k : String) : String := (j.getObjValAs? String k).toOption.getD ""
def getBool (j : Json) (k : String) : Bool := (j.getObjValAs? Bool k).toOption.getD false
def getArr (j : Json) (k : String) : List Json :=
  match j.getObjVal? k with
  | .ok (.arr a) => a.toList
  | _ => []
def getObj? (j : Json) (k : String) : Option Json :=
  match j.getObjVal? k with
  | .ok .null => none
  | .ok v => some v
  | _ => none
def jInt (v : Json) : Int :=
  match v with
  | .str s => s.toInt?.getD 0
  | v => (v.getInt?).toOption.getD 0
def getInt (j : Json) (k : String) : Int :=
  match j.getObjVal? k with
  | .ok v => jInt v
  | _ => 0

def vtOf (s : String) : CInt :=
  { width := (s.drop 1).toNat!, signed := s.startsWith "i" }

/-! ### configuration IR -/

def scalarOf (j : Json) : Scalar :=
  match getStr j "k" with
  | "int" => .int (getBool j "s") (getNat j "sz") (getNat j "al")
  | "real" => .real (getNat j "sz") (getNat j "al")
  | _ => .str

instance : Inhabited Elem := ⟨.sc .str⟩

partial def elemOf (j : Json) : Elem :=
  match getStr j "k" with
  | "sarr" => .sarr (getNat j "n") (elemOf ((getObj? j "e").getD .null))
  | _ => .sc (scalarOf j)

def ftOf (j : Json) : FT :=
  match getStr j "k" with
  | "darr" => .darr (getStr j "ln") (elemOf ((getObj? j "e").getD .null))
  | "uuid" => .uuid
  | _ => .el (elemOf j)

def memberOf (j : Json) : Member := ⟨getStr j "n", ftOf ((getObj? j "ft").getD .null)⟩
def structOf (j : Json) : Struct := ⟨getNat j "ma", (getArr j "m").map memberOf⟩
def optScalar (j : Json) (k : String) : Option Scalar := (getObj? j k).map scalarOf

def ertOf (j : Json) : ERT :=
  { name := getStr j "name", id := getNat j "id", sc := (getObj? j "sc").map structOf, p := (getObj? j "p").map structOf }

def dstOf (j : Json) : DST :=
  let f := (getObj? j "feat").getD .null
  { name := getStr j "name", id := getNat j "id",
    clock := (getObj? j "clock").map fun c => ⟨getStr c "name", ⟨getNat c "w", getBool c "s"⟩⟩,
    feat := { totalSize := scalarOf ((getObj? f "totalSize").getD .null),
              contentSize := scalarOf ((getObj? f "contentSize").getD .null),
              tsBegin := optScalar f "tsBegin", tsEnd := optScalar f "tsEnd", discarded := optScalar f "discarded",
              seqNum := optScalar f "seqNum", ertId := optScalar f "ertId", erTs := optScalar f "erTs" },
    pcExtra := (getArr j "pcExtra").map memberOf,
    ercc := (getObj? j "ercc").map structOf,
    erts := (getArr j "erts").map ertOf }

def cfgOf (j : Json) : Cfg :=
  let f := (getObj? j "feat").getD .null
  { bo := if getStr j "bo" == "le" then .le else .be, fast := getBool j "fast",
    uuid := (getArr j "uuid").map fun v => (v.getNat?).toOption.getD 0,
    feat := { magic := optScalar f "magic", uuid := getBool f "uuid", dstId := optScalar f "dstId" },
    dsts := (getArr j "dsts").map dstOf }

/-! ### canonical printing -/

def showOpt : Option Nat → String
  | some n => toString n
  | none => "-"

def showSrc : WSrc → String
  | .arg => "arg" | .magic => "magic" | .dstId => "dstid" | .pktSize => "pktsize" | .seqNum => "seqnum"
  | .tsBegin => "tsbegin" | .ertId => "ertid" | .ts => "ts" | .skipSave n => "skip:" ++ n | .uuid => "uuid"

def showScalar : Scalar → String
  | .int s sz al => (if s then "s" else "u") ++ toString sz ++ "a" ++ toString al
  | .real sz al => "r" ++ toString sz ++ "a" ++ toString al
  | .str => "str"

def showAl : Option Nat → String
  | some a => "(align " ++ toString a ++ ")"
  | none => ""

def showEOp : EOp → String
  | .leaf al w => showAl al ++ "(write " ++ showSrc w.src ++ " " ++ (if w.src == .uuid then "uuid" else showScalar w.sc)
      ++ " oib=" ++ showOpt w.oib ++ ")"
  | .loop al n b => showAl al ++ "(loop " ++ toString n ++ " " ++ showEOp b ++ ")"

def showMOp : MOp → String
  | .el n e => "[" ++ n ++ " " ++ showEOp e ++ "]"
  | .dloop n al ln b => "[" ++ n ++ " " ++ showAl al ++ "(dloop " ++ ln ++ " " ++ showEOp b ++ ")]"

def showRoot (r : RootOp) : String := showAl r.al ++ String.join (r.members.map showMOp)

def showFT : FT → String
  | .el e => showElem e
  | .darr ln e => "darr(" ++ ln ++ "," ++ showElem e ++ ")"
  | .uuid => "uuid"
where showElem : Elem → String
  | .sc s => showScalar s
  | .sarr n e => "sarr(" ++ toString n ++ "," ++ showElem e ++ ")"

def showStruct (s : Struct) : String :=
  "ma=" ++ toString s.minAlign ++ " al=" ++ toString s.align ++ " " ++
    String.intercalate "," (s.members.map fun m => m.name ++ ":" ++ showFT m.ft)

def b01 (b : Bool) : String := if b then "1" else "0"

def showKind : CbKind → String
  | .clock => "clock" | .full => "full" | .open_ => "open" | .close => "close"

def showEv (stores : Bool) : Ev → Option String
  | .cb k seq f o => some s!"cb {showKind k} {seq} f={b01 f} o={b01 o}"
  | .cbExit k f => some s!"cx {showKind k} f={b01 f}"
  | .store off n f o => if stores then some s!"st {off} {n} f={b01 f} o={b01 o}" else none
  | .deliver b o n => some s!"dl {toHex b} o={b01 o} n={b01 n}"
  | .clockRead v => some s!"clk {v}"
  | .assertFail => some "assert"
  | .oob => some "oob"
  | .ret api c bl => some (s!"ret {api} at={c.at_} ps={c.packetSize} full={b01 c.isFull} empty={b01 c.isEmpty} " ++
      s!"disc={c.eventsDiscarded} seq={c.sequenceNumber} open={b01 c.packetIsOpen} f={b01 c.inTracingSection} " ++
      s!"en={b01 c.isTracingEnabled} bs={bl} uc={b01 c.useCurLastEventTs}")
  | _ => none

/-! ### histories -/

def leafOf (j : Json) : Leaf :=
  match j with
  | .obj _ => .str (ofHex (getStr j "s"))
  | v => .num (jInt v)

def argsOf (j : Json) : Args :=
  match j with
  | .obj kvs => kvs.toList.map fun (k, v) => (k, match v with | .arr a => a.toList.map leafOf | _ => [])
  | _ => []

def pairsOf (l : List Json) : List (Nat × Nat) :=
  l.map fun v => match v with
    | .arr a => ((a[0]!.getNat?).toOption.getD 0, (a[1]!.getNat?).toOption.getD 0)
    | _ => (0, 0)

def platOf (j : Json) : Plat :=
  { clockIncs := (getArr j "incs").map fun v => (v.getNat?).toOption.getD 0,
    fullAnswers := (getArr j "full").map fun v => (v.getNat?).toOption.getD 0 != 0,
    toggles := (pairsOf (getArr j "toggles")).map fun (a, b) => (a, b != 0),
    setBufs := pairsOf (getArr j "setbufs"),
    openArgs := (getArr j "openargs").map argsOf }

def opOf (j : Json) : Op :=
  match j with
  | .arr a =>
    match (a[0]!.getStr?).toOption.getD "" with
    | "open" => .open_
    | "close" => .close
    | "trace" => .trace ((a[1]!.getStr?).toOption.getD "") (argsOf a[2]!)
    | "enable" => .enable ((a[1]!.getNat?).toOption.getD 0 != 0)
    | "fin" => .fin
    | _ => .query
  | _ => .query

def findDst (c : Cfg) (n : String) : Option DST := c.dsts.find? (fun (d : DST) => d.name == n)

/-- evaluates the hypothesis SizeStable along a run (classification of finding F8) -/
def sizeStableRun (c : Cfg) (d : DST) : List Op → St → Bool
  | [], _ => true
  | op :: ops, s =>
    let ok := match op with
      | .trace en args =>
        match d.erts.find? (fun (e : ERT) => e.name == en) with
        | some e =>
          let s1 := traceClock d s
          if s.halted || !s1.c.isTracingEnabled then true else sizeStableCall c d e args s1
        | none => true
      | _ => true
    ok && sizeStableRun c d ops (stepOp c d op s)

/-- evaluates the position invariant `PosOK` (Proofs/RecordBounds.lean: packet size = buffer size in bits, `at` inside
    the packet) after every operation of a run; `tracing_call_writes_inside_the_packet` (Props/C02) assumes it -/
def posOKRun (c : Cfg) (d : DST) : List Op → St → Bool
  | [], _ => true
  | op :: ops, s =>
    let s' := stepOp c d op s
    (s'.halted || (s'.c.packetSize == 8 * s'.buf.length && decide (s'.c.at_ ≤ s'.c.packetSize))) && posOKRun c d ops s'

def runHist (c : Cfg) (j : Json) : String :=
  match findDst c (getStr j "dst") with
  | none => "bad-dst"
  | some d =>
    let s0 := rtInit (getNat j "buf") (platOf ((getObj? j "plat").getD .null))
    let ops := (getArr j "calls").map opOf
    let s := runOps c d ops s0
    let lines := s.log.reverse.filterMap (showEv (getBool j "stores"))
    let lines := if getBool j "hyps" then lines ++ ["hyp PosOK=" ++ b01 (posOKRun c d ops s0),
      "hyp SizeStable=" ++ b01 (sizeStableRun c d ops s0)] else lines
    -- the hypotheses of `no_store_outside_the_buffer` (Props/C02.lean), and its conclusion, on this run
    let lines := if getBool j "hyps2" then
      let L := getNat j "buf"
      let A := cfgAlign c d
      lines ++ ["hyp2 CfgOK=" ++ b01 (cfgOKb A c d) ++ " HdrFits=" ++ b01 (hdrFitsb c d L s0.p.openArgs) ++
        " SameSize=" ++ b01 (s0.p.setBufs.all (fun x => x.2 == L)) ++ " Small=" ++ b01 (decide (8 * L + A ≤ 2 ^ 32)) ++
        " halted=" ++ b01 s.halted ++ " A=" ++ toString A ++
        -- the hypotheses of `no_store_outside_the_buffer_any_sizes`: every buffer holds header + context and is below the
        -- no-wrap bound, no toggle is scripted, the history never disables tracing and starts by opening a packet
        (let sizes := L :: s0.p.setBufs.map (·.2)
         let lmax := sizes.foldl max 0
         " GoodBufs=" ++ b01 (sizes.all (fun b => hdrFitsb c d b s0.p.openArgs) && decide (8 * lmax + A ≤ 2 ^ 32)) ++
         " NoToggle=" ++ b01 s0.p.toggles.isEmpty ++
         " NeverDisabled=" ++ b01 (ops.all (fun o => match o with | .enable false => false | _ => true)) ++
         " StartsOpen=" ++ b01 (match ops with | .open_ :: _ => true | _ => false))] else lines
    (Json.arr (lines.map Json.str).toArray).compress

/-! ### layout / API ops -/

def showLeaf : Leaf → String
  | .num v => toString v
  | .str b => "s" ++ toHex b

def showFields (l : List (String × List Leaf)) : String :=
  "{" ++ String.intercalate "," (l.map fun (n, ls) => n ++ "=" ++ String.intercalate " " (ls.map showLeaf)) ++ "}"

def showTScalar : TScalar → String
  | .int s sz al => "int(" ++ b01 s ++ "," ++ toString sz ++ "," ++ toString al ++ ")"
  | .float m e al => "float(" ++ toString m ++ "," ++ toString e ++ "," ++ toString al ++ ")"
  | .str => "str"

def showTLen : TLen → String
  | .lit n => "[" ++ toString n ++ "]"
  | .ref n => "[" ++ n ++ "]"

def showTStruct (s : TStruct) : String :=
  "align=" ++ toString s.align ++ " eff=" ++ toString s.effAlign ++ " " ++
    String.intercalate ";" (s.members.map fun m => m.name ++ ":" ++ showTScalar m.ty ++ String.join (m.lens.map showTLen))

def showPacket (p : DecodedPacket) : String :=
  "H" ++ showFields p.header ++ " C" ++ showFields p.context ++ " off=" ++ toString p.offContent ++
    " content=" ++ toString p.content ++ String.join (p.events.map fun e =>
      " | ev " ++ e.name ++ " " ++ toString e.id ++ " h" ++ showFields e.header ++ " c" ++ showFields e.streamCtx ++
      " s" ++ showFields e.ctx ++ " p" ++ showFields e.fields ++ " " ++ toString e.start ++ " " ++ toString e.end_)

def optsOf (j : Json) : GenOpts :=
  let p := (getObj? j "prefix").getD .null
  let h := (getObj? j "hdropts").getD .null
  { identPrefix := getStr p "ident", filePrefix := getStr p "file",
    defaultDst := (j.getObjValAs? String "default").toOption,
    defPrefixMacro := getBool h "prefix", defDstMacro := getBool h "dst" }

def handleLayout (cfg : Cfg) (o : GenOpts) (j : Json) : Option String :=
  let dst := findDst cfg (getStr j "dst")
  let ertOf := fun (d : DST) => d.erts.find? (fun (e : ERT) => e.name == getStr j "ert")
  match getStr j "op" with
  | "tsdl" =>
    dst.map fun d =>
      let st : Option Struct := match getStr j "root" with
        | "ph" => some cfg.phStruct
        | "pc" => some d.pcStruct
        | "h" => some d.erhStruct
        | "cc" => d.ercc
        | "sc" => (ertOf d).bind (·.sc)
        | "p" => (ertOf d).bind (·.p)
        | _ => none
      match st with | some s => showTStruct (tsdlStruct s) | none => "none"
  | "decode" =>
    dst.map fun d =>
      match decodePacket cfg d (ofHex (getStr j "hex")) with
      | some p => showPacket p
      | none => "undecodable"
  | "rtpre" =>
    -- the executable precondition of `record_roundtrip` (Props/C01) on the three user roots of one traced record
    dst.map fun d =>
      let env : SerEnv := { bo := cfg.bo, fast := cfg.fast, uuid := [], dstId := 0, ertId := 0, ts := 0, pktSize := 0, seqNum := 0 }
      let args := argsOf ((j.getObjVal? "args").toOption.getD .null)
      let f := fun (pfx : String) (S : Option Struct) => match S with
        | none => "-"
        | some S => b01 (rootPreb env (getNat j "buf") pfx args S 0)
      let e := ertOf d
      "cc=" ++ f "cc" d.ercc ++ " sc=" ++ f "sc" (e.bind (·.sc)) ++ " p=" ++ f "p" (e.bind (·.p))
  | "ctype" =>
    some (if getStr j "k" == "real" then scalarCName (.real (getNat j "sz") (getNat j "al"))
          else cIntName (getBool j "s") (getNat j "sz"))
  | "proto" =>
    dst.map fun d =>
      let ps := match getStr j "fn" with
        | "open" => openParams false cfg d
        | _ => match ertOf d with | some e => traceParams false false d e | none => []
      String.intercalate ", " (ps.map renderParam)
  | "syms" => some (String.intercalate " " ((symbolsOf o cfg).mergeSort (fun a b => decide (a ≤ b))))
  | "files" => some (String.intercalate " " (fileNamesOf o))
  | "macros" => some (String.intercalate " " ((shorthandMacros o cfg).map fun (a, b) => a ++ "=" ++ b))
  | "ids" => some (String.intercalate " " (sortedNames ((getArr j "names").map fun v => (v.getStr?).toOption.getD "")))
  | "escape" =>
    let bytes : Array UInt8 := ((ofHex (getStr j "hex")).map fun (n : Nat) => n.toUInt8).toArray
    let str := String.fromUTF8! (ByteArray.mk bytes)
    some (toHex ((escapeDq str).toUTF8.toList.map fun (b : UInt8) => b.toNat))
  | "loglevel" => some (match (j.getObjVal? "v") with
      | .ok .null => "none"
      | .ok v => ((logLevelLine (some (jInt v))).getD "none")
      | _ => "none")
  | "range" => some (rangeStr (getInt j "lo") (getInt j "hi"))
  | "cliprefix" => some (let r := cliPrefixes (getStr j "p"); r.1 ++ " " ++ r.2)
  | _ => none

def handle (cfg : Cfg) (j : Json) : Cfg × String :=
  match getStr j "op" with
  | "bf" =>
    let bo := if getStr j "bo" == "le" then ByteOrder.le else ByteOrder.be
    let vt := vtOf (getStr j "vt")
    let buf := ofHex (getStr j "bg")
    (cfg, toHex (bfWrite bo vt buf (getNat j "base") (getNat j "start") (getNat j "len") (getInt j "v")))
  | "shifts" =>
    let l := bfShifts (getStr j "bo" == "le") (getNat j "w") (getNat j "start") (getNat j "len")
    (cfg, toString (l.all fun (w, a) => a < w))
  | "cfg" => (cfgOf j, "ok")
  | "ops" =>
    match findDst cfg (getStr j "dst") with
    | none => (cfg, "bad-dst")
    | some d =>
      let ert := d.erts.find? (fun (e : ERT) => e.name == getStr j "ert")
      let r : Option RootOp := match getStr j "root" with
        | "ph" => some (DST.phOp cfg)
        | "pc" => some d.pcOp
        | "h" => some d.erhOp
        | "cc" => d.erccOp
        | "sc" => ert.bind ERT.scOp
        | "p" => ert.bind ERT.pOp
        | _ => none
      (cfg, match r with | some r => showRoot r | none => "none")
  | "struct" =>
    match findDst cfg (getStr j "dst") with
    | none => (cfg, "bad-dst")
    | some d =>
      (cfg, match getStr j "root" with
        | "ph" => showStruct cfg.phStruct
        | "pc" => showStruct d.pcStruct
        | "h" => showStruct d.erhStruct
        | _ => "none")
  | "hist" => (cfg, runHist cfg j)
  | op => (cfg, "bad-op " ++ op)

structure DrvSt where
  cfg : Cfg
  opts : GenOpts

def handle2 (st : DrvSt) (j : Json) : DrvSt × String :=
  if getStr j "op" == "cfg" then ({ cfg := cfgOf j, opts := optsOf j }, "ok") else
  match handleFront j with
  | some r => (st, r)
  | none =>
  match handleLayout st.cfg st.opts j with
  | some r => (st, r)
  | none => let (c, r) := handle st.cfg j; ({ st with cfg := c }, r)

partial def loop (h : IO.FS.Stream) (out : IO.FS.Stream) (st : DrvSt) : IO Unit := do
  let line ← h.getLine
  if line.isEmpty then return ()
  let (st, r) := match Json.parse line with
    | .ok j => handle2 st j
    | .error e => (st, "bad-json " ++ e)
  out.putStrLn r
  loop h out st

end Drv

def main : IO Unit := do
  let i ← IO.getStdin
  let o ← IO.getStdout
  Drv.loop i o { cfg := { bo := .le, fast := true, uuid := [], feat := ⟨none, false, none⟩, dsts := [] }, opts := {} }
  o.flush
