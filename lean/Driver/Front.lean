/-
  Driver/Front.lean — front-end operations of the line protocol (C09–C12, C18).
  Y ↔ JSON: null, true/false, numbers (integers), strings, {"f": repr} floats, {"s": [...]} sequences,
  {"m": [[key, value], ...]} ordered mappings.
-/
import Lean.Data.Json
import BVM.Model.V2
import BVM.Proofs.V2
import BVM.Gen.Schemas
import BVM.Model.Load
open Lean BVM

namespace Drv

partial def yOfJson : Json → Y
  | .null => .null
  | .bool b => .bool b
  | .num n => if n.exponent = 0 then .int n.mantissa else .float (toString n)
  | .str s => .str s
  | .arr a => .seq (a.toList.map yOfJson)
  | .obj o =>
    match o.get? "m" with
    | some (.arr kvs) => .map (kvs.toList.map fun kv => match kv with
        | .arr #[.str k, v] => (k, yOfJson v)
        | _ => ("?", .null))
    | _ => match o.get? "s" with
      | some (.arr xs) => .seq (xs.toList.map yOfJson)
      | _ => match o.get? "f" with
        | some (.str r) => .float r
        | _ => .null

partial def jsonOfY : Y → Json
  | .null => .null
  | .bool b => .bool b
  | .int i => .num ⟨i, 0⟩
  | .float r => Json.mkObj [("f", .str r)]
  | .str s => .str s
  | .seq xs => Json.mkObj [("s", .arr (xs.map jsonOfY).toArray)]
  | .map kvs => Json.mkObj [("m", .arr (kvs.map fun (k, v) => Json.arr #[.str k, jsonOfY v]).toArray)]

def kvsOfJson (j : Json) : KVs := match yOfJson j with | .map m => m | _ => []

def worldOfK (j : Json) (key : String) : World :=
  let dirs : List (List (String × Y)) := match j.getObjVal? key with
    | .ok (.arr ds) => ds.toList.map fun d => match d with
      | .arr fs => fs.toList.map fun f => match f with
        | .arr #[.str n, c] => (n, yOfJson c)
        | _ => ("?", .null)
      | _ => []
    | _ => []
  let ign := (j.getObjValAs? Bool "ignore").toOption.getD false
  { dirs := dirs, ignoreNotFound := ign }

def worldOf (j : Json) : World := worldOfK j "dirs"

def showFR (r : FR KVs) : String :=
  match r with
  | .ok m => "ok " ++ (jsonOfY (.map m)).compress
  | .error e => "err " ++ e.cls

def optInt (j : Json) (k : String) : Option Int := (j.getObjValAs? Int k).toOption
def optStr (j : Json) (k : String) : Option String := (j.getObjValAs? String k).toOption

def aintOf (j : Json) : AInt :=
  { size := (optInt j "size").getD 0, signed := (j.getObjValAs? Bool "signed").toOption.getD false,
    saySigned := (j.getObjValAs? Bool "say_signed").toOption.getD false, align := optInt j "align",
    base := optStr j "base", clock := optStr j "clock", encoding := optStr j "encoding" }

instance : Inhabited AFt := ⟨.str none⟩

partial def aftOf (j : Json) : AFt :=
  match (optStr j "k").getD "" with
  | "int" => .int (aintOf j)
  | "enum" =>
    let ms : List AMember := match j.getObjVal? "members" with
      | .ok (.arr a) => a.toList.map fun m =>
        let l := (optStr m "label").getD ""
        match optInt m "value", m.getObjVal? "range" with
        | some v, _ => .value l v
        | none, .ok (.arr #[a, b]) => .range l (a.getInt?.toOption.getD 0) (b.getInt?.toOption.getD 0)
        | _, _ => .implicit l
      | _ => []
    .enum (aintOf ((j.getObjVal? "vt").toOption.getD .null)) ms
  | "float" => .float ((optInt j "size").getD 32 == 64) (optInt j "align")
  | "str" => .str (optStr j "encoding")
  | "array" =>
    let e := aftOf ((j.getObjVal? "elem").toOption.getD .null)
    match optInt j "length" with
    | some n => .sarr n e
    | none => .darr e
  | _ =>
    let fs : List (String × AFt) := match j.getObjVal? "fields" with
      | .ok (.arr a) => a.toList.map fun f => match f with
        | .arr #[.str n, ft] => (n, aftOf ft)
        | _ => ("?", .str none)
      | _ => []
    .struct (optInt j "min-align") fs

def showY (r : FR Y) : String :=
  match r with
  | .ok y => "ok " ++ (jsonOfY y).compress
  | .error e => "err " ++ e.cls

def fuelOf (j : Json) : Nat := (j.getObjValAs? Nat "fuel").toOption.getD defaultFuel

def handleFront (j : Json) : Option String :=
  match (j.getObjValAs? String "op").toOption.getD "" with
  | "expand3" =>
    some (showFR (expand3 (worldOf j) (fuelOf j) (kvsOfJson ((j.getObjVal? "doc").toOption.getD .null))))
  | "expand2" =>
    some (showFR (expand2 (worldOfK j "dirs2") (worldOfK j "dirs3") (fuelOf j) (kvsOfJson ((j.getObjVal? "doc").toOption.getD .null))))
  | "convert2" =>
    some (showFR (convert2 (worldOfK j "dirs2") (fuelOf j) (kvsOfJson ((j.getObjVal? "doc").toOption.getD .null))))
  | "validate" =>
    let sid := (j.getObjValAs? String "schema").toOption.getD ""
    let key := "https://barectf.org/schemas/" ++ sid ++ ".json"
    let y := yOfJson ((j.getObjVal? "doc").toOption.getD .null)
    some (match validate Gen.store (fuelOf j) (.ref key) y with
      | some true => "valid"
      | some false => "invalid"
      | none => "unknown")
  | "load3" =>
    let r := load3 Gen.store (worldOf j) (fuelOf j) (kvsOfJson ((j.getObjVal? "doc").toOption.getD .null))
    some (match verdictOf r with
      | .accept => showFR r
      | .reject c => "reject " ++ c
      | .crash w => "crash " ++ w
      | .unknown => "unknown")
  | "load2" =>
    let r := load2 Gen.store (worldOfK j "dirs2") (worldOfK j "dirs3") (fuelOf j) (kvsOfJson ((j.getObjVal? "doc").toOption.getD .null))
    some (match verdictOf r with
      | .accept => showFR r
      | .reject c => "reject " ++ c
      | .crash w => "crash " ++ w
      | .unknown => "unknown")
  | "aft" =>
    let a := aftOf ((j.getObjVal? "ft").toOption.getD .null)
    some ((Json.arr #[jsonOfY a.r2, jsonOfY a.r3]).compress)
  | "patch" =>
    let v3 := (j.getObjValAs? Bool "v3").toOption.getD true
    let b := yOfJson ((j.getObjVal? "base").toOption.getD .null)
    let o := yOfJson ((j.getObjVal? "overlay").toOption.getD .null)
    some ((jsonOfY (patchNode v3 b o)).compress)
  | "include" =>
    let kd : Kind := match (j.getObjValAs? String "kind").toOption.getD "" with
      | "trace" => .trace | "traceType" => .traceType | "clockType" => .clockType | "dst" => .dst | "ert" => .ert
      | "meta2" => .meta2 | "traceType2" => .traceType2 | "clockType2" => .clockType2 | "dst2" => .dst2
      | _ => .ert2
    some (showY (procInclude (worldOf j) (fuelOf j) [] kd (yOfJson ((j.getObjVal? "node").toOption.getD .null))))
  | "resolve" =>
    let v3 := (j.getObjValAs? Bool "v3").toOption.getD true
    let al := kvsOfJson ((j.getObjVal? "aliases").toOption.getD .null)
    let t := yOfJson ((j.getObjVal? "target").toOption.getD .null)
    some (showY ((resolveVal v3 (fuelOf j) ⟨al, [], []⟩ t).map (·.1)))
  | "inherit" =>
    let v3 := (j.getObjValAs? Bool "v3").toOption.getD true
    let t := yOfJson ((j.getObjVal? "target").toOption.getD .null)
    some (showY (inheritVal v3 (fuelOf j) t))
  | _ => none

end Drv
