import BVM.Model.Bits
import BVM.Model.FT
import BVM.Model.Ops
import BVM.Model.Ser
import BVM.Model.Cfg
import BVM.Model.Rt
import BVM.Proofs.Bits
import BVM.Props.C08
