import BVM.Model.Bits
import BVM.Proofs.Bits
import BVM.Props.C08
