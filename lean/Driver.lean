import Driver.Main
