/-
  Proofs/Fixed.lean — the expansion stages are the identity on a document that is already effective,
  and what `expand3` produces has the top-level marks of an effective document.
-/
import BVM.Proofs.Expand
namespace BVM

/-! ### identity lemmas for the traversal combinators -/

theorem modKey_id (k : String) (f : Y → FR Y) : ∀ m : KVs, (∀ v, kvGet k m = some v → f v = .ok v) →
    modKey k f m = .ok m
  | [], _ => rfl
  | (k', v) :: r, h => by
    by_cases hk : k' = k
    · have := h v (by simp [hk])
      simp [modKey, hk, this, bind, Except.bind]
    · have ih := modKey_id k f r (fun v' hv' => h v' (by simp [hk, hv']))
      simp [modKey, hk, ih, bind, Except.bind]

theorem mapVals_id (f : String → Y → FR Y) : ∀ m : KVs, (∀ kv ∈ m, f kv.1 kv.2 = .ok kv.2) → mapVals f m = .ok m
  | [], _ => rfl
  | (k, v) :: r, h => by
    have h1 := h (k, v) (by simp)
    have ih := mapVals_id f r (fun kv hkv => h kv (by simp [hkv]))
    simp [mapVals, h1, ih, bind, Except.bind]

theorem kvErase_absent (k : String) : ∀ m : KVs, kvGet k m = none → kvErase k m = m
  | [], _ => rfl
  | (k', v) :: r, h => by
    by_cases hk : k' = k
    · simp [hk] at h
    · simp only [kvGet_cons, hk, if_false] at h
      simp [kvErase, hk, kvErase_absent k r h]

theorem kvGet_kvErase_same (k : String) : ∀ m : KVs, kvGet k (kvErase k m) = none
  | [] => rfl
  | (k', v) :: r => by
    by_cases hk : k' = k
    · simp [kvErase, hk, kvGet_kvErase_same k r]
    · simp [kvErase, hk, kvGet_kvErase_same k r]

theorem kvGet_kvErase_other (k k2 : String) (hne : k ≠ k2) : ∀ m : KVs, kvGet k2 (kvErase k m) = kvGet k2 m
  | [] => rfl
  | (k', v) :: r => by
    by_cases hk : k' = k
    · subst hk; simp [kvErase, hne, kvGet_kvErase_other k' k2 hne r]
    · by_cases hk2 : k' = k2
      · subst hk2; simp [kvErase, hk]
      · simp [kvErase, hk, hk2, kvGet_kvErase_other k k2 hne r]

theorem kvSet_same (k : String) (v : Y) : ∀ m : KVs, kvGet k m = some v → kvSet k v m = m
  | [], h => by simp at h
  | (k', v') :: r, h => by
    by_cases hk : k' = k
    · simp [hk] at h; simp [kvSet, hk, h]
    · simp only [kvGet_cons, hk, if_false] at h
      simp [kvSet, hk, kvSet_same k v r h]

theorem kvGet_kvSet_same (k : String) (v : Y) : ∀ m : KVs, kvGet k (kvSet k v m) = some v
  | [] => by simp [kvSet]
  | (k', v') :: r => by
    by_cases hk : k' = k
    · simp [kvSet, hk]
    · simp [kvSet, hk, kvGet_kvSet_same k v r]

theorem kvGet_kvSet_other (k k2 : String) (v : Y) (hne : k ≠ k2) : ∀ m : KVs, kvGet k2 (kvSet k v m) = kvGet k2 m
  | [] => by simp [kvSet, hne]
  | (k', v') :: r => by
    by_cases hk : k' = k
    · subst hk; simp [kvSet, hne]
    · by_cases hk2 : k' = k2
      · subst hk2; simp [kvSet, hk]
      · simp [kvSet, hk, hk2, kvGet_kvSet_other k k2 v hne r]

/-! ### inclusions: nothing to include -/

/-- no `$include` property at any includable object reachable from a node of kind `kd`
    (`d` bounds the nesting of includable kinds: trace > trace type > data stream type > event record type) -/
def includeFree : Nat → Kind → Y → Bool
  | 0, _, _ => false
  | d + 1, kd, .map m =>
    !(kvHas "$include" m) && kd.children.all fun cs =>
      match kvGet cs.1 m with
      | none => true
      | some v =>
        match cs.2 with
        | .single k' => includeFree d k' v
        | .each k' => match v with
          | .map cm => cm.all fun kv => includeFree d k' kv.2
          | _ => false
  | _ + 1, _, _ => false

theorem foldlM_childStep_id (rec : Kind → Y → FR Y) (m : KVs) :
    ∀ cs : List (String × ChildSpec), (∀ c ∈ cs, childStep rec m c = .ok m) → cs.foldlM (childStep rec) m = .ok m
  | [], _ => rfl
  | c :: r, h => by
    simp only [List.foldlM_cons, h c (by simp), bind, Except.bind]
    exact foldlM_childStep_id rec m r (fun c' hc' => h c' (by simp [hc']))

theorem procInclude_free (W : World) : ∀ (fuel : Nat) (stack : Stack) (kd : Kind) (y : Y),
    includeFree fuel kd y = true → procInclude W fuel stack kd y = .ok y
  | 0, _, _, _, h => by simp [includeFree] at h
  | fuel + 1, stack, kd, y, h => by
    cases y with
    | map m =>
      simp only [includeFree, Bool.and_eq_true, Bool.not_eq_true', List.all_eq_true] at h
      obtain ⟨hinc, hch⟩ := h
      have hnone : kvGet "$include" m = none := by
        simp only [kvHas] at hinc
        cases hg : kvGet "$include" m with
        | none => rfl
        | some v => simp [hg] at hinc
      have hfold : kd.children.foldlM (childStep (fun k' c => procInclude W fuel stack k' c)) m = .ok m := by
        apply foldlM_childStep_id
        intro c hc
        have hc' := hch c hc
        obtain ⟨key, spec⟩ := c
        cases spec with
        | single k' =>
          simp only [childStep]
          apply modKey_id
          intro v hv
          simp only [hv] at hc'
          exact procInclude_free W fuel stack k' v hc'
        | each k' =>
          simp only [childStep]
          apply modKey_id
          intro v hv
          simp only [hv] at hc'
          cases v with
          | map cm =>
            simp only [List.all_eq_true] at hc'
            have := mapVals_id (fun _ c => procInclude W fuel stack k' c) cm
              (fun kv hkv => procInclude_free W fuel stack k' kv.2 (hc' kv hkv))
            simp [this, bind, Except.bind]
          | _ => simp at hc'
      simp only [procInclude, hfold, bind, Except.bind, hnone]
    | _ => simp [includeFree] at h

end BVM

namespace BVM

theorem includeFree_mono : ∀ (d : Nat) (kd : Kind) (y : Y), includeFree d kd y = true → includeFree (d + 1) kd y = true
  | 0, _, _, h => by simp [includeFree] at h
  | d + 1, kd, y, h => by
    cases y with
    | map m =>
      simp only [includeFree, Bool.and_eq_true, List.all_eq_true] at h ⊢
      refine ⟨h.1, fun cs hcs => ?_⟩
      have hc := h.2 cs hcs
      cases hg : kvGet cs.1 m with
      | none => simp
      | some v =>
        simp only [hg] at hc ⊢
        cases hs : cs.2 with
        | single k' => simp only [hs] at hc ⊢; exact includeFree_mono d k' v hc
        | each k' =>
          simp only [hs] at hc ⊢
          cases v with
          | map cm =>
            simp only [List.all_eq_true] at hc ⊢
            exact fun kv hkv => includeFree_mono d k' kv.2 (hc kv hkv)
          | _ => simp at hc
    | _ => simp [includeFree] at h

theorem includeFree_le (d d' : Nat) (kd : Kind) (y : Y) (hle : d ≤ d') (h : includeFree d kd y = true) :
    includeFree d' kd y = true := by
  induction hle with
  | refl => exact h
  | step _ ih => exact includeFree_mono _ kd y ih

/-! ### the later stages on an effective trace type -/

theorem expandFts3_noalias (fuel : Nat) (tt : KVs) (h : kvGet "$field-type-aliases" tt = none) :
    expandFts3 fuel tt = .ok tt := by
  simp [expandFts3, kvGetNN, h, kvErase_absent _ tt h]

theorem subLogLevels_noalias (tt : KVs) (h : kvGet "$log-level-aliases" tt = none) : subLogLevels tt = .ok tt := by
  simp [subLogLevels, kvGetNN, h, kvErase_absent _ tt h]

/-- the marks of an effective configuration node (decidable parts) -/
structure Effective (cfg trm tt : KVs) (bo : Y) : Prop where
  htrace : kvGet "trace" cfg = some (.map trm)
  htype : kvGet "type" trm = some (.map tt)
  hinc : includeFree 4 .trace (.map trm) = true
  hfta : kvGet "$field-type-aliases" tt = none
  hlla : kvGet "$log-level-aliases" tt = none
  hbo : kvGet (traceByteOrderKey tt) tt = some bo
  hbon : normByteOrder bo = bo
  hnorm : normPropsM tt = tt
  henv : kvGet "environment" trm ≠ some .null

/-- an effective configuration node is a fixed point of the whole pipeline, in any world -/
theorem expand3_fixed (W : World) (fuel : Nat) (cfg trm tt : KVs) (bo : Y) (h : Effective cfg trm tt bo)
    (hfuel : 4 ≤ fuel) : expand3 W fuel cfg = .ok cfg := by
  have h1 : procInclude W fuel [] .trace (.map trm) = .ok (.map trm) :=
    procInclude_free W fuel [] .trace _ (includeFree_le 4 fuel _ _ hfuel h.hinc)
  have h2 := expandFts3_noalias fuel tt h.hfta
  have h3 := subLogLevels_noalias tt h.hlla
  have h4 : kvSet "type" (.map tt) trm = trm := kvSet_same _ _ _ h.htype
  have h5 : normalizeTrace trm = .ok trm := by
    simp only [normalizeTrace, h.htype, h.hbo, h.hbon, kvSet_same _ _ _ h.hbo, h.hnorm, h4]
    cases he : kvGet "environment" trm with
    | none => rfl
    | some v =>
      cases v with
      | null => exact absurd he h.henv
      | _ => rfl
  simp only [expand3, h.htrace, h1, bind, Except.bind, h.htype, h2, h3, h4, h5]
  rw [kvSet_same _ _ _ h.htrace]

/-! ### what `expand3` produces -/

theorem modKeyS_none {σ : Type} (k k2 : String) (f : σ → Y → FR (Y × σ)) (s : σ) :
    ∀ (m m' : KVs) (s' : σ), modKeyS k f s m = .ok (m', s') → (kvGet k2 m' = none ↔ kvGet k2 m = none)
  | [], m', s', h => by simp [modKeyS] at h; rw [← h.1]
  | (k', v) :: r, m', s', h => by
    by_cases hk : k' = k
    · simp only [modKeyS, hk, if_true, bind, Except.bind] at h
      cases hf : f s v with
      | error e => simp [hf] at h
      | ok p =>
        simp only [hf] at h
        injection h with h
        injection h with h1 h2
        rw [← h1]
        by_cases hk2 : k = k2 <;> simp [hk, hk2]
    · simp only [modKeyS, hk, if_false, bind, Except.bind] at h
      cases hr : modKeyS k f s r with
      | error e => simp [hr] at h
      | ok p =>
        obtain ⟨r', s2⟩ := p
        simp only [hr] at h
        injection h with h
        injection h with h1 h2
        rw [← h1]
        have ih := modKeyS_none k k2 f s r r' s2 hr
        by_cases hk2 : k' = k2 <;> simp [hk2, ih]

theorem modKey_none (k k2 : String) (f : Y → FR Y) :
    ∀ (m m' : KVs), modKey k f m = .ok m' → (kvGet k2 m' = none ↔ kvGet k2 m = none)
  | [], m', h => by simp [modKey] at h; rw [← h]
  | (k', v) :: r, m', h => by
    by_cases hk : k' = k
    · simp only [modKey, hk, if_true, bind, Except.bind] at h
      cases hf : f v with
      | error e => simp [hf] at h
      | ok p =>
        simp only [hf] at h
        injection h with h
        rw [← h]
        by_cases hk2 : k = k2 <;> simp [hk, hk2]
    · simp only [modKey, hk, if_false, bind, Except.bind] at h
      cases hr : modKey k f r with
      | error e => simp [hr] at h
      | ok r' =>
        simp only [hr] at h
        injection h with h
        rw [← h]
        have ih := modKey_none k k2 f r r' hr
        by_cases hk2 : k' = k2 <;> simp [hk2, ih]

theorem overSlots3_none {σ : Type} (g : Y → Bool) (f em : σ → Y → FR (Y × σ)) (s s' : σ) (tt tt' : KVs) (k2 : String)
    (h : overSlots3 g f em s tt = .ok (tt', s')) : kvGet k2 tt' = none ↔ kvGet k2 tt = none := by
  simp only [overSlots3, bind, Except.bind] at h
  split at h
  · simp at h
  · rename_i p hp
    obtain ⟨tt1, s1⟩ := p
    have a := modKeyS_none _ k2 _ _ _ _ _ hp
    have b := modKeyS_none _ k2 _ _ _ _ _ h
    exact b.trans a

theorem expandFts3_no_aliases (fuel : Nat) (tt tt' : KVs) (h : expandFts3 fuel tt = .ok tt') :
    kvGet "$field-type-aliases" tt' = none := by
  simp only [expandFts3] at h
  split at h
  · injection h with h; rw [← h]; exact kvGet_kvErase_same _ _
  · simp only [bind, Except.bind] at h
    split at h
    · simp at h
    · rename_i tt1 _
      split at h
      · simp at h
      · rename_i p hp
        split at h
        · simp at h
        · split at h
          · simp at h
          · rename_i q hq
            injection h with h
            rw [← h]
            exact (overSlots3_none _ _ _ _ _ _ _ _ hq).mpr (kvGet_kvErase_same _ _)
  · simp at h

theorem expandFts3_keeps_none (fuel : Nat) (tt tt' : KVs) (k2 : String) (h : expandFts3 fuel tt = .ok tt')
    (hn : kvGet k2 tt = none) : kvGet k2 tt' = none := by
  by_cases hk : "$field-type-aliases" = k2
  · subst hk; exact expandFts3_no_aliases fuel tt tt' h
  · simp only [expandFts3] at h
    split at h
    · injection h with h; rw [← h, kvGet_kvErase_other _ _ hk]; exact hn
    · simp only [bind, Except.bind] at h
      split at h
      · simp at h
      · rename_i tt1 h1
        split at h
        · simp at h
        · rename_i p hp
          split at h
          · simp at h
          · split at h
            · simp at h
            · rename_i q hq
              injection h with h
              rw [← h]
              apply (overSlots3_none _ _ _ _ _ _ _ k2 hq).mpr
              rw [kvGet_kvErase_other _ _ hk]
              apply (overSlots3_none _ _ _ _ _ _ _ k2 hp).mpr
              -- normalizeMembers3
              simp only [normalizeMembers3, bind, Except.bind] at h1
              split at h1
              · simp at h1
              · rename_i tta ha
                split at h1
                · simp at h1
                · rename_i r hr
                  injection h1 with h1
                  rw [← h1]
                  exact (overSlots3_none _ _ _ _ _ _ _ k2 hr).mpr ((modKey_none _ k2 _ _ _ ha).mpr hn)
    · simp at h

theorem subLogLevels_no_aliases (tt tt' : KVs) (h : subLogLevels tt = .ok tt') :
    kvGet "$log-level-aliases" tt' = none := by
  simp only [subLogLevels] at h
  split at h
  · injection h with h; rw [← h]; exact kvGet_kvErase_same _ _
  · exact (modKey_none _ _ _ _ _ h).mpr (kvGet_kvErase_same _ _)
  · simp at h

theorem subLogLevels_keeps_none (tt tt' : KVs) (k2 : String) (h : subLogLevels tt = .ok tt')
    (hn : kvGet k2 tt = none) : kvGet k2 tt' = none := by
  by_cases hk : "$log-level-aliases" = k2
  · subst hk; exact subLogLevels_no_aliases tt tt' h
  · simp only [subLogLevels] at h
    split at h
    · injection h with h; rw [← h, kvGet_kvErase_other _ _ hk]; exact hn
    · apply (modKey_none _ k2 _ _ _ h).mpr; rw [kvGet_kvErase_other _ _ hk]; exact hn
    · simp at h

theorem normPropsM_keeps_none (k : String) (m : KVs) (h : kvGet k m = none) : kvGet k (normPropsM m) = none :=
  kvGet_none_iff.mpr (fun hin => (kvGet_none_iff.mp h) (kvKeys_normPropsM_subset k m hin))

end BVM
