/-
  Proofs/Patch.lean — lemmas about ordered maps and the patching function (Model/Patch.lean).
-/
import BVM.Model.Patch
namespace BVM

/-! ### ordered maps -/

@[simp] theorem kvGet_nil (k : String) : kvGet k [] = none := rfl
@[simp] theorem kvGet_cons (k k' : String) (v : Y) (r : KVs) :
    kvGet k ((k', v) :: r) = if k' = k then some v else kvGet k r := rfl

theorem kvGet_none_iff {k : String} {m : KVs} : kvGet k m = none ↔ k ∉ kvKeys m := by
  induction m with
  | nil => simp [kvKeys]
  | cons kv r ih =>
    obtain ⟨k', v⟩ := kv
    simp only [kvGet_cons, kvKeys, List.map_cons, List.mem_cons, not_or]
    by_cases h : k' = k
    · simp [h]
    · simp only [h, if_false]
      constructor
      · intro hn; exact ⟨fun e => h e.symm, by simpa [kvKeys] using ih.mp hn⟩
      · intro ⟨_, hn⟩; exact ih.mpr (by simpa [kvKeys] using hn)

theorem kvGet_upsertWith_same (k : String) (f : Y → Y) (d : Y) (m : KVs) :
    kvGet k (upsertWith k f d m) = some (match kvGet k m with | some v => f v | none => d) := by
  induction m with
  | nil => simp [upsertWith]
  | cons kv r ih =>
    obtain ⟨k', v⟩ := kv
    by_cases h : k' = k
    · simp [upsertWith, h]
    · simp [upsertWith, h, ih]

theorem kvGet_upsertWith_other (k k2 : String) (f : Y → Y) (d : Y) (m : KVs) (hne : k ≠ k2) :
    kvGet k2 (upsertWith k f d m) = kvGet k2 m := by
  induction m with
  | nil => simp [upsertWith, hne]
  | cons kv r ih =>
    obtain ⟨k', v⟩ := kv
    by_cases h : k' = k
    · subst h; simp [upsertWith, hne]
    · by_cases h2 : k' = k2
      · subst h2; simp [upsertWith, h]
      · simp [upsertWith, h, h2, ih]

theorem kvKeys_upsertWith (k : String) (f : Y → Y) (d : Y) (m : KVs) :
    kvKeys (upsertWith k f d m) = if k ∈ kvKeys m then kvKeys m else kvKeys m ++ [k] := by
  induction m with
  | nil => simp [upsertWith, kvKeys]
  | cons kv r ih =>
    obtain ⟨k', v⟩ := kv
    by_cases h : k' = k
    · simp [upsertWith, kvKeys, h]
    · have h' : ¬ k = k' := fun e => h e.symm
      simp only [upsertWith, h, if_false, kvKeys, List.map_cons, List.mem_cons, h', false_or] at ih ⊢
      rw [ih]
      by_cases hin : k ∈ List.map (fun x => x.fst) r <;> simp [hin]

/-! ### `patchMap` -/

@[simp] theorem patchMap_nil (v3 : Bool) (b : KVs) : patchMap v3 b [] = b := by
  simp [patchMap]

@[simp] theorem patchMap_cons (v3 : Bool) (b : KVs) (k : String) (ov : Y) (rest : KVs) :
    patchMap v3 b ((k, ov) :: rest) = patchMap v3 (upsertWith k (fun bv => merge v3 k bv ov) ov b) rest := by
  simp [patchMap]

/-- value of a property after patching, for an overlay whose keys are distinct (every loaded YAML
    mapping): overlay-only → the overlay value; both → `merge`; base-only → unchanged -/
theorem kvGet_patchMap (v3 : Bool) (k : String) (o : KVs) : ∀ (b : KVs), (kvKeys o).Nodup →
    kvGet k (patchMap v3 b o) =
      match kvGet k b, kvGet k o with
      | some bv, some ov => some (merge v3 k bv ov)
      | none, some ov => some ov
      | r, none => r := by
  induction o with
  | nil => intro b _; simp
  | cons kv rest ih =>
    intro b hnd
    obtain ⟨k', ov⟩ := kv
    have hnd' : (kvKeys rest).Nodup := by simp [kvKeys] at hnd ⊢; exact hnd.2
    have hk' : k' ∉ kvKeys rest := by simp [kvKeys] at hnd ⊢; exact hnd.1
    rw [patchMap_cons, ih _ hnd']
    by_cases h : k' = k
    · subst h
      have hr : kvGet k' rest = none := kvGet_none_iff.mpr hk'
      rw [kvGet_upsertWith_same, hr]
      simp
      cases kvGet k' b <;> rfl
    · rw [kvGet_upsertWith_other _ _ _ _ _ h]
      simp [h]

/-- key order after patching: the base's keys in their order, then the overlay's new keys in theirs -/
theorem kvKeys_patchMap (v3 : Bool) (o : KVs) : ∀ (b : KVs), (kvKeys o).Nodup →
    kvKeys (patchMap v3 b o) = kvKeys b ++ (kvKeys o).filter (fun k => decide (k ∉ kvKeys b)) := by
  induction o with
  | nil => intro b _; simp [kvKeys]
  | cons kv rest ih =>
    intro b hnd
    obtain ⟨k', ov⟩ := kv
    have hnd' : (kvKeys rest).Nodup := by simp [kvKeys] at hnd ⊢; exact hnd.2
    have hk' : k' ∉ kvKeys rest := by simp [kvKeys] at hnd ⊢; exact hnd.1
    rw [patchMap_cons, ih _ hnd', kvKeys_upsertWith]
    by_cases hin : k' ∈ kvKeys b
    · simp only [hin, if_true]
      have : (kvKeys ((k', ov) :: rest)) = k' :: kvKeys rest := rfl
      rw [this, List.filter_cons]
      simp [hin]
    · simp only [hin, if_false]
      have : (kvKeys ((k', ov) :: rest)) = k' :: kvKeys rest := rfl
      rw [this, List.filter_cons]
      simp only [hin, not_false_eq_true, decide_true, if_true, List.append_assoc, List.singleton_append]
      congr 2
      apply List.filter_congr
      intro x hx
      have : x ≠ k' := fun e => hk' (e ▸ hx)
      simp [this]

/-! ### `merge` by kinds -/

theorem merge_map_map (v3 : Bool) (k : String) (b o : KVs) :
    merge v3 k (.map b) (.map o) = .map (patchMap v3 b o) := by simp [merge]

theorem merge_seq_seq (v3 : Bool) (k : String) (b o : List Y) :
    merge v3 k (.seq b) (.seq o) =
      if k = "members" ∧ v3 = true then .seq (patchMembers v3 b o) else .seq (b ++ o) := by simp [merge]

/-- an overlay value that is neither a mapping nor a sequence (scalars and `null`) replaces -/
theorem merge_scalar (v3 : Bool) (k : String) (bv ov : Y) (h1 : ov.isMap = false) (h2 : ov.isSeq = false) :
    merge v3 k bv ov = ov := by
  cases ov <;> simp_all [merge, Y.isMap, Y.isSeq]

/-- kind clash: an overlay mapping over a non-mapping, an overlay sequence over a non-sequence -/
theorem merge_map_clash (v3 : Bool) (k : String) (bv : Y) (o : KVs) (h : bv.isMap = false) :
    merge v3 k bv (.map o) = .map o := by
  cases bv <;> simp_all [merge, Y.isMap]

theorem merge_seq_clash (v3 : Bool) (k : String) (bv : Y) (o : List Y) (h : bv.isSeq = false) :
    merge v3 k bv (.seq o) = .seq o := by
  cases bv <;> simp_all [merge, Y.isSeq]

/-! ### `members` as an ordered map -/

/-- a member item `- name: value` -/
def memberItem (kv : String × Y) : Y := .map [(kv.1, kv.2)]

theorem updMemberWith_items (n : String) (f : Y → Y) (v : Y) (ms : KVs) :
    updMemberWith n f (.map [(n, v)]) (ms.map memberItem) = (upsertWith n f v ms).map memberItem := by
  induction ms with
  | nil => simp [updMemberWith, upsertWith, memberItem]
  | cons kv r ih =>
    obtain ⟨k', v'⟩ := kv
    by_cases h : k' = n
    · simp [updMemberWith, upsertWith, memberItem, h]
    · simp only [List.map_cons, memberItem, updMemberWith, h, if_false, upsertWith]
      rw [← ih]

@[simp] theorem patchMembers_nil (v3 : Bool) (b : List Y) : patchMembers v3 b [] = b := by
  simp [patchMembers]

theorem patchMembers_item (v3 : Bool) (b : List Y) (n : String) (ov : Y) (rest : List Y) :
    patchMembers v3 b (.map [(n, ov)] :: rest) =
      patchMembers v3 (updMemberWith n (fun bv => merge v3 n bv ov) (.map [(n, ov)]) b) rest := by
  simp [patchMembers]

/-- structure members are patched exactly as the ordered map they denote -/
theorem patchMembers_omap (v3 : Bool) (os : KVs) : ∀ ms : KVs,
    patchMembers v3 (ms.map memberItem) (os.map memberItem) = (patchMap v3 ms os).map memberItem := by
  induction os with
  | nil => intro ms; simp
  | cons kv rest ih =>
    intro ms
    obtain ⟨n, ov⟩ := kv
    simp only [List.map_cons, memberItem, patchMap_cons]
    rw [patchMembers_item, updMemberWith_items]
    exact ih _

end BVM
