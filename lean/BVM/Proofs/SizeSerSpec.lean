/-
  Proofs/SizeSerSpec.lean — Proofs/SizeSer.lean (2) for every root structure, including those written through the
  specialised templates (packet header: magic, UUID, stream id; packet context: sizes, timestamps, counters, with the
  fields written back at closing time skipped and their offsets saved; event record header: id, timestamp): if the
  true end of the structure is inside the buffer, serialising it stores nothing outside the buffer.
-/
import BVM.Proofs.SizeSer
namespace BVM

/-- the erased operation of a member of a root with specialised templates -/
def plainMemberS (spec : String → Option WSrc) (m : Member) : MOp :=
  match m.ft with
  | .el (.sc sc) => .el m.name (.leaf (alOp sc.align) ⟨(spec m.name).getD .arg, sc, none⟩)
  | .el e => .el m.name (plainElem e)
  | .darr ln e => .dloop m.name (alOp e.align) ln (plainElem e)
  | .uuid => .el m.name (.leaf (alOp 8) ⟨.uuid, .str, none⟩)

theorem buildMember_eraseS (spec : String → Option WSrc) (m : Member) (oib : Option Nat) :
    (buildMember spec m oib).1.erase = plainMemberS spec m := by
  obtain ⟨name, ft⟩ := m
  cases ft with
  | el e =>
    cases e with
    | sc sc => rfl
    | sarr n e => simp only [buildMember, MOp.erase, plainMemberS]; rw [buildElem_erase]
  | darr ln e => simp only [buildMember, MOp.erase, plainMemberS, tryAlign_snd]; rw [buildElem_erase]
  | uuid => rfl

theorem buildMembers_eraseS (spec : String → Option WSrc) : ∀ (ms : List Member) (oib : Option Nat),
    (buildMembers spec ms oib).1.map MOp.erase = ms.map (plainMemberS spec)
  | [], _ => rfl
  | m :: ms, oib => by
    simp only [buildMembers, List.map_cons, buildMember_eraseS, buildMembers_eraseS spec ms]

theorem buildRoot_eraseS (spec : String → Option WSrc) (S : Struct) :
    (buildRoot spec S).erase = { al := alOp S.align, members := S.members.map (plainMemberS spec) } := by
  simp only [buildRoot, RootOp.erase, tryAlign_snd, buildMembers_eraseS]

/-- a specialised template applies to integer members only, and the UUID template to the UUID member only -/
def SpecWF (spec : String → Option WSrc) (m : Member) : Prop :=
  match m.ft with
  | .el (.sc sc) => ∀ src, spec m.name = some src → src = .arg ∨ (src ≠ .uuid ∧ sc ≠ .str)
  | _ => True

/-- the end of member `m` written from `a`, in unbounded arithmetic -/
def memberEndS (spec : String → Option WSrc) (pfx : String) (args : Args) (m : Member) (a : Nat) : Nat :=
  match m.ft with
  | .el (.sc sc) =>
    match spec m.name with
    | none => memberEndN pfx args m a
    | some .arg => memberEndN pfx args m a
    | some _ => alignNat a sc.align + sc.size
  | .uuid => alignNat a 8 + 128
  | _ => memberEndN pfx args m a

def structEndS (spec : String → Option WSrc) (pfx : String) (args : Args) (S : Struct) (a : Nat) : Nat :=
  S.members.foldl (fun a m => memberEndS spec pfx args m a) (alignNat a S.align)

theorem memberEndS_mono (spec : String → Option WSrc) (pfx : String) (args : Args) (m : Member) (hal : 0 < m.ft.align)
    (a : Nat) : a ≤ memberEndS spec pfx args m a := by
  obtain ⟨n, ft⟩ := m
  cases ft with
  | el e =>
    cases e with
    | sc sc =>
      simp only [memberEndS]
      have h1 := memberEndN_mono pfx args ⟨n, .el (.sc sc)⟩ hal a
      have h2 := alignNat_ge a sc.align hal
      split <;> first | exact h1 | omega
    | sarr k e => exact memberEndN_mono pfx args ⟨n, .el (.sarr k e)⟩ hal a
  | darr ln e => exact memberEndN_mono pfx args ⟨n, .darr ln e⟩ hal a
  | uuid =>
    simp only [memberEndS]
    have := alignNat_ge a 8 (by decide)
    omega

/-- a first-level integer member written by a specialised template -/
theorem spec_leaf_in_bounds (env : SerEnv) (L A : Nat) (src : WSrc) (sc : Scalar) (s : SerSt) (hsrc : src ≠ .arg)
    (hnu : src ≠ .uuid) (hA : sc.align ≤ A) (hal : 0 < sc.align) (hsmall : 8 * L + A ≤ 2 ^ 32) (hlen : s.buf.length = L)
    (h0 : s.oob = false) (hfit : alignNat s.at_ sc.align + sc.size ≤ 8 * L) :
    (serElem env (.leaf (alOp sc.align) ⟨src, sc, none⟩) s).oob = false ∧
    (serElem env (.leaf (alOp sc.align) ⟨src, sc, none⟩) s).at_ = alignNat s.at_ sc.align + sc.size ∧
    (serElem env (.leaf (alOp sc.align) ⟨src, sc, none⟩) s).buf.length = L := by
  have hge := alignNat_ge s.at_ sc.align hal
  have hat1 : (serAlign (alOp sc.align) s).at_ = alignNat s.at_ sc.align := serAlign_alOp sc.align s hal (by omega)
  simp only [serElem]
  generalize hs1 : serAlign (alOp sc.align) s = s1 at hat1
  have hb1 : s1.buf.length = L := by rw [← hs1, serAlign_buf]; exact hlen
  have ho1 : s1.oob = false := by rw [← hs1, serAlign_oob]; exact h0
  have hw : ∀ v, (writeBits env sc none v s1).oob = false ∧ (writeBits env sc none v s1).at_ = alignNat s.at_ sc.align + sc.size ∧
      (writeBits env sc none v s1).buf.length = L := by
    intro v
    obtain ⟨w1, w2, _, w4⟩ := writeBits_in env sc v s1 ho1 (by rw [hat1, hb1]; exact hfit) (by rw [hb1]; omega)
    exact ⟨w1, by rw [w2, hat1], by rw [w4, hb1]⟩
  cases src with
  | arg => exact absurd rfl hsrc
  | uuid => exact absurd rfl hnu
  | skipSave name =>
    simp only [serWrite]
    refine ⟨ho1, ?_, hb1⟩
    show u32 (s1.at_ + sc.size) = _
    rw [hat1]; simp only [u32]; omega
  | magic => exact hw _
  | dstId => exact hw _
  | pktSize => exact hw _
  | seqNum => exact hw _
  | tsBegin => exact hw _
  | ertId => exact hw _
  | ts => exact hw _

/-- the UUID member: 16 bytes at the next byte boundary -/
theorem uuid_in_bounds (env : SerEnv) (L A : Nat) (s : SerSt) (hA : 8 ≤ A) (hsmall : 8 * L + A ≤ 2 ^ 32)
    (hlen : s.buf.length = L) (h0 : s.oob = false) (hfit : alignNat s.at_ 8 + 128 ≤ 8 * L) :
    (serElem env (.leaf (alOp 8) ⟨.uuid, .str, none⟩) s).oob = false ∧
    (serElem env (.leaf (alOp 8) ⟨.uuid, .str, none⟩) s).at_ = alignNat s.at_ 8 + 128 ∧
    (serElem env (.leaf (alOp 8) ⟨.uuid, .str, none⟩) s).buf.length = L := by
  have hge := alignNat_ge s.at_ 8 (by decide)
  have hat1 : (serAlign (alOp 8) s).at_ = alignNat s.at_ 8 := serAlign_alOp 8 s (by decide) (by omega)
  simp only [serElem, serWrite]
  generalize hs1 : serAlign (alOp 8) s = s1 at hat1
  have hb1 : s1.buf.length = L := by rw [← hs1, serAlign_buf]; exact hlen
  have ho1 : s1.oob = false := by rw [← hs1, serAlign_oob]; exact h0
  have hm8 : alignNat s.at_ 8 % 8 = 0 := alignNat_mod8 _ _ rfl
  have ha : alignUp s1.at_ 8 = alignNat s.at_ 8 := by
    rw [alignUp_eq _ _ (by rw [hat1]; omega), hat1, alignNat_idem _ _ (by decide)]
  rw [ha]
  have hst := store_ok ({ s1 with at_ := alignNat s.at_ 8 } : SerSt) (alignNat s.at_ 8 / 8) 16
    (memcpyBytes env.uuid s1.buf (alignNat s.at_ 8 / 8)) ho1 (by show _ ≤ s1.buf.length; rw [hb1]; omega)
    (by rw [memcpyBytes_length])
  refine ⟨hst.1, ?_, by rw [hst.2]; exact hb1⟩
  show u32 (alignNat s.at_ 8 + 128) = _
  simp only [u32]; omega

theorem member_in_bounds_S (env : SerEnv) (L A : Nat) (hsmall : 8 * L + A ≤ 2 ^ 32) (hApos : 0 < A)
    (spec : String → Option WSrc) (pfx : String) (args : Args) (m : Member) (hwf : SpecWF spec m)
    (hA : m.ft.align ≤ A) (hal : 0 < m.ft.align) (s : SerSt)
    (hlen : s.buf.length = L) (h0 : s.oob = false) (hfit : memberEndS spec pfx args m s.at_ ≤ 8 * L) :
    (serMember env pfx args (plainMemberS spec m) s).oob = false ∧
    (serMember env pfx args (plainMemberS spec m) s).at_ = memberEndS spec pfx args m s.at_ ∧
    (serMember env pfx args (plainMemberS spec m) s).buf.length = L := by
  obtain ⟨name, ft⟩ := m
  -- members that no specialised template touches are the members of Proofs/SizeSer.lean
  have plain : ∀ (m' : Member), m'.ft ≠ .uuid → plainMemberS spec m' = plainMember m' →
      memberEndS spec pfx args m' s.at_ = memberEndN pfx args m' s.at_ → m'.ft.align ≤ A → 0 < m'.ft.align →
      memberEndS spec pfx args m' s.at_ ≤ 8 * L →
      (serMember env pfx args (plainMemberS spec m') s).oob = false ∧
      (serMember env pfx args (plainMemberS spec m') s).at_ = memberEndS spec pfx args m' s.at_ ∧
      (serMember env pfx args (plainMemberS spec m') s).buf.length = L := by
    intro m' hnu hp he hA' hal' hfit'
    rw [hp, he]
    rw [he] at hfit'
    exact member_in_bounds env L A hsmall hApos pfx args m' hnu hA' hal' s hlen h0 hfit'
  cases ft with
  | uuid =>
    simp only [plainMemberS, serMember, memberEndS] at hfit ⊢
    exact uuid_in_bounds env L A _ (by simpa [FT.align] using hA) hsmall hlen h0 hfit
  | darr ln e => exact plain ⟨name, .darr ln e⟩ (by simp) rfl rfl hA hal hfit
  | el e =>
    cases e with
    | sarr n e => exact plain ⟨name, .el (.sarr n e)⟩ (by simp) rfl rfl hA hal hfit
    | sc sc =>
      cases hs : spec name with
      | none =>
        exact plain ⟨name, .el (.sc sc)⟩ (by simp) (by simp [plainMemberS, plainMember, plainElem, hs])
          (by simp [memberEndS, hs]) hA hal hfit
      | some src =>
        by_cases harg : src = .arg
        · subst harg
          exact plain ⟨name, .el (.sc sc)⟩ (by simp) (by simp [plainMemberS, plainMember, plainElem, hs])
            (by simp [memberEndS, hs]) hA hal hfit
        · have hw := hwf src hs
          rcases hw with hw | ⟨hnu, hstr⟩
          · exact absurd hw harg
          · have he : memberEndS spec pfx args ⟨name, .el (.sc sc)⟩ s.at_ = alignNat s.at_ sc.align + sc.size := by
              cases src with
              | arg => exact absurd rfl harg
              | _ => simp [memberEndS, hs]
            rw [he] at hfit ⊢
            simp only [plainMemberS, serMember, hs, Option.getD_some]
            exact spec_leaf_in_bounds env L A src sc _ harg hnu hA hal hsmall hlen h0 hfit

theorem memberEndS_fold_mono (spec : String → Option WSrc) (pfx : String) (args : Args) :
    ∀ (ms : List Member), (∀ m ∈ ms, 0 < m.ft.align) → ∀ a, a ≤ ms.foldl (fun a m => memberEndS spec pfx args m a) a
  | [], _, a => Nat.le_refl _
  | m :: ms, h, a => by
    simp only [List.foldl_cons]
    exact Nat.le_trans (memberEndS_mono spec pfx args m (h m (by simp)) a)
      (memberEndS_fold_mono spec pfx args ms (fun x hx => h x (by simp [hx])) _)

theorem members_in_bounds_S (env : SerEnv) (L A : Nat) (hsmall : 8 * L + A ≤ 2 ^ 32) (hApos : 0 < A)
    (spec : String → Option WSrc) (pfx : String) (args : Args) :
    ∀ (ms : List Member), (∀ m ∈ ms, SpecWF spec m ∧ m.ft.align ≤ A ∧ 0 < m.ft.align) → ∀ (s : SerSt),
      s.buf.length = L → s.oob = false → ms.foldl (fun a m => memberEndS spec pfx args m a) s.at_ ≤ 8 * L →
      ((ms.map (plainMemberS spec)).foldl (fun a m => serMember env pfx args m a) s).oob = false ∧
      ((ms.map (plainMemberS spec)).foldl (fun a m => serMember env pfx args m a) s).at_ =
        ms.foldl (fun a m => memberEndS spec pfx args m a) s.at_ ∧
      ((ms.map (plainMemberS spec)).foldl (fun a m => serMember env pfx args m a) s).buf.length = L
  | [], _, s, hlen, h0, _ => ⟨h0, rfl, hlen⟩
  | m :: ms, hms, s, hlen, h0, hfit => by
    simp only [List.map_cons, List.foldl_cons] at hfit ⊢
    obtain ⟨hwf, hA, hal⟩ := hms m (by simp)
    have h1 := member_in_bounds_S env L A hsmall hApos spec pfx args m hwf hA hal s hlen h0
      (Nat.le_trans (memberEndS_fold_mono spec pfx args ms (fun x hx => (hms x (by simp [hx])).2.2) _) hfit)
    have ih := members_in_bounds_S env L A hsmall hApos spec pfx args ms (fun x hx => hms x (by simp [hx])) _ h1.2.2 h1.1
      (by rw [h1.2.1]; exact hfit)
    rw [h1.2.1] at ih
    exact ih

/-- hypotheses on a root structure written through the templates of `spec` -/
structure RootOKS (spec : String → Option WSrc) (S : Struct) : Prop where
  pow2 : ∃ j, S.align = 2 ^ j
  members : ∀ m ∈ S.members, m.ft.AlOK ∧ SpecWF spec m ∧ specOK spec m

theorem AlOK_pos' (m : Member) (h : m.ft.AlOK) : 0 < m.ft.align := by
  obtain ⟨n, ft⟩ := m
  cases ft with
  | el e => obtain ⟨j, hj⟩ := h; show 0 < e.align; rw [hj]; exact Nat.two_pow_pos j
  | darr ln e => obtain ⟨j, hj⟩ := h; show 0 < e.align; rw [hj]; exact Nat.two_pow_pos j
  | uuid => show 0 < 8; decide

/-- **any root structure that fits is written inside the buffer** — packet header, packet context (the fields written
    back at closing are skipped, their offsets saved), event record header, contexts, payload -/
theorem root_in_bounds (env : SerEnv) (spec : String → Option WSrc) (pfx : String) (args : Args) (S : Struct)
    (hS : RootOKS spec S) (s : SerSt) (L : Nat) (hsmall : 8 * L + S.align ≤ 2 ^ 32) (hlen : s.buf.length = L)
    (h0 : s.oob = false) (hfit : structEndS spec pfx args S s.at_ ≤ 8 * L) :
    (serRoot env pfx (buildRoot spec S) args s).oob = false ∧
    (serRoot env pfx (buildRoot spec S) args s).at_ = structEndS spec pfx args S s.at_ ∧
    (serRoot env pfx (buildRoot spec S) args s).buf.length = L := by
  have htr := buildRoot_transparent env pfx args spec S hS.pow2
    (fun m hm => ⟨(hS.members m hm).1, (hS.members m hm).2.2⟩) s
  rw [htr, buildRoot_eraseS]
  simp only [serRoot, structEndS] at hfit ⊢
  have hApos : 0 < S.align := by obtain ⟨j, hj⟩ := hS.pow2; rw [hj]; exact Nat.two_pow_pos j
  have hms : ∀ m ∈ S.members, SpecWF spec m ∧ m.ft.align ≤ S.align ∧ 0 < m.ft.align := fun m hm =>
    ⟨(hS.members m hm).2.1, member_align_le S m hm, AlOK_pos' m (hS.members m hm).1⟩
  have hge := alignNat_ge s.at_ S.align hApos
  have hm := memberEndS_fold_mono spec pfx args S.members (fun m hm => (hms m hm).2.2) (alignNat s.at_ S.align)
  have hat0 : (serAlign (alOp S.align) s).at_ = alignNat s.at_ S.align := serAlign_alOp S.align s hApos (by omega)
  have := members_in_bounds_S env L S.align hsmall hApos spec pfx args S.members hms (serAlign (alOp S.align) s)
    (by rw [serAlign_buf]; exact hlen) (by rw [serAlign_oob]; exact h0) (by rw [hat0]; exact hfit)
  rw [hat0] at this
  exact this

/-! ### the size pass on specialised roots -/

/-- a first-level scalar that is not a string advances both passes by its size, whatever its template -/
theorem sizeMember_eq_leaf (env : SerEnv) (pfx : String) (args : Args) (name : String) (al : Option Nat) (src : WSrc)
    (sc : Scalar) (o : Option Nat) (hstr : sc ≠ .str) (hnu : src ≠ .uuid) (s : SerSt) :
    sizeMember pfx args (.el name (.leaf al ⟨src, sc, o⟩)) s.at_ =
      (serMember env pfx args (.el name (.leaf al ⟨src, sc, o⟩)) s).at_ := by
  simp only [sizeMember, serMember, sizeElem, serElem]
  have ha : (sizeAlign al ⟨s.at_, args.get (pfx ++ "_" ++ name)⟩).at_ =
      (serAlign al ({ s with leaves := args.get (pfx ++ "_" ++ name) } : SerSt)).at_ := by cases al <;> rfl
  generalize sizeAlign al ⟨s.at_, args.get (pfx ++ "_" ++ name)⟩ = z1 at ha
  generalize serAlign al ({ s with leaves := args.get (pfx ++ "_" ++ name) } : SerSt) = s1 at ha
  have hz : (match sc with
      | .str => ({ z1.pop.2 with at_ := u32 (z1.at_ + u32 (8 * u32 (z1.pop.1.bytes.length + 1))) } : SizeSt)
      | sc => { z1.pop.2 with at_ := u32 (z1.at_ + sc.size) }).at_ = u32 (z1.at_ + sc.size) := by
    cases sc with
    | str => exact absurd rfl hstr
    | int sg sz a => rfl
    | real sz a => rfl
  first | rw [hz, ha] | rw [ha]
  cases src with
  | uuid => exact absurd rfl hnu
  | arg =>
    simp only [serWrite]
    cases sc with
    | str => exact absurd rfl hstr
    | int sg sz a => rw [writeBits_at, pop_at]
    | real sz a => rw [writeBits_at, pop_at]
  | skipSave nm => rfl
  | magic => simp only [serWrite, writeBits_at]
  | dstId => simp only [serWrite, writeBits_at]
  | pktSize => simp only [serWrite, writeBits_at]
  | seqNum => simp only [serWrite, writeBits_at]
  | tsBegin => simp only [serWrite, writeBits_at]
  | ertId => simp only [serWrite, writeBits_at]
  | ts => simp only [serWrite, writeBits_at]

/-- every member is either a tree of argument writes or a first-level non-string scalar -/
def MOp.sizeOK : MOp → Bool
  | .el _ (.leaf _ w) => w.src == .arg || (w.sc != .str && w.src != .uuid)
  | m => m.allArg

theorem sizeMember_eq' (env : SerEnv) (pfx : String) (args : Args) (m : MOp) (h : m.sizeOK = true) (s : SerSt) :
    sizeMember pfx args m s.at_ = (serMember env pfx args m s).at_ := by
  cases m with
  | dloop name al ln body => exact sizeMember_eq env pfx args _ (by simpa [MOp.sizeOK] using h) s
  | el name e =>
    cases e with
    | loop al n body => exact sizeMember_eq env pfx args _ (by simpa [MOp.sizeOK] using h) s
    | leaf al w =>
      obtain ⟨src, sc, o⟩ := w
      simp only [MOp.sizeOK, Bool.or_eq_true, beq_iff_eq, Bool.and_eq_true, bne_iff_ne, ne_eq] at h
      rcases h with h | ⟨h1, h2⟩
      · exact sizeMember_eq env pfx args _ (by simp [MOp.allArg, EOp.allArg, h]) s
      · exact sizeMember_eq_leaf env pfx args name al src sc o h1 h2 s

theorem sizeRoot_eq' (env : SerEnv) (pfx : String) (args : Args) (r : RootOp) (ha : ∀ m ∈ r.members, m.sizeOK = true)
    (s : SerSt) : sizeRoot pfx r args s.at_ = (serRoot env pfx r args s).at_ := by
  simp only [sizeRoot, serRoot]
  have h0 : (sizeAlign r.al ⟨s.at_, []⟩).at_ = (serAlign r.al s).at_ := by cases r.al <;> rfl
  rw [h0]
  generalize serAlign r.al s = s0
  have : ∀ (ms : List MOp), (∀ m ∈ ms, m.sizeOK = true) → ∀ s0 : SerSt,
      ms.foldl (fun a m => sizeMember pfx args m a) s0.at_ = (ms.foldl (fun a m => serMember env pfx args m a) s0).at_ := by
    intro ms
    induction ms with
    | nil => intro _ _; rfl
    | cons m ms ih =>
      intro h s0
      simp only [List.foldl_cons]
      rw [sizeMember_eq' env pfx args m (h m (by simp)) s0]
      exact ih (fun x hx => h x (by simp [hx])) _
  exact this r.members ha s0

theorem plainMemberS_sizeOK (spec : String → Option WSrc) (m : Member) (hnu : m.ft ≠ .uuid) (hwf : SpecWF spec m) :
    (plainMemberS spec m).sizeOK = true := by
  obtain ⟨n, ft⟩ := m
  cases ft with
  | uuid => exact absurd rfl hnu
  | darr ln e => exact plainElem_allArg e
  | el e =>
    cases e with
    | sarr k e => exact plainElem_allArg e
    | sc sc =>
      simp only [plainMemberS, MOp.sizeOK, Bool.or_eq_true, beq_iff_eq, Bool.and_eq_true, bne_iff_ne, ne_eq]
      cases hs : spec n with
      | none => left; rfl
      | some src =>
        rcases hwf src hs with h | ⟨h1, h2⟩
        · left; simp [h]
        · right; exact ⟨h2, by simpa using h1⟩

/-- `_er_size_*` ends where `_serialize_er_*` ends for every root without a UUID member (event record header
    included), in `uint32_t` arithmetic -/
theorem size_eq_ser_S (env : SerEnv) (spec : String → Option WSrc) (pfx : String) (args : Args) (S : Struct)
    (hS : RootOKS spec S) (hnu : ∀ m ∈ S.members, m.ft ≠ .uuid) (s : SerSt) :
    sizeRoot pfx (buildRoot spec S) args s.at_ = (serRoot env pfx (buildRoot spec S) args s).at_ := by
  have htr := buildRoot_transparent env pfx args spec S hS.pow2
    (fun m hm => ⟨(hS.members m hm).1, (hS.members m hm).2.2⟩) s
  rw [htr, ← sizeRoot_erase, buildRoot_eraseS]
  exact sizeRoot_eq' env pfx args _ (fun m hm => by
    simp only [List.mem_map] at hm
    obtain ⟨m0, hm0, rfl⟩ := hm
    exact plainMemberS_sizeOK spec m0 (hnu m0 hm0) (hS.members m0 hm0).2.1) s

end BVM
