import BVM.Proofs.V2
namespace BVM

/-! ### abstract data stream types of the barectf 2 dialect -/

structure AStruct where
  minAlign : Option Int
  fields : List (String × AFt)

def AStruct.ft (s : AStruct) : AFt := .struct s.minAlign s.fields

structure AEvent where
  logLevel : Option Y
  ctx : Option AStruct
  payload : Option AStruct

structure AStream where
  isDefault : Bool
  packetSize : AInt
  contentSize : AInt
  tsBegin : Option AInt
  tsEnd : Option AInt
  discarded : Option AInt
  seqNum : Option AInt
  extras : List (String × AFt)
  /-- event header type: present or not; its `id` and `timestamp` members -/
  eh : Option (Option AInt × Option AInt)
  ecc : Option AStruct
  events : List (String × AEvent)

def intY2 (i : AInt) : Y := .map i.r2
def intY3 (i : AInt) : Y := .map i.r3

def AStream.pcFields (s : AStream) : KVs :=
  [("packet_size", intY2 s.packetSize), ("content_size", intY2 s.contentSize)] ++
  optE "timestamp_begin" (s.tsBegin.map intY2) ++ optE "timestamp_end" (s.tsEnd.map intY2) ++
  optE "events_discarded" (s.discarded.map intY2) ++ optE "packet_seq_num" (s.seqNum.map intY2) ++
  AFt.r2Fields s.extras

def AStream.ehFields (s : AStream) : Option KVs :=
  s.eh.map fun (i, t) => optE "id" (i.map intY2) ++ optE "timestamp" (t.map intY2)

def AEvent.r2 (e : AEvent) : Y :=
  .map (optE "log-level" e.logLevel ++ optE "context-type" (e.ctx.map (·.ft.r2)) ++ optE "payload-type" (e.payload.map (·.ft.r2)))

def AEvent.r3 (e : AEvent) : Y :=
  .map (optE "log-level" e.logLevel ++ optE "specific-context-field-type" (e.ctx.map (·.ft.r3)) ++
        optE "payload-field-type" (e.payload.map (·.ft.r3)))

def AStream.r2 (s : AStream) : KVs :=
  (if s.isDefault then [("$default", .bool true)] else []) ++
  [("packet-context-type", .map [("class", .str "struct"), ("fields", .map s.pcFields)])] ++
  optE "event-header-type" (s.ehFields.map fun f => .map [("class", .str "struct"), ("fields", .map f)]) ++
  optE "event-context-type" (s.ecc.map (·.ft.r2)) ++
  [("events", .map (s.events.map fun (ne : String × AEvent) => (ne.1, ne.2.r2)))]

/-- the clock the stream's timestamps are mapped to: event header timestamp first, then packet begin, then end -/
def AStream.clock (s : AStream) : Option String :=
  match s.eh.bind (·.2) |>.bind (·.clock) with
  | some c => some c
  | none => match s.tsBegin.bind (·.clock) with
    | some c => some c
    | none => s.tsEnd.bind (·.clock)

def featY (i : Option AInt) : Y := match i with | some a => intY3 a | none => .bool false

def AStream.features (s : AStream) : Y :=
  .map [("packet", .map [("total-size-field-type", intY3 s.packetSize), ("content-size-field-type", intY3 s.contentSize),
                         ("beginning-timestamp-field-type", featY s.tsBegin), ("end-timestamp-field-type", featY s.tsEnd),
                         ("discarded-event-records-counter-snapshot-field-type", featY s.discarded),
                         ("sequence-number-field-type", featY s.seqNum)]),
        ("event-record", .map [("type-id-field-type", featY (s.eh.bind (·.1))),
                               ("timestamp-field-type", featY (s.eh.bind (·.2)))])]

def AStream.r3 (s : AStream) : KVs :=
  (if s.isDefault then [("$is-default", .bool true)] else []) ++
  optE "$default-clock-type-name" (s.clock.map .str) ++
  [("$features", s.features)] ++
  (if s.extras.isEmpty then [] else [("packet-context-field-type-extra-members", .seq (AFt.r3Members s.extras))]) ++
  optE "event-record-common-context-field-type" (s.ecc.map (·.ft.r3)) ++
  [("event-record-types", .map (s.events.map fun (ne : String × AEvent) => (ne.1, ne.2.r3)))]

/-! ### lookups in the rendered packet context fields -/

theorem kvGet_append (k : String) (a b : KVs) :
    kvGet k (a ++ b) = match kvGet k a with | some v => some v | none => kvGet k b := by
  induction a with
  | nil => simp
  | cons kv r ih =>
    obtain ⟨k', v⟩ := kv
    by_cases h : k' = k <;> simp [h, ih]

theorem kvGet_r2Fields_none (k : String) : ∀ (fs : List (String × AFt)), (∀ nf ∈ fs, nf.1 ≠ k) →
    kvGet k (AFt.r2Fields fs) = none
  | [], _ => by simp [AFt.r2Fields]
  | (n, f) :: r, h => by
    have h1 : n ≠ k := h (n, f) (by simp)
    simp [AFt.r2Fields, h1, kvGet_r2Fields_none k r (fun nf hnf => h nf (by simp [hnf]))]

def ExtrasOK (s : AStream) : Prop := ∀ nf ∈ s.extras, nf.1 ∉ ctfMemberNames

theorem pc_get (s : AStream) (h : ExtrasOK s) :
    kvGet "packet_size" s.pcFields = some (intY2 s.packetSize) ∧
    kvGet "content_size" s.pcFields = some (intY2 s.contentSize) ∧
    kvGet "timestamp_begin" s.pcFields = s.tsBegin.map intY2 ∧
    kvGet "timestamp_end" s.pcFields = s.tsEnd.map intY2 ∧
    kvGet "events_discarded" s.pcFields = s.discarded.map intY2 ∧
    kvGet "packet_seq_num" s.pcFields = s.seqNum.map intY2 := by
  have hx : ∀ k ∈ ctfMemberNames, kvGet k (AFt.r2Fields s.extras) = none := by
    intro k hk
    apply kvGet_r2Fields_none
    intro nf hnf e
    exact h nf hnf (e ▸ hk)
  have h1 := hx "timestamp_begin" (by decide)
  have h2 := hx "timestamp_end" (by decide)
  have h3 := hx "events_discarded" (by decide)
  have h4 := hx "packet_seq_num" (by decide)
  obtain ⟨d, ps, cs, tb, te, di, sq, ex, eh, ecc, ev⟩ := s
  simp only at h1 h2 h3 h4
  cases tb <;> cases te <;> cases di <;> cases sq <;>
    simp [AStream.pcFields, optE, kvGet_append, h1, h2, h3, h4]

end BVM

namespace BVM

theorem clkNameOf_int (i : AInt) : clkNameOf (some (intY2 i)) = .ok (i.clock.map Y.str) := by
  obtain ⟨size, signed, say, align, base, clock, enc⟩ := i
  cases signed <;> cases say <;> cases align <;> cases base <;> cases clock <;> cases enc <;>
    simp [clkNameOf, intY2, AInt.r2, optE, kvGet, kvGetNN, req, bind, Except.bind]

theorem clkNameOf_opt (o : Option AInt) : clkNameOf (o.map intY2) = .ok ((o.bind (·.clock)).map Y.str) := by
  cases o with
  | none => simp [clkNameOf]
  | some i => simpa using clkNameOf_int i

theorem convFt_int (i : AInt) (fuel : Nat) (h : 1 ≤ fuel) : convFt fuel (intY2 i) = .ok (intY3 i) := by
  have := convFt_r2 (.int i) fuel (by simpa [AFt.depth] using h)
  simpa [AFt.r2, AFt.r3, intY2, intY3] using this

theorem convFtIfExists_opt (fuel : Nat) (h : 1 ≤ fuel) (m : KVs) (k : String) (o : Option AInt)
    (hk : kvGet k m = o.map intY2) : convFtIfExists fuel (some m) k = .ok (o.map intY3) := by
  cases o with
  | none => simp [convFtIfExists] at *; simp [hk]
  | some i => simp [convFtIfExists, hk, convFt_int i fuel h, bind, Except.bind]

theorem setFeature_featY (k : String) (o : Option AInt) (m : KVs) :
    setFeature k (o.map intY3) m = kvSet k (featY o) m := by
  cases o <;> simp [setFeature, featY]

theorem eh_get (s : AStream) :
    (match s.ehFields with
     | some f => kvGet "id" f = (s.eh.bind (·.1)).map intY2 ∧ kvGet "timestamp" f = (s.eh.bind (·.2)).map intY2
     | none => s.eh = none) := by
  obtain ⟨d, ps, cs, tb, te, di, sq, ex, eh, ecc, ev⟩ := s
  cases eh with
  | none => simp [AStream.ehFields]
  | some p =>
    obtain ⟨i, t⟩ := p
    cases i <;> cases t <;> simp [AStream.ehFields, optE, kvGet_append]

theorem dstFeatures_r2 (s : AStream) (hx : ExtrasOK s) (fuel : Nat) (h : 1 ≤ fuel) :
    dstFeatures fuel s.pcFields s.ehFields = .ok s.features := by
  obtain ⟨p1, p2, p3, p4, p5, p6⟩ := pc_get s hx
  have c1 := convFt_int s.packetSize fuel h
  have c2 := convFt_int s.contentSize fuel h
  have c3 := convFtIfExists_opt fuel h _ _ _ p3
  have c4 := convFtIfExists_opt fuel h _ _ _ p4
  have c5 := convFtIfExists_opt fuel h _ _ _ p5
  have c6 := convFtIfExists_opt fuel h _ _ _ p6
  have he := eh_get s
  cases hf : s.ehFields with
  | none =>
    simp only [hf] at he
    have e1 : convFtIfExists fuel (some ([] : KVs)) "id" = .ok (Option.map intY3 none) := by simp [convFtIfExists]
    have e2 : convFtIfExists fuel (some ([] : KVs)) "timestamp" = .ok (Option.map intY3 none) := by simp [convFtIfExists]
    simp only [dstFeatures, req, p1, p2, c1, c2, c3, c4, c5, c6, bind, Except.bind, Option.getD, e1, e2, setFeature_featY,
      AStream.features, he, Option.bind]
    simp [kvSet]
  | some f =>
    simp only [hf] at he
    have e1 := convFtIfExists_opt fuel h f "id" _ he.1
    have e2 := convFtIfExists_opt fuel h f "timestamp" _ he.2
    simp only [dstFeatures, req, p1, p2, c1, c2, c3, c4, c5, c6, bind, Except.bind, Option.getD, e1, e2, setFeature_featY,
      AStream.features]
    simp [kvSet]

end BVM

namespace BVM

def ClocksAgree (s : AStream) : Prop :=
  ∀ a b, s.tsBegin.bind (·.clock) = some a → s.tsEnd.bind (·.clock) = some b → a = b

/-! ### extra members, events -/

theorem filter_r2Fields (fs : List (String × AFt)) (h : ∀ nf ∈ fs, nf.1 ∉ ctfMemberNames) :
    (AFt.r2Fields fs).filter (fun kv => !ctfMemberNames.contains kv.1) = AFt.r2Fields fs := by
  induction fs with
  | nil => simp [AFt.r2Fields]
  | cons nf r ih =>
    obtain ⟨n, f⟩ := nf
    have h1 : n ∉ ctfMemberNames := h (n, f) (by simp)
    have h1' : ctfMemberNames.contains n = false := by simpa using h1
    simp only [AFt.r2Fields, List.filter_cons, h1', Bool.not_false, if_true]
    rw [ih (fun nf hnf => h nf (by simp [hnf]))]

theorem filter_pcFields (s : AStream) (h : ExtrasOK s) :
    s.pcFields.filter (fun kv => !ctfMemberNames.contains kv.1) = AFt.r2Fields s.extras := by
  have hx := filter_r2Fields s.extras h
  have r1 : ctfMemberNames.contains "packet_size" = true := by decide
  have r2 : ctfMemberNames.contains "content_size" = true := by decide
  have r3 : ctfMemberNames.contains "timestamp_begin" = true := by decide
  have r4 : ctfMemberNames.contains "timestamp_end" = true := by decide
  have r5 : ctfMemberNames.contains "events_discarded" = true := by decide
  have r6 : ctfMemberNames.contains "packet_seq_num" = true := by decide
  obtain ⟨d, ps, cs, tb, te, di, sq, ex, eh, ecc, ev⟩ := s
  simp only at hx
  cases tb <;> cases te <;> cases di <;> cases sq <;>
    simp only [AStream.pcFields, optE, Option.map, List.filter_append, List.filter_cons, List.filter_nil, r1, r2, r3, r4, r5, r6,
      Bool.not_true, Bool.false_eq_true, if_false, List.nil_append, List.append_nil, hx]

theorem extraMembers_r2 (s : AStream) (h : ExtrasOK s) (fuel : Nat) (hd : AFt.depthFields s.extras ≤ fuel) :
    extraMembers fuel s.pcFields = .ok (AFt.r3Members s.extras) := by
  simp only [extraMembers, filter_pcFields s h]
  exact convFields_r2 s.extras fuel hd

def AStruct.depth (s : AStruct) : Nat := s.ft.depth

def optDepth (o : Option AStruct) : Nat := match o with | some s => s.depth | none => 0

def AEvent.depth (e : AEvent) : Nat := max (optDepth e.ctx) (optDepth e.payload)

theorem convFt_struct (c : AStruct) (fuel : Nat) (h : c.depth ≤ fuel) : convFt fuel c.ft.r2 = .ok c.ft.r3 :=
  convFt_r2 c.ft fuel h

theorem AStruct.r2_isMap (c : AStruct) : ∃ m, c.ft.r2 = .map m := by
  obtain ⟨ma, fs⟩ := c
  exact ⟨[("class", .str "struct")] ++ optE "min-align" (ma.map .int) ++ [("fields", .map (AFt.r2Fields fs))], by
    simp [AStruct.ft, AFt.r2]⟩

theorem convErt_r2 (e : AEvent) (fuel : Nat) (hd : e.depth ≤ fuel) :
    (match e.r2 with | .map m => convErt fuel m | _ => .error .fuel) = .ok (match e.r3 with | .map m => m | _ => []) := by
  obtain ⟨ll, ctx, pl⟩ := e
  rcases ctx with _ | c <;> rcases pl with _ | p
  · cases ll <;> simp [AEvent.r2, AEvent.r3, optE, convErt, copyProp, kvGet, kvGetNN, kvSet, bind, Except.bind]
  · have hp := convFt_struct p fuel (by simp [AEvent.depth, optDepth] at hd; omega)
    obtain ⟨pm, hpm⟩ := p.r2_isMap
    cases ll <;> simp [AEvent.r2, AEvent.r3, optE, convErt, copyProp, kvGet, kvGetNN, kvSet, bind, Except.bind, hp, hpm] <;>
      simp [← hpm, hp]
  · have hc := convFt_struct c fuel (by simp [AEvent.depth, optDepth] at hd; omega)
    obtain ⟨cm, hcm⟩ := c.r2_isMap
    cases ll <;> simp [AEvent.r2, AEvent.r3, optE, convErt, copyProp, kvGet, kvGetNN, kvSet, bind, Except.bind, hc, hcm] <;>
      simp [← hcm, hc]
  · have hc := convFt_struct c fuel (by simp [AEvent.depth, optDepth] at hd; omega)
    have hp := convFt_struct p fuel (by simp [AEvent.depth, optDepth] at hd; omega)
    obtain ⟨cm, hcm⟩ := c.r2_isMap
    obtain ⟨pm, hpm⟩ := p.r2_isMap
    cases ll <;> simp [AEvent.r2, AEvent.r3, optE, convErt, copyProp, kvGet, kvGetNN, kvSet, bind, Except.bind, hcm, hpm] <;>
      simp [← hcm, ← hpm, hc, hp]

end BVM

namespace BVM

theorem clocksOrError_agree (tb te : Option String) (h : ∀ a b, tb = some a → te = some b → a = b) :
    clocksOrError (tb.map Y.str) (te.map Y.str) = .ok () := by
  cases tb <;> cases te <;> simp [clocksOrError]
  rename_i a b
  exact h a b rfl rfl

theorem pickClock_map (c0 tb te : Option String) :
    pickClock (c0.map Y.str) (tb.map Y.str) (te.map Y.str) =
      (match c0 with | some c => some c | none => match tb with | some c => some c | none => te).map Y.str := by
  cases c0 <;> cases tb <;> cases te <;> rfl

theorem defaultClock_r2 (s : AStream) (hx : ExtrasOK s) (hc : ClocksAgree s) :
    defaultClock s.pcFields s.ehFields = .ok (s.clock.map Y.str) := by
  obtain ⟨_, _, p3, p4, _, _⟩ := pc_get s hx
  have he := eh_get s
  simp only [defaultClock, p3, p4, clkNameOf_opt, bind, Except.bind, clocksOrError_agree _ _ hc]
  cases hf : s.ehFields with
  | none =>
    simp only [hf] at he
    have : (none : Option Y) = (none : Option String).map Y.str := rfl
    simp only [this, pickClock_map]
    simp [AStream.clock, he]
  | some f =>
    simp only [hf] at he
    simp only [he.2, clkNameOf_opt, pickClock_map]
    rfl

/-! ### the whole data stream type -/

def AStream.depth (s : AStream) : Nat :=
  max (max (AFt.depthFields s.extras) (optDepth s.ecc)) (s.events.foldl (fun a ne => max a ne.2.depth) 0)

theorem events_mapM (fuel : Nat) : ∀ (evs : List (String × AEvent)), (∀ ne ∈ evs, ne.2.depth ≤ fuel) →
    (evs.map fun (ne : String × AEvent) => (ne.1, ne.2.r2)).mapM (convEvent fuel) =
      .ok (evs.map fun (ne : String × AEvent) => (ne.1, ne.2.r3))
  | [], _ => by simp [pure, Except.pure]
  | (n, e) :: r, h => by
    have h1 := convErt_r2 e fuel (h (n, e) (by simp))
    have hr := events_mapM fuel r (fun ne hne => h ne (by simp [hne]))
    have hhead : convEvent fuel (n, e.r2) = .ok (n, e.r3) := by
      simp only [AEvent.r2, AEvent.r3] at h1
      simp only [convEvent, AEvent.r2, AEvent.r3, asMap, bind, Except.bind, h1]
    simp only [List.map_cons, List.mapM_cons, bind, Except.bind, hhead, hr, pure, Except.pure]

end BVM

namespace BVM

theorem stream_lookups (s : AStream) :
    kvGet "$default" s.r2 = (if s.isDefault then some (.bool true) else none) ∧
    kvGet "packet-context-type" s.r2 = some (.map [("class", .str "struct"), ("fields", .map s.pcFields)]) ∧
    kvGetNN "event-header-type" s.r2 = s.ehFields.map (fun f => .map [("class", .str "struct"), ("fields", .map f)]) ∧
    kvGetNN "event-context-type" s.r2 = s.ecc.map (·.ft.r2) ∧
    kvGet "events" s.r2 = some (.map (s.events.map fun (ne : String × AEvent) => (ne.1, ne.2.r2))) := by
  have hecc : ∀ c : AStruct, ∃ m, c.ft.r2 = .map m := fun c => c.r2_isMap
  obtain ⟨d, ps, cs, tb, te, di, sq, ex, eh, ecc, ev⟩ := s
  cases d <;> cases eh <;> cases ecc <;>
    simp [AStream.r2, AStream.ehFields, optE, kvGet_append, kvGetNN] <;>
    (rename_i c; obtain ⟨m, hm⟩ := hecc c; simp [hm])

/-- a data stream type written in the barectf 2 dialect converts to the same data stream type written in the
    barectf 3 dialect: features from the reserved members, default clock from the property mappings, the
    other packet context members as extra members in order, event record types converted -/
theorem convDst_r2 (s : AStream) (hx : ExtrasOK s) (hc : ClocksAgree s) (fuel : Nat)
    (h1 : 1 ≤ fuel) (hd : s.depth ≤ fuel) : convDst fuel s.r2 = .ok s.r3 := by
  obtain ⟨l1, l2, l3, l4, l5⟩ := stream_lookups s
  have hdx : AFt.depthFields s.extras ≤ fuel := by simp [AStream.depth] at hd; omega
  have hde : ∀ ne ∈ s.events, ne.2.depth ≤ fuel := by
    have key : ∀ (l : List (String × AEvent)) (a : Nat), (l.foldl (fun a ne => max a ne.2.depth) a ≤ fuel) →
        a ≤ fuel ∧ ∀ ne ∈ l, ne.2.depth ≤ fuel := by
      intro l
      induction l with
      | nil => intro a h; exact ⟨by simpa using h, by simp⟩
      | cons x r ih =>
        intro a h
        simp only [List.foldl_cons] at h
        obtain ⟨h1, h2⟩ := ih _ h
        refine ⟨by omega, ?_⟩
        intro ne hne
        rcases List.mem_cons.mp hne with rfl | hne
        · omega
        · exact h2 ne hne
    have : s.events.foldl (fun a ne => max a ne.2.depth) 0 ≤ fuel := by simp [AStream.depth] at hd; omega
    exact (key s.events 0 this).2
  have f1 := defaultClock_r2 s hx hc
  have f2 := dstFeatures_r2 s hx fuel h1
  have f3 := extraMembers_r2 s hx fuel hdx
  have f4 := events_mapM fuel s.events hde
  have hecc : ∀ c, s.ecc = some c → convFt fuel c.ft.r2 = .ok c.ft.r3 := by
    intro c hcc
    apply convFt_struct
    simp [AStream.depth, hcc, optDepth] at hd
    omega
  have e0 : ¬ (("class" : String) = "fields") := by decide
  have hopt : ∀ f : KVs, optFieldsOf "event-header-type" (.map [("class", .str "struct"), ("fields", .map f)]) = .ok (some f) := by
    intro f; simp [optFieldsOf, asMap, kvGetNN, kvGet, bind, Except.bind]
  simp only [convDst, copyProp, req, l1, l2, fieldsOf, asMap, bind, Except.bind, kvGet_cons, l3, l4, l5, e0, if_false, if_true]
  cases hf : s.ehFields with
  | none =>
    rw [hf] at f1 f2
    simp only [Option.map, f1, f2, f3, f4]
    cases hcc : s.ecc with
    | none =>
      simp only [AStream.r3, hcc, Option.map, optE]
      cases s.isDefault <;> cases s.clock <;> cases hex : s.extras <;>
        simp [kvSet, optE, AFt.r3Members, List.isEmpty]
    | some c =>
      simp only [hecc c hcc, AStream.r3, hcc, Option.map, optE]
      cases s.isDefault <;> cases s.clock <;> cases hex : s.extras <;>
        simp [kvSet, optE, AFt.r3Members, List.isEmpty]
  | some f =>
    rw [hf] at f1 f2
    simp only [Option.map, hopt, f1, f2, f3, f4]
    cases hcc : s.ecc with
    | none =>
      simp only [AStream.r3, hcc, Option.map, optE]
      cases s.isDefault <;> cases s.clock <;> cases hex : s.extras <;>
        simp [kvSet, optE, AFt.r3Members, List.isEmpty]
    | some c =>
      simp only [hecc c hcc, AStream.r3, hcc, Option.map, optE]
      cases s.isDefault <;> cases s.clock <;> cases hex : s.extras <;>
        simp [kvSet, optE, AFt.r3Members, List.isEmpty]

end BVM
