/-
  Proofs/LenScope.lean — the hypothesis `LenScopeOK` of the record round trip (every dynamic array finds, among the
  members decoded before it, its length member holding the number of elements written) follows from what the front
  end guarantees about a structure (the length member `__<name>_len` precedes its array, is an unsigned integer of at
  most 32 bits, and no later member bears its name) and from the length argument being in range.
-/
import BVM.Proofs.RoundTrip
namespace BVM

/-- the scope a reader has built after the members `pre` (newest first) -/
def scopeOf (pfx : String) (args : Args) (pre : List Member) : List (String × List Leaf) :=
  (pre.map fun m => (m.name, decMember pfx args m)).reverse

/-- `ln` names an unsigned integer member of `pre`, of at most 32 bits, not shadowed by a later member, and the
    argument passed for it is a length that fits it -/
def HasLen (pfx : String) (args : Args) (pre : List Member) (ln : String) : Prop :=
  ∃ before after sz al, pre = before ++ [⟨ln, .el (.sc (.int false sz al))⟩] ++ after ∧ (∀ m ∈ after, m.name ≠ ln) ∧
    sz ≤ 32 ∧ 0 ≤ ((args.get (pfx ++ "_" ++ ln)).headD (.num 0)).toInt ∧
    ((args.get (pfx ++ "_" ++ ln)).headD (.num 0)).toInt < (2 : Int) ^ sz

def LenSyn (pfx : String) (args : Args) : List Member → List Member → Prop
  | _, [] => True
  | pre, m :: rest => (∀ ln e, m.ft = .darr ln e → HasLen pfx args pre ln) ∧ LenSyn pfx args (pre ++ [m]) rest

theorem lookup_append_skip (ln : String) (v : List Leaf) : ∀ (xs : List (String × List Leaf)) (ys : List (String × List Leaf)),
    (∀ p ∈ xs, p.1 ≠ ln) → (xs ++ (ln, v) :: ys).lookup ln = some v
  | [], ys, _ => by simp [List.lookup]
  | (k, w) :: xs, ys, h => by
    have hk : k ≠ ln := h (k, w) (by simp)
    have : (ln == k) = false := by simp [Ne.symm hk]
    simp only [List.cons_append, List.lookup, this]
    exact lookup_append_skip ln v xs ys (fun p hp => h p (by simp [hp]))

theorem lenValue_of_hasLen (pfx : String) (args : Args) (pre : List Member) (ln : String) (h : HasLen pfx args pre ln) :
    lenValue (scopeOf pfx args pre) (.ref ln) = some (cntOf pfx args ln) := by
  obtain ⟨before, after, sz, al, hpre, hafter, hsz, h0, hlt⟩ := h
  generalize hv : ((args.get (pfx ++ "_" ++ ln)).headD (.num 0)).toInt = v at h0 hlt
  have hdec : decMember pfx args ⟨ln, .el (.sc (.int false sz al))⟩ = [.num v] := by
    simp only [decMember, Elem.leafCount, Elem.leaf, takePad, List.map_cons, List.map_nil, decLeaf, hv]
    have hmod : v % (2 : Int) ^ sz = v := Int.emod_eq_of_lt h0 hlt
    simp only [hmod, signExtend, Bool.false_and, Bool.false_eq_true, if_false]
    rw [Int.toNat_of_nonneg h0]
  have hscope : scopeOf pfx args pre =
      (after.map fun m => (m.name, decMember pfx args m)).reverse ++ (ln, [.num v]) ::
        (before.map fun m => (m.name, decMember pfx args m)).reverse := by
    simp only [scopeOf, hpre, List.map_append, List.map_cons, List.map_nil, List.reverse_append, List.reverse_cons,
      List.reverse_nil, List.nil_append, hdec, List.append_assoc, List.singleton_append]
  rw [hscope]
  simp only [lenValue]
  rw [lookup_append_skip ln [.num v] _ _ (by
    intro p hp
    simp only [List.mem_reverse, List.mem_map] at hp
    obtain ⟨m, hm, rfl⟩ := hp
    exact hafter m hm)]
  simp only [h0, if_true, cntOf, hv]
  congr 1
  have hnat : v.toNat < 2 ^ 32 := by
    have hp : (2 : Nat) ^ sz ≤ 2 ^ 32 := Nat.pow_le_pow_right (by decide) hsz
    have h1 : ((v.toNat : Nat) : Int) < ((2 ^ sz : Nat) : Int) := by rw [Int.toNat_of_nonneg h0]; simpa using hlt
    have h2 : v.toNat < 2 ^ sz := by exact_mod_cast h1
    omega
  simp only [u32]
  omega

/-- the syntactic condition implies the semantic one, from any prefix -/
theorem lenScopeOK_of_lenSyn (pfx : String) (args : Args) : ∀ (ms pre : List Member), LenSyn pfx args pre ms →
    LenScopeOK pfx args ms (scopeOf pfx args pre)
  | [], _, _ => trivial
  | m :: rest, pre, h => by
    refine ⟨fun ln e hft => lenValue_of_hasLen pfx args pre ln (h.1 ln e hft), ?_⟩
    have := lenScopeOK_of_lenSyn pfx args rest (pre ++ [m]) h.2
    simpa [scopeOf] using this

end BVM
