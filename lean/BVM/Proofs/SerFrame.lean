/-
  Proofs/SerFrame.lean — the store log of the serialisation primitives is truthful: bytes outside the
  logged range are not modified (C02, C08).
-/
import BVM.Proofs.Bits
import BVM.Model.Ser
namespace BVM

theorem bfWrite_frame (bo : ByteOrder) (vt : CInt) (buf : Buf) (base start len : Nat) (v : Int) (k : Nat)
    (hk : k < base + start / 8 ∨ base + (start + len + 7) / 8 ≤ k) :
    getB (bfWrite bo vt buf base start len v) k = getB buf k := by
  cases bo
  · exact bfWriteLE_frame vt buf base start len v k hk
  · exact bfWriteBE_frame vt buf base start len v k hk

theorem memcpyLE_frame (n : Nat) : ∀ (buf : Buf) (base x k : Nat), (k < base ∨ base + n ≤ k) →
    getB (memcpyLE n buf base x) k = getB buf k := by
  induction n with
  | zero => intro buf base x k _; rfl
  | succ n ih =>
    intro buf base x k hk
    simp only [memcpyLE]
    rw [ih _ _ _ _ (by omega), getB_setB_ne (by omega)]

theorem memcpyBytes_frame : ∀ (l : List Nat) (buf : Buf) (b k : Nat), (k < b ∨ b + l.length ≤ k) →
    getB (memcpyBytes l buf b) k = getB buf k := by
  intro l
  induction l with
  | nil => intro buf b k _; rfl
  | cons x xs ih =>
    intro buf b k hk
    simp only [memcpyBytes]
    rw [ih _ _ _ (by simp at hk; omega), getB_setB_ne (by simp at hk; omega)]

/-- `SerSt.store b n newBuf`: if every byte outside `[b, b+n)` of `newBuf` equals the old one, so does
    the resulting buffer (in bounds: the new buffer; out of bounds: the old buffer, `oob` raised) -/
theorem store_frame (s : SerSt) (b n : Nat) (nb : Buf) (h : ∀ k, (k < b ∨ b + n ≤ k) → getB nb k = getB s.buf k)
    (k : Nat) (hk : k < b ∨ b + n ≤ k) : getB (s.store b n nb).buf k = getB s.buf k := by
  unfold SerSt.store
  split
  · exact h k hk
  · rfl

/-- the newest logged store of `store` is `(b, n)` and nothing else is logged -/
theorem store_log (s : SerSt) (b n : Nat) (nb : Buf) : (s.store b n nb).stores = (b, n) :: s.stores := by
  unfold SerSt.store; split <;> rfl

/-- an out-of-bounds store is detected and leaves the buffer alone -/
theorem store_oob (s : SerSt) (b n : Nat) (nb : Buf) (h : ¬ b + n ≤ s.buf.length) :
    (s.store b n nb).oob = true ∧ (s.store b n nb).buf = s.buf := by
  unfold SerSt.store; simp [h]

/-- the bit-array write through the bit-field macro, with the start offset resolved -/
theorem macroWrite_frame (env : SerEnv) (sc : Scalar) (v : Int) (s : SerSt) (start : Nat) :
    ∀ k, (k < s.at_ / 8 + start / 8 ∨ s.at_ / 8 + start / 8 + ((start + sc.size + 7) / 8 - start / 8) ≤ k) →
      getB (s.store (s.at_ / 8 + start / 8) ((start + sc.size + 7) / 8 - start / 8)
        (bfWrite env.bo sc.carrier s.buf (s.at_ / 8) start sc.size (sc.carrier.conv v))).buf k = getB s.buf k := by
  intro k hk
  refine store_frame s _ _ _ (fun k hk => ?_) k hk
  exact bfWrite_frame env.bo sc.carrier s.buf (s.at_ / 8) _ sc.size _ k (by omega)

/-- `writeBits` logs exactly one store, and modifies no byte outside it -/
theorem writeBits_frame (env : SerEnv) (sc : Scalar) (oib : Option Nat) (v : Int) (s : SerSt) :
    ∃ b n, (writeBits env sc oib v s).stores = (b, n) :: s.stores ∧
      ∀ k, (k < b ∨ b + n ≤ k) → getB (writeBits env sc oib v s).buf k = getB s.buf k := by
  unfold writeBits
  simp only
  split
  · refine ⟨s.at_ / 8, sc.size / 8, by simp [store_log], ?_⟩
    intro k hk
    exact store_frame s _ _ _ (fun k hk => memcpyLE_frame _ _ _ _ _ hk) k hk
  · cases oib with
    | none =>
      exact ⟨_, _, by simp [store_log], fun k hk => macroWrite_frame env sc v s (s.at_ % 8) k hk⟩
    | some st =>
      exact ⟨_, _, by simp [store_log], fun k hk => macroWrite_frame env sc v s st k hk⟩

/-- `_write_c_str` logs exactly one store of `strlen + 1` bytes, and modifies no byte outside it -/
theorem writeStr_frame (bytes : List Nat) (s : SerSt) :
    (writeStr bytes s).stores = (s.at_ / 8, bytes.length + 1) :: s.stores ∧
    ∀ k, (k < s.at_ / 8 ∨ s.at_ / 8 + (bytes.length + 1) ≤ k) → getB (writeStr bytes s).buf k = getB s.buf k := by
  unfold writeStr
  simp only
  refine ⟨by simp [store_log], ?_⟩
  intro k hk
  exact store_frame s _ _ _ (fun k hk => memcpyBytes_frame _ _ _ _ (by simpa using hk)) k hk

end BVM
