/-
  Proofs/RtDisabled.lean — C07: a tracing call that finds tracing disabled after its clock sample
  does nothing but that clock sample.
-/
import BVM.Proofs.RtSimp
namespace BVM

/-- events a clock-source callback logs -/
def PClockOnly : Ev → Prop
  | .cb k _ _ _ => k = .clock
  | .cbExit k _ => k = .clock
  | .store _ _ _ _ => False
  | .deliver _ _ _ => False
  | .clockRead _ => True
  | .assertFail => False
  | .oob => False
  | .ret _ _ _ => False
  | .tsWrite _ _ => False
  | .traceCall _ _ => True
  | .recDone _ _ _ => False
  | .discard _ => False
  | .fullAnswer _ => False
  | .opened _ => False
  | .closed _ _ _ => False

/-- everything an accessor can return, plus the bookkeeping the tracer keeps for the packet -/
structure Observable where
  packetSize : Nat
  contentSize : Nat
  at_ : Nat
  offContent : Nat
  eventsDiscarded : Nat
  sequenceNumber : Nat
  packetIsOpen : Bool
  inTracingSection : Bool
  saved : List (String × Nat)
deriving DecidableEq

def Ctx.observable (c : Ctx) : Observable :=
  ⟨c.packetSize, c.contentSize, c.at_, c.offContent, c.eventsDiscarded, c.sequenceNumber, c.packetIsOpen,
    c.inTracingSection, c.saved⟩

theorem cbEnter_obs (k : CbKind) (s : St) :
    (cbEnter k s).buf = s.buf ∧ (cbEnter k s).c.observable = s.c.observable ∧ (cbEnter k s).halted = s.halted ∧
    Ext (fun e => ∀ k', (∃ a b c, e = .cb k' a b c) → k' = k) s (cbEnter k s) ∧
    (cbEnter k s).log = .cb k s.p.cbSeq s.c.inTracingSection s.c.packetIsOpen :: s.log := by
  unfold cbEnter
  simp only
  split <;> refine ⟨rfl, rfl, rfl, ⟨[_], rfl, ?_⟩, rfl⟩ <;>
    (intro e he; simp at he; subst he; intro k' ⟨a, b, c, h⟩; cases h; rfl)

theorem cbClock_obs (clk : Clock) (s : St) :
    (cbClock clk s).2.buf = s.buf ∧ (cbClock clk s).2.c.observable = s.c.observable ∧
    (cbClock clk s).2.halted = s.halted ∧ Ext PClockOnly s (cbClock clk s).2 := by
  obtain ⟨h1, h2, h3, _, h5⟩ := cbEnter_obs .clock s
  unfold cbClock
  simp only
  generalize cbEnter .clock s = s1 at h1 h2 h3 h5
  refine ⟨h1, h2, h3, ?_⟩
  have e1 : Ext PClockOnly s s1 := ⟨[_], h5, by intro e he; simp at he; subst he; rfl⟩
  exact e1.trans ((Ext.of_log_eq (s' := s1.setPlat _) rfl).trans
    ((Ext.ev _ (.clockRead _) trivial).trans (Ext.ev _ (.cbExit .clock _) rfl)))

theorem traceClock_obs (d : DST) (s : St) :
    (traceClock d s).buf = s.buf ∧ (traceClock d s).c.observable = s.c.observable ∧
    (traceClock d s).halted = s.halted ∧ Ext PClockOnly s (traceClock d s) := by
  unfold traceClock
  split
  · obtain ⟨h1, h2, h3, h4⟩ := cbClock_obs ‹Clock› s
    exact ⟨h1, h2, h3, h4.trans (Ext.of_log_eq rfl)⟩
  · exact ⟨rfl, rfl, rfl, Ext.refl _ _⟩

/-- C07, first sentence: if tracing is disabled when the call tests it (right after the clock
    sample), the call changes neither the packet buffer, nor the write position, nor any counter or
    accessor result, and invokes no platform callback other than the clock source. -/
theorem disabled_trace_is_noop_core (cfg : Cfg) (d : DST) (e : ERT) (args : Args) (s : St)
    (hd : (traceClock d s).c.isTracingEnabled = false) :
    (trace cfg d e args s).buf = s.buf ∧ (trace cfg d e args s).c.observable = s.c.observable ∧
    (trace cfg d e args s).halted = s.halted ∧
    Ext PClockOnly s (trace cfg d e args s) := by
  unfold trace
  split
  · exact ⟨rfl, rfl, rfl, Ext.refl _ _⟩
  · obtain ⟨h1, h2, h3, h4⟩ := traceClock_obs d s
    unfold traceBody
    simp only [St.ev_c, hd, Bool.not_false, if_true]
    exact ⟨h1, h2, h3, h4.trans (Ext.ev _ (.traceCall _ _) trivial)⟩

/-! a whole period during which tracing stays disabled -/

theorem cbEnter_noToggle (k : CbKind) (s : St) (h : s.p.toggles = []) :
    (cbEnter k s).c.isTracingEnabled = s.c.isTracingEnabled ∧ (cbEnter k s).p.toggles = [] := by
  unfold cbEnter
  simp only [St.setPlat_p, St.ev_p, h, List.lookup_nil]
  exact ⟨rfl, trivial⟩

theorem cbClock_noToggle (clk : Clock) (s : St) (h : s.p.toggles = []) :
    (cbClock clk s).2.c.isTracingEnabled = s.c.isTracingEnabled ∧ (cbClock clk s).2.p.toggles = [] := by
  obtain ⟨h1, h2⟩ := cbEnter_noToggle .clock s h
  unfold cbClock
  simp only
  generalize cbEnter .clock s = s1 at h1 h2
  exact ⟨h1, h2⟩

theorem traceClock_noToggle (d : DST) (s : St) (h : s.p.toggles = []) :
    (traceClock d s).c.isTracingEnabled = s.c.isTracingEnabled ∧ (traceClock d s).p.toggles = [] := by
  unfold traceClock
  split
  · obtain ⟨h1, h2⟩ := cbClock_noToggle ‹Clock› s h
    exact ⟨h1, h2⟩
  · exact ⟨rfl, h⟩

theorem trace_disabled_noToggle (cfg : Cfg) (d : DST) (e : ERT) (args : Args) (s : St)
    (ht : s.p.toggles = []) (hd : s.c.isTracingEnabled = false) :
    (trace cfg d e args s).c.isTracingEnabled = false ∧ (trace cfg d e args s).p.toggles = [] := by
  obtain ⟨h1, h2⟩ := traceClock_noToggle d s ht
  unfold trace
  split
  · exact ⟨hd, ht⟩
  · unfold traceBody
    have h1' := h1.trans hd
    simp only [St.ev_c, h1', Bool.not_false, if_true, St.ev_p]
    exact ⟨trivial, h2⟩

/-- a sequence of tracing calls -/
def traceMany (cfg : Cfg) (d : DST) (calls : List (ERT × Args)) (s : St) : St :=
  calls.foldl (fun s c => trace cfg d c.1 c.2 s) s

theorem disabled_period_core (cfg : Cfg) (d : DST) (calls : List (ERT × Args)) (s : St)
    (ht : s.p.toggles = []) (hd : s.c.isTracingEnabled = false) :
    (traceMany cfg d calls s).buf = s.buf ∧ (traceMany cfg d calls s).c.observable = s.c.observable ∧
    (traceMany cfg d calls s).halted = s.halted ∧ (traceMany cfg d calls s).c.isTracingEnabled = false ∧
    Ext PClockOnly s (traceMany cfg d calls s) := by
  unfold traceMany
  induction calls generalizing s with
  | nil => exact ⟨rfl, rfl, rfl, hd, Ext.refl _ _⟩
  | cons c cs ih =>
    simp only [List.foldl_cons]
    obtain ⟨e1, e2⟩ := trace_disabled_noToggle cfg d c.1 c.2 s ht hd
    have hd' : (traceClock d s).c.isTracingEnabled = false := (traceClock_noToggle d s ht).1.trans hd
    obtain ⟨a1, a2, a3, a4⟩ := disabled_trace_is_noop_core cfg d c.1 c.2 s hd'
    obtain ⟨b1, b2, b3, b4, b5⟩ := ih (trace cfg d c.1 c.2 s) e2 e1
    exact ⟨b1.trans a1, b2.trans a2, b3.trans a3, b4, a4.trans b5⟩

end BVM
