/-
  Proofs/RtPos.lean — the position invariant along every history of the runtime model, for a platform whose packet
  buffers all have the same size (C02, global statement; also what C06's position clauses need):

      not halted  ∧  buffer length = L  ∧  packet_size = 8·L  ∧  at ≤ packet_size
      ∧  (packet open → the saved offsets of the written-back fields are inside the buffer, start bits truthful)

  is kept by every API call and callback of Model/Rt.lean, whatever the platform script (answers of the back end,
  clock, toggles of `is_tracing_enabled` at any callback, order of the calls — misuse included), under the
  property's precondition (the buffer holds the packet header and context) and the `uint32_t` no-wrap conditions.
  "Not halted" is "no store outside the buffer": the model halts exactly on such a store (`installSer`).
-/
import BVM.Proofs.Saved
import BVM.Proofs.RtSimp
import BVM.Proofs.RtCount
import BVM.Proofs.StoresIn
namespace BVM


/-- the end of packet header + packet context written from bit 0 (unbounded arithmetic) -/
def hdrEndN (cfg : Cfg) (d : DST) (args : Args) : Nat :=
  structEndS specPC "pc" args d.pcStruct (structEndS specPH "ph" [] cfg.phStruct 0)

/-- the argument lists the platform's open callback may pass -/
def openArgsOf (oa : List Args) : List Args := if oa.isEmpty then [[]] else oa

/-- static hypotheses on the configuration (what the front end guarantees): alignments are powers of two bounded by
    `A`, templates apply to integer members, member names of the packet context are distinct, no UUID member in it -/
structure CfgOK (A : Nat) (cfg : Cfg) (d : DST) : Prop where
  ph : RootOKS specPH cfg.phStruct
  phA : cfg.phStruct.align ≤ A
  pc : RootOKS specPC d.pcStruct
  pcA : d.pcStruct.align ≤ A
  pcNames : (d.pcStruct.members.map (·.name)).Nodup
  pcNoUuid : ∀ m ∈ d.pcStruct.members, m.ft ≠ .uuid
  recs : ∀ e ∈ d.erts, RecordOK A d e
  Apos : 0 < A

/-! ### where the records of the current packet end -/

/-- the end of the newest record of the current packet, or the beginning of the packet content when it has none
    (`opened`/`recDone` are the ghost events logged when the opening function finishes and when a record has been
    serialised) -/
def hw : List Ev → Nat
  | [] => 0
  | .opened oc :: _ => oc
  | .recDone _ _ e :: _ => e
  | _ :: l => hw l

/-- every record begins at or after the end of the previous record of its packet — or after the packet context when it
    is the first — ends at or after its beginning, and ends inside the first `M` bits; every closing saves as content size
    exactly the end of the last record of its packet (or of the packet context), inside the first `M` bits -/
def ChainOK (M : Nat) : List Ev → Prop
  | [] => True
  | .recDone _ s e :: l => hw l ≤ s ∧ s ≤ e ∧ e ≤ M ∧ ChainOK M l
  | .opened oc :: l => oc ≤ M ∧ ChainOK M l
  | .closed cs _ _ :: l => cs = hw l ∧ cs ≤ M ∧ ChainOK M l
  | _ :: l => ChainOK M l

/-- a logged store lies inside a buffer of `L` bytes (any other event: no condition) -/
def StoreIn (L : Nat) : Ev → Prop
  | .store o n _ _ => o + n ≤ L
  | _ => True

theorem Ext.storesIn {L : Nat} {s s' : St} (h : Ext (StoreIn L) s s') (h0 : ∀ e ∈ s.log, StoreIn L e) :
    ∀ e ∈ s'.log, StoreIn L e := h.all h0

/-- an event that is neither an opening nor a record -/
def Neutral (e : Ev) : Prop := (∀ l, hw (e :: l) = hw l) ∧ (∀ M l, ChainOK M (e :: l) = ChainOK M l)

theorem PQuiet.neutral (e : Ev) (h : PQuiet e) : Neutral e := by
  cases e <;> first | exact ⟨fun _ => rfl, fun _ _ => rfl⟩ | exact absurd h (by simp [PQuiet])

theorem neutral_append (new old : List Ev) (h : ∀ e ∈ new, Neutral e) (M : Nat) :
    hw (new ++ old) = hw old ∧ (ChainOK M (new ++ old) = ChainOK M old) := by
  induction new with
  | nil => exact ⟨rfl, rfl⟩
  | cons e es ih =>
    obtain ⟨i1, i2⟩ := ih (fun x hx => h x (by simp [hx]))
    obtain ⟨h1, h2⟩ := h e (by simp)
    exact ⟨by rw [List.cons_append, h1, i1], by rw [List.cons_append, h2, i2]⟩

theorem Ext.hw {s s' : St} (h : Ext Neutral s s') : hw s'.log = hw s.log := by
  obtain ⟨new, e, p⟩ := h
  rw [e]; exact (neutral_append new s.log p 0).1

theorem Ext.chain {s s' : St} (h : Ext Neutral s s') (M : Nat) : ChainOK M s'.log = ChainOK M s.log := by
  obtain ⟨new, e, p⟩ := h
  rw [e]; exact (neutral_append new s.log p M).2

/-- what `ChainOK` says of one record of the log: it begins at or after the end of whatever its packet held before it
    (`hw` of the older part of the log: the previous record's end, or the end of the packet context), and ends inside
    the first `M` bits -/
theorem ChainOK.record {M : Nat} : ∀ (pre : List Ev) (n : String) (a b : Nat) (rest : List Ev),
    ChainOK M (pre ++ Ev.recDone n a b :: rest) → hw rest ≤ a ∧ a ≤ b ∧ b ≤ M
  | [], _, _, _, _, h => ⟨h.1, h.2.1, h.2.2.1⟩
  | e :: pre, n, a, b, rest, h => by
    have ih := ChainOK.record (M := M) pre n a b rest
    rw [List.cons_append] at h
    cases e <;> simp only [ChainOK] at h <;> first | exact ih h | exact ih h.2 | exact ih h.2.2.2 | exact ih h.2.2

/-- what `ChainOK` says of one closing of the log: the content size it saved is the end of whatever its packet held -/
theorem ChainOK.closing {M : Nat} : ∀ (pre : List Ev) (cs sn dc : Nat) (rest : List Ev),
    ChainOK M (pre ++ Ev.closed cs sn dc :: rest) → cs = hw rest ∧ cs ≤ M
  | [], _, _, _, _, h => ⟨h.1, h.2.1⟩
  | e :: pre, cs, sn, dc, rest, h => by
    have ih := ChainOK.closing (M := M) pre cs sn dc rest
    rw [List.cons_append] at h
    cases e <;> simp only [ChainOK] at h <;> first | exact ih h | exact ih h.2 | exact ih h.2.2.2 | exact ih h.2.2

structure PInv (d : DST) (L : Nat) (oa : List Args) (s : St) : Prop where
  nh : s.halted = false
  len : s.buf.length = L
  pkt : s.c.packetSize = 8 * L
  at_ : s.c.at_ ≤ 8 * L
  sv : s.c.packetIsOpen = true → SavedOK d.pcOp.members s.c.saved (8 * L)
  oa : s.p.openArgs = oa
  sb : ∀ x ∈ s.p.setBufs, x.2 = L
  oc : s.c.packetIsOpen = true → s.c.offContent ≤ s.c.at_
  cz : s.c.contentSize ≤ 8 * L
  hwle : hw s.log ≤ s.c.at_
  hweq : s.c.packetIsOpen = true → hw s.log = s.c.at_
  chain : ChainOK (8 * L) s.log
  stin : ∀ e ∈ s.log, StoreIn L e

/-- what the invariant looks at is unchanged -/
structure PSame (s s' : St) : Prop where
  nh : s'.halted = s.halted
  len : s'.buf.length = s.buf.length
  pkt : s'.c.packetSize = s.c.packetSize
  at_ : s'.c.at_ = s.c.at_
  saved : s'.c.saved = s.c.saved
  isOpen : s'.c.packetIsOpen = s.c.packetIsOpen
  oa : s'.p.openArgs = s.p.openArgs
  sb : s'.p.setBufs = s.p.setBufs
  offc : s'.c.offContent = s.c.offContent
  csz : s'.c.contentSize = s.c.contentSize
  ext : Ext Neutral s s'
  sin : ∀ L, Ext (StoreIn L) s s'

theorem PSame.refl (s : St) : PSame s s := ⟨rfl, rfl, rfl, rfl, rfl, rfl, rfl, rfl, rfl, rfl, Ext.refl _ _, fun _ => Ext.refl _ _⟩
theorem PSame.trans {a b c : St} (h₁ : PSame a b) (h₂ : PSame b c) : PSame a c :=
  ⟨h₂.nh.trans h₁.nh, h₂.len.trans h₁.len, h₂.pkt.trans h₁.pkt, h₂.at_.trans h₁.at_, h₂.saved.trans h₁.saved,
   h₂.isOpen.trans h₁.isOpen, h₂.oa.trans h₁.oa, h₂.sb.trans h₁.sb, h₂.offc.trans h₁.offc, h₂.csz.trans h₁.csz,
   h₁.ext.trans h₂.ext, fun L => (h₁.sin L).trans (h₂.sin L)⟩

theorem PSame.inv {d : DST} {L : Nat} {oa : List Args} {s s' : St} (h : PSame s s') (hi : PInv d L oa s) :
    PInv d L oa s' :=
  ⟨h.nh.trans hi.nh, h.len.trans hi.len, h.pkt.trans hi.pkt, by rw [h.at_]; exact hi.at_,
   by rw [h.isOpen, h.saved]; exact hi.sv, h.oa.trans hi.oa, by rw [h.sb]; exact hi.sb,
   by rw [h.isOpen, h.offc, h.at_]; exact hi.oc, by rw [h.csz]; exact hi.cz,
   by rw [h.ext.hw, h.at_]; exact hi.hwle, by rw [h.isOpen, h.ext.hw, h.at_]; exact hi.hweq,
   by rw [h.ext.chain]; exact hi.chain, (h.sin L).storesIn hi.stin⟩

theorem PSame.ev (s : St) (e : Ev) (h : Neutral e := by exact ⟨fun _ => rfl, fun _ _ => rfl⟩)
    (h2 : ∀ L, StoreIn L e := by intro _; trivial) : PSame s (s.ev e) :=
  ⟨rfl, rfl, rfl, rfl, rfl, rfl, rfl, rfl, rfl, rfl, Ext.ev s e h, fun L => Ext.ev s e (h2 L)⟩
theorem PSame.setFlag (s : St) (b : Bool) : PSame s (s.setFlag b) :=
  ⟨rfl, rfl, rfl, rfl, rfl, rfl, rfl, rfl, rfl, rfl, Ext.of_log_eq rfl, fun _ => Ext.of_log_eq rfl⟩
theorem PSame.setEnabled (s : St) (b : Bool) : PSame s (s.setEnabled b) :=
  ⟨rfl, rfl, rfl, rfl, rfl, rfl, rfl, rfl, rfl, rfl, Ext.of_log_eq rfl, fun _ => Ext.of_log_eq rfl⟩
theorem PSame.setUseCur (s : St) (b : Bool) : PSame s (s.setUseCur b) :=
  ⟨rfl, rfl, rfl, rfl, rfl, rfl, rfl, rfl, rfl, rfl, Ext.of_log_eq rfl, fun _ => Ext.of_log_eq rfl⟩
theorem PSame.setCurTs (s : St) (v : Nat) : PSame s (s.setCurTs v) :=
  ⟨rfl, rfl, rfl, rfl, rfl, rfl, rfl, rfl, rfl, rfl, Ext.of_log_eq rfl, fun _ => Ext.of_log_eq rfl⟩
theorem PSame.setDiscarded (s : St) (v : Nat) : PSame s (s.setDiscarded v) :=
  ⟨rfl, rfl, rfl, rfl, rfl, rfl, rfl, rfl, rfl, rfl, Ext.of_log_eq rfl, fun _ => Ext.of_log_eq rfl⟩
theorem PSame.setSeqNum (s : St) (v : Nat) : PSame s (s.setSeqNum v) :=
  ⟨rfl, rfl, rfl, rfl, rfl, rfl, rfl, rfl, rfl, rfl, Ext.of_log_eq rfl, fun _ => Ext.of_log_eq rfl⟩
theorem PSame.bumpOpen (s : St) : PSame s s.bumpOpen :=
  ⟨rfl, rfl, rfl, rfl, rfl, rfl, rfl, rfl, rfl, rfl, Ext.of_log_eq rfl, fun _ => Ext.of_log_eq rfl⟩
theorem PSame.bumpClose (s : St) : PSame s s.bumpClose :=
  ⟨rfl, rfl, rfl, rfl, rfl, rfl, rfl, rfl, rfl, rfl, Ext.of_log_eq rfl, fun _ => Ext.of_log_eq rfl⟩

theorem cbEnter_psame (k : CbKind) (s : St) : PSame s (cbEnter k s) := by
  unfold cbEnter
  simp only
  split <;> exact ⟨rfl, rfl, rfl, rfl, rfl, rfl, rfl, rfl, rfl, rfl,
    ⟨[_], rfl, by intro e he; simp at he; subst he; exact ⟨fun _ => rfl, fun _ _ => rfl⟩⟩,
    fun _ => ⟨[_], rfl, by intro e he; simp at he; subst he; trivial⟩⟩

theorem cbClock_psame (clk : Clock) (s : St) : PSame s (cbClock clk s).2 := by
  have h1 := cbEnter_psame .clock s
  unfold cbClock
  simp only
  generalize cbEnter .clock s = s1 at h1
  refine h1.trans ⟨rfl, rfl, rfl, rfl, rfl, rfl, rfl, rfl, rfl, rfl, ⟨[_, _], rfl, ?_⟩, fun _ => ⟨[_, _], rfl, ?_⟩⟩
  · intro e he; simp at he; rcases he with he | he <;> subst he <;> exact ⟨fun _ => rfl, fun _ _ => rfl⟩
  · intro e he; simp at he; rcases he with he | he <;> subst he <;> trivial

theorem cbFull_psame (s : St) : PSame s (cbFull s).2 := by
  have h1 := cbEnter_psame .full s
  unfold cbFull
  simp only
  generalize cbEnter .full s = s1 at h1
  refine h1.trans ⟨rfl, rfl, rfl, rfl, rfl, rfl, rfl, rfl, rfl, rfl, ⟨[_, _], rfl, ?_⟩, fun _ => ⟨[_, _], rfl, ?_⟩⟩
  · intro e he; simp at he; rcases he with he | he <;> subst he <;> exact ⟨fun _ => rfl, fun _ _ => rfl⟩
  · intro e he; simp at he; rcases he with he | he <;> subst he <;> trivial

theorem preambleTs_psame (d : DST) (ft : Option Scalar) (s : St) : PSame s (preambleTs d ft s).2 := by
  unfold preambleTs
  split
  · split
    · exact PSame.refl s
    · exact cbClock_psame _ s
  · exact PSame.refl s

theorem traceClock_psame (d : DST) (s : St) : PSame s (traceClock d s) := by
  unfold traceClock
  split
  · exact (cbClock_psame _ s).trans (PSame.setCurTs _ _)
  · exact PSame.refl s

theorem noSpace_psame (cf : Bool) (s : St) : PSame s (noSpace cf s).2 :=
  ⟨rfl, rfl, rfl, rfl, rfl, rfl, rfl, rfl, rfl, rfl, ⟨[_], rfl, by intro e he; simp at he; subst he; exact ⟨fun _ => rfl, fun _ _ => rfl⟩⟩,
    fun _ => ⟨[_], rfl, by intro e he; simp at he; subst he; trivial⟩⟩

/-! ### a serialisation pass that stays inside the buffer -/

theorem runSer_fields (f : SerSt → SerSt) (s : St) (hh : s.halted = false)
    (h : (f { buf := s.buf, at_ := s.c.at_, saved := s.c.saved, stores := [], oob := false, leaves := [] }).oob = false) :
    let r := f { buf := s.buf, at_ := s.c.at_, saved := s.c.saved, stores := [], oob := false, leaves := [] }
    (runSer f s).halted = false ∧ (runSer f s).c.at_ = r.at_ ∧ (runSer f s).buf = r.buf ∧
    (runSer f s).c.packetSize = s.c.packetSize ∧ (runSer f s).c.saved = r.saved ∧
    (runSer f s).c.packetIsOpen = s.c.packetIsOpen ∧ (runSer f s).p = s.p ∧
    (runSer f s).c.offContent = s.c.offContent ∧ (runSer f s).c.contentSize = s.c.contentSize ∧
    (runSer f s).c.isTracingEnabled = s.c.isTracingEnabled := by
  unfold runSer installSer
  simp only [h, Bool.false_eq_true, if_false]
  exact ⟨hh, rfl, rfl, rfl, rfl, rfl, rfl, rfl, rfl, rfl⟩

/-- the stores a pass logs without raising `oob` are inside the buffer -/
theorem runSer_sin (L : Nat) (f : SerSt → SerSt) (hf : ∀ st, StoresGood L st → StoresGood L (f st)) (s : St) (hlen : s.buf.length = L)
    (h : (f { buf := s.buf, at_ := s.c.at_, saved := s.c.saved, stores := [], oob := false, leaves := [] }).oob = false) :
    Ext (StoreIn L) s (runSer f s) := by
  have hst := pass_stores_in L f hf s.buf s.c.at_ s.c.saved hlen h
  unfold runSer installSer
  simp only [h, Bool.false_eq_true, if_false]
  refine ⟨_, rfl, ?_⟩
  intro e he
  obtain ⟨x, hx, rfl⟩ := List.mem_map.mp he
  exact hst x hx

section
variable (cfg : Cfg) (d : DST) (L A : Nat) (oa : List Args)
variable (hcfg : CfgOK A cfg d) (hApos : 0 < A) (hsmall : 8 * L + A ≤ 2 ^ 32)
variable (hhdr : ∀ args ∈ openArgsOf oa, hdrEndN cfg d args ≤ 8 * L)

/-! ### opening -/

include hcfg hsmall hhdr in
theorem openWrite_pinv (args : Args) (hargs : args ∈ openArgsOf oa) (ts : Nat) (saved : Bool) (s : St)
    (hi : PInv d L oa s) (hclosed : s.c.packetIsOpen = false) : PInv d L oa (openWrite cfg d args ts saved s) := by
  unfold openWrite
  simp only
  have hfit := hhdr args hargs
  unfold hdrEndN at hfit
  generalize henv : serEnvOf cfg d 0 ts (s.setAt 0).c = env
  -- the two roots, inside the buffer
  have hph := root_in_bounds env specPH "ph" [] cfg.phStruct hcfg.ph
    { buf := s.buf, at_ := 0, saved := s.c.saved, stores := [], oob := false, leaves := [] } L
    (by have := hcfg.phA; omega) hi.len rfl
    (Nat.le_trans (structEndS_mono specPC "pc" args d.pcStruct hcfg.pc _) hfit)
  have hpc := root_in_bounds env specPC "pc" args d.pcStruct hcfg.pc
    (serRoot env "ph" (buildRoot specPH cfg.phStruct) []
      { buf := s.buf, at_ := 0, saved := s.c.saved, stores := [], oob := false, leaves := [] }) L
    (by have := hcfg.pcA; omega) hph.2.2 hph.1 (by rw [hph.2.1]; exact hfit)
  have hsv := pc_saved_ok env L d args
    (serRoot env "ph" (buildRoot specPH cfg.phStruct) []
      { buf := s.buf, at_ := 0, saved := s.c.saved, stores := [], oob := false, leaves := [] })
    hcfg.pc hcfg.pcNames (by have := hcfg.pcA; omega) hph.2.2 hph.1 (by rw [hph.2.1]; exact hfit)
  have hr := runSer_fields
    (fun st => serRoot env "pc" d.pcOp args (serRoot env "ph" (DST.phOp cfg) [] st)) (s.setAt 0) hi.nh hpc.1
  simp only at hr
  obtain ⟨r1, r2, r3, r4, r5, r6, r7, r8, r9, r10⟩ := hr
  have hx : Ext Neutral s (runSer (fun st => serRoot env "pc" d.pcOp args (serRoot env "ph" (DST.phOp cfg) [] st))
      (s.setAt 0)) :=
    (Ext.of_log_eq rfl : Ext Neutral s (s.setAt 0)).trans ((runSer_same _ (s.setAt 0)).ext.mono PQuiet.neutral)
  have hlen2 : (runSer (fun st => serRoot env "pc" d.pcOp args (serRoot env "ph" (DST.phOp cfg) [] st))
      (s.setAt 0)).buf.length = L := by rw [r3]; exact hpc.2.2
  have hat2 : (runSer (fun st => serRoot env "pc" d.pcOp args (serRoot env "ph" (DST.phOp cfg) [] st))
      (s.setAt 0)).c.at_ ≤ 8 * L := by
    rw [r2]
    have hle : (serRoot env "pc" (buildRoot specPC d.pcStruct) args
        (serRoot env "ph" (buildRoot specPH cfg.phStruct) []
          { buf := s.buf, at_ := 0, saved := s.c.saved, stores := [], oob := false, leaves := [] })).at_ ≤ 8 * L := by
      rw [hpc.2.1, hph.2.1]; exact hfit
    exact hle
  have hsv2 : SavedOK d.pcOp.members (runSer (fun st => serRoot env "pc" d.pcOp args
      (serRoot env "ph" (DST.phOp cfg) [] st)) (s.setAt 0)).c.saved (8 * L) := by rw [r5]; exact hsv
  have hsin : Ext (StoreIn L) s (runSer (fun st => serRoot env "pc" d.pcOp args (serRoot env "ph" (DST.phOp cfg) [] st))
      (s.setAt 0)) :=
    (Ext.of_log_eq rfl : Ext (StoreIn L) s (s.setAt 0)).trans
      (runSer_sin L _ (fun st h => serRoot_good L env "pc" _ args _ (serRoot_good L env "ph" _ [] st h)) (s.setAt 0)
        hi.len hpc.1)
  generalize runSer _ (s.setAt 0) = s2 at r1 r4 r7 r9 hx hlen2 hat2 hsv2 hsin
  rw [if_neg (by rw [r1]; simp)]
  have h4 : PSame s2 (if d.feat.tsBegin.isSome = true then s2.ev (.tsWrite "begin" ts) else s2) := by
    split
    · exact PSame.ev _ _
    · exact PSame.refl _
  generalize (if d.feat.tsBegin.isSome = true then s2.ev (.tsWrite "begin" ts) else s2) = s3 at h4
  have hx3 : Ext Neutral s s3 := hx.trans h4.ext
  refine ⟨h4.nh.trans r1, h4.len.trans hlen2, ?_, ?_, ?_, ?_, ?_, fun _ => Nat.le_refl _, ?_, ?_, fun _ => rfl, ?_, ?_⟩
  · show s3.c.packetSize = 8 * L; rw [h4.pkt, r4]; exact hi.pkt
  · show s3.c.at_ ≤ 8 * L; rw [h4.at_]; exact hat2
  · intro _; show SavedOK _ s3.c.saved _; rw [h4.saved]; exact hsv2
  · show s3.p.openArgs = oa; rw [h4.oa, r7]; exact hi.oa
  · show ∀ x ∈ s3.p.setBufs, _; rw [h4.sb, r7]; exact hi.sb
  · show s3.c.contentSize ≤ 8 * L; rw [h4.csz, r9]; exact hi.cz
  · show hw (Ev.opened s3.c.at_ :: s3.log) ≤ s3.c.at_; exact Nat.le_refl _
  · show ChainOK (8 * L) (Ev.opened s3.c.at_ :: s3.log)
    exact ⟨by rw [h4.at_]; exact hat2, by rw [hx3.chain]; exact hi.chain⟩
  · intro e he
    have he' : e ∈ Ev.opened s3.c.at_ :: s3.log := he
    rcases List.mem_cons.mp he' with rfl | h
    · trivial
    · exact (hsin.trans (h4.sin L)).storesIn hi.stin e h

include hcfg hsmall hhdr in
theorem openGuarded_pinv (args : Args) (hargs : args ∈ openArgsOf oa) (ts : Nat) (s : St) (hi : PInv d L oa s) :
    PInv d L oa (openGuarded cfg d args ts s) := by
  unfold openGuarded
  simp only
  split
  · exact (PSame.setFlag s false).inv hi
  · split
    · exact ((PSame.setFlag s true).trans (PSame.setFlag _ _)).inv hi
    · rename_i hno
      exact openWrite_pinv cfg d L A oa hcfg hsmall hhdr args hargs ts _ _ ((PSame.setFlag s true).inv hi)
        (by simpa using hno)

include hcfg hsmall hhdr in
theorem openPacket_pinv (args : Args) (hargs : args ∈ openArgsOf oa) (s : St) (hi : PInv d L oa s) :
    PInv d L oa (openPacket cfg d args s) := by
  unfold openPacket
  split
  · exact hi
  · exact openGuarded_pinv cfg d L A oa hcfg hsmall hhdr args hargs _ _ ((preambleTs_psame d d.feat.tsBegin s).inv hi)

theorem openArgsNow_mem (s : St) (h : s.p.openArgs = oa) : s.openArgsNow ∈ openArgsOf oa := by
  unfold St.openArgsNow openArgsOf
  rw [h]
  cases oa with
  | nil => simp
  | cons a as =>
    simp only [List.isEmpty_cons, Bool.false_eq_true, if_false]
    have hlt : s.p.openCount % (a :: as).length < (a :: as).length := Nat.mod_lt _ (by simp)
    rw [List.getD_eq_getElem?_getD, List.getElem?_eq_getElem hlt]
    exact List.getElem_mem hlt

include hcfg hsmall hhdr in
theorem cbOpen_pinv (s : St) (hi : PInv d L oa s) : PInv d L oa (cbOpen cfg d s) := by
  unfold cbOpen
  split
  · exact hi
  · simp only
    have h1 := (cbEnter_psame .open_ s).inv hi
    generalize cbEnter .open_ s = s1 at h1
    have h3 := openPacket_pinv cfg d L A oa hcfg hsmall hhdr s1.openArgsNow (openArgsNow_mem oa s1 h1.oa) s1.bumpOpen
      ((PSame.bumpOpen s1).inv h1)
    exact (PSame.ev _ _).inv h3

/-! ### closing -/

/-- the write operation of a first-level member takes its value from the member's template -/
theorem findWrite_src (spec : String → Option WSrc) (n : String) (w : Write) :
    ∀ (ms : List Member) (oib : Option Nat), (∀ m ∈ ms, m.ft ≠ .uuid) →
      findWrite n (buildMembers spec ms oib).1 = some w → w.src = (spec n).getD .arg
  | [], _, _, h => by simp [buildMembers, findWrite] at h
  | m :: ms, oib, hnu, h => by
    have ih := findWrite_src spec n w ms (buildMember spec m oib).2 (fun x hx => hnu x (by simp [hx]))
    simp only [buildMembers] at h
    obtain ⟨name, ft⟩ := m
    cases ft with
    | uuid => exact absurd rfl (hnu ⟨name, .uuid⟩ (by simp))
    | darr ln e =>
      rw [findWrite_skip_cons n _ _ (by intro a b c; simp [buildMember])] at h
      exact ih h
    | el e =>
      cases e with
      | sarr k e =>
        rw [findWrite_skip_cons n _ _ (by intro a b c; simp [buildMember, buildElem])] at h
        exact ih h
      | sc sc =>
        simp only [buildMember, buildElem, findWrite] at h
        by_cases hnm : name = n
        · rw [if_pos hnm] at h
          cases h
          rw [hnm]
        · rw [if_neg hnm] at h
          exact ih h

/-- what the write-backs of the closing function keep: the packet is open, the saved offsets are inside the buffer;
    `P` is any property of the platform state and `E` the value of `is_tracing_enabled` (neither is touched) -/
structure PInvO (d : DST) (L : Nat) (P : Plat → Prop) (E : Bool) (s0 s : St) : Prop where
  sin : Ext (StoreIn L) s0 s
  lg : Ext Neutral s0 s
  czq : s.c.contentSize = s0.c.contentSize
  nh : s.halted = false
  len : s.buf.length = L
  pkt : s.c.packetSize = 8 * L
  at_ : s.c.at_ ≤ 8 * L
  sv : SavedOK d.pcOp.members s.c.saved (8 * L)
  cz : s.c.contentSize ≤ 8 * L
  isOpen : s.c.packetIsOpen = true
  pp : P s.p
  en : s.c.isTracingEnabled = E

/-- what the closing function leaves behind -/
structure PClosed (L : Nat) (P : Plat → Prop) (E : Bool) (s0 s : St) : Prop where
  sin : Ext (StoreIn L) s0 s
  lgc : ∃ l sn dc, s.log = Ev.closed s0.c.contentSize sn dc :: l ∧ hw l = hw s0.log ∧
    ∀ M, ChainOK M l = ChainOK M s0.log
  czq : s.c.contentSize = s0.c.contentSize
  nh : s.halted = false
  len : s.buf.length = L
  pkt : s.c.packetSize = 8 * L
  at_ : s.c.at_ = 8 * L
  cz : s.c.contentSize ≤ 8 * L
  isOpen : s.c.packetIsOpen = false
  pp : P s.p
  en : s.c.isTracingEnabled = E

include hcfg hsmall in
theorem writeBack_pinv (P : Plat → Prop) (E : Bool) (env : SerEnv) (name : String)
    (hskip : ((specPC name).getD .arg).isSkip = true) (v : Int)
    (s0 s : St) (hi : PInvO d L P E s0 s) : PInvO d L P E s0 (writeBack env d name v s) := by
  unfold writeBack
  split
  · exact hi
  · split
    · exact hi
    · rename_i w hw
      have hsrc : w.src = (specPC name).getD .arg :=
        findWrite_src specPC name w d.pcStruct.members _ hcfg.pcNoUuid hw
      obtain ⟨off, h1, h2, h3⟩ := hi.sv name w hw (by rw [hsrc]; exact hskip)
      have hoff : (s.c.saved.lookup name).getD 0 = off := by rw [h1]; rfl
      rw [hoff]
      have hwb : writeBits env w.sc w.oib v
          { buf := s.buf, at_ := off, saved := s.c.saved, stores := [], oob := false, leaves := [] } =
          writeBits env w.sc none v
          { buf := s.buf, at_ := off, saved := s.c.saved, stores := [], oob := false, leaves := [] } :=
        writeBits_erase env w.sc w.oib v _ h3
      have hin := writeBits_in env w.sc v
        { buf := s.buf, at_ := off, saved := s.c.saved, stores := [], oob := false, leaves := [] } rfl
        (by show off + w.sc.size ≤ 8 * s.buf.length; rw [hi.len]; exact h2)
        (by show 8 * s.buf.length < 2 ^ 32; rw [hi.len]; have := hcfg.Apos; omega)
      rw [← hwb] at hin
      have hr := runSer_fields (fun st => writeBits env w.sc w.oib v st) (s.setAt off) hi.nh hin.1
      simp only at hr
      obtain ⟨r1, r2, r3, r4, r5, r6, r7, r8, r9, r10⟩ := hr
      refine ⟨?_, ?_, r9.trans hi.czq, r1, ?_, ?_, ?_, ?_, ?_, ?_, ?_, ?_⟩
      · exact (hi.sin.trans (Ext.of_log_eq rfl : Ext (StoreIn L) s (s.setAt off))).trans
          (runSer_sin L _ (fun st h => writeBits_good L env w.sc w.oib v st h) (s.setAt off) hi.len hin.1)
      · exact (hi.lg.trans (Ext.of_log_eq rfl : Ext Neutral s (s.setAt off))).trans
          ((runSer_same _ (s.setAt off)).ext.mono PQuiet.neutral)
      · rw [r3]; exact hin.2.2.2.trans hi.len
      · rw [r4]; exact hi.pkt
      · rw [r2]
        have hle : (writeBits env w.sc w.oib v
          { buf := s.buf, at_ := off, saved := s.c.saved, stores := [], oob := false, leaves := [] }).at_ ≤ 8 * L := by
          rw [hin.2.1]; exact h2
        exact hle
      · rw [r5]
        show SavedOK _ (writeBits env w.sc w.oib v _).saved _
        rw [writeBits_saved]
        exact hi.sv
      · rw [r9]; exact hi.cz
      · rw [r6]; exact hi.isOpen
      · rw [r7]; exact hi.pp
      · rw [r10]; exact hi.en

include hcfg hsmall in
theorem closeBacks_pinv (P : Plat → Prop) (E : Bool) (ts : Nat) (s0 s : St) (hi : PInvO d L P E s0 s) :
    PInvO d L P E s0 (closeBacks cfg d ts s) := by
  unfold closeBacks
  simp only
  generalize serEnvOf cfg d 0 ts s.c = env
  have h1 : PInvO d L P E s0 (if d.feat.tsEnd.isSome = true then writeBack env d "timestamp_end" ts s else s) := by
    split
    · exact writeBack_pinv cfg d L A hcfg hsmall P E env "timestamp_end" rfl _ s0 s hi
    · exact hi
  generalize (if d.feat.tsEnd.isSome = true then writeBack env d "timestamp_end" ts s else s) = s1 at h1
  have h2 : PInvO d L P E s0 (writeBack env d "content_size" s1.c.contentSize s1) :=
    writeBack_pinv cfg d L A hcfg hsmall P E env "content_size" rfl _ s0 s1 h1
  generalize writeBack env d "content_size" s1.c.contentSize s1 = s2 at h2
  split
  · exact writeBack_pinv cfg d L A hcfg hsmall P E env "events_discarded" rfl _ s0 s2 h2
  · exact h2

theorem closeFinish_closed (P : Plat → Prop) (E : Bool) (ts : Nat) (saved : Bool) (s0 s : St) (hi : PInvO d L P E s0 s) :
    PClosed L P E s0 (closeFinish d ts saved s) := by
  unfold closeFinish
  split
  · rename_i hh; rw [hi.nh] at hh; exact absurd hh (by simp)
  · simp only
    have h4 : PSame s (if d.feat.tsEnd.isSome = true then s.ev (.tsWrite "end" ts) else s) ∧
        (if d.feat.tsEnd.isSome = true then s.ev (.tsWrite "end" ts) else s).p = s.p ∧
        (if d.feat.tsEnd.isSome = true then s.ev (.tsWrite "end" ts) else s).c.isTracingEnabled = s.c.isTracingEnabled := by
      split
      · exact ⟨PSame.ev _ _, rfl, rfl⟩
      · exact ⟨PSame.refl _, rfl, rfl⟩
    generalize (if d.feat.tsEnd.isSome = true then s.ev (.tsWrite "end" ts) else s) = s3 at h4
    obtain ⟨h4, h4p, h4e⟩ := h4
    have hpk : s3.c.packetSize = 8 * L := h4.pkt.trans hi.pkt
    split
    · exact ⟨(hi.sin.trans (h4.sin L)).trans ⟨[_], rfl, by intro e he; simp at he; subst he; trivial⟩,
        ⟨s3.log, _, _, by show _ = Ev.closed s0.c.contentSize _ _ :: s3.log; rw [← hi.czq, ← h4.csz]; rfl,
          (hi.lg.trans h4.ext).hw, fun M => (hi.lg.trans h4.ext).chain M⟩,
        h4.csz.trans hi.czq, h4.nh.trans hi.nh, h4.len.trans hi.len, hpk, hpk,
        by show s3.c.contentSize ≤ _; rw [h4.csz]; exact hi.cz,
        rfl, by show P s3.p; rw [h4p]; exact hi.pp, h4e.trans hi.en⟩
    · exact ⟨(hi.sin.trans (h4.sin L)).trans ⟨[_], rfl, by intro e he; simp at he; subst he; trivial⟩,
        ⟨s3.log, _, _, by show _ = Ev.closed s0.c.contentSize _ _ :: s3.log; rw [← hi.czq, ← h4.csz]; rfl,
          (hi.lg.trans h4.ext).hw, fun M => (hi.lg.trans h4.ext).chain M⟩,
        h4.csz.trans hi.czq, h4.nh.trans hi.nh, h4.len.trans hi.len, hpk, hpk,
        by show s3.c.contentSize ≤ _; rw [h4.csz]; exact hi.cz,
        rfl, by show P s3.p; rw [h4p]; exact hi.pp, h4e.trans hi.en⟩

include hcfg hsmall in
/-- the closing function on an open packet, whatever the platform state -/
theorem closeWrite_closed (P : Plat → Prop) (E : Bool) (ts : Nat) (saved : Bool) (s : St)
    (hnh : s.halted = false) (hlen : s.buf.length = L) (hpkt : s.c.packetSize = 8 * L) (hat : s.c.at_ ≤ 8 * L)
    (hsv : SavedOK d.pcOp.members s.c.saved (8 * L)) (ho : s.c.packetIsOpen = true) (hp : P s.p)
    (hen : s.c.isTracingEnabled = E) :
    PClosed L P E (s.setContentSize s.c.at_) (closeWrite cfg d ts saved s) := by
  unfold closeWrite
  exact closeFinish_closed d L P E ts saved (s.setContentSize s.c.at_) _
    (closeBacks_pinv cfg d L A hcfg hsmall P E ts (s.setContentSize s.c.at_) (s.setContentSize s.c.at_)
      ⟨Ext.refl _ _, Ext.refl _ _, rfl, hnh, hlen, hpkt, hat, hsv, hat, ho, hp, hen⟩)

include hcfg hsmall in
theorem closeWrite_pinv (ts : Nat) (saved : Bool) (s : St) (hi : PInv d L oa s) (ho : s.c.packetIsOpen = true) :
    PInv d L oa (closeWrite cfg d ts saved s) := by
  have h := closeWrite_closed cfg d L A hcfg hsmall (fun p => p.openArgs = oa ∧ ∀ x ∈ p.setBufs, x.2 = L)
    s.c.isTracingEnabled ts saved s hi.nh hi.len hi.pkt hi.at_ (hi.sv ho) ho ⟨hi.oa, hi.sb⟩ rfl
  obtain ⟨l, sn, dc, hlog, hhw, hch⟩ := h.lgc
  have hhw' : hw l = hw s.log := hhw
  have hch' : ∀ M, ChainOK M l = ChainOK M s.log := hch
  have hcs : (s.setContentSize s.c.at_).c.contentSize = s.c.at_ := rfl
  refine ⟨h.nh, h.len, h.pkt, by rw [h.at_]; exact Nat.le_refl _, fun x => by rw [h.isOpen] at x; simp at x, h.pp.1,
    h.pp.2, fun x => by rw [h.isOpen] at x; simp at x, h.cz, ?_, fun x => by rw [h.isOpen] at x; simp at x, ?_,
    h.sin.storesIn hi.stin⟩
  · rw [hlog, h.at_]
    show hw l ≤ 8 * L
    rw [hhw']; exact Nat.le_trans hi.hwle hi.at_
  · rw [hlog, hcs]
    show s.c.at_ = hw l ∧ s.c.at_ ≤ 8 * L ∧ ChainOK (8 * L) l
    exact ⟨by rw [hhw']; exact (hi.hweq ho).symm, hi.at_, by rw [hch']; exact hi.chain⟩

include hcfg hsmall in
/-- **the content size a closing saves is the end of the packet's last record** (or of the packet context when it holds
    none): what goes into the `content_size` field is `hw` of the log -/
theorem closeWrite_content_size (ts : Nat) (saved : Bool) (s : St) (hi : PInv d L oa s) (ho : s.c.packetIsOpen = true) :
    (closeWrite cfg d ts saved s).c.contentSize = hw s.log ∧ hw s.log ≤ 8 * L := by
  have h := closeWrite_closed cfg d L A hcfg hsmall (fun p => p.openArgs = oa ∧ ∀ x ∈ p.setBufs, x.2 = L)
    s.c.isTracingEnabled ts saved s hi.nh hi.len hi.pkt hi.at_ (hi.sv ho) ho ⟨hi.oa, hi.sb⟩ rfl
  refine ⟨?_, Nat.le_trans hi.hwle hi.at_⟩
  rw [h.czq]
  show s.c.at_ = _
  exact (hi.hweq ho).symm

include hcfg hsmall in
theorem closeGuarded_pinv (ts : Nat) (s : St) (hi : PInv d L oa s) : PInv d L oa (closeGuarded cfg d ts s) := by
  unfold closeGuarded
  simp only
  split
  · exact (PSame.setFlag s false).inv hi
  · split
    · exact ((PSame.setFlag s true).trans (PSame.setFlag _ _)).inv hi
    · rename_i hopen
      exact closeWrite_pinv cfg d L A oa hcfg hsmall ts _ _ ((PSame.setFlag s true).inv hi) (by simpa using hopen)

include hcfg hsmall in
theorem closePacket_pinv (s : St) (hi : PInv d L oa s) : PInv d L oa (closePacket cfg d s) := by
  unfold closePacket
  split
  · exact hi
  · exact closeGuarded_pinv cfg d L A oa hcfg hsmall _ _ ((preambleTs_psame d d.feat.tsEnd s).inv hi)

include hsmall in
theorem setBuf_pinv (hA : 0 < A) (s : St) (hi : PInv d L oa s) : PInv d L oa (setBuf L s) := by
  have hu : u32 (L * 8) = 8 * L := by simp only [u32]; omega
  unfold setBuf
  simp only [hu]
  split
  · rename_i hfull
    have hfull' : s.c.at_ = 8 * L := by rw [← hi.pkt]; simpa using hfull
    exact ⟨hi.nh, by simp, rfl, Nat.le_refl _, hi.sv, hi.oa, hi.sb,
      fun h => Nat.le_trans (hi.oc h) hi.at_, hi.cz, Nat.le_trans hi.hwle hi.at_,
      fun h => (hi.hweq h).trans hfull', hi.chain, hi.stin⟩
  · exact ⟨hi.nh, by simp, rfl, hi.at_, hi.sv, hi.oa, hi.sb, hi.oc, hi.cz, hi.hwle, hi.hweq, hi.chain, hi.stin⟩

include hsmall in
theorem deliverAndSwap_pinv (hA : 0 < A) (wasOpen : Bool) (n : Nat) (s : St) (hi : PInv d L oa s) :
    PInv d L oa (deliverAndSwap wasOpen n s) := by
  unfold deliverAndSwap
  split
  · exact hi
  · simp only
    have h1 : PInv d L oa (s.ev (.deliver s.buf wasOpen s.c.packetIsOpen)) := (PSame.ev _ _).inv hi
    generalize s.ev (.deliver s.buf wasOpen s.c.packetIsOpen) = s1 at h1
    split
    · rename_i bytes hb
      have hmem : (n, bytes) ∈ s1.p.setBufs := by
        have := List.lookup_eq_some_iff.mp hb
        obtain ⟨l1, l2, he, _⟩ := this
        rw [he]; simp
      have hbL : bytes = L := h1.sb _ hmem
      subst hbL
      exact (PSame.ev _ _).inv (setBuf_pinv d bytes A oa hsmall hA s1 h1)
    · exact (PSame.ev _ _).inv h1

include hcfg hsmall in
theorem cbClose_pinv (s : St) (hi : PInv d L oa s) : PInv d L oa (cbClose cfg d s) := by
  unfold cbClose
  split
  · exact hi
  · simp only
    have h1 := (cbEnter_psame .close s).inv hi
    generalize cbEnter .close s = s1 at h1
    have h3 := closePacket_pinv cfg d L A oa hcfg hsmall s1.bumpClose ((PSame.bumpClose s1).inv h1)
    exact deliverAndSwap_pinv d L A oa hsmall hcfg.Apos _ _ _ h3

/-! ### reserving space -/

theorem withUseCur_pinv (f : St → St) (hf : ∀ s, PInv d L oa s → PInv d L oa (f s)) (s : St) (hi : PInv d L oa s) :
    PInv d L oa (withUseCur f s) := by
  unfold withUseCur
  exact (PSame.setUseCur _ false).inv (hf _ ((PSame.setUseCur s true).inv hi))

include hcfg hsmall hhdr in
theorem reopenAfterClose_pinv (s : St) (hi : PInv d L oa s) : PInv d L oa (reopenAfterClose cfg d s).2 := by
  unfold reopenAfterClose
  simp only
  have h1 := (cbFull_psame s).inv hi
  split
  · exact (noSpace_psame _ _).inv h1
  · exact withUseCur_pinv d L oa (cbOpen cfg d) (cbOpen_pinv cfg d L A oa hcfg hsmall hhdr) _ h1

include hcfg hsmall hhdr in
theorem reserveTail_pinv (erSize : Nat) (s : St) (hi : PInv d L oa s) :
    PInv d L oa (reserveTail cfg d erSize s).2 := by
  unfold reserveTail
  split
  · exact hi
  · split
    · exact reopenAfterClose_pinv cfg d L A oa hcfg hsmall hhdr _
        (withUseCur_pinv d L oa (cbClose cfg d) (cbClose_pinv cfg d L A oa hcfg hsmall) s hi)
    · exact hi

include hcfg hsmall hhdr in
theorem reserve_pinv (erSize emptySize : Nat) (s : St) (hi : PInv d L oa s) :
    PInv d L oa (reserve cfg d erSize emptySize s).2 := by
  unfold reserve
  split
  · exact (noSpace_psame _ _).inv hi
  · split
    · simp only
      have h1 := (cbFull_psame s).inv hi
      split
      · exact (noSpace_psame _ _).inv h1
      · exact reserveTail_pinv cfg d L A oa hcfg hsmall hhdr erSize _
          (withUseCur_pinv d L oa (cbOpen cfg d) (cbOpen_pinv cfg d L A oa hcfg hsmall hhdr) _ h1)
    · exact reserveTail_pinv cfg d L A oa hcfg hsmall hhdr erSize s hi

include hcfg hsmall in
theorem commit_pinv (s : St) (hi : PInv d L oa s) : PInv d L oa (commit cfg d s) := by
  unfold commit
  split
  · exact hi
  · split
    · exact cbClose_pinv cfg d L A oa hcfg hsmall s hi
    · exact hi

/-! ### the tracing function -/

/-- the record's true end does not wrap `uint32_t`, wherever in the packet it starts -/
def ArgsSmall (d : DST) (L A : Nat) (e : ERT) (args : Args) : Prop :=
  ∀ a, a ≤ 8 * L → recordEndN d e args a + A + 8 ≤ 2 ^ 32

theorem PInv.posOK {d : DST} {L : Nat} {oa : List Args} {s : St} (A : Nat) (hsmall : 8 * L + A ≤ 2 ^ 32)
    (hi : PInv d L oa s) : PosOK A s :=
  ⟨hi.nh, by rw [hi.pkt, hi.len], by rw [hi.pkt]; exact hi.at_, by rw [hi.len]; exact hsmall⟩

include hcfg hsmall in
theorem traceWrite_pinv (e : ERT) (he : e ∈ d.erts) (args : Args) (hargs : ArgsSmall d L A e args) (s : St)
    (hi : PInv d L oa s) (hfit : erSizeAt d e args s.c.at_ ≤ s.c.room s.c.at_) :
    PInv d L oa (traceWrite cfg d e args s) := by
  unfold traceWrite
  simp only
  have hok := hcfg.recs e he
  have hp := hi.posOK A hsmall
  have hnw := hargs s.c.at_ hi.at_
  have hin := checked_record_in_bounds (serEnvOf cfg d e.id s.c.curLastEventTs s.c) A d e hok args
    { buf := s.buf, at_ := s.c.at_, saved := s.c.saved, stores := [], oob := false, leaves := [] }
    s.buf.length s.c.packetSize hp.pkt hp.small rfl rfl hp.at_ (recordEndN_ge A d e hok args s.c.at_) hnw hfit
  have hr := runSer_fields (serRecord (serEnvOf cfg d e.id s.c.curLastEventTs s.c) d e args) s hi.nh hin.1
  simp only at hr
  obtain ⟨r1, r2, r3, r4, r5, r6, r7, r8, r9, r10⟩ := hr
  have hge : s.c.at_ ≤ (serRecord (serEnvOf cfg d e.id s.c.curLastEventTs s.c) d e args
      { buf := s.buf, at_ := s.c.at_, saved := s.c.saved, stores := [], oob := false, leaves := [] }).at_ := by
    have hle := recordEndN_ge A d e hok args s.c.at_
    have hfit' := hfit
    rw [erSizeAt_exact A d e hok args s.c.at_ hnw hle] at hfit'
    have hroom : s.c.room s.c.at_ = s.c.packetSize - s.c.at_ := by
      unfold Ctx.room subU32; rw [if_pos hp.at_]
    rw [hroom] at hfit'
    have hrb := record_in_bounds (serEnvOf cfg d e.id s.c.curLastEventTs s.c) A d e hok args
      { buf := s.buf, at_ := s.c.at_, saved := s.c.saved, stores := [], oob := false, leaves := [] }
      s.buf.length hp.small rfl rfl (by have := hp.pkt; have := hp.at_; show recordEndN d e args s.c.at_ ≤ _; omega)
    rw [hrb.2.1]; exact hle
  have hx : Ext Neutral s (runSer (serRecord (serEnvOf cfg d e.id s.c.curLastEventTs s.c) d e args) s) :=
    (runSer_same _ s).ext.mono PQuiet.neutral
  have hge1 : s.c.at_ ≤ (runSer (serRecord (serEnvOf cfg d e.id s.c.curLastEventTs s.c) d e args) s).c.at_ := by
    rw [r2]; exact hge
  have hlen1 : (runSer (serRecord (serEnvOf cfg d e.id s.c.curLastEventTs s.c) d e args) s).buf.length = L := by
    rw [r3, hin.2.2]; exact hi.len
  have hat1 : (runSer (serRecord (serEnvOf cfg d e.id s.c.curLastEventTs s.c) d e args) s).c.at_ ≤ 8 * L := by
    rw [r2]
    have := hin.2.1
    rw [hi.pkt] at this
    exact this
  have hsv1 : (runSer (serRecord (serEnvOf cfg d e.id s.c.curLastEventTs s.c) d e args) s).c.saved = s.c.saved := by
    rw [r5, serRecord_saved]
  have hsin1 := runSer_sin L _ (fun st h => serRecord_good L _ d e args st h) s hi.len hin.1
  generalize runSer _ s = s1 at r1 r4 r6 r7 r8 r9 hx hge1 hlen1 hat1 hsv1 hsin1
  rw [if_neg (by rw [r1]; simp)]
  · have h3 : PSame s1 (if d.feat.erTs.isSome = true then s1.ev (.tsWrite "rec" s1.c.curLastEventTs) else s1) := by
      split
      · exact PSame.ev _ _
      · exact PSame.refl _
    generalize (if d.feat.erTs.isSome = true then s1.ev (.tsWrite "rec" s1.c.curLastEventTs) else s1) = s2 at h3
    have hx2 : Ext Neutral s s2 := hx.trans h3.ext
    have hopen2 : s2.c.packetIsOpen = s.c.packetIsOpen := h3.isOpen.trans r6
    -- the record just serialised occupies `[at before, at now)`: after everything logged for this packet so far
    have hrec : PInv d L oa (s2.ev (.recDone e.name s.c.at_ s2.c.at_)) := by
      refine ⟨h3.nh.trans r1, h3.len.trans hlen1, (h3.pkt.trans r4).trans hi.pkt, ?_, ?_, ?_, ?_, ?_, ?_, Nat.le_refl _,
        fun _ => rfl, ⟨?_, ?_, ?_, ?_⟩, ?_⟩
      · show s2.c.at_ ≤ 8 * L; rw [h3.at_]; exact hat1
      · intro ho; show SavedOK _ s2.c.saved _; rw [h3.saved, hsv1]; exact hi.sv (hopen2.symm.trans ho)
      · show s2.p.openArgs = oa; rw [h3.oa, r7]; exact hi.oa
      · show ∀ x ∈ s2.p.setBufs, _; rw [h3.sb, r7]; exact hi.sb
      · intro ho
        show s2.c.offContent ≤ s2.c.at_
        rw [h3.offc, r8, h3.at_]
        exact Nat.le_trans (hi.oc (hopen2.symm.trans ho)) hge1
      · show s2.c.contentSize ≤ 8 * L; rw [h3.csz, r9]; exact hi.cz
      · show hw s2.log ≤ s.c.at_; rw [hx2.hw]; exact hi.hwle
      · show s.c.at_ ≤ s2.c.at_; rw [h3.at_]; exact hge1
      · show s2.c.at_ ≤ 8 * L; rw [h3.at_]; exact hat1
      · show ChainOK (8 * L) s2.log; rw [hx2.chain]; exact hi.chain
      · intro x hx'
        have hx'' : x ∈ Ev.recDone e.name s.c.at_ s2.c.at_ :: s2.log := hx'
        rcases List.mem_cons.mp hx'' with rfl | h
        · trivial
        · exact (hsin1.trans (h3.sin L)).storesIn hi.stin x h
    have h4 := commit_pinv cfg d L A oa hcfg hsmall _ hrec
    split
    · exact h4
    · exact (PSame.setFlag _ false).inv h4

include hcfg hsmall in
theorem traceAfterReserve_pinv (e : ERT) (he : e ∈ d.erts) (args : Args) (hargs : ArgsSmall d L A e args)
    (erAt : Nat) (r : Bool × St) (hi : PInv d L oa r.2) :
    PInv d L oa (traceAfterReserve cfg d e args erAt (erSizeAt d e args erAt) r) := by
  unfold traceAfterReserve
  split
  · exact hi
  · split
    · exact (PSame.setFlag _ false).inv hi
    · split
      · exact (PSame.setFlag _ false).inv ((noSpace_psame true r.2).inv hi)
      · rename_i hfit
        have hsz : sizeAfterReserve d e args erAt (erSizeAt d e args erAt) r.2 = erSizeAt d e args r.2.c.at_ := by
          unfold sizeAfterReserve
          by_cases h : r.2.c.at_ = erAt
          · simp [h]
          · simp [h]
        rw [hsz] at hfit
        exact traceWrite_pinv cfg d L A oa hcfg hsmall e he args hargs r.2 hi (by omega)

include hcfg hsmall hhdr in
theorem traceEnabled_pinv (e : ERT) (he : e ∈ d.erts) (args : Args) (hargs : ArgsSmall d L A e args) (s : St)
    (hi : PInv d L oa s) : PInv d L oa (traceEnabled cfg d e args s) := by
  unfold traceEnabled
  exact traceAfterReserve_pinv cfg d L A oa hcfg hsmall e he args hargs _ _
    (reserve_pinv cfg d L A oa hcfg hsmall hhdr _ _ s hi)

include hcfg hsmall hhdr in
theorem trace_pinv (e : ERT) (he : e ∈ d.erts) (args : Args) (hargs : ArgsSmall d L A e args) (s : St)
    (hi : PInv d L oa s) : PInv d L oa (trace cfg d e args s) := by
  unfold trace
  split
  · exact hi
  · unfold traceBody
    simp only
    have h1 := (PSame.ev (traceClock d s) (.traceCall e.name (traceClock d s).c.isTracingEnabled)).inv
      ((traceClock_psame d s).inv hi)
    split
    · exact h1
    · exact traceEnabled_pinv cfg d L A oa hcfg hsmall hhdr e he args hargs _ ((PSame.setFlag _ true).inv h1)

/-! ### histories -/

/-- every tracing call of the history passes arguments whose record does not wrap `uint32_t` -/
def OpsSmall (d : DST) (L A : Nat) (ops : List Op) : Prop :=
  ∀ en args, Op.trace en args ∈ ops → ∀ e ∈ d.erts, e.name = en → ArgsSmall d L A e args

include hcfg hsmall hhdr in
theorem stepOp_pinv (op : Op) (hop : ∀ en args, op = .trace en args → ∀ e ∈ d.erts, e.name = en → ArgsSmall d L A e args)
    (s : St) (hi : PInv d L oa s) : PInv d L oa (stepOp cfg d op s) := by
  unfold stepOp
  split
  · exact hi
  · have key : ∀ (name : String) (s' : St), PInv d L oa s' →
        PInv d L oa (if s'.halted = true then s' else s'.ev (.ret name s'.c s'.buf.length)) := by
      intro name s' h
      split
      · exact h
      · exact (PSame.ev _ _).inv h
    cases op with
    | open_ => exact key "open" _ (cbOpen_pinv cfg d L A oa hcfg hsmall hhdr s hi)
    | close => exact key "close" _ (cbClose_pinv cfg d L A oa hcfg hsmall s hi)
    | trace en args =>
      simp only
      split
      · rename_i e hfind
        have hmem : e ∈ d.erts := List.mem_of_find?_eq_some hfind
        have hname : e.name = en := by
          have := List.find?_some hfind
          simpa using this
        exact key "trace" _ (trace_pinv cfg d L A oa hcfg hsmall hhdr e hmem args (hop en args rfl e hmem hname) s hi)
      · exact key "trace" _ hi
    | enable b => exact key "enable" _ ((PSame.setEnabled s b).inv hi)
    | query => exact key "query" _ hi
    | fin =>
      have hfin : PInv d L oa (if (s.c.packetIsOpen && !s.c.isEmpty) = true then cbClose cfg d s else s) := by
        split
        · exact cbClose_pinv cfg d L A oa hcfg hsmall s hi
        · exact hi
      exact key "fin" _ hfin

include hcfg hsmall hhdr in
theorem runOps_pinv (ops : List Op) (hops : OpsSmall d L A ops) (s : St) (hi : PInv d L oa s) :
    PInv d L oa (runOps cfg d ops s) := by
  unfold runOps
  induction ops generalizing s with
  | nil => exact hi
  | cons op ops ih =>
    simp only [List.foldl_cons]
    exact ih (fun en args h => hops en args (by simp [h])) _
      (stepOp_pinv cfg d L A oa hcfg hsmall hhdr op (fun en args h => hops en args (by simp [h])) s hi)

end

theorem rtInit_pinv (d : DST) (L A : Nat) (hA : 0 < A) (hsmall : 8 * L + A ≤ 2 ^ 32) (p : Plat) (hsb : ∀ x ∈ p.setBufs, x.2 = L) :
    PInv d L p.openArgs (rtInit L p) := by
  have hu : u32 (L * 8) = 8 * L := by simp only [u32]; omega
  refine ⟨rfl, by simp [rtInit], ?_, Nat.zero_le _, fun h => by simp [rtInit] at h, rfl, hsb,
    fun h => by simp [rtInit] at h, Nat.zero_le _, Nat.le_refl _, fun h => by simp [rtInit] at h, trivial,
    fun e he => by simp [rtInit] at he⟩
  show u32 (L * 8) = 8 * L
  exact hu

end BVM
