/-
  Proofs/Terminate.lean — the inclusion recursion is bounded: with `N` files in the inclusion directories,
  `procInclude` never needs more than `4 * (N - |stack|) + depth kind + 1` units of fuel, whatever the
  documents contain (the inclusion stack holds distinct existing files, and the includable kinds nest at
  most four deep).  In other words the recursion of `_process_node_include` cannot be unbounded.
-/
import BVM.Proofs.Expand
namespace BVM

def NoFuel {α : Type} (r : FR α) : Prop := r ≠ .error .fuel

theorem NoFuel.bind {α β : Type} {x : FR α} {f : α → FR β} (hx : NoFuel x) (hf : ∀ a, NoFuel (f a)) :
    NoFuel (x >>= f) := by
  cases x with
  | error e =>
    intro h
    have : (Except.error e : FR β) = .error .fuel := h
    injection this with this
    exact hx (by rw [this])
  | ok a => exact hf a

theorem NoFuel.ok {α : Type} (a : α) : NoFuel (.ok a : FR α) := by intro h; cases h

theorem modKey_nofuel (k : String) (f : Y → FR Y) (hf : ∀ v, NoFuel (f v)) : ∀ m : KVs, NoFuel (modKey k f m)
  | [] => NoFuel.ok _
  | (k', v) :: r => by
    unfold modKey
    by_cases h : k' = k
    · simp only [h, if_true]
      exact NoFuel.bind (hf v) (fun _ => NoFuel.ok _)
    · simp only [h, if_false]
      exact NoFuel.bind (modKey_nofuel k f hf r) (fun _ => NoFuel.ok _)

theorem mapVals_nofuel (f : String → Y → FR Y) (hf : ∀ k v, NoFuel (f k v)) : ∀ m : KVs, NoFuel (mapVals f m)
  | [] => NoFuel.ok _
  | (k, v) :: r => by
    unfold mapVals
    exact NoFuel.bind (hf k v) (fun _ => NoFuel.bind (mapVals_nofuel f hf r) (fun _ => NoFuel.ok _))

theorem foldlM_nofuel {α β : Type} (step : α → β → FR α) (h : ∀ a b, NoFuel (step a b)) :
    ∀ (l : List β) (a : α), NoFuel (l.foldlM step a)
  | [], a => NoFuel.ok _
  | b :: r, a => by
    simp only [List.foldlM_cons]
    exact NoFuel.bind (h a b) (fun a' => foldlM_nofuel step h r a')

/-- a restricted version: the step only has to behave on the elements of the list -/
theorem foldlM_nofuel_mem {α β : Type} (step : α → β → FR α) :
    ∀ (l : List β) (a : α), (∀ a b, b ∈ l → NoFuel (step a b)) → NoFuel (l.foldlM step a)
  | [], a, _ => NoFuel.ok _
  | b :: r, a, h => by
    simp only [List.foldlM_cons]
    exact NoFuel.bind (h a b (by simp)) (fun a' => foldlM_nofuel_mem step r a' (fun a b hb => h a b (by simp [hb])))

def Kind.depth : Kind → Nat
  | .trace => 4 | .traceType => 3 | .dst => 2 | .ert => 1 | .clockType => 1
  | .meta2 => 3 | .dst2 => 2 | .traceType2 => 1 | .clockType2 => 1 | .ert2 => 1

def ChildSpec.kind : ChildSpec → Kind
  | .single k => k
  | .each k => k

theorem child_depth_lt (kd : Kind) : ∀ cs ∈ kd.children, cs.2.kind.depth < kd.depth := by
  cases kd <;> simp [Kind.children, ChildSpec.kind, Kind.depth]

theorem childStep_nofuel (rec : Kind → Y → FR Y) (m : KVs) (cs : String × ChildSpec)
    (h : ∀ c, NoFuel (rec cs.2.kind c)) : NoFuel (childStep rec m cs) := by
  obtain ⟨key, spec⟩ := cs
  cases spec with
  | single k' => exact modKey_nofuel _ _ (fun v => h v) _
  | each k' =>
    simp only [childStep]
    apply modKey_nofuel
    intro v
    cases v with
    | map cm => exact NoFuel.bind (mapVals_nofuel _ (fun _ c => h c) cm) (fun _ => NoFuel.ok _)
    | _ => intro e; cases e

/-! ### the files of a world -/

def filesFrom : List (List (String × Y)) → Nat → List (Nat × String)
  | [], _ => []
  | d :: r, i => d.map (fun kv => (i, kv.1)) ++ filesFrom r (i + 1)

def World.files (W : World) : List (Nat × String) := filesFrom W.dirs 0

theorem kvGet_some_mem {k : String} {v : Y} : ∀ {m : KVs}, kvGet k m = some v → k ∈ kvKeys m
  | [], h => by simp at h
  | (k', v') :: r, h => by
    by_cases hk : k' = k
    · simp [kvKeys, hk]
    · simp only [kvGet_cons, hk, if_false] at h
      have := kvGet_some_mem (m := r) h
      simp only [kvKeys, List.map_cons, List.mem_cons] at this ⊢
      exact Or.inr this

theorem findInDirs_mem (p : String) : ∀ (ds : List (List (String × Y))) (i di : Nat) (c : Y),
    findInDirs p ds i = some (di, c) → (di, p) ∈ filesFrom ds i
  | [], _, _, _, h => by simp [findInDirs] at h
  | d :: r, i, di, c, h => by
    simp only [findInDirs] at h
    cases hg : kvGet p d with
    | some y =>
      simp only [hg] at h
      injection h with h
      injection h with h1 h2
      subst h1
      have hm : p ∈ kvKeys d := kvGet_some_mem hg
      simp only [filesFrom, List.mem_append, List.mem_map]
      left
      simp only [kvKeys, List.mem_map] at hm
      obtain ⟨kv, hkv, hk⟩ := hm
      exact ⟨kv, hkv, by rw [hk]⟩
    | none =>
      simp only [hg] at h
      simp only [filesFrom, List.mem_append]
      right
      exact findInDirs_mem p r (i + 1) di c h

structure StackOK (W : World) (stack : Stack) : Prop where
  nodup : stack.Nodup
  sub : ∀ e ∈ stack, e ∈ W.files

theorem StackOK.length_le {W : World} {stack : Stack} (h : StackOK W stack) : stack.length ≤ W.files.length :=
  h.nodup.length_le_of_subset (fun e he => h.sub e he)

theorem StackOK.push {W : World} {stack : Stack} (h : StackOK W stack) (di : Nat) (p : String) (c : Y)
    (hf : findInDirs p W.dirs 0 = some (di, c)) (hn : (di, p) ∉ stack) : StackOK W ((di, p) :: stack) :=
  ⟨List.nodup_cons.mpr ⟨hn, h.nodup⟩, fun e he => by
    rcases List.mem_cons.mp he with rfl | he
    · exact findInDirs_mem p W.dirs 0 _ c hf
    · exact h.sub e he⟩

theorem inclStep_nofuel (rec : Stack → Y → FR Y) (W : World) (stack : Stack) (v3 : Bool) (base : Option Y) (p : String)
    (h : ∀ di c, findInDirs p W.dirs 0 = some (di, c) → (di, p) ∉ stack → NoFuel (rec ((di, p) :: stack) c)) :
    NoFuel (inclStep rec W stack v3 base p) := by
  unfold inclStep
  cases hf : findInDirs p W.dirs 0 with
  | none => simp only; split <;> (intro e; cases e)
  | some fc =>
    obtain ⟨di, c⟩ := fc
    simp only
    by_cases hc : stack.contains (di, p) = true
    · simp only [hc, if_true]; intro e; cases e
    · simp only [hc, Bool.false_eq_true, if_false]
      have hn : (di, p) ∉ stack := by simpa using hc
      apply NoFuel.bind (h di c hf hn)
      intro ov
      cases base <;> exact NoFuel.ok _

theorem mapM_nofuel {α β : Type} (f : α → FR β) (hf : ∀ x, NoFuel (f x)) : ∀ l : List α, NoFuel (l.mapM f)
  | [] => by simp only [List.mapM_nil]; exact NoFuel.ok _
  | x :: r => by
    simp only [List.mapM_cons]
    exact NoFuel.bind (hf x) (fun _ => NoFuel.bind (mapM_nofuel f hf r) (fun _ => NoFuel.ok _))

theorem includePaths_nofuel (inc : Y) : NoFuel (includePaths inc) := by
  cases inc with
  | seq xs =>
    simp only [includePaths]
    apply mapM_nofuel
    intro x
    cases x <;> (intro e; cases e)
  | _ => simp only [includePaths]; intro e; cases e

/-- the bound -/
theorem procInclude_bounded (W : World) : ∀ (fuel : Nat) (stack : Stack) (kd : Kind) (y : Y), StackOK W stack →
    4 * (W.files.length - stack.length) + kd.depth < fuel → NoFuel (procInclude W fuel stack kd y) := by
  intro fuel
  induction fuel with
  | zero => intro stack kd y _ h; omega
  | succ f ih =>
    intro stack kd y hs hb
    cases y with
    | map m0 =>
      simp only [procInclude]
      apply NoFuel.bind
      · apply foldlM_nofuel_mem
        intro a cs hcs
        apply childStep_nofuel
        intro c
        have := child_depth_lt kd cs hcs
        exact ih stack cs.2.kind c hs (by omega)
      · intro m1
        cases kvGet "$include" m1 with
        | none => exact NoFuel.ok _
        | some inc =>
          simp only
          apply NoFuel.bind (includePaths_nofuel inc)
          intro paths
          apply NoFuel.bind
          · apply foldlM_nofuel_mem
            intro base p _
            apply inclStep_nofuel
            intro di c hf hn
            have hs' := hs.push di p c hf hn
            have hlen := hs'.length_le
            simp only [List.length_cons] at hlen
            exact ih ((di, p) :: stack) kd c hs' (by simp only [List.length_cons]; omega)
          · intro b; exact NoFuel.ok _
    | _ => simp only [procInclude]; intro e; cases e

end BVM
