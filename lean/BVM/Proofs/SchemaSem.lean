/-
  Proofs/SchemaSem.lean — what the interpreter (Model/Schema.lean) says of a few schema shapes, for every
  instance and every store, and the arithmetic of the Python alignment test.
-/
import BVM.Model.Load
namespace BVM

theorem seqAll_true (l : List (Option Bool)) : seqAll l = some true ↔ ∀ r ∈ l, r = some true := by
  unfold seqAll
  cases h : l.find? (fun r => r != some true) with
  | none =>
    simp only [true_iff]
    intro r hr
    have := List.find?_eq_none.mp h r hr
    simpa using this
  | some r =>
    have hm := List.mem_of_find?_eq_some h
    have hp := List.find?_some h
    constructor
    · intro e; subst e; simp at hp
    · intro hall; have := hall r hm; subst this; simp at hp

@[simp] theorem seqAll_nil : seqAll [] = some true := rfl

@[simp] theorem seqAll_cons (r : Option Bool) (l : List (Option Bool)) :
    seqAll (r :: l) = if r = some true then seqAll l else r := by
  unfold seqAll
  by_cases h : r = some true
  · subst h; simp
  · simp [List.find?_cons, h]

/-- integer size: `type: integer, minimum: lo, maximum: hi` -/
theorem sem_int_range (store : Store) (fuel : Nat) (lo hi : Int) (y : Y) :
    validate store (fuel + 1) (.obj [.type [.integer], .minimum lo, .maximum hi]) y = some true ↔
      ∃ n, y = .int n ∧ lo ≤ n ∧ n ≤ hi := by
  cases y <;> simp [validate, kwProps, kwPats, isType, numVal, leQ]
  rename_i i
  by_cases h1 : lo ≤ i <;> by_cases h2 : i ≤ hi <;> simp [h1, h2]

/-- `if type: integer then minimum: k else type: null` -/
theorem sem_opt_int_min (store : Store) (fuel : Nat) (k : Int) (y : Y) :
    validate store (fuel + 2) (.obj [.ite (.obj [.type [.integer]]) (some (.obj [.minimum k])) (some (.obj [.type [.null]]))]) y
      = some true ↔ (y = .null ∨ ∃ n, y = .int n ∧ k ≤ n) := by
  cases y <;> simp [validate, kwProps, kwPats, isType, numVal, leQ]
  omega

theorem pyEq_str (a b : String) : pyEq (.str a) (.str b) = (a == b) := by rw [pyEq]

theorem pyEq_str_mem (s : String) (vs : List String) : (vs.map Y.str).any (fun v => pyEq (.str s) v) = true ↔ s ∈ vs := by
  induction vs with
  | nil => simp
  | cons v r ih =>
    simp only [List.map_cons, List.any_cons, Bool.or_eq_true, ih, List.mem_cons, pyEq_str, beq_iff_eq]

/-- `type: string, enum: [...]` of strings -/
theorem sem_str_enum (store : Store) (fuel : Nat) (vs : List String) (y : Y) :
    validate store (fuel + 1) (.obj [.type [.string], .enum (vs.map Y.str)]) y = some true ↔
      ∃ s, y = .str s ∧ s ∈ vs := by
  cases y with
  | str s =>
    simp only [validate, kwProps, kwPats, List.map_cons, List.map_nil, isType, List.any_cons, List.any_nil,
      Bool.or_false, seqAll_cons, seqAll_nil, if_true, Y.str.injEq, exists_eq_left']
    have := pyEq_str_mem s vs
    cases h : (vs.map Y.str).any (fun v => pyEq (.str s) v) <;> simp_all
  | _ => simp [validate, kwProps, kwPats, isType]

/-- the identifier schema: `type: string, allOf: [pattern: iden\Z, not: enum: keywords]` -/
theorem sem_iden (store : Store) (fuel : Nat) (kws : List String) (y : Y) :
    validate store (fuel + 3) (.obj [.type [.string],
        .allOf [.obj [.pattern .idenZ], .obj [.not (.obj [.enum (kws.map Y.str)])]]]) y = some true ↔
      ∃ s, y = .str s ∧ matchIdenZ s.toList = true ∧ s ∉ kws := by
  cases y with
  | str s =>
    have hk := pyEq_str_mem s kws
    simp only [validate, kwProps, kwPats, List.map_cons, List.map_nil, isType, List.any_cons, List.any_nil,
      Bool.or_false, seqAll_cons, seqAll_nil, if_true, Y.str.injEq, exists_eq_left', Pat.matches]
    cases hm : matchIdenZ s.toList <;> cases ha : (kws.map Y.str).any (fun v => pyEq (.str s) v) <;>
      simp_all [Option.map]
  | _ =>
    simp only [validate, kwProps, kwPats, List.map_cons, List.map_nil, isType, List.any_cons, List.any_nil,
      Bool.or_false, seqAll_cons]
    simp

/-- an identifier (as the schemas define it) is a non-empty string of ASCII letters, digits and
    underscores that does not start with a digit: in particular no space, no new-line -/
theorem matchIdenZ_chars (cs : List Char) (h : matchIdenZ cs = true) :
    cs ≠ [] ∧ ∀ c ∈ cs, c.isAlphanum = true ∨ c = '_' := by
  cases cs with
  | nil => simp [matchIdenZ] at h
  | cons c r =>
    simp only [matchIdenZ, Bool.and_eq_true, List.all_eq_true] at h
    refine ⟨by simp, ?_⟩
    intro x hx
    rcases List.mem_cons.mp hx with rfl | hx
    · have := h.1
      simp only [isIdenStart, Bool.or_eq_true, decide_eq_true_eq] at this
      rcases this with h1 | h1
      · left; simp [Char.isAlphanum, h1]
      · right; exact h1
    · have := h.2 x hx
      simp only [isIdenChar, Bool.or_eq_true, decide_eq_true_eq] at this
      exact this

theorem matchIdenZ_no_newline (cs : List Char) (h : matchIdenZ cs = true) : '\n' ∉ cs := by
  intro hin
  rcases (matchIdenZ_chars cs h).2 '\n' hin with h1 | h1
  · revert h1; decide
  · exact absurd h1 (by decide)

/-! ### the alignment test of `_validate_alignment` -/

theorem and_pred_pow2 (k : Nat) : (2 ^ k) &&& (2 ^ k - 1) = 0 := by
  rw [Nat.and_two_pow_sub_one_eq_mod]; simp

theorem pow2_of_and_pred : ∀ a : Nat, 1 ≤ a → a &&& (a - 1) = 0 → ∃ k, a = 2 ^ k := by
  intro a
  induction a using Nat.strongRecOn with
  | _ a ih =>
    intro h1 h
    have hdm := Nat.div_add_mod a 2
    rcases Nat.mod_two_eq_zero_or_one a with h0 | h0
    · have hb1 : 1 ≤ a / 2 := by omega
      have h2 : (a / 2) &&& (a / 2 - 1) = 0 := by
        have := congrArg (· / 2) h
        simp only [Nat.and_div_two] at this
        have e2 : (a - 1) / 2 = a / 2 - 1 := by omega
        simpa [e2] using this
      obtain ⟨k, hk⟩ := ih (a / 2) (by omega) hb1 h2
      exact ⟨k + 1, by rw [Nat.pow_succ, ← hk]; omega⟩
    · have e : a &&& (a - 1) = a - 1 := by
        apply Nat.eq_of_testBit_eq
        intro i
        rw [Nat.testBit_and]
        cases i with
        | zero =>
          simp only [Nat.testBit_zero]
          have : (a - 1) % 2 = 0 := by omega
          simp [h0, this]
        | succ j =>
          simp only [Nat.testBit_succ]
          have : (a - 1) / 2 = a / 2 := by omega
          simp [this]
      rw [e] at h
      exact ⟨0, by omega⟩

theorem validateAlignment_ok (a : Int) : validateAlignment a = .ok () ↔ ∃ k : Nat, a = 2 ^ k := by
  unfold validateAlignment
  by_cases h1 : a < 1
  · simp only [h1, if_true]
    constructor
    · intro h; cases h
    · rintro ⟨k, rfl⟩
      have : (1 : Int) ≤ 2 ^ k := by exact_mod_cast Nat.one_le_two_pow
      omega
  · simp only [h1, if_false]
    obtain ⟨n, rfl⟩ : ∃ n : Nat, a = n := ⟨a.toNat, by omega⟩
    have hn : 1 ≤ n := by omega
    simp only [Int.toNat_natCast]
    by_cases h2 : n &&& (n - 1) = 0
    · simp only [h2, ne_eq, not_true_eq_false, if_false, true_iff]
      obtain ⟨k, hk⟩ := pow2_of_and_pred n hn h2
      exact ⟨k, by rw [hk]; norm_cast⟩
    · simp only [ne_eq, h2, not_false_eq_true, if_true]
      constructor
      · intro h; cases h
      · rintro ⟨k, hk⟩
        have : n = 2 ^ k := by exact_mod_cast hk
        exact absurd (this ▸ and_pred_pow2 k) h2

/-! ### structure members -/

def memberName : Y → Option String
  | .map ((n, _) :: _) => some n
  | _ => none

/-- `_create_struct_ft_members` accepts only member lists whose names are pairwise distinct, distinct from
    the names seen before, and none of them a TSDL keyword -/
theorem createMembers_names : ∀ (fuel : Nat) (ms : List Y) (seen : List String),
    createMembers fuel ms seen = .ok () →
      (ms.filterMap memberName).Nodup ∧ (∀ n ∈ ms.filterMap memberName, n ∉ seen ∧ n ∉ ctfKeywords) ∧
      ms.filterMap memberName = ms.map (fun m => (memberName m).getD "") := by
  intro fuel
  induction fuel with
  | zero => intro ms seen h; simp [createMembers] at h
  | succ f ih =>
    intro ms seen h
    cases ms with
    | nil => simp
    | cons mem rest =>
      cases mem with
      | map kvs =>
        cases kvs with
        | nil => simp [createMembers] at h
        | cons kv more =>
          obtain ⟨name, mv⟩ := kv
          simp only [createMembers, bind, Except.bind] at h
          by_cases hs : name ∈ seen
          · simp [hs] at h
          · unfold validateIden at h
            by_cases hk : name ∈ ctfKeywords
            · simp [hs, hk] at h
            · simp only [List.contains_eq_mem, hs, hk, decide_false, Bool.false_eq_true, if_false, pure, Except.pure] at h
              -- the rest of the member's checks, then the recursive call
              have hrest : ∃ seen', createMembers f rest seen' = .ok () ∧ ∀ x, x ∈ name :: seen → x ∈ seen' := by
                revert h
                cases mv with
                | map mm =>
                  simp only
                  cases reqK "field-type" mm with
                  | error e => simp
                  | ok ft =>
                    simp only
                    cases ft with
                    | map ftm =>
                      simp only
                      cases reqK "class" ftm with
                      | error e => simp
                      | ok cls =>
                        simp only
                        split
                        · simp
                        · cases createFt f (Y.map ftm) with
                          | error e => simp
                          | ok k =>
                            simp only
                            split
                            · simp
                            · intro h
                              refine ⟨_, h, ?_⟩
                              intro x hx
                              split
                              · exact List.mem_cons_of_mem _ hx
                              · exact hx
                    | _ => simp
                | _ => simp
              obtain ⟨seen', hrest', hsub⟩ := hrest
              obtain ⟨hnd, hmem0, heq⟩ := ih rest seen' hrest'
              have hmem : ∀ n ∈ rest.filterMap memberName, n ∉ name :: seen ∧ n ∉ ctfKeywords :=
                fun n hn => ⟨fun hin => (hmem0 n hn).1 (hsub n hin), (hmem0 n hn).2⟩
              have hs' : name ∉ seen := hs
              have hk' : name ∉ ctfKeywords := hk
              refine ⟨?_, ?_, ?_⟩
              · simp only [List.filterMap_cons, memberName]
                refine List.nodup_cons.mpr ⟨fun hin => ?_, hnd⟩
                exact (hmem name hin).1 (by simp)
              · intro n hn
                simp only [List.filterMap_cons, memberName, List.mem_cons] at hn
                rcases hn with rfl | hn
                · exact ⟨hs', hk'⟩
                · exact ⟨fun hin => (hmem n hn).1 (List.mem_cons_of_mem _ hin), (hmem n hn).2⟩
              · simp [List.filterMap_cons, memberName, heq]
      | _ => simp [createMembers] at h

end BVM
