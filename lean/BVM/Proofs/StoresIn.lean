/-
  Proofs/StoresIn.lean — every store a serialisation pass logs without raising `oob` lies inside the buffer: the
  model checks each store against the buffer length when it is made (`SerSt.store`), `oob` is sticky, and the buffer
  keeps its length.  This turns "the run did not halt" (Proofs/RtPos.lean) into the literal statement of C02 about the
  logged stores.
-/
import BVM.Proofs.RecordBounds
namespace BVM

/-- while no store was out of bounds, the buffer has its length and every logged store lies inside it -/
def StoresGood (L : Nat) (st : SerSt) : Prop :=
  st.oob = false → st.buf.length = L ∧ ∀ x ∈ st.stores, x.1 + x.2 ≤ L

theorem store_good (L : Nat) (s : SerSt) (b n : Nat) (nb : Buf) (hg : StoresGood L s)
    (hl : b + n ≤ s.buf.length → nb.length = s.buf.length) : StoresGood L (s.store b n nb) := by
  unfold SerSt.store
  by_cases hc : b + n ≤ s.buf.length
  · simp only [hc, if_true]
    intro h0
    obtain ⟨g1, g2⟩ := hg h0
    refine ⟨by show nb.length = L; rw [hl hc]; exact g1, ?_⟩
    intro x hx
    rcases List.mem_cons.mp hx with rfl | hx
    · show b + n ≤ L; rw [← g1]; exact hc
    · exact g2 x hx
  · simp only [hc, if_false]
    intro h0; simp at h0

theorem writeBits_good (L : Nat) (env : SerEnv) (sc : Scalar) (o : Option Nat) (v : Int) (s : SerSt) (hg : StoresGood L s) :
    StoresGood L (writeBits env sc o v s) := by
  unfold writeBits
  simp only
  split
  · exact store_good L s _ _ _ hg (fun _ => memcpyLE_length _ _ _ _)
  · refine store_good L s _ _ _ hg (fun hc => bfWrite_length _ _ _ _ _ _ _ ?_)
    omega

theorem writeStr_good (L : Nat) (bytes : List Nat) (s : SerSt) (hg : StoresGood L s) : StoresGood L (writeStr bytes s) := by
  unfold writeStr
  exact store_good L s _ _ _ hg (fun _ => memcpyBytes_length _ _ _)

theorem pop_good (L : Nat) (s : SerSt) (hg : StoresGood L s) : StoresGood L s.pop.2 := by
  unfold SerSt.pop; cases s.leaves <;> exact hg

theorem serAlign_good (L : Nat) (al : Option Nat) (s : SerSt) (hg : StoresGood L s) : StoresGood L (serAlign al s) := by
  cases al <;> exact hg

theorem serWrite_good (L : Nat) (env : SerEnv) (w : Write) (s : SerSt) (hg : StoresGood L s) : StoresGood L (serWrite env w s) := by
  obtain ⟨src, sc, o⟩ := w
  cases src <;> simp only [serWrite] <;> try (exact writeBits_good L env sc o _ s hg)
  · cases sc with
    | str => exact writeStr_good L _ _ (pop_good L s hg)
    | int sg sz al => exact writeBits_good L env _ o _ _ (pop_good L s hg)
    | real sz al => exact writeBits_good L env _ o _ _ (pop_good L s hg)
  · exact hg
  · exact store_good L _ _ _ _ hg (fun _ => memcpyBytes_length _ _ _)

theorem iterN_good (L : Nat) (f : SerSt → SerSt) (hf : ∀ s, StoresGood L s → StoresGood L (f s)) :
    ∀ (n : Nat) (s : SerSt), StoresGood L s → StoresGood L (iterN f n s)
  | 0, _, h => h
  | n + 1, s, h => iterN_good L f hf n (f s) (hf s h)

theorem serElem_good (L : Nat) (env : SerEnv) : ∀ (op : EOp) (s : SerSt), StoresGood L s → StoresGood L (serElem env op s)
  | .leaf al w, s, h => serWrite_good L env w _ (serAlign_good L al s h)
  | .loop al n body, s, h => iterN_good L _ (serElem_good L env body) n _ (serAlign_good L al s h)

theorem serMember_good (L : Nat) (env : SerEnv) (pfx : String) (args : Args) (m : MOp) (s : SerSt) (hg : StoresGood L s) :
    StoresGood L (serMember env pfx args m s) := by
  cases m with
  | el name e => exact serElem_good L env e _ hg
  | dloop name al ln body => exact iterN_good L _ (serElem_good L env body) _ _ (serAlign_good L al _ hg)

theorem serRoot_good (L : Nat) (env : SerEnv) (pfx : String) (r : RootOp) (args : Args) (s : SerSt) (hg : StoresGood L s) :
    StoresGood L (serRoot env pfx r args s) := by
  unfold serRoot
  have : ∀ (ms : List MOp) (s : SerSt), StoresGood L s → StoresGood L (ms.foldl (fun a m => serMember env pfx args m a) s) := by
    intro ms
    induction ms with
    | nil => intro s h; exact h
    | cons m ms ih => intro s h; exact ih _ (serMember_good L env pfx args m s h)
  exact this r.members _ (serAlign_good L r.al s hg)

theorem serRecord_good (L : Nat) (env : SerEnv) (d : DST) (e : ERT) (args : Args) (s : SerSt) (hg : StoresGood L s) :
    StoresGood L (serRecord env d e args s) := by
  rw [serRecord_opt]
  have hopt : ∀ (pfx : String) (S : Option Struct) (t : SerSt), StoresGood L t → StoresGood L (optSer env specNone pfx args S t) := by
    intro pfx S t ht
    cases S with
    | none => exact ht
    | some S' => exact serRoot_good L env pfx _ args t ht
  exact hopt "p" e.p _ (hopt "sc" e.sc _ (hopt "cc" d.ercc _ (serRoot_good L env "h" _ [] s hg)))

/-- a pass started with an empty store log on a buffer of `L` bytes: if it ends without `oob`, every store it logged is
    inside the buffer -/
theorem pass_stores_in (L : Nat) (f : SerSt → SerSt) (hf : ∀ s, StoresGood L s → StoresGood L (f s)) (buf : Buf) (at_ : Nat)
    (saved : List (String × Nat)) (hlen : buf.length = L)
    (h : (f { buf := buf, at_ := at_, saved := saved, stores := [], oob := false, leaves := [] }).oob = false) :
    ∀ x ∈ (f { buf := buf, at_ := at_, saved := saved, stores := [], oob := false, leaves := [] }).stores, x.1 + x.2 ≤ L :=
  (hf _ (fun _ => ⟨hlen, by intro x hx; simp at hx⟩) h).2

end BVM
