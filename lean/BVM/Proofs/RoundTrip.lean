/-
  Proofs/RoundTrip.lean — what the CTF reader of Model/Tsdl.lean returns on a buffer into which the
  serialiser of Model/Ser.lean has written a whole root structure: the traced values (C01, record level).
-/
import BVM.Proofs.Read
import BVM.Proofs.SerFrame
import BVM.Proofs.Oib
import BVM.Model.Decode
namespace BVM

/-! ### bits of a buffer in stream order -/

def bit (bo : ByteOrder) (buf : Buf) (i : Nat) : Bool :=
  match bo with
  | .le => bitLE buf i
  | .be => bitBE buf i

theorem readBitsLE_congr (b1 b2 : Buf) : ∀ (n a : Nat), (∀ i, a ≤ i → i < a + n → bitLE b1 i = bitLE b2 i) →
    readBitsLE b1 a n = readBitsLE b2 a n
  | 0, _, _ => rfl
  | n + 1, a, h => by
    simp only [readBitsLE]
    rw [h a (Nat.le_refl _) (by omega), readBitsLE_congr b1 b2 n (a + 1) (fun i h1 h2 => h i (by omega) (by omega))]

theorem readBitsBE_congr (b1 b2 : Buf) : ∀ (n a : Nat), (∀ i, a ≤ i → i < a + n → bitBE b1 i = bitBE b2 i) →
    readBitsBE b1 a n = readBitsBE b2 a n
  | 0, _, _ => rfl
  | n + 1, a, h => by
    simp only [readBitsBE]
    rw [h a (Nat.le_refl _) (by omega), readBitsBE_congr b1 b2 n (a + 1) (fun i h1 h2 => h i (by omega) (by omega))]

theorem readBits_congr (bo : ByteOrder) (b1 b2 : Buf) (n a : Nat)
    (h : ∀ i, a ≤ i → i < a + n → bit bo b1 i = bit bo b2 i) : readBits bo b1 a n = readBits bo b2 a n := by
  cases bo
  · exact readBitsLE_congr b1 b2 n a h
  · exact readBitsBE_congr b1 b2 n a h

/-- the bits of the stream outside the written field are unchanged -/
theorem bit_bfWrite_frame (bo : ByteOrder) (vt : CInt) (buf : Buf) (base start len : Nat) (v : Int)
    (hb : base + (start + len + 7) / 8 ≤ buf.length) (i : Nat)
    (hi : i < 8 * base + start ∨ 8 * base + start + len ≤ i) :
    bit bo (bfWrite bo vt buf base start len v) i = bit bo buf i := by
  cases bo
  · obtain ⟨_, h2⟩ := bfWriteLE_spec vt buf base start len v hb
    simp only [bit, bfWrite, bitLE]
    rw [h2 _ _ (Nat.mod_lt _ (by decide))]
    have : ¬ (8 * base + start ≤ 8 * (i / 8) + i % 8 ∧ 8 * (i / 8) + i % 8 < 8 * base + start + len) := by omega
    rw [if_neg this]
  · obtain ⟨_, h2⟩ := bfWriteBE_spec vt buf base start len v hb
    simp only [bit, bfWrite, bitBE]
    rw [h2 _ _ (by omega)]
    have : ¬ (8 * base + start ≤ 8 * (i / 8) + 7 - (7 - i % 8) ∧ 8 * (i / 8) + 7 - (7 - i % 8) < 8 * base + start + len) := by omega
    rw [if_neg this]

theorem bfWrite_length (bo : ByteOrder) (vt : CInt) (buf : Buf) (base start len : Nat) (v : Int)
    (hb : base + (start + len + 7) / 8 ≤ buf.length) : (bfWrite bo vt buf base start len v).length = buf.length := by
  cases bo
  · exact (bfWriteLE_spec vt buf base start len v hb).1
  · exact (bfWriteBE_spec vt buf base start len v hb).1

/-! ### one bit-array write -/

theorem conv_emod (t : CInt) (v : Int) (n : Nat) (h : n ≤ t.width) :
    t.conv v % (2 : Int) ^ n = v % (2 : Int) ^ n := by
  have hd : ((2 : Int) ^ n) ∣ (2 : Int) ^ t.width := by
    refine ⟨(2 : Int) ^ (t.width - n), ?_⟩
    rw [← Int.pow_add]; congr 1; omega
  unfold CInt.conv
  simp only
  split
  · obtain ⟨c, hc⟩ := hd
    rw [hc, Int.sub_mul_emod_self_left, ← hc, Int.emod_emod_of_dvd v ⟨c, hc⟩]
  · exact Int.emod_emod_of_dvd v hd

theorem scalar_size_le_carrier (sc : Scalar) (h : sc.WF) : sc.size ≤ sc.carrier.width := by
  cases sc with
  | int sg sz al =>
    obtain ⟨_, h2, _⟩ := h
    show sz ≤ cWidth sz
    unfold cWidth
    split <;> (try split) <;> (try split) <;> omega
  | real sz al =>
    obtain ⟨h1, _⟩ := h
    show sz ≤ (if sz = 32 then 32 else 64)
    rcases h1 with rfl | rfl <;> simp
  | str => simp [Scalar.size]

theorem toNat_emod_lt (v : Int) (n : Nat) : (v % (2 : Int) ^ n).toNat < 2 ^ n := by
  have hpos : (0 : Int) < (2 : Int) ^ n := Int.pow_pos (by decide)
  have h1 := Int.emod_lt_of_pos v hpos
  have h0 := Int.emod_nonneg v (by omega : (2 : Int) ^ n ≠ 0)
  have : ((v % (2 : Int) ^ n).toNat : Int) < ((2 ^ n : Nat) : Int) := by
    rw [Int.toNat_of_nonneg h0]; simpa using h1
  exact_mod_cast this

/-- what one bit-array write with a run-time start bit does, when its store is inside the buffer -/
structure WroteBits (bo : ByteOrder) (s s' : SerSt) (size : Nat) (x : Nat) : Prop where
  len : s'.buf.length = s.buf.length
  at_ : s'.at_ = u32 (s.at_ + size)
  fits : s.at_ + size ≤ 8 * s.buf.length
  frame : ∀ i, (i < s.at_ ∨ s.at_ + size ≤ i) → bit bo s'.buf i = bit bo s.buf i
  bytes : ∀ k, k < s.at_ / 8 → getB s'.buf k = getB s.buf k
  read : readBits bo s'.buf s.at_ size = x
  leaves : s'.leaves = s.leaves
  oob : s'.oob = false

theorem store_inb (s : SerSt) (b n : Nat) (nb : Buf) (h : (s.store b n nb).oob = false) :
    b + n ≤ s.buf.length ∧ (s.store b n nb).buf = nb := by
  unfold SerSt.store at h ⊢
  by_cases hc : b + n ≤ s.buf.length
  · simp [hc]
  · simp [hc] at h

theorem writeBits_ok (env : SerEnv) (sc : Scalar) (v : Int) (s : SerSt) (hwf : sc.WF) (hstr : sc ≠ .str)
    (hfast : env.fast = true → env.bo = .le) (ha : sc.align % 8 = 0 → s.at_ % 8 = 0)
    (h : (writeBits env sc none v s).oob = false) :
    WroteBits env.bo s (writeBits env sc none v s) sc.size ((v % (2 : Int) ^ sc.size).toNat) := by
  have hsz : 0 < sc.size := by
    cases sc with
    | int sg sz al => exact hwf.1
    | real sz al => rcases hwf.1 with h | h <;> simp [Scalar.size, h]
    | str => exact absurd rfl hstr
  unfold writeBits at h ⊢
  simp only at h ⊢
  by_cases hp : sc.align % 8 = 0 ∧ (sc.size = 8 ∨ sc.size = 16 ∨ sc.size = 32 ∨ sc.size = 64) ∧ env.fast = true
  · -- memcpy fast path (little-endian host)
    rw [if_pos hp] at h ⊢
    have hbo := hfast hp.2.2
    have ha8 := ha hp.1
    obtain ⟨hin, hbuf⟩ := store_inb s _ _ _ h
    have hn : 8 * (sc.size / 8) = sc.size := by rcases hp.2.1 with e | e | e | e <;> rw [e]
    have hA : 8 * (s.at_ / 8) = s.at_ := by omega
    refine ⟨?_, rfl, by omega, ?_, ?_, ?_, ?_, h⟩
    · show (s.store _ _ _).buf.length = _
      rw [hbuf, memcpyLE_length]
    · intro i hi
      show bit env.bo (s.store _ _ _).buf i = _
      rw [hbuf, hbo]
      simp only [bit, bitLE]
      rw [memcpyLE_frame _ _ _ _ _ (by omega)]
    · intro k hk
      show getB (s.store _ _ _).buf k = _
      rw [hbuf, memcpyLE_frame _ _ _ _ _ (by omega)]
    · show readBits env.bo (s.store _ _ _).buf s.at_ sc.size = _
      rw [hbuf, hbo]
      simp only [readBits]
      have := readLE_memcpy s.buf (s.at_ / 8) (sc.size / 8) ((v % (2 : Int) ^ sc.size).toNat) hin
      rw [hA, hn] at this
      rw [this, Nat.mod_eq_of_lt (toNat_emod_lt v sc.size)]
    · show (s.store _ _ _).leaves = _
      unfold SerSt.store; split <;> rfl
  · rw [if_neg hp] at h ⊢
    have hst : s.at_ % 8 / 8 = 0 := by omega
    obtain ⟨hin, hbuf⟩ := store_inb s _ _ _ h
    rw [hst] at hin
    have hb : s.at_ / 8 + (s.at_ % 8 + sc.size + 7) / 8 ≤ s.buf.length := by omega
    have hA : 8 * (s.at_ / 8) + s.at_ % 8 = s.at_ := by omega
    refine ⟨?_, rfl, by omega, ?_, ?_, ?_, ?_, h⟩
    · show (s.store _ _ _).buf.length = _
      rw [hbuf, bfWrite_length _ _ _ _ _ _ _ hb]
    · intro i hi
      show bit env.bo (s.store _ _ _).buf i = _
      rw [hbuf]
      exact bit_bfWrite_frame env.bo _ s.buf _ _ _ _ hb i (by omega)
    · intro k hk
      show getB (s.store _ _ _).buf k = _
      rw [hbuf]
      exact bfWrite_frame env.bo _ s.buf _ _ _ _ k (by omega)
    · show readBits env.bo (s.store _ _ _).buf s.at_ sc.size = _
      rw [hbuf]
      have := read_write env.bo sc.carrier s.buf (s.at_ / 8) (s.at_ % 8) sc.size (sc.carrier.conv v) hb
      rw [hA] at this
      rw [this, conv_emod _ _ _ (scalar_size_le_carrier sc hwf)]
    · show (s.store _ _ _).leaves = _
      unfold SerSt.store; split <;> rfl

/-! ### one string write -/

theorem memcpyBytes_length : ∀ (l : List Nat) (buf : Buf) (b : Nat), (memcpyBytes l buf b).length = buf.length
  | [], _, _ => rfl
  | x :: xs, buf, b => by simp only [memcpyBytes]; rw [memcpyBytes_length xs]; simp

theorem memcpyBytes_get : ∀ (l : List Nat) (buf : Buf) (b : Nat), b + l.length ≤ buf.length →
    ∀ j, j < l.length → getB (memcpyBytes l buf b) (b + j) = l.getD j 0
  | [], _, _, _, j, hj => by simp at hj
  | x :: xs, buf, b, hb, j, hj => by
    simp only [memcpyBytes]
    simp only [List.length_cons] at hb hj
    cases j with
    | zero =>
      rw [memcpyBytes_frame xs _ (b + 1) (b + 0) (by omega)]
      simp only [Nat.add_zero, List.getD_cons_zero]
      exact getB_setB_same (by omega)
    | succ j =>
      have := memcpyBytes_get xs (setB buf b x) (b + 1) (by simp; omega) j (by omega)
      have e : b + (j + 1) = b + 1 + j := by omega
      rw [e, this]; simp

/-- a NUL-terminated string `bytes` sits at byte `b` -/
structure StrAt (buf : Buf) (b : Nat) (bytes : List Nat) : Prop where
  inb : b + bytes.length < buf.length
  body : ∀ j, j < bytes.length → getB buf (b + j) = bytes.getD j 0
  nul : getB buf (b + bytes.length) = 0

theorem readCStr_of : ∀ (bytes : List Nat) (buf : Buf) (fuel b : Nat), StrAt buf b bytes → (∀ x ∈ bytes, x ≠ 0) →
    bytes.length < fuel → readCStr buf fuel b = some bytes
  | [], buf, fuel, b, h, _, hf => by
    cases fuel with
    | zero => omega
    | succ fuel =>
      have h1 := h.inb; have h2 := h.nul
      simp only [List.length_nil, Nat.add_zero] at h1 h2
      simp only [readCStr, h2]
      rw [if_neg (by omega)]; simp
  | x :: xs, buf, fuel, b, h, hnz, hf => by
    cases fuel with
    | zero => omega
    | succ fuel =>
      have h1 := h.inb
      have hx : getB buf b = x := by have := h.body 0 (by simp); simpa using this
      have hx0 : x ≠ 0 := hnz x (by simp)
      simp only [List.length_cons] at h1 hf
      have ih := readCStr_of xs buf fuel (b + 1)
        ⟨by omega,
         fun j hj => by
           have := h.body (j + 1) (by simp; omega)
           have e : b + (j + 1) = b + 1 + j := by omega
           rw [e] at this; simpa using this,
         by have := h.nul; simp only [List.length_cons] at this; rw [← this]; congr 1; omega⟩
        (fun y hy => hnz y (by simp [hy])) (by omega)
      simp only [readCStr, hx]
      rw [if_neg (by omega), if_neg hx0, ih]; rfl

structure WroteStr (s s' : SerSt) (bytes : List Nat) : Prop where
  len : s'.buf.length = s.buf.length
  at_ : s'.at_ = u32 (s.at_ + u32 (8 * u32 (bytes.length + 1)))
  fits : s.at_ / 8 + (bytes.length + 1) ≤ s.buf.length
  bytesFrame : ∀ k, (k < s.at_ / 8 ∨ s.at_ / 8 + (bytes.length + 1) ≤ k) → getB s'.buf k = getB s.buf k
  str : StrAt s'.buf (s.at_ / 8) bytes
  leaves : s'.leaves = s.leaves
  oob : s'.oob = false

theorem writeStr_ok (bytes : List Nat) (s : SerSt) (h : (writeStr bytes s).oob = false) :
    WroteStr s (writeStr bytes s) bytes := by
  unfold writeStr at h ⊢
  simp only at h ⊢
  obtain ⟨hin, hbuf⟩ := store_inb s _ _ _ h
  have hl : (bytes ++ [0]).length = bytes.length + 1 := by simp
  refine ⟨?_, rfl, hin, ?_, ?_, ?_, h⟩
  · show (s.store _ _ _).buf.length = _
    rw [hbuf, memcpyBytes_length]
  · intro k hk
    show getB (s.store _ _ _).buf k = _
    rw [hbuf]
    exact memcpyBytes_frame _ _ _ _ (by rw [hl]; exact hk)
  · show StrAt (s.store _ _ _).buf _ _
    rw [hbuf]
    refine ⟨by rw [memcpyBytes_length]; omega, ?_, ?_⟩
    · intro j hj
      rw [memcpyBytes_get _ _ _ (by rw [hl]; exact hin) j (by rw [hl]; omega)]
      simp [List.getD_eq_getElem?_getD, List.getElem?_append_left hj]
    · rw [memcpyBytes_get _ _ _ (by rw [hl]; exact hin) bytes.length (by rw [hl]; omega)]
      simp [List.getD_eq_getElem?_getD]
  · show (s.store _ _ _).leaves = _
    unfold SerSt.store; split <;> rfl

/-! ### positions: the reader's alignment is the writer's `_ALIGN` while nothing wraps -/

theorem alignNat_ge (a al : Nat) (hal : 0 < al) : a ≤ alignNat a al := by
  unfold alignNat
  have h1 := Nat.div_add_mod (a + (al - 1)) al
  have h2 := Nat.mod_lt (a + (al - 1)) hal
  rw [Nat.mul_comm] at h1
  omega

theorem alignNat_lt (a al : Nat) (hal : 0 < al) : alignNat a al < a + al := by
  unfold alignNat
  have h1 := Nat.div_add_mod (a + (al - 1)) al
  rw [Nat.mul_comm] at h1
  omega

theorem alignNat_le_mult (a al m : Nat) (hal : 0 < al) (h : a ≤ m * al) : alignNat a al ≤ m * al := by
  unfold alignNat
  apply Nat.mul_le_mul_right
  have : a + (al - 1) < (m + 1) * al := by rw [Nat.add_mul]; omega
  exact Nat.lt_succ_iff.mp ((Nat.div_lt_iff_lt_mul hal).mpr this)

theorem alignNat_idem (a al : Nat) (hal : 0 < al) : alignNat (alignNat a al) al = alignNat a al := by
  apply Nat.le_antisymm
  · exact alignNat_le_mult _ al _ hal (by unfold alignNat; exact Nat.le_refl _)
  · exact alignNat_ge _ _ hal

theorem alignNat_one (a : Nat) : alignNat a 1 = a := by simp [alignNat]

theorem alignNat_mod8 (a al : Nat) (h : al % 8 = 0) : alignNat a al % 8 = 0 := by
  unfold alignNat; exact mul_mod8_of _ _ h

theorem alignUp_eq (a al : Nat) (h : a + (al - 1) < 2 ^ 32) : alignUp a al = alignNat a al := by
  unfold alignUp alignNat; rw [Nat.mod_eq_of_lt h]

/-- `a` is at most one alignment (to `A`) above a position `w` inside the buffer of `L` bytes -/
def Pos (L A a : Nat) : Prop := ∃ w, w ≤ 8 * L ∧ w ≤ a ∧ a ≤ alignNat w A

theorem Pos.lt (L A a : Nat) (hA : 0 < A) (h : Pos L A a) : a < 8 * L + A := by
  obtain ⟨w, h1, _, h3⟩ := h
  have := alignNat_lt w A hA
  omega

theorem Pos.of_le (L A a : Nat) (hA : 0 < A) (h : a ≤ 8 * L) : Pos L A a :=
  ⟨a, h, Nat.le_refl _, alignNat_ge a A hA⟩

/-- the alignment operation the builder emits for alignment `al` -/
def alOp (al : Nat) : Option Nat := if al > 1 then some al else none

theorem tryAlign_snd (inArr : Bool) (oib : Option Nat) (al : Nat) : (tryAlign inArr oib al).2 = alOp al := rfl

/-- one alignment step: no wrap, the reader's position, and the invariant is kept -/
theorem align_step (L A al : Nat) (s : SerSt) (hA : 0 < A) (hal : 0 < al) (hdvd : ∃ c, A = c * al)
    (hsmall : 8 * L + 2 * A ≤ 2 ^ 32) (hp : Pos L A s.at_) :
    (serAlign (alOp al) s).at_ = alignNat s.at_ al ∧ Pos L A (alignNat s.at_ al) := by
  obtain ⟨c, hc⟩ := hdvd
  have hle : al ≤ A := by
    rw [hc]
    cases c with
    | zero => simp at hc; omega
    | succ c => rw [Nat.succ_mul]; omega
  have hlt := Pos.lt L A s.at_ hA hp
  constructor
  · unfold alOp
    by_cases h1 : al > 1
    · simp only [h1, if_true, serAlign]
      exact alignUp_eq _ _ (by omega)
    · have : al = 1 := by omega
      subst this
      simp [serAlign, alignNat_one]
  · obtain ⟨w, h1, h2, h3⟩ := hp
    refine ⟨w, h1, Nat.le_trans h2 (alignNat_ge _ _ hal), ?_⟩
    have hm : alignNat w A = ((w + (A - 1)) / A * c) * al := by
      unfold alignNat; rw [Nat.mul_assoc, ← hc]
    rw [hm] at h3 ⊢
    exact alignNat_le_mult _ al _ hal h3

/-! ### buffers that agree below a position -/

structure PrefixEq (bo : ByteOrder) (p : Nat) (b1 b2 : Buf) : Prop where
  len : b2.length = b1.length
  bits : ∀ i, i < p → bit bo b2 i = bit bo b1 i
  bytes : ∀ k, k < p / 8 → getB b2 k = getB b1 k

theorem PrefixEq.refl (bo : ByteOrder) (p : Nat) (b : Buf) : PrefixEq bo p b b := ⟨rfl, fun _ _ => rfl, fun _ _ => rfl⟩

theorem PrefixEq.trans {bo : ByteOrder} {p p' : Nat} {b1 b2 b3 : Buf} (h1 : PrefixEq bo p b1 b2)
    (h2 : PrefixEq bo p' b2 b3) (hle : p ≤ p') : PrefixEq bo p b1 b3 :=
  ⟨h2.len.trans h1.len, fun i hi => (h2.bits i (by omega)).trans (h1.bits i hi),
   fun k hk => (h2.bytes k (by omega)).trans (h1.bytes k hk)⟩

theorem PrefixEq.mono {bo : ByteOrder} {p q : Nat} {b1 b2 : Buf} (h : PrefixEq bo p b1 b2) (hle : q ≤ p) :
    PrefixEq bo q b1 b2 :=
  ⟨h.len, fun i hi => h.bits i (by omega), fun k hk => h.bytes k (by omega)⟩

theorem bit_of_byte (bo : ByteOrder) (b1 b2 : Buf) (i : Nat) (h : getB b2 (i / 8) = getB b1 (i / 8)) :
    bit bo b2 i = bit bo b1 i := by
  cases bo <;> simp only [bit, bitLE, bitBE, h]

/-! ### the reader on buffers that agree on what it reads -/

theorem readCStr_congr (b1 b2 : Buf) (hl : b2.length = b1.length) : ∀ (fuel b : Nat) (bytes : List Nat),
    readCStr b1 fuel b = some bytes → (∀ k, b ≤ k → k ≤ b + bytes.length → getB b2 k = getB b1 k) →
    readCStr b2 fuel b = some bytes
  | 0, _, _, h, _ => by simp [readCStr] at h
  | fuel + 1, b, bytes, h, hk => by
    simp only [readCStr] at h ⊢
    rw [hl]
    by_cases hb : b ≥ b1.length
    · simp [hb] at h
    · rw [if_neg hb] at h ⊢
      have h0 : getB b2 b = getB b1 b := hk b (Nat.le_refl _) (by omega)
      rw [h0]
      by_cases hz : getB b1 b = 0
      · rw [if_pos hz] at h ⊢; exact h
      · rw [if_neg hz] at h ⊢
        cases hr : readCStr b1 fuel (b + 1) with
        | none => simp [hr] at h
        | some rest =>
          simp only [hr, Option.map_some, Option.some.injEq] at h
          subst h
          rw [readCStr_congr b1 b2 hl fuel (b + 1) rest hr
            (fun k h1 h2 => hk k (by omega) (by simp only [List.length_cons]; omega))]
          rfl

theorem tsdl_align (sc : Scalar) : (tsdlScalar sc).align = sc.align := by cases sc <;> rfl

theorem readScalar_mono (bo : ByteOrder) (buf : Buf) (limit : Nat) (t : TScalar) (a a' : Nat) (l : Leaf)
    (hal : 0 < t.align) (h : readScalar bo buf limit t a = some (l, a')) : a ≤ a' := by
  have hge := alignNat_ge a t.align hal
  unfold readScalar at h
  cases t with
  | int sg sz al =>
    simp only at h
    split at h
    · simp only [Option.some.injEq, Prod.mk.injEq] at h; omega
    · simp at h
  | float m e al =>
    simp only at h
    split at h
    · simp only [Option.some.injEq, Prod.mk.injEq] at h; omega
    · simp at h
  | str =>
    simp only at h
    split at h
    · split at h
      · simp only [Option.some.injEq, Prod.mk.injEq] at h; omega
      · simp at h
    · simp at h

theorem readScalar_congr (bo : ByteOrder) (b1 b2 : Buf) (limit : Nat) (t : TScalar) (a a' : Nat) (l : Leaf)
    (h : readScalar bo b1 limit t a = some (l, a')) (hp : PrefixEq bo a' b1 b2) :
    readScalar bo b2 limit t a = some (l, a') := by
  unfold readScalar at h ⊢
  cases t with
  | int sg sz al =>
    simp only at h ⊢
    split at h
    · rename_i hc
      simp only [Option.some.injEq, Prod.mk.injEq] at h
      rw [if_pos hc, readBits_congr bo b2 b1 sz _ (fun i h1 h2 => hp.bits i (by omega))]
      simp [h.1, h.2]
    · simp at h
  | float m e al =>
    simp only at h ⊢
    split at h
    · rename_i hc
      simp only [Option.some.injEq, Prod.mk.injEq] at h
      rw [if_pos hc, readBits_congr bo b2 b1 (m + e) _ (fun i h1 h2 => hp.bits i (by omega))]
      simp [h.1, h.2]
    · simp at h
  | str =>
    simp only at h ⊢
    rw [hp.len]
    cases hr : readCStr b1 (b1.length + 1) (alignNat a TScalar.str.align / 8) with
    | none => simp [hr] at h
    | some bytes =>
      simp only [hr] at h
      split at h
      · rename_i hc
        simp only [Option.some.injEq, Prod.mk.injEq] at h
        rw [readCStr_congr b1 b2 hp.len _ _ bytes hr (fun k h1 h2 => hp.bytes k (by
          have hm : alignNat a TScalar.str.align % 8 = 0 := alignNat_mod8 _ _ rfl
          omega))]
        simp only [hc, if_true]
        simp [h.1, h.2]
      · simp at h

theorem readMany_congr (bo : ByteOrder) (b1 b2 : Buf) (limit : Nat) (t : TScalar) (hal : 0 < t.align) :
    ∀ (n a a' : Nat) (ls : List Leaf), readMany bo b1 limit t n a = some (ls, a') → PrefixEq bo a' b1 b2 →
      readMany bo b2 limit t n a = some (ls, a') ∧ a ≤ a'
  | 0, a, a', ls, h, _ => by
    simp only [readMany, Option.some.injEq, Prod.mk.injEq] at h
    exact ⟨by simp [readMany, h.1, h.2], by omega⟩
  | n + 1, a, a', ls, h, hp => by
    simp only [readMany] at h ⊢
    cases h1 : readScalar bo b1 limit t a with
    | none => simp [h1] at h
    | some r =>
      obtain ⟨l, a1⟩ := r
      simp only [h1] at h
      cases h2 : readMany bo b1 limit t n a1 with
      | none => simp [h2] at h
      | some r2 =>
        obtain ⟨ls2, a2⟩ := r2
        simp only [h2, Option.map_some, Option.some.injEq, Prod.mk.injEq] at h
        obtain ⟨rfl, rfl⟩ := h
        obtain ⟨ih, hle⟩ := readMany_congr bo b1 b2 limit t hal n a1 a2 ls2 h2 hp
        have hm := readScalar_mono bo b1 limit t a a1 l hal h1
        rw [readScalar_congr bo b1 b2 limit t a a1 l h1 (hp.mono hle)]
        simp only [ih, Option.map_some]
        exact ⟨trivial, by omega⟩

/-! ### one scalar: align, write, read back -/

theorem pop_fst (s : SerSt) : s.pop.1 = s.leaves.headD (.num 0) := by
  unfold SerSt.pop; cases s.leaves <;> rfl
theorem pop_leaves (s : SerSt) : s.pop.2.leaves = s.leaves.tail := by
  unfold SerSt.pop; cases h : s.leaves <;> simp [h]
theorem pop_buf (s : SerSt) : s.pop.2.buf = s.buf := by
  unfold SerSt.pop; cases s.leaves <;> rfl
theorem pop_oob (s : SerSt) : s.pop.2.oob = s.oob := by
  unfold SerSt.pop; cases s.leaves <;> rfl

theorem serAlign_buf (al : Option Nat) (s : SerSt) : (serAlign al s).buf = s.buf := by cases al <;> rfl
theorem serAlign_leaves (al : Option Nat) (s : SerSt) : (serAlign al s).leaves = s.leaves := by cases al <;> rfl
theorem serAlign_oob (al : Option Nat) (s : SerSt) : (serAlign al s).oob = s.oob := by cases al <;> rfl

/-- hypotheses shared by every step of the serialisation of one root structure -/
structure Frame (env : SerEnv) (L A : Nat) : Prop where
  fast : env.fast = true → env.bo = .le
  Apos : 0 < A
  small : 8 * L + 2 * A ≤ 2 ^ 32

/-- the result of serialising something from `s` to `s'` -/
structure Step (env : SerEnv) (L A : Nat) (s s' : SerSt) : Prop where
  len : s'.buf.length = L
  pos : Pos L A s'.at_
  mono : s.at_ ≤ s'.at_
  pre : PrefixEq env.bo s.at_ s.buf s'.buf

theorem leaf_roundtrip (env : SerEnv) (L A : Nat) (F : Frame env L A) (sc : Scalar) (s : SerSt) (hwf : sc.WF)
    (hdvd : ∃ c, A = c * sc.align) (hL : s.buf.length = L) (hp : Pos L A s.at_)
    (hok : LeafOK (s.leaves.headD (.num 0)))
    (h : (serWrite env ⟨.arg, sc, none⟩ (serAlign (alOp sc.align) s)).oob = false) :
    let s' := serWrite env ⟨.arg, sc, none⟩ (serAlign (alOp sc.align) s)
    Step env L A s s' ∧ s'.leaves = s.leaves.tail ∧
    readScalar env.bo s'.buf (8 * L) (tsdlScalar sc) s.at_ = some (decLeaf sc (s.leaves.headD (.num 0)), s'.at_) := by
  have hal : 0 < sc.align := by
    cases sc with
    | int sg sz al => obtain ⟨_, _, k, hk⟩ := hwf; show 0 < al; rw [hk]; exact Nat.two_pow_pos k
    | real sz al => obtain ⟨_, k, hk⟩ := hwf; show 0 < al; rw [hk]; exact Nat.two_pow_pos k
    | str => decide
  obtain ⟨hat, hpos⟩ := align_step L A sc.align s F.Apos hal hdvd F.small hp
  have hge := alignNat_ge s.at_ sc.align hal
  -- the state the write starts from
  generalize hs1 : serAlign (alOp sc.align) s = s1 at h hat ⊢
  have hb1 : s1.buf = s.buf := by rw [← hs1, serAlign_buf]
  have hl1 : s1.leaves = s.leaves := by rw [← hs1, serAlign_leaves]
  have hpa : s1.pop.2.at_ = alignNat s.at_ sc.align := by rw [pop_at, hat]
  have hpb : s1.pop.2.buf = s.buf := by rw [pop_buf, hb1]
  have hlt := Pos.lt L A _ F.Apos hpos
  have hsm := F.small
  have hA := F.Apos
  cases sc with
  | str =>
    simp only [serWrite] at h ⊢
    have W := writeStr_ok s1.pop.1.bytes s1.pop.2 h
    have hb := W.fits
    rw [hpa, hpb, hL] at hb
    have hm8 : alignNat s.at_ Scalar.str.align % 8 = 0 := alignNat_mod8 _ _ rfl
    have hatf : (writeStr s1.pop.1.bytes s1.pop.2).at_ = alignNat s.at_ Scalar.str.align + 8 * (s1.pop.1.bytes.length + 1) := by
      rw [W.at_, hpa]; simp only [u32]; omega
    have hbytes : s1.pop.1.bytes = (s.leaves.headD (.num 0)).bytes := by rw [pop_fst, hl1]
    refine ⟨⟨by rw [W.len, hpb, hL], ?_, by rw [hatf]; omega, ?_⟩, by rw [W.leaves, pop_leaves, hl1], ?_⟩
    · rw [hatf]; exact Pos.of_le L A _ F.Apos (by omega)
    · refine ⟨by rw [W.len, hpb], ?_, ?_⟩
      · intro i hi
        rw [← hpb]
        exact bit_of_byte env.bo _ _ i (W.bytesFrame _ (Or.inl (by rw [hpa]; omega)))
      · intro k hk
        rw [← hpb]
        exact W.bytesFrame _ (Or.inl (by rw [hpa]; omega))
    · have hstr := W.str
      rw [hpa] at hstr
      unfold readScalar
      simp only [tsdlScalar]
      have hrd := readCStr_of _ _ ((writeStr s1.pop.1.bytes s1.pop.2).buf.length + 1) _ hstr
        (by rw [hbytes]; exact hok) (by rw [W.len, hpb, hL]; omega)
      simp only [TScalar.align, Scalar.align] at hrd hatf hb ⊢
      rw [hrd]
      have hc : alignNat s.at_ 8 + 8 * (s1.pop.1.bytes.length + 1) ≤ 8 * L := by
        simp only [Scalar.align] at hm8; omega
      rw [hbytes] at hc hatf
      simp only [hbytes, hc, if_true, hatf, decLeaf]
  | int sg sz al =>
    simp only [serWrite] at h ⊢
    have W := writeBits_ok env (.int sg sz al) s1.pop.1.toInt s1.pop.2 hwf (by simp) F.fast
      (fun h8 => by rw [hpa]; exact alignNat_mod8 _ _ h8) h
    have hf := W.fits
    rw [hpa, hpb, hL] at hf
    have hatf : (writeBits env (.int sg sz al) none s1.pop.1.toInt s1.pop.2).at_ = alignNat s.at_ al + sz := by
      rw [W.at_, hpa]; simp only [u32, Scalar.size, Scalar.align] at hf ⊢; omega
    refine ⟨⟨by rw [W.len, hpb, hL], ?_, by rw [hatf]; simp only [Scalar.align] at hge; omega, ?_⟩,
      by rw [W.leaves, pop_leaves, hl1], ?_⟩
    · rw [hatf]; exact Pos.of_le L A _ F.Apos (by simpa [Scalar.size, Scalar.align] using hf)
    · refine ⟨by rw [W.len, hpb], ?_, ?_⟩
      · intro i hi
        rw [← hpb]
        exact W.frame i (Or.inl (by rw [hpa]; omega))
      · intro k hk
        rw [← hpb]
        exact W.bytes k (by rw [hpa]; omega)
    · have hr := W.read
      rw [hpa] at hr
      unfold readScalar
      simp only [tsdlScalar, TScalar.align]
      simp only [Scalar.size, Scalar.align] at hf hr
      rw [pop_fst, hl1] at hr hatf
      simp only [hf, if_true, pop_fst, hl1, hr, hatf, decLeaf]
  | real sz al =>
    simp only [serWrite] at h ⊢
    have W := writeBits_ok env (.real sz al) s1.pop.1.toInt s1.pop.2 hwf (by simp) F.fast
      (fun h8 => by rw [hpa]; exact alignNat_mod8 _ _ h8) h
    have hf := W.fits
    rw [hpa, hpb, hL] at hf
    have hatf : (writeBits env (.real sz al) none s1.pop.1.toInt s1.pop.2).at_ = alignNat s.at_ al + sz := by
      rw [W.at_, hpa]; simp only [u32, Scalar.size, Scalar.align] at hf ⊢; omega
    have hme : (if sz = 32 then 24 else 53) + (if sz = 32 then 8 else 11) = sz := by
      rcases hwf.1 with e | e <;> simp [e]
    refine ⟨⟨by rw [W.len, hpb, hL], ?_, by rw [hatf]; simp only [Scalar.align] at hge; omega, ?_⟩,
      by rw [W.leaves, pop_leaves, hl1], ?_⟩
    · rw [hatf]; exact Pos.of_le L A _ F.Apos (by simpa [Scalar.size, Scalar.align] using hf)
    · refine ⟨by rw [W.len, hpb], ?_, ?_⟩
      · intro i hi
        rw [← hpb]
        exact W.frame i (Or.inl (by rw [hpa]; omega))
      · intro k hk
        rw [← hpb]
        exact W.bytes k (by rw [hpa]; omega)
    · have hr := W.read
      rw [hpa] at hr
      unfold readScalar
      simp only [tsdlScalar, TScalar.align]
      simp only [Scalar.size, Scalar.align] at hf hr
      rw [pop_fst, hl1] at hr hatf
      simp only [hme, hf, if_true, pop_fst, hl1, hr, hatf, decLeaf]

/-! ### out-of-bounds is sticky -/

theorem store_oob_mono (s : SerSt) (b n : Nat) (nb : Buf) (h : s.oob = true) : (s.store b n nb).oob = true := by
  unfold SerSt.store; split <;> simp [h]

theorem writeBits_oob_mono (env : SerEnv) (sc : Scalar) (o : Option Nat) (v : Int) (s : SerSt) (h : s.oob = true) :
    (writeBits env sc o v s).oob = true := by
  unfold writeBits
  simp only
  split
  · exact store_oob_mono _ _ _ _ h
  · exact store_oob_mono _ _ _ _ h

theorem writeStr_oob_mono (bytes : List Nat) (s : SerSt) (h : s.oob = true) : (writeStr bytes s).oob = true := by
  unfold writeStr; exact store_oob_mono _ _ _ _ h

theorem serWrite_oob_mono (env : SerEnv) (w : Write) (s : SerSt) (h : s.oob = true) : (serWrite env w s).oob = true := by
  obtain ⟨src, sc, o⟩ := w
  have hp : s.pop.2.oob = true := by rw [pop_oob]; exact h
  cases src <;> simp only [serWrite] <;> try (exact writeBits_oob_mono env sc o _ s h)
  · cases sc with
    | str => exact writeStr_oob_mono _ _ hp
    | int sg sz al => exact writeBits_oob_mono _ _ _ _ _ hp
    | real sz al => exact writeBits_oob_mono _ _ _ _ _ hp
  · exact h
  · exact store_oob_mono _ _ _ _ h

theorem iterN_oob_mono (f : SerSt → SerSt) (hf : ∀ s, s.oob = true → (f s).oob = true) :
    ∀ (n : Nat) (s : SerSt), s.oob = true → (iterN f n s).oob = true
  | 0, _, h => h
  | n + 1, s, h => iterN_oob_mono f hf n (f s) (hf s h)

theorem serElem_oob_mono (env : SerEnv) : ∀ (op : EOp) (s : SerSt), s.oob = true → (serElem env op s).oob = true
  | .leaf al w, s, h => serWrite_oob_mono env w _ (by rw [serAlign_oob]; exact h)
  | .loop al n body, s, h =>
    iterN_oob_mono _ (serElem_oob_mono env body) n _ (by rw [serAlign_oob]; exact h)

theorem oob_false_of (f : SerSt → SerSt) (hf : ∀ s, s.oob = true → (f s).oob = true) (s : SerSt)
    (h : (f s).oob = false) : s.oob = false := by
  cases ho : s.oob with
  | false => rfl
  | true => rw [hf s ho] at h; exact absurd h (by simp)

/-! ### leaves -/

theorem tail_drop (ls : List Leaf) (a : Nat) : ls.tail.drop a = ls.drop (a + 1) := by
  cases ls <;> simp

theorem takePad_add : ∀ (a b : Nat) (ls : List Leaf), takePad (a + b) ls = takePad a ls ++ takePad b (ls.drop a)
  | 0, b, ls => by simp [takePad]
  | a + 1, b, ls => by
    have e : a + 1 + b = (a + b) + 1 := by omega
    rw [e]
    simp only [takePad, List.cons_append]
    rw [takePad_add a b ls.tail, tail_drop]

theorem takePad_length : ∀ (k : Nat) (ls : List Leaf), (takePad k ls).length = k
  | 0, _ => rfl
  | k + 1, ls => by simp [takePad, takePad_length k]

/-! ### the reader over several scalars -/

theorem readScalar_prealign (bo : ByteOrder) (buf : Buf) (limit : Nat) (t : TScalar) (a : Nat) (hal : 0 < t.align) :
    readScalar bo buf limit t (alignNat a t.align) = readScalar bo buf limit t a := by
  unfold readScalar
  rw [alignNat_idem a t.align hal]

theorem readMany_prealign (bo : ByteOrder) (buf : Buf) (limit : Nat) (t : TScalar) (k a : Nat) (hal : 0 < t.align)
    (h : k ≥ 1 ∨ alignNat a t.align = a) :
    readMany bo buf limit t k (alignNat a t.align) = readMany bo buf limit t k a := by
  rcases h with h | h
  · cases k with
    | zero => omega
    | succ k => simp only [readMany, readScalar_prealign bo buf limit t a hal]
  · rw [h]

theorem readMany_add (bo : ByteOrder) (buf : Buf) (limit : Nat) (t : TScalar) : ∀ (k1 k2 a : Nat),
    readMany bo buf limit t (k1 + k2) a =
      match readMany bo buf limit t k1 a with
      | none => none
      | some (l1, a1) => (readMany bo buf limit t k2 a1).map fun r => (l1 ++ r.1, r.2)
  | 0, k2, a => by
    simp only [Nat.zero_add, readMany]
    cases readMany bo buf limit t k2 a with
    | none => rfl
    | some r => simp
  | k1 + 1, k2, a => by
    have e : k1 + 1 + k2 = (k1 + k2) + 1 := by omega
    rw [e]
    simp only [readMany]
    cases readScalar bo buf limit t a with
    | none => rfl
    | some r =>
      obtain ⟨l, a1⟩ := r
      simp only
      rw [readMany_add bo buf limit t k1 k2 a1]
      cases readMany bo buf limit t k1 a1 with
      | none => rfl
      | some r1 =>
        obtain ⟨l1, a2⟩ := r1
        simp only [Option.map_some]
        cases readMany bo buf limit t k2 a2 with
        | none => rfl
        | some r2 => simp

/-! ### element types: loops over loops over one scalar -/

/-- the erased operation of an element type: it depends on the type only -/
def plainElem : Elem → EOp
  | .sc sc => .leaf (alOp sc.align) ⟨.arg, sc, none⟩
  | .sarr n e => .loop (alOp e.align) n (plainElem e)

theorem buildElem_erase : ∀ (e : Elem) (level : Nat) (oib : Option Nat),
    (buildElem .arg e level oib).1.erase = plainElem e
  | .sc sc, level, oib => rfl
  | .sarr n e, level, oib => by
    simp only [buildElem, EOp.erase, plainElem, tryAlign_snd]
    rw [buildElem_erase e]

/-- what serialising `k` leaves of scalar type `sc` from `s` to `s'` achieves, as seen by the reader -/
structure Wrote (env : SerEnv) (L A : Nat) (sc : Scalar) (k : Nat) (s s' : SerSt) : Prop where
  step : Step env L A s s'
  leaves : s'.leaves = s.leaves.drop k
  read : readMany env.bo s'.buf (8 * L) (tsdlScalar sc) k (alignNat s.at_ sc.align) =
    some ((takePad k s.leaves).map (decLeaf sc), s'.at_)

/-- precondition of a serialisation step -/
structure Pre (L A : Nat) (s : SerSt) : Prop where
  len : s.buf.length = L
  pos : Pos L A s.at_
  ok : ∀ l ∈ s.leaves, LeafOK l

theorem LeafOK_headD (ls : List Leaf) (h : ∀ l ∈ ls, LeafOK l) : LeafOK (ls.headD (.num 0)) := by
  cases ls with
  | nil => intro x hx; simp [Leaf.bytes] at hx
  | cons a r => exact h a (by simp)

theorem Step.trans {env : SerEnv} {L A : Nat} {s1 s2 s3 : SerSt} (h1 : Step env L A s1 s2) (h2 : Step env L A s2 s3) :
    Step env L A s1 s3 :=
  ⟨h2.len, h2.pos, Nat.le_trans h1.mono h2.mono, h1.pre.trans h2.pre h1.mono⟩

theorem scalar_align_pos (sc : Scalar) (hwf : sc.WF) : 0 < sc.align := by
  cases sc with
  | int sg sz al => obtain ⟨_, _, k, hk⟩ := hwf; show 0 < al; rw [hk]; exact Nat.two_pow_pos k
  | real sz al => obtain ⟨_, k, hk⟩ := hwf; show 0 < al; rw [hk]; exact Nat.two_pow_pos k
  | str => decide

/-- `n` iterations of a body that serialises `k` leaves each -/
theorem loop_roundtrip (env : SerEnv) (L A : Nat) (sc : Scalar) (hwf : sc.WF) (k : Nat) (body : SerSt → SerSt)
    (hmono : ∀ s, s.oob = true → (body s).oob = true)
    (hbody : ∀ s, Pre L A s → (body s).oob = false → Wrote env L A sc k s (body s)) :
    ∀ (n : Nat) (s : SerSt), Pre L A s → (k ≥ 1 ∨ alignNat s.at_ sc.align = s.at_) → (iterN body n s).oob = false →
      Step env L A s (iterN body n s) ∧ (iterN body n s).leaves = s.leaves.drop (n * k) ∧
      readMany env.bo (iterN body n s).buf (8 * L) (tsdlScalar sc) (n * k) s.at_ =
        some ((takePad (n * k) s.leaves).map (decLeaf sc), (iterN body n s).at_)
  | 0, s, hpre, _, _ => by
    simp only [iterN, Nat.zero_mul, List.drop_zero, readMany, takePad, List.map_nil]
    exact ⟨⟨hpre.len, hpre.pos, Nat.le_refl _, PrefixEq.refl _ _ _⟩, trivial, trivial⟩
  | n + 1, s, hpre, hal, h => by
    have hpos := scalar_align_pos sc hwf
    have htal : 0 < (tsdlScalar sc).align := by rw [tsdl_align]; exact hpos
    simp only [iterN] at h ⊢
    have h1 : (body s).oob = false := oob_false_of (iterN body n) (iterN_oob_mono body hmono n) _ h
    have W := hbody s hpre h1
    have hpre1 : Pre L A (body s) := ⟨W.step.len, W.step.pos, fun l hl => hpre.ok l (by
      rw [W.leaves] at hl; exact List.mem_of_mem_drop hl)⟩
    have hal1 : k ≥ 1 ∨ alignNat (body s).at_ sc.align = (body s).at_ := by
      by_cases hk : k ≥ 1
      · exact Or.inl hk
      · right
        have hk0 : k = 0 := by omega
        have hr := W.read
        rw [hk0] at hr
        simp only [readMany, takePad, List.map_nil, Option.some.injEq, Prod.mk.injEq, true_and] at hr
        rw [← hr, alignNat_idem _ _ hpos]
    obtain ⟨st, hl, hr⟩ := loop_roundtrip env L A sc hwf k body hmono hbody n (body s) hpre1 hal1 h
    refine ⟨W.step.trans st, ?_, ?_⟩
    · rw [hl, W.leaves, List.drop_drop]; congr 1; rw [Nat.succ_mul]; omega
    · have e : (n + 1) * k = k + n * k := by rw [Nat.succ_mul]; omega
      rw [e, readMany_add]
      have hfirst : readMany env.bo (iterN body n (body s)).buf (8 * L) (tsdlScalar sc) k s.at_ =
          some ((takePad k s.leaves).map (decLeaf sc), (body s).at_) := by
        have := (readMany_congr env.bo (body s).buf (iterN body n (body s)).buf (8 * L) (tsdlScalar sc) htal
          k _ _ _ W.read st.pre).1
        rw [tsdl_align] at htal
        rw [← tsdl_align sc, readMany_prealign _ _ _ _ _ _ (by rw [tsdl_align]; exact hpos)
          (by rw [tsdl_align]; exact hal)] at this
        exact this
      rw [hfirst]
      simp only [hr, Option.map_some, takePad_add, List.map_append, W.leaves]

theorem elem_leaf_align' : ∀ e : Elem, e.leaf.align = e.align
  | .sc _ => rfl
  | .sarr _ e => elem_leaf_align' e

/-- the state after the alignment operation of an array or of a root -/
theorem align_wrote (env : SerEnv) (L A al : Nat) (F : Frame env L A) (s : SerSt) (hal : 0 < al) (hdvd : ∃ c, A = c * al)
    (hpre : Pre L A s) :
    Pre L A (serAlign (alOp al) s) ∧ Step env L A s (serAlign (alOp al) s) ∧
    (serAlign (alOp al) s).at_ = alignNat s.at_ al ∧ (serAlign (alOp al) s).leaves = s.leaves := by
  obtain ⟨hat, hpos⟩ := align_step L A al s F.Apos hal hdvd F.small hpre.pos
  have hb := serAlign_buf (alOp al) s
  have hl := serAlign_leaves (alOp al) s
  refine ⟨⟨by rw [hb]; exact hpre.len, by rw [hat]; exact hpos, by rw [hl]; exact hpre.ok⟩,
    ⟨by rw [hb]; exact hpre.len, by rw [hat]; exact hpos, by rw [hat]; exact alignNat_ge _ _ hal, by rw [hb]; exact PrefixEq.refl _ _ _⟩,
    hat, hl⟩

theorem elem_roundtrip (env : SerEnv) (L A : Nat) (F : Frame env L A) : ∀ (e : Elem), e.leaf.WF → (∃ c, A = c * e.align) →
    ∀ (s : SerSt), Pre L A s → (serElem env (plainElem e) s).oob = false →
      Wrote env L A e.leaf e.leafCount s (serElem env (plainElem e) s)
  | .sc sc, hwf, hdvd, s, hpre, h => by
    simp only [plainElem, serElem, Elem.leaf, Elem.leafCount] at h ⊢
    obtain ⟨st, hl, hr⟩ := leaf_roundtrip env L A F sc s hwf hdvd hpre.len hpre.pos (LeafOK_headD _ hpre.ok) h
    have hpos := scalar_align_pos sc hwf
    refine ⟨st, by rw [hl]; cases s.leaves <;> simp, ?_⟩
    have := readScalar_prealign env.bo (serWrite env ⟨.arg, sc, none⟩ (serAlign (alOp sc.align) s)).buf (8 * L)
      (tsdlScalar sc) s.at_ (by rw [tsdl_align]; exact hpos)
    rw [tsdl_align] at this
    simp only [readMany, this, hr, Option.map_some, takePad, List.map_cons, List.map_nil]
  | .sarr n e, hwf, hdvd, s, hpre, h => by
    simp only [plainElem, serElem, Elem.leaf, Elem.leafCount, Elem.align] at h hwf hdvd ⊢
    have hal : 0 < e.align := by rw [← elem_leaf_align' e]; exact scalar_align_pos _ hwf
    obtain ⟨hpre0, st0, hat0, hl0⟩ := align_wrote env L A e.align F s hal hdvd hpre
    have hidem : alignNat (serAlign (alOp e.align) s).at_ e.leaf.align = (serAlign (alOp e.align) s).at_ := by
      rw [hat0, elem_leaf_align' e, alignNat_idem _ _ hal]
    obtain ⟨st, hl, hr⟩ := loop_roundtrip env L A e.leaf hwf e.leafCount (serElem env (plainElem e))
      (serElem_oob_mono env (plainElem e))
      (fun s' hp' h' => elem_roundtrip env L A F e hwf hdvd s' hp' h') n _ hpre0 (Or.inr hidem) h
    refine ⟨st0.trans st, by rw [hl, hl0], ?_⟩
    rw [elem_leaf_align' e, ← hat0, hr, hl0]

/-! ### members -/

/-- the erased operation of a member (user structures: no UUID member) -/
def plainMember (m : Member) : MOp :=
  match m.ft with
  | .el e => .el m.name (plainElem e)
  | .darr ln e => .dloop m.name (alOp e.align) ln (plainElem e)
  | .uuid => .el m.name (.leaf (alOp 8) ⟨.uuid, .str, none⟩)

theorem buildMember_erase (m : Member) (oib : Option Nat) : (buildMember specNone m oib).1.erase = plainMember m := by
  obtain ⟨name, ft⟩ := m
  cases ft with
  | el e =>
    cases e with
    | sc sc => simp only [buildMember, specNone, Option.getD_none, MOp.erase, plainMember]; rw [buildElem_erase]
    | sarr n e => simp only [buildMember, MOp.erase, plainMember]; rw [buildElem_erase]
  | darr ln e => simp only [buildMember, MOp.erase, plainMember, tryAlign_snd]; rw [buildElem_erase]
  | uuid => rfl

theorem buildMembers_erase : ∀ (ms : List Member) (oib : Option Nat),
    (buildMembers specNone ms oib).1.map MOp.erase = ms.map plainMember
  | [], _ => rfl
  | m :: ms, oib => by
    simp only [buildMembers, List.map_cons, buildMember_erase, buildMembers_erase ms]

theorem lensProduct_lits (scope : List (String × List Leaf)) : ∀ e : Elem, lensProduct scope (elemLens e) = some e.leafCount
  | .sc _ => rfl
  | .sarr n e => by simp [elemLens, lensProduct, lenValue, lensProduct_lits scope e, Elem.leafCount]

theorem elemLens_nil : ∀ e : Elem, elemLens e = [] → ∃ sc, e = .sc sc
  | .sc sc, _ => ⟨sc, rfl⟩
  | .sarr n e, h => by simp [elemLens] at h

theorem Step.of_eq {env : SerEnv} {L A : Nat} {s0 s s' : SerSt} (h : Step env L A s0 s') (ha : s0.at_ = s.at_)
    (hb : s0.buf = s.buf) : Step env L A s s' :=
  ⟨h.len, h.pos, by rw [← ha]; exact h.mono, by rw [← ha, ← hb]; exact h.pre⟩

/-- serialising one member, then reading it back in the scope of the members read before -/
theorem member_roundtrip (env : SerEnv) (L A : Nat) (F : Frame env L A) (pfx : String) (args : Args) (m : Member)
    (scope : List (String × List Leaf)) (s : SerSt)
    (hnu : m.ft ≠ .uuid) (hwf : m.ft.leaf.WF) (hdvd : ∃ c, A = c * m.ft.align)
    (hlen : s.buf.length = L) (hpos : Pos L A s.at_) (hok : ∀ l ∈ args.get (pfx ++ "_" ++ m.name), LeafOK l)
    (hscope : ∀ ln e, m.ft = .darr ln e → lenValue scope (.ref ln) = some (cntOf pfx args ln))
    (h : (serMember env pfx args (plainMember m) s).oob = false) :
    Step env L A s (serMember env pfx args (plainMember m) s) ∧
    readMember env.bo (serMember env pfx args (plainMember m) s).buf (8 * L) scope (tsdlMember m) s.at_ =
      some (decMember pfx args m, (serMember env pfx args (plainMember m) s).at_) := by
  obtain ⟨name, ft⟩ := m
  cases ft with
  | uuid => exact absurd rfl hnu
  | el e =>
    simp only [plainMember, serMember, FT.leaf, FT.align] at h hwf hdvd ⊢
    have hpre : Pre L A ({ s with leaves := args.get (pfx ++ "_" ++ name) } : SerSt) := ⟨hlen, hpos, hok⟩
    have W := elem_roundtrip env L A F e hwf hdvd _ hpre h
    refine ⟨Step.of_eq W.step rfl rfl, ?_⟩
    have hr := W.read
    simp only [readMember, tsdlMember, decMember]
    cases hl : elemLens e with
    | nil =>
      obtain ⟨sc, rfl⟩ := elemLens_nil e hl
      simp only [Elem.leafCount, Elem.leaf, readMany] at hr ⊢
      have hp := readScalar_prealign env.bo (serElem env (plainElem (.sc sc))
        ({ s with leaves := args.get (pfx ++ "_" ++ name) } : SerSt)).buf (8 * L) (tsdlScalar sc) s.at_
        (by rw [tsdl_align]; exact scalar_align_pos sc hwf)
      rw [tsdl_align] at hp
      rw [hp] at hr
      cases hrs : readScalar env.bo (serElem env (plainElem (.sc sc))
          ({ s with leaves := args.get (pfx ++ "_" ++ name) } : SerSt)).buf (8 * L) (tsdlScalar sc) s.at_ with
      | none => simp [hrs] at hr
      | some r =>
        obtain ⟨l, a1⟩ := r
        simp only [hrs, Option.map_some, Option.some.injEq, Prod.mk.injEq] at hr ⊢
        exact hr
    | cons x xs =>
      simp only
      rw [← hl, lensProduct_lits scope e]
      simp only [tsdl_align]
      exact hr
  | darr ln e =>
    simp only [plainMember, serMember, FT.leaf, FT.align] at h hwf hdvd ⊢
    have hal : 0 < e.align := by rw [← elem_leaf_align' e]; exact scalar_align_pos _ hwf
    have hpre : Pre L A ({ s with leaves := args.get (pfx ++ "_" ++ name) } : SerSt) := ⟨hlen, hpos, hok⟩
    obtain ⟨hpre0, st0, hat0, hl0⟩ := align_wrote env L A e.align F _ hal hdvd hpre
    have hidem : alignNat (serAlign (alOp e.align) ({ s with leaves := args.get (pfx ++ "_" ++ name) } : SerSt)).at_
        e.leaf.align = (serAlign (alOp e.align) ({ s with leaves := args.get (pfx ++ "_" ++ name) } : SerSt)).at_ := by
      rw [hat0, elem_leaf_align' e, alignNat_idem _ _ hal]
    obtain ⟨st, _, hr⟩ := loop_roundtrip env L A e.leaf hwf e.leafCount (serElem env (plainElem e))
      (serElem_oob_mono env (plainElem e))
      (fun s' hp' h' => elem_roundtrip env L A F e hwf hdvd s' hp' h') _ _ hpre0 (Or.inr hidem) h
    refine ⟨Step.of_eq (st0.trans st) rfl rfl, ?_⟩
    simp only [readMember, tsdlMember, decMember, lensProduct, hscope ln e rfl, lensProduct_lits scope e, tsdl_align,
      elem_leaf_align' e]
    rw [hat0, hl0] at hr
    exact hr

/-! ### root structures -/

theorem readMember_congr (bo : ByteOrder) (b1 b2 : Buf) (limit : Nat) (scope : List (String × List Leaf)) (m : TMember)
    (hal : 0 < m.ty.align) (a a' : Nat) (ls : List Leaf)
    (h : readMember bo b1 limit scope m a = some (ls, a')) (hp : PrefixEq bo a' b1 b2) :
    readMember bo b2 limit scope m a = some (ls, a') := by
  unfold readMember at h ⊢
  cases hl : m.lens with
  | nil =>
    simp only [hl] at h ⊢
    cases hr : readScalar bo b1 limit m.ty a with
    | none => simp [hr] at h
    | some r =>
      obtain ⟨l, a1⟩ := r
      simp only [hr, Option.map_some, Option.some.injEq, Prod.mk.injEq] at h
      obtain ⟨rfl, rfl⟩ := h
      rw [readScalar_congr bo b1 b2 limit m.ty a a1 l hr hp]
      rfl
  | cons x xs =>
    simp only [hl] at h ⊢
    cases hn : lensProduct scope (x :: xs) with
    | none => simp [hn] at h
    | some n =>
      simp only [hn] at h ⊢
      exact (readMany_congr bo b1 b2 limit m.ty hal n _ a' ls h hp).1

theorem serMember_oob_mono (env : SerEnv) (pfx : String) (args : Args) (m : MOp) (s : SerSt) (h : s.oob = true) :
    (serMember env pfx args m s).oob = true := by
  cases m with
  | el name e => exact serElem_oob_mono env e _ h
  | dloop name al ln body =>
    exact iterN_oob_mono _ (serElem_oob_mono env body) _ _ (by rw [serAlign_oob]; exact h)

theorem foldl_oob_mono (env : SerEnv) (pfx : String) (args : Args) : ∀ (ms : List MOp) (s : SerSt), s.oob = true →
    (ms.foldl (fun a m => serMember env pfx args m a) s).oob = true
  | [], _, h => h
  | m :: ms, s, h => foldl_oob_mono env pfx args ms _ (serMember_oob_mono env pfx args m s h)

theorem tsdlMember_name (m : Member) : (tsdlMember m).name = m.name := by
  obtain ⟨n, ft⟩ := m; cases ft <;> rfl

theorem tsdlMember_align' (m : Member) : (tsdlMember m).ty.align = m.ft.align := by
  obtain ⟨n, ft⟩ := m
  cases ft with
  | el e => simp only [tsdlMember, tsdl_align, elem_leaf_align', FT.align]
  | darr ln e => simp only [tsdlMember, tsdl_align, elem_leaf_align', FT.align]
  | uuid => rfl

/-- what is asked of one member and of its arguments -/
structure MemberOK (A : Nat) (pfx : String) (args : Args) (m : Member) : Prop where
  notUuid : m.ft ≠ .uuid
  wf : m.ft.leaf.WF
  dvd : ∃ c, A = c * m.ft.align
  leaves : ∀ l ∈ args.get (pfx ++ "_" ++ m.name), LeafOK l

/-- every dynamic array finds, among the members decoded before it, its length member holding the number of
    elements the tracer wrote -/
def LenScopeOK (pfx : String) (args : Args) : List Member → List (String × List Leaf) → Prop
  | [], _ => True
  | m :: ms, scope =>
    (∀ ln e, m.ft = .darr ln e → lenValue scope (.ref ln) = some (cntOf pfx args ln)) ∧
    LenScopeOK pfx args ms ((m.name, decMember pfx args m) :: scope)

theorem FT.align_pos (m : Member) (h : m.ft.leaf.WF) : 0 < m.ft.align := by
  obtain ⟨n, ft⟩ := m
  cases ft with
  | el e => show 0 < e.align; rw [← elem_leaf_align' e]; exact scalar_align_pos _ h
  | darr ln e => show 0 < e.align; rw [← elem_leaf_align' e]; exact scalar_align_pos _ h
  | uuid => show 0 < 8; decide

theorem members_roundtrip (env : SerEnv) (L A : Nat) (F : Frame env L A) (pfx : String) (args : Args) :
    ∀ (ms : List Member) (scope : List (String × List Leaf)) (s : SerSt),
      (∀ m ∈ ms, MemberOK A pfx args m) → LenScopeOK pfx args ms scope → s.buf.length = L → Pos L A s.at_ →
      ((ms.map plainMember).foldl (fun a m => serMember env pfx args m a) s).oob = false →
      Step env L A s ((ms.map plainMember).foldl (fun a m => serMember env pfx args m a) s) ∧
      readMembers env.bo ((ms.map plainMember).foldl (fun a m => serMember env pfx args m a) s).buf (8 * L)
          (ms.map tsdlMember) scope s.at_ =
        some (scope.reverse ++ ms.map (fun m => (m.name, decMember pfx args m)),
          ((ms.map plainMember).foldl (fun a m => serMember env pfx args m a) s).at_)
  | [], scope, s, _, _, hlen, hpos, _ => by
    simp only [List.map_nil, List.foldl_nil, readMembers, List.append_nil]
    exact ⟨⟨hlen, hpos, Nat.le_refl _, PrefixEq.refl _ _ _⟩, trivial⟩
  | m :: ms, scope, s, hms, hsc, hlen, hpos, h => by
    simp only [List.map_cons, List.foldl_cons] at h ⊢
    have hm := hms m (by simp)
    have h1 : (serMember env pfx args (plainMember m) s).oob = false :=
      oob_false_of _ (foldl_oob_mono env pfx args (ms.map plainMember)) _ h
    obtain ⟨st1, hr1⟩ := member_roundtrip env L A F pfx args m scope s hm.notUuid hm.wf hm.dvd hlen hpos hm.leaves hsc.1 h1
    obtain ⟨st2, hr2⟩ := members_roundtrip env L A F pfx args ms ((m.name, decMember pfx args m) :: scope) _
      (fun m' hm' => hms m' (by simp [hm'])) hsc.2 st1.len st1.pos h
    refine ⟨st1.trans st2, ?_⟩
    simp only [readMembers]
    rw [readMember_congr env.bo _ _ (8 * L) scope (tsdlMember m)
      (by rw [tsdlMember_align']; exact FT.align_pos m hm.wf) _ _ _ hr1 st2.pre]
    simp only [tsdlMember_name]
    rw [hr2]
    simp

theorem effAlign_eq (S : Struct) : (tsdlStruct S).effAlign = S.align := by
  unfold TStruct.effAlign tsdlStruct Struct.align
  have : ∀ (ms : List Member) (a : Nat),
      (ms.map tsdlMember).foldl (fun a m => max a m.ty.align) a = ms.foldl (fun a m => max a m.ft.align) a := by
    intro ms
    induction ms with
    | nil => intro a; rfl
    | cons m ms ih => intro a; simp only [List.map, List.foldl]; rw [tsdlMember_align', ih]
  exact this S.members S.minAlign

theorem buildRoot_erase (S : Struct) :
    (buildRoot specNone S).erase = { al := alOp S.align, members := S.members.map plainMember } := by
  simp only [buildRoot, RootOp.erase, tryAlign_snd, buildMembers_erase]

theorem leaf_alOK (m : Member) (h : m.ft.leaf.WF) : m.ft.AlOK := by
  obtain ⟨n, ft⟩ := m
  have key : ∀ e : Elem, e.leaf.WF → ∃ j, e.align = 2 ^ j := by
    intro e he
    rw [← elem_leaf_align' e]
    cases hl : e.leaf with
    | int sg sz al => rw [hl] at he; obtain ⟨_, _, k, hk⟩ := he; exact ⟨k, hk⟩
    | real sz al => rw [hl] at he; obtain ⟨_, k, hk⟩ := he; exact ⟨k, hk⟩
    | str => exact ⟨3, rfl⟩
  cases ft with
  | el e => exact key e h
  | darr ln e => exact key e h
  | uuid => trivial

/-- **record-level round trip**: a CTF reader that follows the generated metadata (`tsdlStruct S`) over the buffer into
    which the generated tracer has serialised the root structure `S` (operation tree of `_OpBuilder`, static start
    bits included) returns, member by member, the traced values reduced to their fields, and stops exactly where the
    tracer stopped; nothing below the starting position was modified. -/
theorem struct_roundtrip (env : SerEnv) (pfx : String) (args : Args) (S : Struct) (s : SerSt) (L : Nat)
    (F : Frame env L S.align) (hS : ∃ j, S.align = 2 ^ j) (hms : ∀ m ∈ S.members, MemberOK S.align pfx args m)
    (hsc : LenScopeOK pfx args S.members []) (hlen : s.buf.length = L) (hat : s.at_ ≤ 8 * L)
    (h : (serRoot env pfx (buildRoot specNone S) args s).oob = false) :
    readStruct env.bo (serRoot env pfx (buildRoot specNone S) args s).buf (8 * L) (tsdlStruct S) s.at_ =
      some (S.members.map (fun m => (m.name, decMember pfx args m)), (serRoot env pfx (buildRoot specNone S) args s).at_) ∧
    PrefixEq env.bo s.at_ s.buf (serRoot env pfx (buildRoot specNone S) args s).buf ∧
    s.at_ ≤ (serRoot env pfx (buildRoot specNone S) args s).at_ := by
  have htr := buildRoot_transparent env pfx args specNone S hS
    (fun m hm => ⟨leaf_alOK m (hms m hm).wf, by unfold specOK; split <;> simp [specNone]⟩) s
  rw [htr] at h ⊢
  rw [buildRoot_erase] at h ⊢
  simp only [serRoot] at h ⊢
  have hSpos : 0 < S.align := F.Apos
  obtain ⟨hat0, hpos0⟩ := align_step L S.align S.align s hSpos hSpos ⟨1, by simp⟩ F.small
    (Pos.of_le L S.align s.at_ hSpos hat)
  have hb0 := serAlign_buf (alOp S.align) s
  obtain ⟨st, hr⟩ := members_roundtrip env L S.align F pfx args S.members [] (serAlign (alOp S.align) s) hms hsc
    (by rw [hb0]; exact hlen) (by rw [hat0]; exact hpos0) h
  have hge := alignNat_ge s.at_ S.align hSpos
  refine ⟨?_, ?_, by have := st.mono; rw [hat0] at this; omega⟩
  · unfold readStruct
    rw [effAlign_eq]
    simp only [tsdlStruct]
    rw [hat0] at hr
    rw [hr]; simp
  · have := st.pre
    rw [hat0, hb0] at this
    exact this.mono hge

/-! ### discharging the side conditions -/

theorem foldl_max_ge (f : Member → Nat) : ∀ (ms : List Member) (a : Nat),
    a ≤ ms.foldl (fun a m => max a (f m)) a ∧ ∀ m ∈ ms, f m ≤ ms.foldl (fun a m => max a (f m)) a
  | [], a => ⟨Nat.le_refl _, fun _ h => by simp at h⟩
  | m :: ms, a => by
    obtain ⟨h1, h2⟩ := foldl_max_ge f ms (max a (f m))
    simp only [List.foldl_cons]
    refine ⟨by omega, fun m' hm' => ?_⟩
    rcases List.mem_cons.mp hm' with e | e
    · subst e; omega
    · exact h2 m' e

theorem member_align_le (S : Struct) (m : Member) (hm : m ∈ S.members) : m.ft.align ≤ S.align :=
  (foldl_max_ge (fun m => m.ft.align) S.members S.minAlign).2 m hm

theorem pow2_dvd_of_le (a b : Nat) (ha : ∃ i, a = 2 ^ i) (hb : ∃ j, b = 2 ^ j) (hle : a ≤ b) : ∃ c, b = c * a := by
  obtain ⟨i, rfl⟩ := ha
  obtain ⟨j, rfl⟩ := hb
  have hij : i ≤ j := (Nat.pow_le_pow_iff_right (by decide : 1 < 2)).mp hle
  exact ⟨2 ^ (j - i), by rw [← Nat.pow_add]; congr 1; omega⟩

/-- a member whose leaf scalar is well formed and whose string arguments are C strings meets `MemberOK` in a
    structure whose alignment is a power of two -/
theorem memberOK_of (S : Struct) (hS : ∃ j, S.align = 2 ^ j) (pfx : String) (args : Args) (m : Member) (hm : m ∈ S.members)
    (hnu : m.ft ≠ .uuid) (hwf : m.ft.leaf.WF) (hl : ∀ l ∈ args.get (pfx ++ "_" ++ m.name), LeafOK l) :
    MemberOK S.align pfx args m :=
  ⟨hnu, hwf, by
    have hal := leaf_alOK m hwf
    have hle := member_align_le S m hm
    obtain ⟨n, ft⟩ := m
    cases ft with
    | el e => exact pow2_dvd_of_le _ _ hal hS hle
    | darr ln e => exact pow2_dvd_of_le _ _ hal hS hle
    | uuid => exact absurd rfl hnu, hl⟩

theorem lenScopeOKb_sound (pfx : String) (args : Args) : ∀ (ms : List Member) (scope : List (String × List Leaf)),
    lenScopeOKb pfx args ms scope = true → LenScopeOK pfx args ms scope
  | [], _, _ => trivial
  | m :: ms, scope, h => by
    simp only [lenScopeOKb, Bool.and_eq_true] at h
    refine ⟨?_, lenScopeOKb_sound pfx args ms _ h.2⟩
    intro ln e hft
    have h1 := h.1
    rw [hft] at h1
    simpa using h1

end BVM
