/-
  Proofs/Oib.lean — the static "offset in byte" that `_OpBuilder` (cgen.py) computes at generation time and
  hands to the bit-field macros as their start bit is, at every write of every operation tree it can build,
  equal to `ctx->at % 8` at run time.  Stated as transparency: serialising with the built tree equals
  serialising with the same tree in which every write computes its start bit dynamically (`oib = none`).
-/
import BVM.Model.Ser
namespace BVM

def Write.erase (w : Write) : Write := { w with oib := none }

def EOp.erase : EOp → EOp
  | .leaf al w => .leaf al w.erase
  | .loop al n b => .loop al n b.erase

def MOp.erase : MOp → MOp
  | .el n e => .el n e.erase
  | .dloop n al ln b => .dloop n al ln b.erase

def RootOp.erase (r : RootOp) : RootOp := { r with members := r.members.map MOp.erase }

/-- the tracked offset, when known, is the run-time position modulo 8 -/
def OibOK (o : Option Nat) (a : Nat) : Prop := ∀ k, o = some k → a % 8 = k

theorem OibOK_none (a : Nat) : OibOK none a := by intro k h; cases h

/-! ### arithmetic -/

theorem pow2_cases (j : Nat) : (2 : Nat) ^ j = 1 ∨ (2 : Nat) ^ j = 2 ∨ (2 : Nat) ^ j = 4 ∨ (2 : Nat) ^ j % 8 = 0 := by
  match j with
  | 0 => simp
  | 1 => simp
  | 2 => simp
  | j + 3 =>
    right; right; right
    rw [Nat.pow_add]
    simp

theorem mul_mod8_of (q al : Nat) (h : al % 8 = 0) : (q * al) % 8 = 0 := by
  rw [Nat.mul_mod, h]; simp

theorem alignUp_mod8 (a al : Nat) (h : al % 8 = 0) : alignUp a al % 8 = 0 := by
  unfold alignUp; exact mul_mod8_of _ _ h

theorem pyAlign_mod8 (k al : Nat) (h : al % 8 = 0) : pyAlign k al % 8 = 0 := by
  unfold pyAlign; exact mul_mod8_of _ _ h

/-- the builder's static update of the offset agrees with the run-time `_ALIGN` -/
theorem align_agrees (a k al : Nat) (hp : ∃ j, al = 2 ^ j) (hk : a % 8 = k) :
    (if al > 1 then alignUp a al else a) % 8 = pyAlign k al % 8 := by
  obtain ⟨j, rfl⟩ := hp
  rcases pow2_cases j with h | h | h | h
  · rw [h]; simp [pyAlign]; omega
  · rw [h, if_pos (by decide)]; simp only [alignUp, pyAlign]; omega
  · rw [h, if_pos (by decide)]; simp only [alignUp, pyAlign]; omega
  · have h1 : (2 : Nat) ^ j > 1 := by
      rcases Nat.lt_or_ge 1 (2 ^ j) with h1 | h1
      · exact h1
      · have : (2 : Nat) ^ j = 1 := by have := Nat.two_pow_pos j; omega
        rw [this] at h; simp at h
    rw [if_pos h1, alignUp_mod8 _ _ h, pyAlign_mod8 _ _ h]

/-! ### one alignment step and one write -/

theorem serAlign_at (al : Option Nat) (s : SerSt) :
    (serAlign al s).at_ = match al with | some a => alignUp s.at_ a | none => s.at_ := by
  cases al <;> rfl

theorem serAlign_if (al : Nat) (s : SerSt) :
    (serAlign (if al > 1 then some al else none) s).at_ = if al > 1 then alignUp s.at_ al else s.at_ := by
  by_cases h : al > 1 <;> simp [h, serAlign]

theorem pow2_pos (al : Nat) (hp : ∃ j, al = 2 ^ j) : 0 < al := by
  obtain ⟨j, rfl⟩ := hp; exact Nat.two_pow_pos j

/-- `try_create_align_op` keeps the tracked offset truthful: outside an array if it was, inside an array
    whatever it was -/
theorem tryAlign_ok (inArr : Bool) (oib : Option Nat) (al : Nat) (s : SerSt) (hp : ∃ j, al = 2 ^ j)
    (h : inArr = false → OibOK oib s.at_) :
    OibOK (tryAlign inArr oib al).1 (serAlign (tryAlign inArr oib al).2 s).at_ := by
  intro k hk
  simp only [tryAlign] at hk ⊢
  rw [serAlign_if]
  have hpos := pow2_pos al hp
  by_cases hc : oib.isNone ∧ al % 8 = 0
  · rw [if_pos hc] at hk
    cases hk
    have h1 : al > 1 := by omega
    rw [if_pos h1]
    exact alignUp_mod8 _ _ hc.2
  · rw [if_neg hc] at hk
    cases inArr with
    | true => simp at hk
    | false =>
      simp only [Bool.false_eq_true, if_false] at hk
      cases oib with
      | none => simp at hk
      | some k0 =>
        simp only [Option.some.injEq] at hk
        rw [← hk]
        exact align_agrees s.at_ k0 al hp (h rfl k0 rfl)

/-- the offset after a bit-array write -/
theorem writeOib_ok (oib : Option Nat) (sc : Scalar) (a : Nat) (h : OibOK oib a) (hs : sc ≠ .str) :
    OibOK (writeOib oib sc) (u32 (a + sc.size)) := by
  intro k hk
  cases sc with
  | str => exact absurd rfl hs
  | int sg sz al =>
    cases oib with
    | none => simp [writeOib] at hk
    | some k0 =>
      simp only [writeOib, Option.some.injEq] at hk
      have := h k0 rfl
      simp only [u32, Scalar.size] at hk ⊢
      omega
  | real sz al =>
    cases oib with
    | none => simp [writeOib] at hk
    | some k0 =>
      simp only [writeOib, Option.some.injEq] at hk
      have := h k0 rfl
      simp only [u32, Scalar.size] at hk ⊢
      omega

theorem writeBits_at (env : SerEnv) (sc : Scalar) (oib : Option Nat) (v : Int) (s : SerSt) :
    (writeBits env sc oib v s).at_ = u32 (s.at_ + sc.size) := rfl

/-- a truthful static start bit is the dynamic one -/
theorem writeBits_erase (env : SerEnv) (sc : Scalar) (oib : Option Nat) (v : Int) (s : SerSt) (h : OibOK oib s.at_) :
    writeBits env sc oib v s = writeBits env sc none v s := by
  cases oib with
  | none => rfl
  | some k =>
    have := h k rfl
    simp only [writeBits, this]

theorem pop_at (s : SerSt) : s.pop.2.at_ = s.at_ := by
  unfold SerSt.pop; cases s.leaves <;> rfl

theorem serWrite_erase (env : SerEnv) (w : Write) (s : SerSt) (h : OibOK w.oib s.at_) :
    serWrite env w s = serWrite env w.erase s := by
  obtain ⟨src, sc, oib⟩ := w
  have hp : OibOK oib s.pop.2.at_ := by rw [pop_at]; exact h
  cases src <;> simp only [serWrite, Write.erase] <;> try (exact writeBits_erase env sc oib _ s h)
  · cases sc with
    | str => rfl
    | int sg sz al => exact writeBits_erase env _ oib _ _ hp
    | real sz al => exact writeBits_erase env _ oib _ _ hp

/-! ### element types -/

theorem iterN_congr {σ : Type} (f g : σ → σ) (h : ∀ s, f s = g s) : ∀ (n : Nat) (s : σ), iterN f n s = iterN g n s
  | 0, _ => rfl
  | n + 1, s => by simp only [iterN, h s]; exact iterN_congr f g h n (g s)

theorem tryAlign_fst_inArray (oib : Option Nat) (al : Nat) (h : oib.isSome ∨ al % 8 ≠ 0) :
    (tryAlign true oib al).1 = none := by
  simp only [tryAlign]
  have hc : ¬ (oib.isNone ∧ al % 8 = 0) := by
    intro ⟨h1, h2⟩
    rcases h with h | h
    · cases oib <;> simp at h h1
    · exact h h2
  rw [if_neg hc]; simp

theorem tryAlign_fst_reset (inArr : Bool) (al : Nat) :
    ((tryAlign inArr none al).1).isSome ∨ al % 8 ≠ 0 := by
  by_cases h : al % 8 = 0
  · left; simp [tryAlign, h]
  · right; exact h

/-- inside an array (level > 0) no write carries a static offset, and none comes out -/
theorem buildElem_inArray (env : SerEnv) : ∀ (e : Elem) (src : WSrc) (level : Nat) (oib : Option Nat),
    level > 0 → (oib.isSome ∨ e.align % 8 ≠ 0) →
    (buildElem src e level oib).2 = none ∧
    ∀ s, serElem env (buildElem src e level oib).1 s = serElem env (buildElem src e level oib).1.erase s
  | .sc sc, src, level, oib, hl, hpre => by
    have hd : decide (level > 0) = true := by simp [hl]
    have hr : (tryAlign true oib sc.align).1 = none := tryAlign_fst_inArray oib sc.align hpre
    simp only [buildElem, hd, hr]
    refine ⟨?_, fun s => rfl⟩
    cases sc <;> rfl
  | .sarr n e, src, level, oib, hl, _ => by
    have hd : decide (level > 0) = true := by simp [hl]
    simp only [buildElem, hd]
    have ih := buildElem_inArray env e .arg (level + 1) (tryAlign true none e.align).1 (by omega)
      (tryAlign_fst_reset true e.align)
    refine ⟨ih.1, fun s => ?_⟩
    simp only [serElem, EOp.erase]
    exact iterN_congr _ _ ih.2 n _

theorem u32_mod8 (x : Nat) : u32 x % 8 = x % 8 := by simp only [u32]; omega

theorem serWrite_at_mod8 (env : SerEnv) (src : WSrc) (sc : Scalar) (o : Option Nat) (s : SerSt) (hsrc : src ≠ .uuid) :
    (serWrite env ⟨src, sc, o⟩ s).at_ % 8 = (s.at_ + sc.size) % 8 := by
  cases src <;> simp only [serWrite, writeBits_at, u32_mod8] <;> try (exact absurd rfl hsrc)
  · cases sc with
    | str =>
      simp only [writeStr, Scalar.size, u32_mod8, pop_at]
      simp only [u32]; omega
    | int sg sz al => simp only [writeBits_at, u32_mod8, pop_at]
    | real sz al => simp only [writeBits_at, u32_mod8, pop_at]

theorem writeOib_ok' (oib : Option Nat) (sc : Scalar) (a a' : Nat) (h : OibOK oib a) (ha : a' % 8 = (a + sc.size) % 8) :
    OibOK (writeOib oib sc) a' := by
  intro k hk
  cases sc with
  | str =>
    simp only [writeOib] at hk
    have := h k hk
    simp only [Scalar.size] at ha
    omega
  | int sg sz al =>
    have := writeOib_ok oib (.int sg sz al) a h (by simp) k hk
    rw [u32_mod8] at this; omega
  | real sz al =>
    have := writeOib_ok oib (.real sz al) a h (by simp) k hk
    rw [u32_mod8] at this; omega

/-- at level 0 a truthful incoming offset gives truthful writes and a truthful outgoing offset -/
theorem buildElem_level0 (env : SerEnv) (e : Elem) (src : WSrc) (oib : Option Nat) (s : SerSt)
    (hp : ∃ j, e.align = 2 ^ j) (h : OibOK oib s.at_) (hsrc : src ≠ .uuid) :
    serElem env (buildElem src e 0 oib).1 s = serElem env (buildElem src e 0 oib).1.erase s ∧
    OibOK (buildElem src e 0 oib).2 (serElem env (buildElem src e 0 oib).1 s).at_ := by
  cases e with
  | sc sc =>
    have hd : decide (0 > 0) = false := by simp
    simp only [buildElem, hd, serElem, EOp.erase]
    have hok := tryAlign_ok false oib sc.align s hp (fun _ => h)
    refine ⟨serWrite_erase env _ _ hok, ?_⟩
    exact writeOib_ok' _ sc _ _ hok (serWrite_at_mod8 env src sc _ _ hsrc)
  | sarr n e =>
    have hd : decide (0 > 0) = false := by simp
    simp only [buildElem, hd]
    have ih := buildElem_inArray env e .arg (0 + 1) (tryAlign false none e.align).1 (by omega)
      (tryAlign_fst_reset false e.align)
    refine ⟨?_, by rw [ih.1]; exact OibOK_none _⟩
    simp only [serElem, EOp.erase]
    exact iterN_congr _ _ ih.2 n _

/-! ### members and roots -/

def FT.AlOK : FT → Prop
  | .el e => ∃ j, e.align = 2 ^ j
  | .darr _ e => ∃ j, e.align = 2 ^ j
  | .uuid => True

/-- the UUID template is selected by `FT.uuid` only (config.py builds the packet header that way) -/
def specOK (spec : String → Option WSrc) (m : Member) : Prop :=
  match m.ft with
  | .el (.sc _) => spec m.name ≠ some .uuid
  | _ => True

theorem serMember_leaves_at (s : SerSt) (l : List Leaf) : ({ s with leaves := l } : SerSt).at_ = s.at_ := rfl

theorem buildMember_ok (env : SerEnv) (pfx : String) (args : Args) (spec : String → Option WSrc) (m : Member)
    (oib : Option Nat) (s : SerSt) (hal : m.ft.AlOK) (hsp : specOK spec m) (h : OibOK oib s.at_) :
    serMember env pfx args (buildMember spec m oib).1 s = serMember env pfx args (buildMember spec m oib).1.erase s ∧
    OibOK (buildMember spec m oib).2 (serMember env pfx args (buildMember spec m oib).1 s).at_ := by
  obtain ⟨name, ft⟩ := m
  cases ft with
  | el e =>
    cases e with
    | sc sc =>
      simp only [buildMember, serMember, MOp.erase]
      have hsrc : (spec name).getD .arg ≠ .uuid := by
        simp only [specOK] at hsp
        cases hs : spec name with
        | none => simp
        | some x => simp only [Option.getD_some]; intro e; exact hsp (by rw [hs, e])
      exact buildElem_level0 env (.sc sc) _ oib _ hal (by exact h) hsrc
    | sarr n e =>
      simp only [buildMember, serMember, MOp.erase]
      exact buildElem_level0 env (.sarr n e) .arg oib _ hal (by exact h) (by simp)
  | darr ln e =>
    simp only [buildMember, serMember, MOp.erase]
    have hpre : ((tryAlign false oib e.align).1).isSome ∨ e.align % 8 ≠ 0 := by
      by_cases h8 : e.align % 8 = 0
      · left
        cases oib <;> simp [tryAlign, h8]
      · right; exact h8
    have ih := buildElem_inArray env e .arg 1 (tryAlign false oib e.align).1 (by omega) hpre
    refine ⟨iterN_congr _ _ ih.2 _ _, by rw [ih.1]; exact OibOK_none _⟩
  | uuid =>
    simp only [buildMember, serMember, MOp.erase, serElem, EOp.erase]
    refine ⟨rfl, ?_⟩
    have hok := tryAlign_ok false oib 8 ({ s with leaves := args.get (pfx ++ "_" ++ name) }) ⟨3, rfl⟩ (fun _ => h)
    intro k hk
    have h0 := hok k hk
    have h2 : (tryAlign false oib 8).2 = some 8 := by simp [tryAlign]
    rw [h2] at h0
    have hx : (serAlign (some 8) ({ s with leaves := args.get (pfx ++ "_" ++ name) } : SerSt)).at_ % 8 = 0 :=
      alignUp_mod8 _ 8 rfl
    have hy := alignUp_mod8 (serAlign (tryAlign false oib 8).2
      ({ s with leaves := args.get (pfx ++ "_" ++ name) } : SerSt)).at_ 8 rfl
    simp only [serWrite, SerSt.store]
    rw [u32_mod8]; omega

theorem buildMembers_ok (env : SerEnv) (pfx : String) (args : Args) (spec : String → Option WSrc) :
    ∀ (ms : List Member) (oib : Option Nat) (s : SerSt), (∀ m ∈ ms, m.ft.AlOK ∧ specOK spec m) → OibOK oib s.at_ →
      (buildMembers spec ms oib).1.foldl (fun a m => serMember env pfx args m a) s =
      ((buildMembers spec ms oib).1.map MOp.erase).foldl (fun a m => serMember env pfx args m a) s
  | [], _, _, _, _ => rfl
  | m :: ms, oib, s, hms, h => by
    obtain ⟨h1, h2⟩ := buildMember_ok env pfx args spec m oib s (hms m (by simp)).1 (hms m (by simp)).2 h
    simp only [buildMembers, List.foldl_cons, List.map_cons]
    rw [← h1]
    exact buildMembers_ok env pfx args spec ms _ _ (fun m' hm' => hms m' (by simp [hm'])) h2

/-- **the static start bits are the dynamic ones**: for every root structure whose alignments are powers of
    two, serialising with the operation tree `_OpBuilder` builds is serialising with the same tree in which every
    write computes its start bit from `ctx->at` -/
theorem buildRoot_transparent (env : SerEnv) (pfx : String) (args : Args) (spec : String → Option WSrc) (S : Struct)
    (hS : ∃ j, S.align = 2 ^ j) (hms : ∀ m ∈ S.members, m.ft.AlOK ∧ specOK spec m) (s : SerSt) :
    serRoot env pfx (buildRoot spec S) args s = serRoot env pfx (buildRoot spec S).erase args s := by
  simp only [serRoot, buildRoot, RootOp.erase]
  exact buildMembers_ok env pfx args spec S.members _ _ hms (tryAlign_ok false none S.align s hS (fun _ => OibOK_none _))

end BVM
