/-
  Proofs/V2.lean — the barectf 2 → 3 conversion on abstract field types: a field type written in the
  barectf 2 dialect (`r2`) converts to the same field type written in the barectf 3 dialect (`r3`).
-/
import BVM.Model.V2
import BVM.Proofs.Fixed
namespace BVM

/-! ### abstract field types expressible in the barectf 2 dialect -/

structure AInt where
  size : Int
  signed : Bool
  saySigned : Bool          -- `signed: false` written out
  align : Option Int
  base : Option String
  clock : Option String     -- `property-mappings` to a clock (used for clock inference, dropped from the type)
  encoding : Option String  -- accepted by barectf 2, without meaning for the binary format
deriving Repr

inductive AMember
  | implicit (label : String)
  | value (label : String) (v : Int)
  | range (label : String) (a b : Int)
deriving Repr

inductive AFt where
  | int (i : AInt)
  | enum (vt : AInt) (members : List AMember)
  | float (double : Bool) (align : Option Int)
  | str (encoding : Option String)
  | sarr (len : Int) (e : AFt)
  | darr (e : AFt)
  | struct (minAlign : Option Int) (fields : List (String × AFt))

def optE (k : String) (v : Option Y) : KVs := match v with | some y => [(k, y)] | none => []

/-- barectf 2 spelling of an integer field type -/
def AInt.r2 (i : AInt) : KVs :=
  [("class", .str "int"), ("size", .int i.size)] ++
  (if i.signed || i.saySigned then [("signed", .bool i.signed)] else []) ++
  optE "align" (i.align.map .int) ++ optE "base" (i.base.map .str) ++ optE "encoding" (i.encoding.map .str) ++
  optE "property-mappings" (i.clock.map fun c => .seq [.map [("type", .str "clock"), ("name", .str c), ("property", .str "value")]])

/-- barectf 3 spelling of the same integer field type -/
def AInt.r3 (i : AInt) : KVs :=
  [("class", .str (if i.signed then "sint" else "uint")), ("size", .int i.size)] ++
  optE "alignment" (i.align.map .int) ++ optE "preferred-display-base" (i.base.map .str)

def AMember.r2 : AMember → Y
  | .implicit l => .str l
  | .value l v => .map [("label", .str l), ("value", .int v)]
  | .range l a b => .map [("label", .str l), ("value", .seq [.int a, .int b])]

/-- value(s) of every member in order: an explicit value or range as written; a label alone takes the
    value following the previous member's (last) value, 0 for the first member -/
def memberVals : List AMember → Int → List (String × Y)
  | [], _ => []
  | .implicit l :: r, cur => (l, .int cur) :: memberVals r (cur + 1)
  | .value l v :: r, _ => (l, .int v) :: memberVals r (v + 1)
  | .range l a b :: r, _ => (l, .seq [.int a, .int b]) :: memberVals r (b + 1)

/-- barectf 3 mappings: label ↦ its values in order -/
def mappingsOf (ms : List AMember) : KVs := (memberVals ms 0).foldl pushLabel []

mutual
def AFt.r2 : AFt → Y
  | .int i => .map i.r2
  | .enum vt ms => .map [("class", .str "enum"), ("value-type", .map vt.r2), ("members", .seq (ms.map AMember.r2))]
  | .float dbl al => .map ([("class", .str "float"),
      ("size", .map [("exp", .int (if dbl then 11 else 8)), ("mant", .int (if dbl then 53 else 24))])] ++
      optE "align" (al.map .int))
  | .str enc => .map ([("class", .str "string")] ++ optE "encoding" (enc.map .str))
  | .sarr n e => .map [("class", .str "array"), ("length", .int n), ("element-type", e.r2)]
  | .darr e => .map [("class", .str "array"), ("length", .str "dynamic"), ("element-type", e.r2)]
  | .struct ma fs => .map ([("class", .str "struct")] ++ optE "min-align" (ma.map .int) ++ [("fields", .map (AFt.r2Fields fs))])
def AFt.r2Fields : List (String × AFt) → KVs
  | [] => []
  | (n, f) :: r => (n, f.r2) :: AFt.r2Fields r
end

mutual
def AFt.r3 : AFt → Y
  | .int i => .map i.r3
  | .enum vt ms => .map ([("class", .str (if vt.signed then "senum" else "uenum")), ("size", .int vt.size)] ++
      optE "alignment" (vt.align.map .int) ++ optE "preferred-display-base" (vt.base.map .str) ++
      [("mappings", .map (mappingsOf ms))])
  | .float dbl al => .map ([("class", .str "real"), ("size", .int (if dbl then 64 else 32))] ++ optE "alignment" (al.map .int))
  | .str _ => .map [("class", .str "string")]
  | .sarr n e => .map [("class", .str "static-array"), ("length", .int n), ("element-field-type", e.r3)]
  | .darr e => .map [("class", .str "dynamic-array"), ("element-field-type", e.r3)]
  | .struct ma fs => .map ([("class", .str "struct")] ++ optE "minimum-alignment" (ma.map .int) ++
      [("members", .seq (AFt.r3Members fs))])
def AFt.r3Members : List (String × AFt) → List Y
  | [] => []
  | (n, f) :: r => .map [(n, .map [("field-type", f.r3)])] :: AFt.r3Members r
end

mutual
def AFt.depth : AFt → Nat
  | .sarr _ e => e.depth + 1
  | .darr e => e.depth + 1
  | .struct _ fs => AFt.depthFields fs + 1
  | .enum _ _ => 2
  | _ => 1
def AFt.depthFields : List (String × AFt) → Nat
  | [] => 0
  | (_, f) :: r => max f.depth (AFt.depthFields r)
end

/-! ### conversion lemmas -/

theorem convEnumMembers_spec (ms : List AMember) : ∀ (cur : Int) (acc : KVs),
    convEnumMembers (ms.map AMember.r2) cur acc = .ok ((memberVals ms cur).foldl pushLabel acc) := by
  induction ms with
  | nil => intro cur acc; simp [convEnumMembers, memberVals]
  | cons m r ih =>
    intro cur acc
    cases m with
    | implicit l => simp [AMember.r2, convEnumMembers, memberVals, ih]
    | value l v => simp [AMember.r2, convEnumMembers, memberVals, ih, req, bind, Except.bind]
    | range l a b => simp [AMember.r2, convEnumMembers, memberVals, ih, req, bind, Except.bind]

theorem convIntFt_r2 (i : AInt) : convIntFt i.r2 = i.r3 := by
  obtain ⟨size, signed, say, align, base, clock, enc⟩ := i
  cases signed <;> cases say <;> cases align <;> cases base <;> cases clock <;> cases enc <;>
    simp [AInt.r2, AInt.r3, optE, convIntFt, kvSet, kvGet, kvErase, renameProp]

theorem AInt.r2_class (i : AInt) : kvGet "class" i.r2 = some (.str "int") := by simp [AInt.r2]

end BVM

namespace BVM

theorem fuel_succ {n : Nat} (h : 1 ≤ n) : ∃ f, n = f + 1 := ⟨n - 1, by omega⟩

mutual
/-- a field type written in the barectf 2 dialect converts to the same type written in the barectf 3 one -/
theorem convFt_r2 : ∀ (a : AFt) (fuel : Nat), a.depth ≤ fuel → convFt fuel a.r2 = .ok a.r3
  | .int i, fuel, h => by
    obtain ⟨f, rfl⟩ := fuel_succ (by simpa [AFt.depth] using h)
    simp [AFt.r2, AFt.r3, convFt, asMap, req, AInt.r2_class, bind, Except.bind, convIntFt_r2]
  | .enum vt ms, fuel, h => by
    obtain ⟨f, rfl⟩ := fuel_succ (n := fuel) (by simp [AFt.depth] at h; omega)
    have hv : convFt f (.map vt.r2) = .ok (.map vt.r3) := by
      obtain ⟨f', rfl⟩ := fuel_succ (n := f) (by simp [AFt.depth] at h; omega)
      simp [convFt, asMap, req, AInt.r2_class, bind, Except.bind, convIntFt_r2]
    obtain ⟨size, signed, say, align, base, clock, enc⟩ := vt
    cases signed <;> cases align <;> cases base <;>
      simp [AFt.r2, AFt.r3, convFt, asMap, req, bind, Except.bind, hv, kvGetNN, kvGet, kvSet, AInt.r3, optE,
        convEnumMembers_spec, mappingsOf]
  | .float dbl al, fuel, h => by
    obtain ⟨f, rfl⟩ := fuel_succ (by simpa [AFt.depth] using h)
    cases dbl <;> cases al <;>
      simp [AFt.r2, AFt.r3, convFt, asMap, req, bind, Except.bind, kvGet, kvSet, kvErase, renameProp, optE]
  | .str enc, fuel, h => by
    obtain ⟨f, rfl⟩ := fuel_succ (by simpa [AFt.depth] using h)
    cases enc <;> simp [AFt.r2, AFt.r3, convFt, asMap, req, bind, Except.bind, kvGet, kvErase, optE]
  | .sarr n e, fuel, h => by
    obtain ⟨f, rfl⟩ := fuel_succ (n := fuel) (by simp [AFt.depth] at h; omega)
    have he := convFt_r2 e f (by simp [AFt.depth] at h; omega)
    simp [AFt.r2, AFt.r3, convFt, asMap, req, bind, Except.bind, kvGet, kvSet, copyProp, he]
  | .darr e, fuel, h => by
    obtain ⟨f, rfl⟩ := fuel_succ (n := fuel) (by simp [AFt.depth] at h; omega)
    have he := convFt_r2 e f (by simp [AFt.depth] at h; omega)
    simp [AFt.r2, AFt.r3, convFt, asMap, req, bind, Except.bind, kvGet, kvSet, copyProp, he]
  | .struct ma fs, fuel, h => by
    obtain ⟨f, rfl⟩ := fuel_succ (n := fuel) (by simp [AFt.depth] at h; omega)
    have hf := convFields_r2 fs f (by simp [AFt.depth] at h; omega)
    cases ma <;>
      simp [AFt.r2, AFt.r3, convFt, asMap, req, bind, Except.bind, kvGet, kvGetNN, kvSet, copyProp, optE, hf]
theorem convFields_r2 : ∀ (fs : List (String × AFt)) (fuel : Nat), AFt.depthFields fs ≤ fuel →
    (AFt.r2Fields fs).mapM (convField (convFt fuel)) = .ok (AFt.r3Members fs)
  | [], _, _ => by simp [AFt.r2Fields, AFt.r3Members, pure, Except.pure]
  | (n, a) :: r, fuel, h => by
    have ha := convFt_r2 a fuel (by simp [AFt.depthFields] at h; omega)
    have hr := convFields_r2 r fuel (by simp [AFt.depthFields] at h; omega)
    simp [AFt.r2Fields, AFt.r3Members, List.mapM_cons, convField, ha, hr, bind, Except.bind, pure, Except.pure]
end

end BVM

namespace BVM

/-! ### enumeration mappings: every label maps to the values of the members bearing it, in order -/

def AllSeq (acc : KVs) : Prop := ∀ k v, kvGet k acc = some v → ∃ l, v = .seq l

theorem AllSeq_nil : AllSeq [] := by intro k v h; simp at h

theorem AllSeq_push (acc : KVs) (lv : String × Y) (h : AllSeq acc) : AllSeq (pushLabel acc lv) := by
  intro k v hk
  by_cases hkl : lv.1 = k
  · subst hkl
    simp only [pushLabel, kvGet_kvSet_same] at hk
    injection hk with hk
    exact ⟨_, hk.symm⟩
  · simp only [pushLabel, kvGet_kvSet_other _ _ _ hkl] at hk
    exact h k v hk

def valsOf (l : String) (vs : List (String × Y)) : List Y := (vs.filter (fun lv => decide (lv.1 = l))).map (·.2)

theorem kvGet_foldl_pushLabel (l : String) (vs : List (String × Y)) : ∀ (acc : KVs), AllSeq acc →
    kvGet l (vs.foldl pushLabel acc) =
      match kvGet l acc with
      | some (.seq base) => some (.seq (base ++ valsOf l vs))
      | some v => some v
      | none => if valsOf l vs = [] then none else some (.seq (valsOf l vs)) := by
  induction vs with
  | nil =>
    intro acc hacc
    simp only [List.foldl_nil, valsOf, List.filter_nil, List.map_nil, List.append_nil, if_true]
    cases hg : kvGet l acc with
    | none => rfl
    | some v => cases v <;> rfl
  | cons lv r ih =>
    intro acc hacc
    simp only [List.foldl_cons]
    rw [ih _ (AllSeq_push acc lv hacc)]
    by_cases hkl : lv.1 = l
    · subst hkl
      have hv : valsOf lv.1 (lv :: r) = lv.2 :: valsOf lv.1 r := by simp [valsOf]
      simp only [pushLabel, kvGet_kvSet_same, hv]
      cases hg : kvGet lv.1 acc with
      | none => simp
      | some v =>
        obtain ⟨b, rfl⟩ := hacc _ _ hg
        simp
    · have hv : valsOf l (lv :: r) = valsOf l r := by simp [valsOf, hkl]
      simp only [pushLabel, kvGet_kvSet_other _ _ _ hkl, hv]

/-- the barectf 3 mappings of a label are exactly the values of the barectf 2 members bearing that label,
    in member order (none if no member bears it) -/
theorem mappings_lookup (ms : List AMember) (l : String) :
    kvGet l (mappingsOf ms) =
      if valsOf l (memberVals ms 0) = [] then none else some (.seq (valsOf l (memberVals ms 0))) := by
  simp [mappingsOf, kvGet_foldl_pushLabel l _ [] AllSeq_nil]

/-- implicit values: 0 for a first member without value, otherwise one more than the previous member's
    (last) value -/
theorem implicit_first (l : String) (r : List AMember) :
    (memberVals (.implicit l :: r) 0).head? = some (l, .int 0) := rfl

theorem implicit_after_value (l l' : String) (v : Int) (r : List AMember) (cur : Int) :
    memberVals (.value l v :: .implicit l' :: r) cur = (l, .int v) :: (l', .int (v + 1)) :: memberVals r (v + 1 + 1) := rfl

theorem implicit_after_range (l l' : String) (a b : Int) (r : List AMember) (cur : Int) :
    memberVals (.range l a b :: .implicit l' :: r) cur =
      (l, .seq [.int a, .int b]) :: (l', .int (b + 1)) :: memberVals r (b + 1 + 1) := rfl

theorem implicit_after_implicit (l l' : String) (r : List AMember) (cur : Int) :
    memberVals (.implicit l :: .implicit l' :: r) cur = (l, .int cur) :: (l', .int (cur + 1)) :: memberVals r (cur + 1 + 1) := rfl

/-! ### prefix splitting -/

theorem dropWhile_underscore_append (l : List Char) :
    ∃ n, l = (l.reverse.dropWhile (· = '_')).reverse ++ List.replicate n '_' := by
  have key : ∀ (r : List Char), ∃ n, r = List.replicate n '_' ++ r.dropWhile (· = '_') := by
    intro r
    induction r with
    | nil => exact ⟨0, rfl⟩
    | cons c t ih =>
      by_cases hc : c = '_'
      · obtain ⟨n, hn⟩ := ih
        refine ⟨n + 1, ?_⟩
        simp only [List.dropWhile_cons, hc, decide_true, if_true, List.replicate_succ, List.cons_append]
        rw [← hn]
      · exact ⟨0, by simp [List.dropWhile_cons, hc]⟩
  obtain ⟨n, hn⟩ := key l.reverse
  refine ⟨n, ?_⟩
  have := congrArg List.reverse hn
  simp only [List.reverse_reverse, List.reverse_append, List.reverse_replicate] at this
  exact this

/-- the file name prefix is the barectf 2 prefix without its trailing underscores: the identifier prefix is
    the file name prefix followed by underscores only -/
theorem prefix_split (p : String) : ∃ n, p.toList = (rstripUnderscores p).toList ++ List.replicate n '_' := by
  obtain ⟨n, hn⟩ := dropWhile_underscore_append p.toList
  exact ⟨n, by simpa [rstripUnderscores] using hn⟩

theorem prefix_no_trailing_underscore (p : String) : (rstripUnderscores p).toList.getLast? ≠ some '_' := by
  simp only [rstripUnderscores, String.toList_ofList]
  generalize p.toList.reverse = r
  rw [List.getLast?_reverse]
  induction r with
  | nil => simp
  | cons c t ih =>
    by_cases hc : c = '_'
    · simpa [List.dropWhile_cons, hc] using ih
    · simp [List.dropWhile_cons, hc]

end BVM
