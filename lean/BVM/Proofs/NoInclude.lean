/-
  Proofs/NoInclude.lean — what the inclusion stage (`procInclude`) returns holds no `$include` property
  at any includable object, and every mapping of its includable skeleton holds a key at most once.

  Needs: every mapping of the document and of every file of the world holds a key at most once
  (`Y.dk`; true of anything PyYAML loads into a dictionary — with a key listed twice the second
  occurrence of a child property is not processed and can carry an `$include` into the result, so the
  hypothesis is necessary for the model).
-/
import BVM.Proofs.Fixed
namespace BVM

/-! ### distinct keys -/

mutual
def Y.dk : Y → Bool
  | .seq xs => Y.dkL xs
  | .map m => decide (kvKeys m).Nodup && Y.dkM m
  | _ => true
def Y.dkL : List Y → Bool
  | [] => true
  | x :: r => Y.dk x && Y.dkL r
def Y.dkM : KVs → Bool
  | [] => true
  | (_, v) :: r => Y.dk v && Y.dkM r
end

theorem dkM_mem : ∀ (m : KVs), Y.dkM m = true → ∀ kv ∈ m, kv.2.dk = true
  | [], _, kv, h => by simp at h
  | (k, v) :: r, hm, kv, h => by
    simp only [Y.dkM, Bool.and_eq_true] at hm
    rcases List.mem_cons.mp h with e | e
    · subst e; exact hm.1
    · exact dkM_mem r hm.2 kv e

theorem dk_map {m : KVs} (h : (Y.map m).dk = true) : (kvKeys m).Nodup ∧ ∀ kv ∈ m, kv.2.dk = true := by
  simp only [Y.dk, Bool.and_eq_true, decide_eq_true_eq] at h
  exact ⟨h.1, dkM_mem m h.2⟩

theorem kvGet_mem {k : String} {v : Y} : ∀ {m : KVs}, kvGet k m = some v → (k, v) ∈ m
  | [], h => by simp at h
  | (k', v') :: r, h => by
    by_cases hk : k' = k
    · simp [kvGet, hk] at h; subst h; subst hk; simp
    · simp [kvGet, hk] at h; exact List.mem_cons_of_mem _ (kvGet_mem h)

theorem mem_kvGet {k : String} {v : Y} : ∀ {m : KVs}, (kvKeys m).Nodup → (k, v) ∈ m → kvGet k m = some v
  | [], _, h => by simp at h
  | (k', v') :: r, hn, h => by
    have hn' : k' ∉ kvKeys r ∧ (kvKeys r).Nodup := by simpa [kvKeys] using hn
    rcases List.mem_cons.mp h with e | e
    · cases e; simp [kvGet]
    · have hk : k' ≠ k := by
        intro e2; subst e2
        exact hn'.1 (by simp only [kvKeys, List.mem_map]; exact ⟨(k', v), e, rfl⟩)
      simp [kvGet, hk, mem_kvGet hn'.2 e]

theorem dk_get {m : KVs} {k : String} {v : Y} (h : (Y.map m).dk = true) (hg : kvGet k m = some v) : v.dk = true :=
  (dk_map h).2 (k, v) (kvGet_mem hg)

/-! ### the skeleton of an inclusion-free node -/

def ChildSpec.ckind : ChildSpec → Kind
  | .single k => k
  | .each k => k

def ChildGood (G : Kind → Y → Prop) : ChildSpec → Y → Prop
  | .single k', v => G k' v
  | .each k', v => ∃ cm, v = .map cm ∧ (kvKeys cm).Nodup ∧ ∀ kv ∈ cm, G k' kv.2

/-- `d` levels of the includable skeleton below a node of kind `kd`: a mapping, no `$include`, distinct keys,
    and each child property that is present has the shape its kind requires, recursively -/
def Good : Nat → Kind → Y → Prop
  | 0, _, _ => True
  | d + 1, kd, .map m =>
      kvGet "$include" m = none ∧ (kvKeys m).Nodup ∧
      ∀ cs ∈ kd.children, ∀ v, kvGet cs.1 m = some v → ChildGood (fun k y => Good d k y) cs.2 v
  | _ + 1, _, _ => False

theorem good_succ_map {d : Nat} {kd : Kind} {y : Y} (h : Good (d + 1) kd y) : ∃ m, y = .map m := by
  cases y with
  | map m => exact ⟨m, rfl⟩
  | _ => simp [Good] at h

/-! ### patching keeps it -/

theorem nodup_patchMap (v3 : Bool) (b o : KVs) (hb : (kvKeys b).Nodup) (ho : (kvKeys o).Nodup) :
    (kvKeys (patchMap v3 b o)).Nodup := by
  rw [kvKeys_patchMap v3 o b ho, List.nodup_append]
  refine ⟨hb, List.Nodup.sublist List.filter_sublist ho, ?_⟩
  intro a ha c hc e
  subst e
  simp only [List.mem_filter, decide_eq_true_eq] at hc
  exact hc.2 ha

theorem good_patch (v3 : Bool) : ∀ (d : Nat) (kd : Kind) (b o : KVs),
    Good d kd (.map b) → Good d kd (.map o) → Good d kd (.map (patchMap v3 b o))
  | 0, _, _, _, _, _ => trivial
  | d + 1, kd, b, o, hb, ho => by
    have good_merge : ∀ (k : String) (k' : Kind) (bv ov : Y), Good d k' bv → Good d k' ov →
        Good d k' (merge v3 k bv ov) := by
      intro k k' bv ov gb go
      cases d with
      | zero => trivial
      | succ d' =>
        obtain ⟨bm, rfl⟩ := good_succ_map gb
        obtain ⟨om, rfl⟩ := good_succ_map go
        rw [merge_map_map]
        exact good_patch v3 (d' + 1) k' bm om gb go
    simp only [Good] at hb ho ⊢
    obtain ⟨hbi, hbn, hbc⟩ := hb
    obtain ⟨hoi, hon, hoc⟩ := ho
    refine ⟨?_, nodup_patchMap v3 b o hbn hon, ?_⟩
    · rw [kvGet_patchMap v3 _ o b hon, hbi, hoi]
    · intro cs hcs v hv
      rw [kvGet_patchMap v3 _ o b hon] at hv
      cases hb1 : kvGet cs.1 b with
      | none =>
        cases ho1 : kvGet cs.1 o with
        | none => simp [hb1, ho1] at hv
        | some ov =>
          simp only [hb1, ho1, Option.some.injEq] at hv
          subst hv
          exact hoc cs hcs ov ho1
      | some bv =>
        cases ho1 : kvGet cs.1 o with
        | none =>
          simp only [hb1, ho1, Option.some.injEq] at hv
          subst hv
          exact hbc cs hcs bv hb1
        | some ov =>
          simp only [hb1, ho1, Option.some.injEq] at hv
          subst hv
          have gb := hbc cs hcs bv hb1
          have go := hoc cs hcs ov ho1
          cases hs : cs.2 with
          | single k' =>
            simp only [hs, ChildGood] at gb go ⊢
            exact good_merge cs.1 k' bv ov gb go
          | each k' =>
            simp only [hs, ChildGood] at gb go ⊢
            obtain ⟨bcm, rfl, hbcn, hbe⟩ := gb
            obtain ⟨ocm, rfl, hocn, hoe⟩ := go
            refine ⟨patchMap v3 bcm ocm, merge_map_map v3 _ bcm ocm, nodup_patchMap v3 bcm ocm hbcn hocn, ?_⟩
            intro kv hkv
            obtain ⟨kk, vv⟩ := kv
            have hg := mem_kvGet (nodup_patchMap v3 bcm ocm hbcn hocn) hkv
            rw [kvGet_patchMap v3 _ ocm bcm hocn] at hg
            cases hb2 : kvGet kk bcm with
            | none =>
              cases ho2 : kvGet kk ocm with
              | none => simp [hb2, ho2] at hg
              | some ov2 =>
                simp only [hb2, ho2, Option.some.injEq] at hg
                subst hg
                exact hoe (kk, ov2) (kvGet_mem ho2)
            | some bv2 =>
              cases ho2 : kvGet kk ocm with
              | none =>
                simp only [hb2, ho2, Option.some.injEq] at hg
                subst hg
                exact hbe (kk, bv2) (kvGet_mem hb2)
              | some ov2 =>
                simp only [hb2, ho2, Option.some.injEq] at hg
                subst hg
                exact good_merge kk k' bv2 ov2 (hbe (kk, bv2) (kvGet_mem hb2)) (hoe (kk, ov2) (kvGet_mem ho2))

theorem good_patchNode (v3 : Bool) (kd : Kind) (b o : Y) (hb : ∀ d, Good d kd b) (ho : ∀ d, Good d kd o) :
    ∀ d, Good d kd (patchNode v3 b o) := by
  intro d
  obtain ⟨bm, rfl⟩ := good_succ_map (hb 1)
  obtain ⟨om, rfl⟩ := good_succ_map (ho 1)
  simp only [patchNode]
  exact good_patch v3 d kd bm om (hb d) (ho d)

/-! ### the traversal combinators -/

theorem modKey_spec (k : String) (f : Y → FR Y) : ∀ (m m' : KVs), modKey k f m = .ok m' →
    kvKeys m' = kvKeys m ∧ (∀ k2, k2 ≠ k → kvGet k2 m' = kvGet k2 m) ∧
    ((kvGet k m = none ∧ kvGet k m' = none) ∨ ∃ v v', kvGet k m = some v ∧ f v = .ok v' ∧ kvGet k m' = some v')
  | [], m', h => by
    simp only [modKey, Except.ok.injEq] at h
    subst h
    simp [kvKeys]
  | (k', v) :: r, m', h => by
    by_cases hk : k' = k
    · subst hk
      simp only [modKey, if_true, bind, Except.bind] at h
      cases hf : f v with
      | error e => simp [hf] at h
      | ok v' =>
        simp only [hf, Except.ok.injEq] at h
        subst h
        refine ⟨by simp [kvKeys], ?_, Or.inr ⟨v, v', by simp [kvGet], hf, by simp [kvGet]⟩⟩
        intro k2 hk2
        have : ¬ k' = k2 := fun e => hk2 e.symm
        simp [kvGet, this]
    · simp only [modKey, hk, if_false, bind, Except.bind] at h
      cases hr : modKey k f r with
      | error e => simp [hr] at h
      | ok r' =>
        simp only [hr, Except.ok.injEq] at h
        subst h
        obtain ⟨ih1, ih2, ih3⟩ := modKey_spec k f r r' hr
        refine ⟨by simp only [kvKeys, List.map_cons] at ih1 ⊢; rw [ih1], ?_, ?_⟩
        · intro k2 hk2
          by_cases h2 : k' = k2
          · simp [kvGet, h2]
          · simp [kvGet, h2, ih2 k2 hk2]
        · simp only [kvGet, hk, if_false]
          exact ih3

theorem mapVals_spec (f : String → Y → FR Y) : ∀ (m m' : KVs), mapVals f m = .ok m' →
    kvKeys m' = kvKeys m ∧ ∀ kv' ∈ m', ∃ v, (kv'.1, v) ∈ m ∧ f kv'.1 v = .ok kv'.2
  | [], m', h => by
    simp only [mapVals, Except.ok.injEq] at h
    subst h
    simp [kvKeys]
  | (k, v) :: r, m', h => by
    simp only [mapVals, bind, Except.bind] at h
    cases hf : f k v with
    | error e => simp [hf] at h
    | ok v' =>
      simp only [hf] at h
      cases hr : mapVals f r with
      | error e => simp [hr] at h
      | ok r' =>
        simp only [hr, Except.ok.injEq] at h
        subst h
        obtain ⟨ih1, ih2⟩ := mapVals_spec f r r' hr
        refine ⟨by simp only [kvKeys, List.map_cons] at ih1 ⊢; rw [ih1], ?_⟩
        intro kv' hkv'
        rcases List.mem_cons.mp hkv' with e | e
        · subst e; exact ⟨v, by simp, hf⟩
        · obtain ⟨v0, hv0, hf0⟩ := ih2 kv' e
          exact ⟨v0, List.mem_cons_of_mem _ hv0, hf0⟩

/-! ### children -/

theorem childStep_spec (rec : Kind → Y → FR Y) (P : Kind → Y → Prop)
    (hrec : ∀ k' c c', c.dk = true → rec k' c = .ok c' → P k' c')
    (m m' : KVs) (c : String × ChildSpec) (h : childStep rec m c = .ok m')
    (hdk : ∀ v, kvGet c.1 m = some v → v.dk = true) :
    kvKeys m' = kvKeys m ∧ (∀ k2, k2 ≠ c.1 → kvGet k2 m' = kvGet k2 m) ∧
    (∀ v, kvGet c.1 m' = some v → ChildGood P c.2 v) := by
  obtain ⟨key, spec⟩ := c
  cases spec with
  | single k' =>
    simp only [childStep] at h
    obtain ⟨h1, h2, h3⟩ := modKey_spec key _ m m' h
    refine ⟨h1, h2, ?_⟩
    intro v hv
    rcases h3 with ⟨_, hn⟩ | ⟨v0, v', hg0, hf, hg'⟩
    · simp [hn] at hv
    · rw [hg'] at hv
      have hv' : v' = v := Option.some.inj hv
      subst hv'
      exact hrec k' v0 v' (hdk v0 hg0) hf
  | each k' =>
    simp only [childStep] at h
    obtain ⟨h1, h2, h3⟩ := modKey_spec key _ m m' h
    refine ⟨h1, h2, ?_⟩
    intro v hv
    rcases h3 with ⟨_, hn⟩ | ⟨v0, v', hg0, hf, hg'⟩
    · simp [hn] at hv
    · rw [hg'] at hv
      have hv' : v' = v := Option.some.inj hv
      subst hv'
      cases v0 with
      | map cm =>
        simp only [bind, Except.bind] at hf
        cases hmv : mapVals (fun _ c => rec k' c) cm with
        | error e => simp [hmv] at hf
        | ok cm' =>
          simp only [hmv, Except.ok.injEq] at hf
          subst hf
          obtain ⟨hk, he⟩ := mapVals_spec _ cm cm' hmv
          have hcd := dk_map (hdk _ hg0)
          refine ⟨cm', rfl, by rw [hk]; exact hcd.1, ?_⟩
          intro kv hkv
          obtain ⟨v1, hv1, hf1⟩ := he kv hkv
          exact hrec k' v1 kv.2 (hcd.2 _ hv1) hf1
      | _ => simp at hf

theorem children_fold (rec : Kind → Y → FR Y) (P : Kind → Y → Prop)
    (hrec : ∀ k' c c', c.dk = true → rec k' c = .ok c' → P k' c') :
    ∀ (cs : List (String × ChildSpec)) (m m1 : KVs), cs.foldlM (childStep rec) m = .ok m1 →
      (cs.map (·.1)).Nodup → (∀ c ∈ cs, ∀ v, kvGet c.1 m = some v → v.dk = true) →
      kvKeys m1 = kvKeys m ∧ (∀ k, k ∉ cs.map (·.1) → kvGet k m1 = kvGet k m) ∧
      (∀ c ∈ cs, ∀ v, kvGet c.1 m1 = some v → ChildGood P c.2 v)
  | [], m, m1, h, _, _ => by
    simp only [List.foldlM_nil, pure, Except.pure, Except.ok.injEq] at h
    subst h
    simp
  | c :: r, m, m1, h, hnd, hdk => by
    simp only [List.foldlM_cons, bind, Except.bind] at h
    cases hc : childStep rec m c with
    | error e => simp [hc] at h
    | ok m' =>
      simp only [hc] at h
      have hnd' : c.1 ∉ r.map (·.1) ∧ (r.map (·.1)).Nodup := by simpa using hnd
      obtain ⟨s1, s2, s3⟩ := childStep_spec rec P hrec m m' c hc (hdk c (by simp))
      have hdk' : ∀ c' ∈ r, ∀ v, kvGet c'.1 m' = some v → v.dk = true := by
        intro c' hc' v hv
        have hne : c'.1 ≠ c.1 := by
          intro e
          exact hnd'.1 (by rw [← e]; exact List.mem_map.mpr ⟨c', hc', rfl⟩)
        rw [s2 _ hne] at hv
        exact hdk c' (by simp [hc']) v hv
      obtain ⟨i1, i2, i3⟩ := children_fold rec P hrec r m' m1 h hnd'.2 hdk'
      refine ⟨i1.trans s1, ?_, ?_⟩
      · intro k hk
        have hk1 : k ≠ c.1 := fun e => hk (by simp [e])
        have hk2 : k ∉ r.map (·.1) := fun e => hk (by simp only [List.map_cons, List.mem_cons]; exact Or.inr e)
        rw [i2 k hk2, s2 k hk1]
      · intro c' hc' v hv
        rcases List.mem_cons.mp hc' with e | e
        · subst e
          rw [i2 _ hnd'.1] at hv
          exact s3 v hv
        · exact i3 c' e v hv

theorem children_keys_nodup (kd : Kind) : (kd.children.map (·.1)).Nodup := by
  cases kd <;> simp [Kind.children]

theorem children_not_include (kd : Kind) : ∀ cs ∈ kd.children, cs.1 ≠ "$include" := by
  cases kd <;> simp [Kind.children] <;> decide

/-! ### bases -/

theorem inclStep_fold (rec : Stack → Y → FR Y) (W : World) (stack : Stack) (v3 : Bool) (G : Y → Prop)
    (hrec : ∀ st p di c ov, findInDirs p W.dirs 0 = some (di, c) → rec st c = .ok ov → G ov)
    (hpatch : ∀ b o, G b → G o → G (patchNode v3 b o)) :
    ∀ (paths : List String) (base res : Option Y), paths.foldlM (inclStep rec W stack v3) base = .ok res →
      (∀ b, base = some b → G b) → ∀ b, res = some b → G b
  | [], base, res, h, hb => by
    simp only [List.foldlM_nil, pure, Except.pure, Except.ok.injEq] at h
    subst h
    exact hb
  | p :: r, base, res, h, hb => by
    simp only [List.foldlM_cons, bind, Except.bind] at h
    cases hs : inclStep rec W stack v3 base p with
    | error e => simp [hs] at h
    | ok base' =>
      simp only [hs] at h
      refine inclStep_fold rec W stack v3 G hrec hpatch r base' res h ?_
      intro b' hb'
      subst hb'
      simp only [inclStep] at hs
      cases hf : findInDirs p W.dirs 0 with
      | none =>
        simp only [hf] at hs
        by_cases hi : W.ignoreNotFound = true
        · simp only [hi, if_true, Except.ok.injEq] at hs
          exact hb b' hs
        · simp [hi] at hs
      | some fc =>
        obtain ⟨di, content⟩ := fc
        simp only [hf] at hs
        split at hs
        · simp at hs
        · simp only [bind, Except.bind] at hs
          cases hr : rec ((di, p) :: stack) content with
          | error e => simp [hr] at hs
          | ok ov =>
            simp only [hr] at hs
            have gov := hrec _ p di content ov hf hr
            cases base with
            | none =>
              simp only [Except.ok.injEq, Option.some.injEq] at hs
              subst hs
              exact gov
            | some b0 =>
              simp only [Except.ok.injEq, Option.some.injEq] at hs
              subst hs
              exact hpatch b0 ov (hb b0 rfl) gov

/-- every file of every inclusion directory holds each key at most once -/
def World.dk (W : World) : Prop := ∀ d ∈ W.dirs, ∀ f ∈ d, f.2.dk = true

theorem findInDirs_dk (p : String) : ∀ (ds : List (List (String × Y))) (i di : Nat) (c : Y),
    (∀ d ∈ ds, ∀ f ∈ d, f.2.dk = true) → findInDirs p ds i = some (di, c) → c.dk = true
  | [], _, _, _, _, h => by simp [findInDirs] at h
  | d :: r, i, di, c, hw, h => by
    simp only [findInDirs] at h
    cases hg : kvGet p d with
    | some y =>
      simp only [hg, Option.some.injEq, Prod.mk.injEq] at h
      obtain ⟨_, rfl⟩ := h
      exact hw d (by simp) (p, y) (kvGet_mem hg)
    | none =>
      simp only [hg] at h
      exact findInDirs_dk p r (i + 1) di c (fun d' hd' => hw d' (by simp [hd'])) h

theorem nodup_kvErase (k : String) : ∀ m : KVs, (kvKeys m).Nodup → (kvKeys (kvErase k m)).Nodup := by
  intro m h
  have hsub : ∀ m : KVs, List.Sublist (kvKeys (kvErase k m)) (kvKeys m) := by
    intro m
    induction m with
    | nil => simp [kvErase, kvKeys]
    | cons kv r ih =>
      obtain ⟨k', v⟩ := kv
      by_cases hk : k' = k
      · simp only [kvErase, hk, if_true, kvKeys, List.map_cons]
        exact List.Sublist.cons _ (by simpa [kvKeys] using ih)
      · simp only [kvErase, hk, if_false, kvKeys, List.map_cons]
        exact List.Sublist.cons_cons _ (by simpa [kvKeys] using ih)
  exact List.Nodup.sublist (hsub m) h

/-! ### the inclusion stage -/

theorem procInclude_good (W : World) (hW : W.dk) : ∀ (fuel : Nat) (stack : Stack) (kd : Kind) (y y' : Y),
    y.dk = true → procInclude W fuel stack kd y = .ok y' → ∀ d, Good d kd y'
  | 0, _, _, _, _, _, h => by simp [procInclude] at h
  | fuel + 1, stack, kd, y, y', hdk, h => by
    cases y with
    | map m0 =>
      simp only [procInclude, bind, Except.bind] at h
      cases hch : kd.children.foldlM (childStep (fun k' c => procInclude W fuel stack k' c)) m0 with
      | error e => simp [hch] at h
      | ok m1 =>
        simp only [hch] at h
        have hm0 := dk_map hdk
        obtain ⟨c1, c2, c3⟩ := children_fold (fun k' c => procInclude W fuel stack k' c)
          (fun k y => ∀ d, Good d k y)
          (fun k' c c' hc hr => procInclude_good W hW fuel stack k' c c' hc hr)
          kd.children m0 m1 hch (children_keys_nodup kd)
          (fun c _ v hv => dk_get hdk hv)
        have hn1 : (kvKeys m1).Nodup := by rw [c1]; exact hm0.1
        -- children of m1 at any depth
        have hchild : ∀ d, ∀ cs ∈ kd.children, ∀ v, kvGet cs.1 m1 = some v →
            ChildGood (fun k y => Good d k y) cs.2 v := by
          intro d cs hcs v hv
          have := c3 cs hcs v hv
          cases hs : cs.2 with
          | single k' => simp only [hs, ChildGood] at this ⊢; exact this d
          | each k' =>
            simp only [hs, ChildGood] at this ⊢
            obtain ⟨cm, e, hn, ha⟩ := this
            exact ⟨cm, e, hn, fun kv hkv => ha kv hkv d⟩
        cases hinc : kvGet "$include" m1 with
        | none =>
          simp only [hinc, Except.ok.injEq] at h
          subst h
          intro d
          cases d with
          | zero => trivial
          | succ d => exact ⟨hinc, hn1, hchild d⟩
        | some inc =>
          simp only [hinc] at h
          cases hp : includePaths inc with
          | error e => simp [hp] at h
          | ok paths =>
            simp only [hp] at h
            cases hb : paths.foldlM (inclStep (fun st c => procInclude W fuel st kd c) W stack kd.isV3) none with
            | error e => simp [hb] at h
            | ok base =>
              simp only [hb, Except.ok.injEq] at h
              subst h
              have glast : ∀ d, Good d kd (.map (kvErase "$include" m1)) := by
                intro d
                cases d with
                | zero => trivial
                | succ d =>
                  refine ⟨kvGet_kvErase_same _ _, nodup_kvErase _ _ hn1, ?_⟩
                  intro cs hcs v hv
                  rw [kvGet_kvErase_other "$include" cs.1 (fun e => children_not_include kd cs hcs e.symm)] at hv
                  exact hchild d cs hcs v hv
              have gbase : ∀ b, base = some b → ∀ d, Good d kd b :=
                inclStep_fold (fun st c => procInclude W fuel st kd c) W stack kd.isV3 (fun y => ∀ d, Good d kd y)
                  (fun st p di c ov hf hr => procInclude_good W hW fuel st kd c ov (findInDirs_dk p W.dirs 0 di c hW hf) hr)
                  (fun b o gb go => good_patchNode kd.isV3 kd b o gb go)
                  paths none base hb (by simp)
              cases base with
              | none => simpa [finishInclude] using glast
              | some b =>
                simp only [finishInclude]
                exact good_patchNode kd.isV3 kd b _ (gbase b rfl) glast
    | _ => simp [procInclude] at h

/-! ### from `Good` to the decidable `includeFree` -/

def Kind.rank : Kind → Nat
  | .trace | .meta2 => 4
  | .traceType | .traceType2 => 3
  | .dst | .dst2 => 2
  | _ => 1

theorem children_rank (kd : Kind) : ∀ cs ∈ kd.children, cs.2.ckind.rank < kd.rank := by
  cases kd <;> simp [Kind.children, ChildSpec.ckind, Kind.rank]

theorem rank_pos (kd : Kind) : 0 < kd.rank := by cases kd <;> simp [Kind.rank]

theorem good_includeFree : ∀ (d : Nat) (kd : Kind) (y : Y), kd.rank ≤ d → Good d kd y → includeFree d kd y = true
  | 0, kd, _, hr, _ => by have := rank_pos kd; omega
  | d + 1, kd, y, hr, h => by
    cases y with
    | map m =>
      simp only [Good] at h
      obtain ⟨hi, _, hc⟩ := h
      simp only [includeFree, kvHas, hi, Option.isSome_none, Bool.not_false, Bool.true_and, List.all_eq_true]
      intro cs hcs
      have hrk := children_rank kd cs hcs
      cases hg : kvGet cs.1 m with
      | none => rfl
      | some v =>
        have := hc cs hcs v hg
        cases hs : cs.2 with
        | single k' =>
          simp only [hs, ChildGood, ChildSpec.ckind] at this hrk ⊢
          exact good_includeFree d k' v (by omega) this
        | each k' =>
          simp only [hs, ChildGood, ChildSpec.ckind] at this hrk ⊢
          obtain ⟨cm, rfl, _, ha⟩ := this
          simp only [List.all_eq_true]
          exact fun kv hkv => good_includeFree d k' kv.2 (by omega) (ha kv hkv)
    | _ => simp [Good] at h

end BVM
