/-
  Proofs/Bridge.lean — the loader model (`load3`, with its schema stages and Python checks) and the
  expansion model (`expand3`) agree: whatever `load3` accepts, `expand3` expands to the same effective node.
-/
import BVM.Model.Load
import BVM.Proofs.Expand
namespace BVM

theorem modKey_mono (k : String) (f g : Y → FR Y) (h : ∀ v r, f v = .ok r → g v = .ok r) :
    ∀ (m m' : KVs), modKey k f m = .ok m' → modKey k g m = .ok m'
  | [], m', hm => by simpa [modKey] using hm
  | (k', v) :: r, m', hm => by
    by_cases hk : k' = k
    · simp only [modKey, hk, if_true, bind, Except.bind] at hm ⊢
      cases hf : f v with
      | error e => simp [hf] at hm
      | ok v' => simp only [hf] at hm; simp only [h v v' hf]; exact hm
    · simp only [modKey, hk, if_false, bind, Except.bind] at hm ⊢
      cases hr : modKey k f r with
      | error e => simp [hr] at hm
      | ok r' => simp only [hr] at hm; simp only [modKey_mono k f g h r r' hr]; exact hm

theorem mapVals_mono (f g : String → Y → FR Y) (h : ∀ k v r, f k v = .ok r → g k v = .ok r) :
    ∀ (m m' : KVs), mapVals f m = .ok m' → mapVals g m = .ok m'
  | [], m', hm => by simpa [mapVals] using hm
  | (k, v) :: r, m', hm => by
    simp only [mapVals, bind, Except.bind] at hm ⊢
    cases hf : f k v with
    | error e => simp [hf] at hm
    | ok v' =>
      simp only [hf] at hm
      simp only [h k v v' hf]
      cases hr : mapVals f r with
      | error e => simp [hr] at hm
      | ok r' => simp only [hr] at hm; simp only [mapVals_mono f g h r r' hr]; exact hm

theorem childStep_mono (r1 r2 : Kind → Y → FR Y) (h : ∀ k c r, r1 k c = .ok r → r2 k c = .ok r)
    (m : KVs) (cs : String × ChildSpec) (m' : KVs) (hm : childStep r1 m cs = .ok m') : childStep r2 m cs = .ok m' := by
  obtain ⟨key, spec⟩ := cs
  cases spec with
  | single k' => exact modKey_mono _ _ _ (fun v r => h k' v r) _ _ hm
  | each k' =>
    simp only [childStep] at hm ⊢
    refine modKey_mono _ _ _ ?_ _ _ hm
    intro v r hv
    cases v with
    | map cm =>
      simp only [bind, Except.bind] at hv ⊢
      cases hc : mapVals (fun _ c => r1 k' c) cm with
      | error e => simp [hc] at hv
      | ok cm' =>
        simp only [hc] at hv
        simp only [mapVals_mono _ (fun _ c => r2 k' c) (fun _ v r => h k' v r) cm cm' hc]
        exact hv
    | _ => simp at hv

theorem foldlM_mono {α β : Type} (s1 s2 : α → β → FR α) (h : ∀ a b r, s1 a b = .ok r → s2 a b = .ok r) :
    ∀ (l : List β) (a r : α), l.foldlM s1 a = .ok r → l.foldlM s2 a = .ok r
  | [], a, r, hr => by simpa using hr
  | b :: t, a, r, hr => by
    simp only [List.foldlM_cons, bind, Except.bind] at hr ⊢
    cases h1 : s1 a b with
    | error e => simp [h1] at hr
    | ok a' => simp only [h1] at hr; simp only [h a b a' h1]; exact foldlM_mono s1 s2 h t a' r hr

theorem inclStep_mono (r1 r2 : Stack → Y → FR Y) (h : ∀ st c r, r1 st c = .ok r → r2 st c = .ok r)
    (W : World) (stack : Stack) (v3 : Bool) (base : Option Y) (p : String) (res : Option Y)
    (hm : inclStep r1 W stack v3 base p = .ok res) : inclStep r2 W stack v3 base p = .ok res := by
  unfold inclStep at hm ⊢
  cases hf : findInDirs p W.dirs 0 with
  | none => simpa [hf] using hm
  | some fc =>
    obtain ⟨di, c⟩ := fc
    simp only [hf] at hm ⊢
    by_cases hc : stack.contains (di, p) = true
    · simp only [hc, if_true] at hm; cases hm
    · simp only [hc, Bool.false_eq_true, if_false, bind, Except.bind] at hm ⊢
      cases h1 : r1 ((di, p) :: stack) c with
      | error e => simp [h1] at hm
      | ok ov => simp only [h1] at hm; simp only [h _ _ ov h1]; exact hm

/-- what the checked inclusion processing returns, the plain one returns too -/
theorem procIncludeChecked_ok (store : Store) (W : World) : ∀ (fuel : Nat) (stack : Stack) (kd : Kind) (y r : Y),
    procIncludeChecked store W fuel stack kd y = .ok r → procInclude W fuel stack kd y = .ok r := by
  intro fuel
  induction fuel with
  | zero => intro stack kd y r h; simp [procIncludeChecked] at h
  | succ f ih =>
    intro stack kd y r h
    simp only [procIncludeChecked, bind, Except.bind] at h
    cases hs : schemaStage store (f + 1) (preIncludeSchema kd) y with
    | error e => simp [hs] at h
    | ok u =>
      simp only [hs] at h
      cases y with
      | map m0 =>
        simp only at h
        simp only [procInclude, bind, Except.bind]
        cases hc : kd.children.foldlM (childStep (fun k' c => procIncludeChecked store W f stack k' c)) m0 with
        | error e => simp [hc] at h
        | ok m1 =>
          simp only [hc] at h
          have hc' := foldlM_mono _ (childStep (fun k' c => procInclude W f stack k' c))
            (fun a b r hr => childStep_mono _ _ (fun k c r h => ih stack k c r h) a b r hr) _ _ _ hc
          simp only [hc']
          cases hi : kvGet "$include" m1 with
          | none => simpa [hi] using h
          | some inc =>
            simp only [hi] at h ⊢
            cases hp : includePaths inc with
            | error e => simp [hp] at h
            | ok paths =>
              simp only [hp] at h ⊢
              cases hb : paths.foldlM (inclStep (fun st c => procIncludeChecked store W f st kd c) W stack kd.isV3) none with
              | error e => simp [hb] at h
              | ok base =>
                simp only [hb] at h
                have hb' := foldlM_mono _ (inclStep (fun st c => procInclude W f st kd c) W stack kd.isV3)
                  (fun a b r hr => inclStep_mono _ _ (fun st c r h => ih st kd c r h) W stack kd.isV3 a b r hr) _ _ _ hb
                simp only [hb']
                exact h
      | _ => simp at h

/-- the effective node of an accepted document is the one the expansion model gives -/
theorem load3_ok_expand3 (store : Store) (W : World) (fuel : Nat) (cfg e : KVs)
    (h : load3 store W fuel cfg = .ok e) : expand3 W fuel cfg = .ok e := by
  simp only [load3, bind, Except.bind, pure, Except.pure] at h
  cases h0 : schemaStage store fuel "config/3/config-pre-include" (Y.map cfg) with
  | error _ => simp [h0] at h
  | ok _ =>
  simp only [h0] at h
  cases h1 : reqK "trace" cfg with
  | error _ => simp [h1] at h
  | ok tr =>
  simp only [h1] at h
  cases h2 : procIncludeChecked store W fuel [] Kind.trace tr with
  | error _ => simp [h2] at h
  | ok tr1 =>
  simp only [h2] at h
  cases h3 : schemaStage store fuel "config/3/config-pre-field-type-expansion" (Y.map (kvSet "trace" tr1 cfg)) with
  | error _ => simp [h3] at h
  | ok _ =>
  simp only [h3] at h
  have htr : kvGet "trace" cfg = some tr := by
    unfold reqK at h1
    cases hg : kvGet "trace" cfg with
    | none => simp [hg] at h1
    | some v => simp [hg] at h1; rw [h1]
  have hinc := procIncludeChecked_ok store W fuel [] .trace tr tr1 h2
  cases tr1 with
  | map m =>
    simp only at h
    cases h4 : reqK "type" m with
    | error _ => simp [h4] at h
    | ok ttv =>
    simp only [h4] at h
    have hty : kvGet "type" m = some ttv := by
      unfold reqK at h4
      cases hg : kvGet "type" m with
      | none => simp [hg] at h4
      | some v => simp [hg] at h4; rw [h4]
    cases ttv with
    | map tt =>
      simp only at h
      cases h5 : expandFts3 fuel tt with
      | error _ => simp [h5] at h
      | ok tt1 =>
      simp only [h5] at h
      cases h6 : schemaStage store fuel "config/3/config-pre-log-level-alias-sub"
          (Y.map (kvSet "trace" (Y.map (kvSet "type" (Y.map tt1) m)) cfg)) with
      | error _ => simp [h6] at h
      | ok _ =>
      simp only [h6] at h
      cases h7 : subLogLevels tt1 with
      | error _ => simp [h7] at h
      | ok tt2 =>
      simp only [h7] at h
      cases h8 : schemaStage store fuel "config/3/config" (Y.map (kvSet "trace" (Y.map (kvSet "type" (Y.map tt2) m)) cfg)) with
      | error _ => simp [h8] at h
      | ok _ =>
      simp only [h8] at h
      cases h9 : normalizeTrace (kvSet "type" (Y.map tt2) m) with
      | error _ => simp [h9] at h
      | ok trm2 =>
      simp only [h9] at h
      cases h10 : pyChecks fuel (kvSet "trace" (Y.map trm2) cfg) with
      | error _ => simp [h10] at h
      | ok u =>
      simp only [h10] at h
      injection h with h
      subst h
      simp only [expand3, htr, hinc, bind, Except.bind, hty, h5, h7, h9]
    | _ => simp at h
  | _ => simp at h

end BVM
