/-
  Proofs/Bits.lean — lemmas about Model/Bits.lean (core Lean only).
-/
import BVM.Model.Bits
namespace BVM


theorem getB_setB_same {l : Buf} {i x : Nat} (h : i < l.length) : getB (setB l i x) i = x := by
  simp [getB, setB, h]

theorem getB_setB_ne {l : Buf} {i j x : Nat} (h : i ≠ j) : getB (setB l i x) j = getB l j := by
  simp [getB, setB, List.getD_eq_getElem?_getD, List.getElem?_set_ne h]

@[simp] theorem setB_length (l : Buf) (i x : Nat) : (setB l i x).length = l.length := by
  simp [setB]

theorem itb_shiftRight (v : Int) (k q : Nat) : itb (v >>> k) q = itb v (k + q) := by
  cases v with
  | ofNat n =>
    show itb (Int.ofNat (n >>> k)) q = _
    simp [itb, Nat.testBit_shiftRight]
  | negSucc n =>
    show itb (Int.negSucc (n >>> k)) q = _
    simp [itb, Nat.testBit_shiftRight]



theorem emod_pow_ofNat (a n : Nat) : (Int.ofNat a) % (2:Int)^n = Int.ofNat (a % 2^n) := by
  have : ((2:Int)^n) = ((2^n : Nat) : Int) := by simp
  rw [this]; rfl

theorem emod_pow_negSucc (a n : Nat) : (Int.negSucc a) % (2:Int)^n = Int.ofNat (2^n - (a % 2^n + 1)) := by
  have hpos : (0:Int) < (2:Int)^n := Int.pow_pos (by decide)
  rw [Int.negSucc_emod a hpos]
  have h2 : ((2:Int)^n) = ((2^n : Nat) : Int) := by simp
  have hlt : a % 2^n < 2^n := Nat.mod_lt _ (Nat.two_pow_pos n)
  rw [h2]
  show _ = ((2^n - (a % 2^n + 1) : Nat) : Int)
  omega

theorem itb_emod_pow (v : Int) (n q : Nat) : itb (v % (2:Int)^n) q = (decide (q < n) && itb v q) := by
  cases v with
  | ofNat a => rw [emod_pow_ofNat]; simp [itb, Nat.testBit_mod_two_pow]
  | negSucc a =>
    rw [emod_pow_negSucc]
    have hlt : a % 2^n < 2^n := Nat.mod_lt _ (Nat.two_pow_pos n)
    simp only [itb]
    rw [Nat.testBit_two_pow_sub_succ hlt, Nat.testBit_mod_two_pow]
    by_cases h : q < n <;> simp [h]

theorem u8_testBit (v : Int) (q : Nat) : (u8 v).testBit q = (decide (q < 8) && itb v q) := by
  have h := itb_emod_pow v 8 q
  have e : v % 256 = v % (2:Int)^8 := by rfl
  unfold u8
  rw [e]
  have hnn : 0 ≤ v % (2:Int)^8 := Int.emod_nonneg _ (by decide)
  rw [← h]
  generalize v % (2:Int)^8 = w at hnn
  cases w with
  | ofNat a => simp [itb]
  | negSucc a => exact absurd hnn (by simp [Int.negSucc_not_nonneg])



theorem shrRep_eq (k n : Nat) (v : Int) : shrRep k n v = v >>> (k * n) := by
  induction n generalizing v with
  | zero => simp [shrRep]
  | succ n ih =>
    simp only [shrRep]
    rw [ih, ← Int.shiftRight_add]
    congr 1
    rw [Nat.mul_succ]; omega

theorem pwRshift_eq (W : Nat) (v : Int) (k : Nat) : pwRshift W v k = v >>> k := by
  unfold pwRshift
  simp only
  rw [shrRep_eq, ← Int.shiftRight_add]
  congr 1
  exact Nat.div_add_mod (k) (W - 1)

theorem hiMask_eq (e : Nat) (he : e ≤ 8) : 256 - 2 ^ e = (2 ^ (8 - e) - 1) <<< e := by
  have : e = 0 ∨ e = 1 ∨ e = 2 ∨ e = 3 ∨ e = 4 ∨ e = 5 ∨ e = 6 ∨ e = 7 ∨ e = 8 := by omega
  rcases this with h|h|h|h|h|h|h|h|h <;> subst h <;> decide

theorem hiMask_testBit (e q : Nat) (he : e ≤ 8) :
    (256 - 2 ^ e).testBit q = (decide (e ≤ q) && decide (q < 8)) := by
  rw [hiMask_eq e he, Nat.testBit_shiftLeft, Nat.testBit_two_pow_sub_one]
  by_cases h1 : e ≤ q <;> by_cases h2 : q < 8 <;> simp [h1, h2] <;> omega

theorem lowMask_testBit (c q : Nat) : (2 ^ c - 1).testBit q = decide (q < c) :=
  Nat.testBit_two_pow_sub_one c q

theorem not8_testBit (m q : Nat) (hm : m < 256) :
    (255 - m).testBit q = (decide (q < 8) && !m.testBit q) := by
  have : 255 - m = 2 ^ 8 - (m + 1) := by omega
  rw [this]
  exact Nat.testBit_two_pow_sub_succ (by omega) q

theorem wrMasked_get (buf : Buf) (u mask cmask k : Nat) (hu : u < buf.length) :
    getB (wrMasked buf u mask cmask) k =
      if k = u then ((getB buf u &&& mask) ||| cmask) else getB buf k := by
  unfold wrMasked
  by_cases h : k = u
  · subst h; rw [getB_setB_same hu]; simp
  · rw [getB_setB_ne (Ne.symm h)]; simp [h]

@[simp] theorem wrMasked_length (buf : Buf) (u mask cmask : Nat) :
    (wrMasked buf u mask cmask).length = buf.length := by
  simp [wrMasked]

/-- specification of the whole-unit loop -/
theorem leLoop_spec (W n : Nat) : ∀ (buf : Buf) (u : Nat) (v : Int), u + n ≤ buf.length →
    (leLoop W n buf u v).2.1 = v >>> (8 * n) ∧ (leLoop W n buf u v).2.2 = u + n ∧
    (leLoop W n buf u v).1.length = buf.length ∧
    ∀ k, getB (leLoop W n buf u v).1 k =
      if u ≤ k ∧ k < u + n then u8 (v >>> (8 * (k - u))) else getB buf k := by
  induction n with
  | zero =>
    intro buf u v _
    simp [leLoop]
    intro k h1 h2; omega
  | succ n ih =>
    intro buf u v h
    simp only [leLoop]
    have hlen : (setB buf u (u8 v)).length = buf.length := setB_length _ _ _
    obtain ⟨h1, h2, h3, h4⟩ := ih (setB buf u (u8 v)) (u + 1) (pwRshift W v 8) (by rw [hlen]; omega)
    refine ⟨?_, ?_, ?_, ?_⟩
    · rw [h1, pwRshift_eq, ← Int.shiftRight_add]; congr 1; omega
    · rw [h2]; omega
    · rw [h3, hlen]
    · intro k
      rw [h4 k]
      by_cases hk : k = u
      · subst hk
        have : ¬ (k + 1 ≤ k ∧ k < k + 1 + n) := by omega
        rw [if_neg this, getB_setB_same (by omega)]
        simp
      · rw [getB_setB_ne (Ne.symm hk)]
        by_cases hr : u + 1 ≤ k ∧ k < u + 1 + n
        · have : u ≤ k ∧ k < u + (n + 1) := by omega
          rw [if_pos hr, if_pos this, pwRshift_eq, ← Int.shiftRight_add]
          congr 2; omega
        · have : ¬ (u ≤ k ∧ k < u + (n + 1)) := by omega
          rw [if_neg hr, if_neg this]

theorem lowMask_lt (c : Nat) (hc : c ≤ 8) : 2 ^ c - 1 < 256 := by
  have : c = 0 ∨ c = 1 ∨ c = 2 ∨ c = 3 ∨ c = 4 ∨ c = 5 ∨ c = 6 ∨ c = 7 ∨ c = 8 := by omega
  rcases this with h|h|h|h|h|h|h|h|h <;> subst h <;> decide

theorem hiMask_lt (e : Nat) : 256 - 2 ^ e < 256 := by
  have := Nat.two_pow_pos e; omega

theorem or_lt_256 {a b : Nat} (ha : a < 256) (hb : b < 256) : a ||| b < 256 := by
  have : (256 : Nat) = 2 ^ 8 := by decide
  rw [this] at *
  exact Nat.or_lt_two_pow ha hb

/-- one masked byte update of the macros: keep `old` where `mask` is set, else take `v` shifted left by `c` -/
theorem partial_testBit (old : Nat) (v : Int) (c mask q : Nat) (hm : mask < 256) (hq : q < 8) :
    ((old &&& mask) ||| (((u8 v <<< c) % 256) &&& (255 - mask))).testBit q =
      if mask.testBit q then old.testBit q else (decide (c ≤ q) && itb v (q - c)) := by
  have e256 : (256 : Nat) = 2 ^ 8 := by decide
  rw [Nat.testBit_or, Nat.testBit_and, Nat.testBit_and, not8_testBit _ _ hm, e256, Nat.testBit_mod_two_pow,
    Nat.testBit_shiftLeft, u8_testBit]
  by_cases hmq : mask.testBit q <;> by_cases hcq : c ≤ q <;> simp [hmq, hcq, hq] <;> omega

/-- last partial unit (LE) / first partial unit (BE): low bits from `v`, no shift -/
theorem partial0_testBit (old : Nat) (v : Int) (mask q : Nat) (hm : mask < 256) (hq : q < 8) :
    ((old &&& mask) ||| (u8 v &&& (255 - mask))).testBit q =
      if mask.testBit q then old.testBit q else itb v q := by
  rw [Nat.testBit_or, Nat.testBit_and, Nat.testBit_and, not8_testBit _ _ hm, u8_testBit]
  by_cases hmq : mask.testBit q <;> simp [hmq, hq]


theorem trim_itb (W len : Nat) (v0 : Int) (j : Nat) (hj : j < len) :
    itb (if len < W then v0 % (2 : Int) ^ len else v0) j = itb v0 j := by
  by_cases h : len < W
  · simp [h, itb_emod_pow, hj]
  · simp [h]

theorem bfWriteLE_single (buf : Buf) (base start len : Nat) (v : Int) (hl : len ≠ 0)
    (hsu : start / 8 = (start + len + 7) / 8 - 1)
    (hb : base + (start + len + 7) / 8 ≤ buf.length) (k q : Nat) (hq : q < 8) :
    let mask0 := 2 ^ (start % 8) - 1
    let mask := if (start + len) % 8 ≠ 0 then mask0 ||| (256 - 2 ^ ((start + len) % 8)) else mask0
    let cmask := ((u8 v <<< (start % 8)) % 256) &&& (255 - mask)
    (getB (leSingle buf base start len v) k).testBit q =
      if 8 * base + start ≤ 8 * k + q ∧ 8 * k + q < 8 * base + start + len
      then itb v (8 * k + q - (8 * base + start)) else (getB buf k).testBit q := by
  intro mask0 mask cmask
  show (getB (wrMasked buf (base + start / 8) mask cmask) k).testBit q = _
  have hc : start % 8 < 8 := Nat.mod_lt _ (by decide)
  have hm0 : mask0 < 256 := lowMask_lt _ (by omega)
  have hm : mask < 256 := by
    show (if (start + len) % 8 ≠ 0 then mask0 ||| (256 - 2 ^ ((start + len) % 8)) else mask0) < 256
    split
    · exact or_lt_256 hm0 (hiMask_lt _)
    · exact hm0
  rw [wrMasked_get _ _ _ _ _ (by omega)]
  by_cases hk : k = base + start / 8
  · rw [if_pos hk, ← hk]
    show ((getB buf k &&& mask) ||| (((u8 v <<< (start % 8)) % 256) &&& (255 - mask))).testBit q = _
    rw [partial_testBit _ _ _ _ _ hm hq]
    have hmq : mask.testBit q = (decide (q < start % 8) || (decide ((start + len) % 8 ≠ 0) && decide ((start + len) % 8 ≤ q))) := by
      show (if (start + len) % 8 ≠ 0 then mask0 ||| (256 - 2 ^ ((start + len) % 8)) else mask0).testBit q = _
      by_cases he : (start + len) % 8 ≠ 0
      · rw [if_pos he, Nat.testBit_or, lowMask_testBit, hiMask_testBit _ _ (by omega)]
        simp [he, hq]
      · rw [if_neg he, lowMask_testBit]; simp [he]
    rw [hmq]
    by_cases h1 : q < start % 8
    · have : ¬ (8 * base + start ≤ 8 * k + q ∧ 8 * k + q < 8 * base + start + len) := by omega
      simp [h1, this]
    · by_cases h2 : (start + len) % 8 ≠ 0 ∧ (start + len) % 8 ≤ q
      · have : ¬ (8 * base + start ≤ 8 * k + q ∧ 8 * k + q < 8 * base + start + len) := by omega
        simp [h1, h2.1, h2.2, this]
      · have hin : (8 * base + start ≤ 8 * k + q ∧ 8 * k + q < 8 * base + start + len) := by omega
        have hidx : 8 * k + q - (8 * base + start) = q - start % 8 := by omega
        have hcq : start % 8 ≤ q := by omega
        rw [if_pos hin, hidx]
        by_cases he : (start + len) % 8 ≠ 0
        · have : ¬ ((start + len) % 8 ≤ q) := fun h => h2 ⟨he, h⟩
          simp [h1, he, this, hcq]
        · simp [h1, he, hcq]
  · rw [if_neg hk]
    have : ¬ (8 * base + start ≤ 8 * k + q ∧ 8 * k + q < 8 * base + start + len) := by omega
    rw [if_neg this]

theorem leFirst_spec (W : Nat) (buf : Buf) (base start : Nat) (v : Int)
    (hb : base + start / 8 < buf.length) :
    let f := leFirst W buf base start v
    (f.2.2 = start / 8 + (if start % 8 ≠ 0 then 1 else 0)) ∧ f.2.1 = v >>> (8 * f.2.2 - start) ∧
    f.1.length = buf.length ∧
    ∀ k q, q < 8 → (getB f.1 k).testBit q =
      if 8 * base + start ≤ 8 * k + q ∧ 8 * k + q < 8 * (base + f.2.2)
      then itb v (8 * k + q - (8 * base + start)) else (getB buf k).testBit q := by
  intro f
  by_cases hc : start % 8 ≠ 0
  · have hf : f = (wrMasked buf (base + start / 8) (2 ^ (start % 8) - 1)
        (((u8 v <<< (start % 8)) % 256) &&& (255 - (2 ^ (start % 8) - 1))), pwRshift W v (8 - start % 8), start / 8 + 1) := by
      show leFirst W buf base start v = _
      simp only [leFirst, hc, if_true, ne_eq, not_false_eq_true]
    rw [hf]
    have hc8 : start % 8 < 8 := Nat.mod_lt _ (by decide)
    refine ⟨by simp [hc], ?_, by simp, ?_⟩
    · show pwRshift W v (8 - start % 8) = v >>> (8 * (start / 8 + 1) - start)
      rw [pwRshift_eq]; congr 1; omega
    · intro k q hq
      show (getB (wrMasked buf (base + start / 8) _ _) k).testBit q = if _ ∧ 8 * k + q < 8 * (base + (start / 8 + 1)) then _ else _
      rw [wrMasked_get _ _ _ _ _ hb]
      by_cases hk : k = base + start / 8
      · rw [if_pos hk, ← hk, partial_testBit _ _ _ _ _ (lowMask_lt _ (by omega)) hq, lowMask_testBit]
        by_cases h1 : q < start % 8
        · have : ¬ (8 * base + start ≤ 8 * k + q ∧ 8 * k + q < 8 * (base + (start / 8 + 1))) := by omega
          simp [h1, this]
        · have hin : (8 * base + start ≤ 8 * k + q ∧ 8 * k + q < 8 * (base + (start / 8 + 1))) := by omega
          have hidx : 8 * k + q - (8 * base + start) = q - start % 8 := by omega
          have : start % 8 ≤ q := by omega
          simp [h1, hin, hidx, this]
      · rw [if_neg hk]
        have : ¬ (8 * base + start ≤ 8 * k + q ∧ 8 * k + q < 8 * (base + (start / 8 + 1))) := by omega
        rw [if_neg this]
  · have hf : f = (buf, v, start / 8) := by
      show leFirst W buf base start v = _
      simp only [leFirst, hc, if_false]
    rw [hf]
    refine ⟨by simp [hc], ?_, rfl, ?_⟩
    · show v = v >>> (8 * (start / 8) - start)
      have : 8 * (start / 8) - start = 0 := by omega
      rw [this]; simp
    · intro k q hq
      show (getB buf k).testBit q = if _ ∧ 8 * k + q < 8 * (base + start / 8) then _ else _
      have : ¬ (8 * base + start ≤ 8 * k + q ∧ 8 * k + q < 8 * (base + start / 8)) := by omega
      rw [if_neg this]

theorem leLast_spec (buf : Buf) (u e : Nat) (v : Int) (he : e < 8) (hu : u < buf.length) :
    (leLast buf u e v).length = buf.length ∧
    ∀ k q, q < 8 → (getB (leLast buf u e v) k).testBit q =
      if k = u ∧ (e = 0 ∨ q < e) then itb v q else (getB buf k).testBit q := by
  by_cases h0 : e ≠ 0
  · have hf : leLast buf u e v = wrMasked buf u (256 - 2 ^ e) (u8 v &&& (255 - (256 - 2 ^ e))) := by
      simp only [leLast, h0, if_true, ne_eq, not_false_eq_true]
    rw [hf]
    refine ⟨by simp, ?_⟩
    intro k q hq
    rw [wrMasked_get _ _ _ _ _ hu]
    by_cases hk : k = u
    · rw [if_pos hk, ← hk, partial0_testBit _ _ _ _ (hiMask_lt _) hq, hiMask_testBit _ _ (by omega)]
      by_cases h1 : e ≤ q
      · have : ¬ (k = k ∧ (e = 0 ∨ q < e)) := by omega
        rw [if_neg this]; simp [h1, hq]
      · have : (k = k ∧ (e = 0 ∨ q < e)) := by omega
        simp [h1, this]
    · rw [if_neg hk]
      have : ¬ (k = u ∧ (e = 0 ∨ q < e)) := by omega
      rw [if_neg this]
  · have hf : leLast buf u e v = setB buf u (u8 v) := by
      simp only [leLast, h0, if_false]
    rw [hf]
    refine ⟨by simp, ?_⟩
    intro k q hq
    by_cases hk : k = u
    · subst hk
      rw [getB_setB_same hu, u8_testBit]
      have : (k = k ∧ (e = 0 ∨ q < e)) := by omega
      simp [hq, this]
    · rw [getB_setB_ne (Ne.symm hk)]
      have : ¬ (k = u ∧ (e = 0 ∨ q < e)) := by omega
      rw [if_neg this]

theorem bfWriteLE_spec (vt : CInt) (buf : Buf) (base start len : Nat) (v0 : Int)
    (hb : base + (start + len + 7) / 8 ≤ buf.length) :
    (bfWriteLE vt buf base start len v0).length = buf.length ∧
    ∀ k q, q < 8 →
    (getB (bfWriteLE vt buf base start len v0) k).testBit q =
      if 8 * base + start ≤ 8 * k + q ∧ 8 * k + q < 8 * base + start + len
      then itb v0 (8 * k + q - (8 * base + start)) else (getB buf k).testBit q := by
  by_cases hl : len = 0
  · subst hl
    refine ⟨by simp [bfWriteLE], ?_⟩
    intro k q _
    have : ¬ (8 * base + start ≤ 8 * k + q ∧ 8 * k + q < 8 * base + start + 0) := by omega
    rw [if_neg this]; simp [bfWriteLE]
  · have hv : ∀ j, j < len → itb (if len < vt.width then v0 % (2 : Int) ^ len else v0) j = itb v0 j :=
      fun j hj => trim_itb _ _ _ _ hj
    unfold bfWriteLE
    simp only [hl, if_false]
    generalize (if len < vt.width then v0 % (2 : Int) ^ len else v0) = v at hv
    by_cases hsu : start / 8 = (start + len + 7) / 8 - 1
    · simp only [hsu, if_true]
      refine ⟨by simp [leSingle], ?_⟩
      intro k q hq
      rw [bfWriteLE_single buf base start len v hl hsu hb k q hq]
      by_cases hin : 8 * base + start ≤ 8 * k + q ∧ 8 * k + q < 8 * base + start + len
      · rw [if_pos hin, if_pos hin]; exact hv _ (by omega)
      · rw [if_neg hin, if_neg hin]
    · simp only [hsu, if_false]
      obtain ⟨f1, f2, f3, f4⟩ := leFirst_spec vt.width buf base start v (by omega)
      generalize leFirst vt.width buf base start v = f at f1 f2 f3 f4
      obtain ⟨fb, fv, fu⟩ := f
      simp only at f1 f2 f3 f4 ⊢
      have hfu : fu ≤ (start + len + 7) / 8 - 1 := by rw [f1]; split <;> omega
      obtain ⟨m1, m2, m3, m4⟩ := leLoop_spec vt.width ((start + len + 7) / 8 - 1 - fu) fb (base + fu) fv
        (by rw [f3]; omega)
      generalize leLoop vt.width ((start + len + 7) / 8 - 1 - fu) fb (base + fu) fv = m at m1 m2 m3 m4
      obtain ⟨mb, mv, mu⟩ := m
      simp only at m1 m2 m3 m4 ⊢
      have he8 : (start + len) % 8 < 8 := Nat.mod_lt _ (by decide)
      have hmu : mu = base + ((start + len + 7) / 8 - 1) := by rw [m2]; omega
      have hcnt : base + fu + ((start + len + 7) / 8 - 1 - fu) = base + ((start + len + 7) / 8 - 1) := by omega
      rw [hcnt] at m4
      have hfu' : fu = start / 8 ∧ start % 8 = 0 ∨ fu = start / 8 + 1 ∧ start % 8 ≠ 0 := by
        rw [f1]; split <;> omega
      clear m2 f1 hcnt
      obtain ⟨l1, l2⟩ := leLast_spec mb mu ((start + len) % 8) mv he8 (by rw [m3, f3, hmu]; omega)
      refine ⟨by rw [l1, m3, f3], ?_⟩
      intro k q hq
      rw [l2 k q hq]
      by_cases hlast : k = mu ∧ ((start + len) % 8 = 0 ∨ q < (start + len) % 8)
      · rw [if_pos hlast]
        have hin : 8 * base + start ≤ 8 * k + q ∧ 8 * k + q < 8 * base + start + len := by
          rw [hlast.1, hmu]; omega
        rw [if_pos hin, ← hv _ (by omega), m1, f2, ← Int.shiftRight_add, itb_shiftRight]
        congr 1
        rw [hlast.1, hmu]; omega
      · rw [if_neg hlast]
        have hm := m4 k
        by_cases hmid : base + fu ≤ k ∧ k < base + ((start + len + 7) / 8 - 1)
        · rw [if_pos hmid] at hm
          rw [hm, u8_testBit, f2, itb_shiftRight, itb_shiftRight]
          have hin : 8 * base + start ≤ 8 * k + q ∧ 8 * k + q < 8 * base + start + len := by
            omega
          rw [if_pos hin, ← hv _ (by omega)]
          simp only [hq, decide_true, Bool.true_and]
          congr 1
          omega
        · rw [if_neg hmid] at hm
          rw [hm, f4 k q hq]
          by_cases hfst : 8 * base + start ≤ 8 * k + q ∧ 8 * k + q < 8 * (base + fu)
          · have hin : 8 * base + start ≤ 8 * k + q ∧ 8 * k + q < 8 * base + start + len := by
              omega
            rw [if_pos hfst, if_pos hin]; exact hv _ (by omega)
          · have hin : ¬ (8 * base + start ≤ 8 * k + q ∧ 8 * k + q < 8 * base + start + len) := by
              rw [hmu] at hlast
              omega
            rw [if_neg hfst, if_neg hin]

theorem beLoop_spec (W n : Nat) : ∀ (buf : Buf) (u : Nat) (v : Int), n ≤ u → u < buf.length →
    (beLoop W n buf u v).2.1 = v >>> (8 * n) ∧ (beLoop W n buf u v).2.2 = u - n ∧
    (beLoop W n buf u v).1.length = buf.length ∧
    ∀ k, getB (beLoop W n buf u v).1 k =
      if u - n < k ∧ k ≤ u then u8 (v >>> (8 * (u - k))) else getB buf k := by
  induction n with
  | zero =>
    intro buf u v _ _
    simp [beLoop]
    intro k h1 h2; omega
  | succ n ih =>
    intro buf u v hn hu
    simp only [beLoop]
    have hlen : (setB buf u (u8 v)).length = buf.length := setB_length _ _ _
    obtain ⟨h1, h2, h3, h4⟩ := ih (setB buf u (u8 v)) (u - 1) (pwRshift W v 8) (by omega) (by rw [hlen]; omega)
    refine ⟨?_, ?_, ?_, ?_⟩
    · rw [h1, pwRshift_eq, ← Int.shiftRight_add]; congr 1; omega
    · rw [h2]; omega
    · rw [h3, hlen]
    · intro k
      rw [h4 k]
      by_cases hk : k = u
      · subst hk
        have h5 : ¬ (k - 1 - n < k ∧ k ≤ k - 1) := by omega
        have h6 : (k - (n + 1) < k ∧ k ≤ k) := by omega
        rw [if_neg h5, if_pos h6, getB_setB_same hu]
        simp
      · rw [getB_setB_ne (Ne.symm hk)]
        by_cases hr : u - 1 - n < k ∧ k ≤ u - 1
        · have : u - (n + 1) < k ∧ k ≤ u := by omega
          rw [if_pos hr, if_pos this, pwRshift_eq, ← Int.shiftRight_add]
          congr 2; omega
        · have : ¬ (u - (n + 1) < k ∧ k ≤ u) := by omega
          rw [if_neg hr, if_neg this]

theorem beSingle_spec (buf : Buf) (base start len : Nat) (v : Int) (hl : len ≠ 0)
    (hsu : start / 8 = (start + len + 7) / 8 - 1)
    (hb : base + (start + len + 7) / 8 ≤ buf.length) (k q : Nat) (hq : q < 8) :
    (getB (beSingle buf base start len v) k).testBit q =
      if 8 * base + start ≤ 8 * k + 7 - q ∧ 8 * k + 7 - q < 8 * base + start + len
      then itb v (8 * base + start + len - 1 - (8 * k + 7 - q)) else (getB buf k).testBit q := by
  have hs8 : start % 8 < 8 := Nat.mod_lt _ (by decide)
  have he8 : (start + len) % 8 < 8 := Nat.mod_lt _ (by decide)
  have hm0 : 2 ^ ((8 - (start + len) % 8) % 8) - 1 < 256 := lowMask_lt _ (by omega)
  generalize hmask : (if start % 8 ≠ 0 then (2 ^ ((8 - (start + len) % 8) % 8) - 1) ||| (256 - 2 ^ (8 - start % 8))
      else (2 ^ ((8 - (start + len) % 8) % 8) - 1)) = mask
  have hm : mask < 256 := by
    rw [← hmask]; split
    · exact or_lt_256 hm0 (hiMask_lt _)
    · exact hm0
  have hmq : mask.testBit q = (decide (q < (8 - (start + len) % 8) % 8) ||
      (decide (start % 8 ≠ 0) && decide (8 - start % 8 ≤ q))) := by
    rw [← hmask]
    by_cases hs : start % 8 ≠ 0
    · rw [if_pos hs, Nat.testBit_or, lowMask_testBit, hiMask_testBit _ _ (by omega)]
      simp [hs, hq]
    · rw [if_neg hs, lowMask_testBit]; simp [hs]
  have hdef : beSingle buf base start len v = wrMasked buf (base + ((start + len + 7) / 8 - 1)) mask
      (((u8 v <<< ((8 - (start + len) % 8) % 8)) % 256) &&& (255 - mask)) := by
    rw [← hmask]; rfl
  rw [hdef, wrMasked_get _ _ _ _ _ (by omega)]
  by_cases hk : k = base + ((start + len + 7) / 8 - 1)
  · rw [if_pos hk, ← hk, partial_testBit _ _ _ _ _ hm hq, hmq]
    by_cases h1 : q < (8 - (start + len) % 8) % 8
    · have : ¬ (8 * base + start ≤ 8 * k + 7 - q ∧ 8 * k + 7 - q < 8 * base + start + len) := by omega
      simp [h1, this]
    · by_cases h2 : start % 8 ≠ 0 ∧ 8 - start % 8 ≤ q
      · have : ¬ (8 * base + start ≤ 8 * k + 7 - q ∧ 8 * k + 7 - q < 8 * base + start + len) := by omega
        simp [h1, h2.1, h2.2, this]
      · have hin : (8 * base + start ≤ 8 * k + 7 - q ∧ 8 * k + 7 - q < 8 * base + start + len) := by omega
        have hidx : 8 * base + start + len - 1 - (8 * k + 7 - q) = q - (8 - (start + len) % 8) % 8 := by omega
        have hcq : (8 - (start + len) % 8) % 8 ≤ q := by omega
        rw [if_pos hin, hidx]
        by_cases hs : start % 8 ≠ 0
        · have : ¬ (8 - start % 8 ≤ q) := fun h => h2 ⟨hs, h⟩
          simp [h1, hs, this, hcq]
        · simp [h1, hs, hcq]
  · rw [if_neg hk]
    have : ¬ (8 * base + start ≤ 8 * k + 7 - q ∧ 8 * k + 7 - q < 8 * base + start + len) := by omega
    rw [if_neg this]

theorem beFirst_spec (W : Nat) (buf : Buf) (base end_ : Nat) (v : Int) (he0 : 8 < end_)
    (hb : base + (end_ + 7) / 8 ≤ buf.length) :
    let f := beFirst W buf base end_ v
    (f.2.2 + 1 = (end_ + 7) / 8 - (if end_ % 8 ≠ 0 then 1 else 0)) ∧
    f.2.1 = v >>> (end_ - 8 * (f.2.2 + 1)) ∧
    f.1.length = buf.length ∧
    ∀ k q, q < 8 → (getB f.1 k).testBit q =
      if 8 * (base + f.2.2 + 1) ≤ 8 * k + 7 - q ∧ 8 * k + 7 - q < 8 * base + end_
      then itb v (8 * base + end_ - 1 - (8 * k + 7 - q)) else (getB buf k).testBit q := by
  intro f
  have he8 : end_ % 8 < 8 := Nat.mod_lt _ (by decide)
  by_cases hc : end_ % 8 ≠ 0
  · have hf : f = (wrMasked buf (base + ((end_ + 7) / 8 - 1)) (2 ^ (8 - end_ % 8) - 1)
        (((u8 v <<< (8 - end_ % 8)) % 256) &&& (255 - (2 ^ (8 - end_ % 8) - 1))), pwRshift W v (end_ % 8),
        (end_ + 7) / 8 - 2) := by
      show beFirst W buf base end_ v = _
      simp only [beFirst, hc, if_true, ne_eq, not_false_eq_true]
    rw [hf]
    refine ⟨by simp [hc]; omega, ?_, by simp, ?_⟩
    · show pwRshift W v (end_ % 8) = v >>> (end_ - 8 * ((end_ + 7) / 8 - 2 + 1))
      rw [pwRshift_eq]; congr 1; omega
    · intro k q hq
      show (getB (wrMasked buf (base + ((end_ + 7) / 8 - 1)) _ _) k).testBit q =
        if 8 * (base + ((end_ + 7) / 8 - 2) + 1) ≤ _ ∧ _ then _ else _
      rw [wrMasked_get _ _ _ _ _ (by omega)]
      by_cases hk : k = base + ((end_ + 7) / 8 - 1)
      · rw [if_pos hk, ← hk, partial_testBit _ _ _ _ _ (lowMask_lt _ (by omega)) hq, lowMask_testBit]
        by_cases h1 : q < 8 - end_ % 8
        · have : ¬ (8 * (base + ((end_ + 7) / 8 - 2) + 1) ≤ 8 * k + 7 - q ∧ 8 * k + 7 - q < 8 * base + end_) := by omega
          simp [h1, this]
        · have hin : (8 * (base + ((end_ + 7) / 8 - 2) + 1) ≤ 8 * k + 7 - q ∧ 8 * k + 7 - q < 8 * base + end_) := by omega
          have hidx : 8 * base + end_ - 1 - (8 * k + 7 - q) = q - (8 - end_ % 8) := by omega
          have : 8 - end_ % 8 ≤ q := by omega
          simp [h1, hin, hidx, this]
      · rw [if_neg hk]
        have : ¬ (8 * (base + ((end_ + 7) / 8 - 2) + 1) ≤ 8 * k + 7 - q ∧ 8 * k + 7 - q < 8 * base + end_) := by omega
        rw [if_neg this]
  · have hf : f = (buf, v, (end_ + 7) / 8 - 1) := by
      show beFirst W buf base end_ v = _
      simp only [beFirst, hc, if_false]
    rw [hf]
    refine ⟨by simp [hc]; omega, ?_, rfl, ?_⟩
    · show v = v >>> (end_ - 8 * ((end_ + 7) / 8 - 1 + 1))
      have : end_ - 8 * ((end_ + 7) / 8 - 1 + 1) = 0 := by omega
      rw [this]; simp
    · intro k q hq
      show (getB buf k).testBit q = if 8 * (base + ((end_ + 7) / 8 - 1) + 1) ≤ _ ∧ _ then _ else _
      have : ¬ (8 * (base + ((end_ + 7) / 8 - 1) + 1) ≤ 8 * k + 7 - q ∧ 8 * k + 7 - q < 8 * base + end_) := by omega
      rw [if_neg this]

theorem beLast_spec (buf : Buf) (u s : Nat) (v : Int) (hs : s < 8) (hu : u < buf.length) :
    (beLast buf u s v).length = buf.length ∧
    ∀ k q, q < 8 → (getB (beLast buf u s v) k).testBit q =
      if k = u ∧ q < 8 - s then itb v q else (getB buf k).testBit q := by
  by_cases h0 : s ≠ 0
  · have hf : beLast buf u s v = wrMasked buf u (256 - 2 ^ (8 - s)) (u8 v &&& (255 - (256 - 2 ^ (8 - s)))) := by
      simp only [beLast, h0, if_true, ne_eq, not_false_eq_true]
    rw [hf]
    refine ⟨by simp, ?_⟩
    intro k q hq
    rw [wrMasked_get _ _ _ _ _ hu]
    by_cases hk : k = u
    · rw [if_pos hk, ← hk, partial0_testBit _ _ _ _ (hiMask_lt _) hq, hiMask_testBit _ _ (by omega)]
      by_cases h1 : 8 - s ≤ q
      · have : ¬ (k = k ∧ q < 8 - s) := by omega
        rw [if_neg this]; simp [h1, hq]
      · have : (k = k ∧ q < 8 - s) := by omega
        simp [h1, this]
    · rw [if_neg hk]
      have : ¬ (k = u ∧ q < 8 - s) := by omega
      rw [if_neg this]
  · have hf : beLast buf u s v = setB buf u (u8 v) := by
      simp only [beLast, h0, if_false]
    rw [hf]
    refine ⟨by simp, ?_⟩
    intro k q hq
    by_cases hk : k = u
    · subst hk
      rw [getB_setB_same hu, u8_testBit]
      have : (k = k ∧ q < 8 - s) := by omega
      simp [hq, this]
    · rw [getB_setB_ne (Ne.symm hk)]
      have : ¬ (k = u ∧ q < 8 - s) := by omega
      rw [if_neg this]

theorem bfWriteBE_spec (vt : CInt) (buf : Buf) (base start len : Nat) (v0 : Int)
    (hb : base + (start + len + 7) / 8 ≤ buf.length) :
    (bfWriteBE vt buf base start len v0).length = buf.length ∧
    ∀ k q, q < 8 →
    (getB (bfWriteBE vt buf base start len v0) k).testBit q =
      if 8 * base + start ≤ 8 * k + 7 - q ∧ 8 * k + 7 - q < 8 * base + start + len
      then itb v0 (8 * base + start + len - 1 - (8 * k + 7 - q)) else (getB buf k).testBit q := by
  by_cases hl : len = 0
  · subst hl
    refine ⟨by simp [bfWriteBE], ?_⟩
    intro k q _
    have : ¬ (8 * base + start ≤ 8 * k + 7 - q ∧ 8 * k + 7 - q < 8 * base + start + 0) := by omega
    rw [if_neg this]; simp [bfWriteBE]
  · have hv : ∀ j, j < len → itb (if len < vt.width then v0 % (2 : Int) ^ len else v0) j = itb v0 j :=
      fun j hj => trim_itb _ _ _ _ hj
    unfold bfWriteBE
    simp only [hl, if_false]
    generalize (if len < vt.width then v0 % (2 : Int) ^ len else v0) = v at hv
    by_cases hsu : start / 8 = (start + len + 7) / 8 - 1
    · simp only [hsu, if_true]
      refine ⟨by simp [beSingle], ?_⟩
      intro k q hq
      rw [beSingle_spec buf base start len v hl hsu hb k q hq]
      by_cases hin : 8 * base + start ≤ 8 * k + 7 - q ∧ 8 * k + 7 - q < 8 * base + start + len
      · rw [if_pos hin, if_pos hin]; exact hv _ (by omega)
      · rw [if_neg hin, if_neg hin]
    · simp only [hsu, if_false]
      obtain ⟨f1, f2, f3, f4⟩ := beFirst_spec vt.width buf base (start + len) v (by omega) hb
      generalize beFirst vt.width buf base (start + len) v = f at f1 f2 f3 f4
      obtain ⟨fb, fv, fu⟩ := f
      simp only at f1 f2 f3 f4 ⊢
      have hfu' : fu + 1 = (start + len + 7) / 8 ∧ (start + len) % 8 = 0 ∨
          fu + 2 = (start + len + 7) / 8 ∧ (start + len) % 8 ≠ 0 := by
        split at f1 <;> omega
      have hfu : start / 8 ≤ fu := by omega
      obtain ⟨m1, m2, m3, m4⟩ := beLoop_spec vt.width (fu - start / 8) fb (base + fu) fv
        (by omega) (by rw [f3]; omega)
      generalize beLoop vt.width (fu - start / 8) fb (base + fu) fv = m at m1 m2 m3 m4
      obtain ⟨mb, mv, mu⟩ := m
      simp only at m1 m2 m3 m4 ⊢
      have hs8 : start % 8 < 8 := Nat.mod_lt _ (by decide)
      have hmu : mu = base + start / 8 := by rw [m2]; omega
      have hcnt : base + fu - (fu - start / 8) = base + start / 8 := by omega
      rw [hcnt] at m4
      clear m2 f1 hcnt
      obtain ⟨l1, l2⟩ := beLast_spec mb mu (start % 8) mv hs8 (by rw [m3, f3, hmu]; omega)
      refine ⟨by rw [l1, m3, f3], ?_⟩
      intro k q hq
      rw [l2 k q hq]
      by_cases hlast : k = mu ∧ q < 8 - start % 8
      · rw [if_pos hlast]
        have hin : 8 * base + start ≤ 8 * k + 7 - q ∧ 8 * k + 7 - q < 8 * base + start + len := by
          rw [hlast.1, hmu]; omega
        rw [if_pos hin, ← hv _ (by omega), m1, f2, ← Int.shiftRight_add, itb_shiftRight]
        congr 1
        rw [hlast.1, hmu]; omega
      · rw [if_neg hlast]
        have hm := m4 k
        by_cases hmid : base + start / 8 < k ∧ k ≤ base + fu
        · rw [if_pos hmid] at hm
          rw [hm, u8_testBit, f2, itb_shiftRight, itb_shiftRight]
          have hin : 8 * base + start ≤ 8 * k + 7 - q ∧ 8 * k + 7 - q < 8 * base + start + len := by
            omega
          rw [if_pos hin, ← hv _ (by omega)]
          simp only [hq, decide_true, Bool.true_and]
          congr 1
          omega
        · rw [if_neg hmid] at hm
          rw [hm, f4 k q hq]
          by_cases hfst : 8 * (base + fu + 1) ≤ 8 * k + 7 - q ∧ 8 * k + 7 - q < 8 * base + (start + len)
          · have hin : 8 * base + start ≤ 8 * k + 7 - q ∧ 8 * k + 7 - q < 8 * base + start + len := by
              omega
            rw [if_pos hfst, if_pos hin]
            have := hv (8 * base + (start + len) - 1 - (8 * k + 7 - q)) (by omega)
            rw [this]; congr 1; omega
          · have hin : ¬ (8 * base + start ≤ 8 * k + 7 - q ∧ 8 * k + 7 - q < 8 * base + start + len) := by
              rw [hmu] at hlast
              omega
            rw [if_neg hfst, if_neg hin]

/-! byte-level frame: the macros store only into the units that overlap the field -/

theorem leLoop_frame (W n : Nat) : ∀ (buf : Buf) (u : Nat) (v : Int) (k : Nat), (k < u ∨ u + n ≤ k) →
    getB (leLoop W n buf u v).1 k = getB buf k := by
  induction n with
  | zero => intro buf u v k _; rfl
  | succ n ih =>
    intro buf u v k hk
    simp only [leLoop]
    rw [ih _ _ _ _ (by omega), getB_setB_ne (by omega)]

theorem leLoop_u (W n : Nat) : ∀ (buf : Buf) (u : Nat) (v : Int), (leLoop W n buf u v).2.2 = u + n := by
  induction n with
  | zero => intro buf u v; rfl
  | succ n ih => intro buf u v; simp only [leLoop]; rw [ih]; omega

theorem wrMasked_frame (buf : Buf) (u m c k : Nat) (h : k ≠ u) : getB (wrMasked buf u m c) k = getB buf k := by
  unfold wrMasked; exact getB_setB_ne (Ne.symm h)

theorem leFirst_frame (W : Nat) (buf : Buf) (base start : Nat) (v : Int) (k : Nat) (hk : k ≠ base + start / 8) :
    getB (leFirst W buf base start v).1 k = getB buf k := by
  unfold leFirst
  split
  · exact wrMasked_frame _ _ _ _ _ hk
  · rfl

theorem leFirst_u (W : Nat) (buf : Buf) (base start : Nat) (v : Int) :
    (leFirst W buf base start v).2.2 = start / 8 + (if start % 8 ≠ 0 then 1 else 0) := by
  unfold leFirst; split <;> simp [*]

theorem leLast_frame (buf : Buf) (u e : Nat) (v : Int) (k : Nat) (hk : k ≠ u) :
    getB (leLast buf u e v) k = getB buf k := by
  unfold leLast
  split
  · exact wrMasked_frame _ _ _ _ _ hk
  · exact getB_setB_ne (Ne.symm hk)

theorem bfWriteLE_frame (vt : CInt) (buf : Buf) (base start len : Nat) (v0 : Int) (k : Nat)
    (hk : k < base + start / 8 ∨ base + (start + len + 7) / 8 ≤ k) :
    getB (bfWriteLE vt buf base start len v0) k = getB buf k := by
  unfold bfWriteLE
  by_cases hl : len = 0
  · simp [hl]
  · simp only [hl, if_false]
    by_cases hsu : start / 8 = (start + len + 7) / 8 - 1
    · simp only [hsu, if_true]
      unfold leSingle
      exact wrMasked_frame _ _ _ _ _ (by omega)
    · simp only [hsu, if_false]
      have hu := leFirst_u vt.width buf base start (if len < vt.width then v0 % 2 ^ len else v0)
      have hfu : (leFirst vt.width buf base start (if len < vt.width then v0 % 2 ^ len else v0)).2.2 ≤ (start + len + 7) / 8 - 1 := by
        rw [hu]; split <;> omega
      have hfl : start / 8 ≤ (leFirst vt.width buf base start (if len < vt.width then v0 % 2 ^ len else v0)).2.2 := by
        rw [hu]; omega
      rw [leLast_frame _ _ _ _ _ (by rw [leLoop_u]; omega), leLoop_frame _ _ _ _ _ _ (by omega),
        leFirst_frame _ _ _ _ _ _ (by omega)]

theorem beLoop_frame (W n : Nat) : ∀ (buf : Buf) (u : Nat) (v : Int) (k : Nat), n ≤ u → (k ≤ u - n ∨ u < k) →
    getB (beLoop W n buf u v).1 k = getB buf k := by
  induction n with
  | zero => intro buf u v k _ _; rfl
  | succ n ih =>
    intro buf u v k hn hk
    simp only [beLoop]
    rw [ih _ _ _ _ (by omega) (by omega), getB_setB_ne (by omega)]

theorem beLoop_u (W n : Nat) : ∀ (buf : Buf) (u : Nat) (v : Int), (beLoop W n buf u v).2.2 = u - n := by
  induction n with
  | zero => intro buf u v; rfl
  | succ n ih => intro buf u v; simp only [beLoop]; rw [ih]; omega

theorem beFirst_frame (W : Nat) (buf : Buf) (base end_ : Nat) (v : Int) (k : Nat)
    (hk : k ≠ base + ((end_ + 7) / 8 - 1)) :
    getB (beFirst W buf base end_ v).1 k = getB buf k := by
  unfold beFirst
  simp only
  split
  · exact wrMasked_frame _ _ _ _ _ hk
  · rfl

theorem beFirst_u (W : Nat) (buf : Buf) (base end_ : Nat) (v : Int) :
    (beFirst W buf base end_ v).2.2 = (end_ + 7) / 8 - 1 - (if end_ % 8 ≠ 0 then 1 else 0) := by
  unfold beFirst; simp only; split <;> simp [*] <;> omega

theorem beLast_frame (buf : Buf) (u s : Nat) (v : Int) (k : Nat) (hk : k ≠ u) :
    getB (beLast buf u s v) k = getB buf k := by
  unfold beLast
  split
  · exact wrMasked_frame _ _ _ _ _ hk
  · exact getB_setB_ne (Ne.symm hk)

theorem bfWriteBE_frame (vt : CInt) (buf : Buf) (base start len : Nat) (v0 : Int) (k : Nat)
    (hk : k < base + start / 8 ∨ base + (start + len + 7) / 8 ≤ k) :
    getB (bfWriteBE vt buf base start len v0) k = getB buf k := by
  unfold bfWriteBE
  by_cases hl : len = 0
  · simp [hl]
  · simp only [hl, if_false]
    by_cases hsu : start / 8 = (start + len + 7) / 8 - 1
    · simp only [hsu, if_true]
      unfold beSingle
      exact wrMasked_frame _ _ _ _ _ (by omega)
    · simp only [hsu, if_false]
      have hu := beFirst_u vt.width buf base (start + len) (if len < vt.width then v0 % 2 ^ len else v0)
      have hfu : start / 8 ≤ (beFirst vt.width buf base (start + len) (if len < vt.width then v0 % 2 ^ len else v0)).2.2 := by
        rw [hu]; split <;> omega
      have hfl : (beFirst vt.width buf base (start + len) (if len < vt.width then v0 % 2 ^ len else v0)).2.2 ≤ (start + len + 7) / 8 - 1 := by
        rw [hu]; omega
      rw [beLast_frame _ _ _ _ _ (by rw [beLoop_u]; omega), beLoop_frame _ _ _ _ _ _ (by omega) (by omega),
        beFirst_frame _ _ _ _ _ _ (by omega)]

theorem memcpyLE_get (n : Nat) : ∀ (buf : Buf) (base x k : Nat), base + n ≤ buf.length →
    getB (memcpyLE n buf base x) k =
      if base ≤ k ∧ k < base + n then (x / 256 ^ (k - base)) % 256 else getB buf k := by
  induction n with
  | zero => intro buf base x k _; simp [memcpyLE]; intro h1 h2; omega
  | succ n ih =>
    intro buf base x k h
    simp only [memcpyLE]
    rw [ih _ _ _ _ (by simp; omega)]
    by_cases hk : k = base
    · subst hk
      have h1 : ¬ (k + 1 ≤ k ∧ k < k + 1 + n) := by omega
      have h2 : (k ≤ k ∧ k < k + (n + 1)) := by omega
      rw [if_neg h1, if_pos h2, getB_setB_same (by omega)]; simp
    · rw [getB_setB_ne (Ne.symm hk)]
      by_cases hr : base + 1 ≤ k ∧ k < base + 1 + n
      · have h2 : (base ≤ k ∧ k < base + (n + 1)) := by omega
        rw [if_pos hr, if_pos h2, Nat.div_div_eq_div_mul]
        have : k - base = (k - (base + 1)) + 1 := by omega
        rw [this, Nat.pow_succ, Nat.mul_comm]
      · have h2 : ¬ (base ≤ k ∧ k < base + (n + 1)) := by omega
        rw [if_neg hr, if_neg h2]

theorem memcpyLE_length (n : Nat) : ∀ (buf : Buf) (base x : Nat), (memcpyLE n buf base x).length = buf.length := by
  induction n with
  | zero => intro buf base x; rfl
  | succ n ih => intro buf base x; simp only [memcpyLE]; rw [ih]; simp

theorem byte_of_testBit (x m q : Nat) (hq : q < 8) : ((x / 256 ^ m) % 256).testBit q = x.testBit (8 * m + q) := by
  have e1 : (256 : Nat) ^ m = 2 ^ (8 * m) := by rw [Nat.pow_mul]
  have e2 : (256 : Nat) = 2 ^ 8 := by decide
  rw [e1, e2, Nat.testBit_mod_two_pow, Nat.testBit_div_two_pow]
  simp [hq, Nat.add_comm]

theorem pwShifts_ok (W shift : Nat) (hW : 2 ≤ W) : ∀ p ∈ pwShifts W shift, p.2 < p.1 := by
  intro p hp
  unfold pwShifts at hp
  rw [List.mem_append] at hp
  rcases hp with hp | hp
  · have := (List.mem_replicate.mp hp).2; subst this; simp; omega
  · simp at hp; subst hp; simp
    have : shift % (W - 1) < W - 1 := Nat.mod_lt _ (by omega)
    omega

def okS (l : List (Nat × Nat)) : Prop := ∀ p ∈ l, p.2 < p.1

theorem okS_nil : okS [] := by intro p hp; simp at hp
theorem okS_app {a b : List (Nat × Nat)} (ha : okS a) (hb : okS b) : okS (a ++ b) := by
  intro p hp; rw [List.mem_append] at hp; rcases hp with h | h
  · exact ha p h
  · exact hb p h
theorem okS_cons {w a : Nat} {l : List (Nat × Nat)} (h : a < w) (hl : okS l) : okS ((w, a) :: l) := by
  intro p hp; rw [List.mem_cons] at hp; rcases hp with h1 | h1
  · subst h1; exact h
  · exact hl p h1
theorem okS_ite {c : Prop} [Decidable c] {a b : List (Nat × Nat)} (ha : c → okS a) (hb : ¬ c → okS b) :
    okS (if c then a else b) := by
  split
  · exact ha ‹_›
  · exact hb ‹_›
theorem okS_flat_rep {l : List (Nat × Nat)} (n : Nat) (h : okS l) : okS (List.replicate n l).flatten := by
  intro p hp
  rw [List.mem_flatten] at hp
  obtain ⟨l', h1, h2⟩ := hp
  have := (List.mem_replicate.mp h1).2; subst this
  exact h p h2

theorem bfShifts_ok (isLE : Bool) (W start len : Nat) (hW : 2 ≤ W) : okS (bfShifts isLE W start len) := by
  have hs8 : start % 8 < 8 := Nat.mod_lt _ (by decide)
  have he8 : (start + len) % 8 < 8 := Nat.mod_lt _ (by decide)
  have hx8 : (8 - (start + len) % 8) % 8 < 8 := Nat.mod_lt _ (by decide)
  have hpw : ∀ s, okS (pwShifts W s) := fun s => pwShifts_ok W s hW
  have htrim : okS (if len < W then [(max W 32, len)] else []) :=
    okS_ite (fun h => okS_cons (by omega) okS_nil) (fun _ => okS_nil)
  unfold bfShifts
  refine okS_ite (fun _ => okS_nil) (fun _ => ?_)
  cases isLE
  · simp only [Bool.false_eq_true, if_false]
    refine okS_ite (fun _ => ?_) (fun _ => ?_)
    · exact okS_app (okS_app (okS_app htrim (okS_cons (by omega) okS_nil))
        (okS_ite (fun _ => okS_cons (by omega) okS_nil) (fun _ => okS_nil))) (okS_cons (by omega) okS_nil)
    · exact okS_app (okS_app (okS_app htrim
        (okS_ite (fun _ => okS_app (okS_cons (by omega) (okS_cons (by omega) okS_nil)) (hpw _)) (fun _ => okS_nil)))
        (okS_flat_rep _ (hpw _))) (okS_ite (fun _ => okS_cons (by omega) okS_nil) (fun _ => okS_nil))
  · simp only [if_true]
    refine okS_ite (fun _ => ?_) (fun _ => ?_)
    · exact okS_app (okS_app (okS_app htrim (okS_cons (by omega) okS_nil))
        (okS_ite (fun _ => okS_cons (by omega) okS_nil) (fun _ => okS_nil))) (okS_cons (by omega) okS_nil)
    · exact okS_app (okS_app (okS_app htrim
        (okS_ite (fun _ => okS_app (okS_cons (by omega) (okS_cons (by omega) okS_nil)) (hpw _)) (fun _ => okS_nil)))
        (okS_flat_rep _ (hpw _))) (okS_ite (fun _ => okS_cons (by omega) okS_nil) (fun _ => okS_nil))

end BVM
