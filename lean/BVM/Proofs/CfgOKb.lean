/-
  Proofs/CfgOKb.lean — the static hypotheses of the position-invariant theorems (`CfgOK`, Proofs/RtPos.lean) as an
  executable test, proved sound.  The driver evaluates it on every configuration the harness obtains from the real
  front end (op `cfgok`), so that "what the front end guarantees" is checked, not assumed.
-/
import BVM.Proofs.RtPos
import BVM.Proofs.RoundTripPre
namespace BVM

def FT.alOKb : FT → Bool
  | .el e => pow2b e.align
  | .darr _ e => pow2b e.align
  | .uuid => true

theorem FT.alOKb_sound (ft : FT) (h : ft.alOKb = true) : ft.AlOK := by
  cases ft with
  | el e => exact pow2b_sound _ h
  | darr ln e => exact pow2b_sound _ h
  | uuid => trivial

def specWFb (spec : String → Option WSrc) (m : Member) : Bool :=
  match m.ft with
  | .el (.sc sc) =>
    match spec m.name with
    | none => true
    | some src => src == .arg || (src != .uuid && sc != .str)
  | _ => true

theorem specWFb_sound (spec : String → Option WSrc) (m : Member) (h : specWFb spec m = true) : SpecWF spec m := by
  obtain ⟨name, ft⟩ := m
  cases ft with
  | uuid => trivial
  | darr ln e => trivial
  | el e =>
    cases e with
    | sarr k e => trivial
    | sc sc =>
      simp only [SpecWF]
      intro src hs
      simp only [specWFb, hs] at h
      simp only [Bool.or_eq_true, beq_iff_eq, Bool.and_eq_true, bne_iff_ne, ne_eq] at h
      exact h

def specOKb (spec : String → Option WSrc) (m : Member) : Bool :=
  match m.ft with
  | .el (.sc _) => spec m.name != some .uuid
  | _ => true

theorem specOKb_sound (spec : String → Option WSrc) (m : Member) (h : specOKb spec m = true) : specOK spec m := by
  obtain ⟨name, ft⟩ := m
  cases ft with
  | uuid => trivial
  | darr ln e => trivial
  | el e =>
    cases e with
    | sarr k e => trivial
    | sc sc =>
      simp only [specOK]
      simpa [specOKb] using h

def rootOKSb (spec : String → Option WSrc) (S : Struct) : Bool :=
  pow2b S.align && S.members.all (fun m => m.ft.alOKb && specWFb spec m && specOKb spec m)

theorem rootOKSb_sound (spec : String → Option WSrc) (S : Struct) (h : rootOKSb spec S = true) : RootOKS spec S := by
  simp only [rootOKSb, Bool.and_eq_true, List.all_eq_true] at h
  refine ⟨pow2b_sound _ h.1, ?_⟩
  intro m hm
  obtain ⟨⟨h1, h2⟩, h3⟩ := h.2 m hm
  exact ⟨FT.alOKb_sound _ h1, specWFb_sound spec m h2, specOKb_sound spec m h3⟩

def optRootOKb (spec : String → Option WSrc) (A : Nat) : Option Struct → Bool
  | none => true
  | some S => rootOKSb spec S && decide (S.align ≤ A) && S.members.all (fun m => m.ft != .uuid)

theorem optRootOKb_sound (spec : String → Option WSrc) (A : Nat) (S : Option Struct) (h : optRootOKb spec A S = true) :
    OptRootOK spec A S := by
  refine ⟨?_⟩
  intro S' hS
  subst hS
  simp only [optRootOKb, Bool.and_eq_true, decide_eq_true_eq, List.all_eq_true, bne_iff_ne, ne_eq] at h
  exact ⟨rootOKSb_sound spec S' h.1.1, h.1.2, h.2⟩

def recordOKb (A : Nat) (d : DST) (e : ERT) : Bool :=
  optRootOKb specERH A (some d.erhStruct) && optRootOKb specNone A d.ercc && optRootOKb specNone A e.sc &&
    optRootOKb specNone A e.p

theorem recordOKb_sound (A : Nat) (d : DST) (e : ERT) (h : recordOKb A d e = true) : RecordOK A d e := by
  simp only [recordOKb, Bool.and_eq_true] at h
  exact ⟨optRootOKb_sound _ _ _ h.1.1.1, optRootOKb_sound _ _ _ h.1.1.2, optRootOKb_sound _ _ _ h.1.2,
    optRootOKb_sound _ _ _ h.2⟩

/-- the executable form of `CfgOK` -/
def cfgOKb (A : Nat) (cfg : Cfg) (d : DST) : Bool :=
  rootOKSb specPH cfg.phStruct && decide (cfg.phStruct.align ≤ A) &&
  rootOKSb specPC d.pcStruct && decide (d.pcStruct.align ≤ A) &&
  decide ((d.pcStruct.members.map (·.name)).Nodup) &&
  d.pcStruct.members.all (fun m => m.ft != .uuid) &&
  d.erts.all (recordOKb A d) && decide (0 < A)

theorem cfgOKb_sound (A : Nat) (cfg : Cfg) (d : DST) (h : cfgOKb A cfg d = true) : CfgOK A cfg d := by
  simp only [cfgOKb, Bool.and_eq_true, decide_eq_true_eq, List.all_eq_true, bne_iff_ne, ne_eq] at h
  obtain ⟨⟨⟨⟨⟨⟨⟨h1, h2⟩, h3⟩, h4⟩, h5⟩, h6⟩, h7⟩, h8⟩ := h
  exact ⟨rootOKSb_sound _ _ h1, h2, rootOKSb_sound _ _ h3, h4, h5, h6, fun e he => recordOKb_sound A d e (h7 e he), h8⟩

/-- the smallest bound the alignments of a configuration admit: the largest root alignment -/
def cfgAlign (cfg : Cfg) (d : DST) : Nat :=
  let al (S : Option Struct) : Nat := match S with | some S => S.align | none => 1
  (d.erts.map (fun e => max (al e.sc) (al e.p))).foldl max
    (max (max cfg.phStruct.align d.pcStruct.align) (max d.erhStruct.align (al d.ercc)))

/-- the executable form of the buffer-size precondition for one argument list of the open callback -/
def hdrFitsb (cfg : Cfg) (d : DST) (L : Nat) (oa : List Args) : Bool :=
  (openArgsOf oa).all (fun args => decide (hdrEndN cfg d args ≤ 8 * L))

theorem hdrFitsb_sound (cfg : Cfg) (d : DST) (L : Nat) (oa : List Args) (h : hdrFitsb cfg d L oa = true) :
    ∀ args ∈ openArgsOf oa, hdrEndN cfg d args ≤ 8 * L := by
  simp only [hdrFitsb, List.all_eq_true, decide_eq_true_eq] at h
  exact h

end BVM
