/-
  Proofs/RoundTripPre.lean — the hypotheses of the record-level round trip (Proofs/RoundTrip.lean) as one
  executable test, sound for them; the driver evaluates it on the records the harness traces with the real
  tracer (so that the theorem is known to talk about those records).
-/
import BVM.Proofs.RoundTrip
import BVM.Proofs.SchemaSem
namespace BVM

theorem pow2b_sound (a : Nat) (h : pow2b a = true) : ∃ k, a = 2 ^ k := by
  simp only [pow2b, Bool.and_eq_true, decide_eq_true_eq, beq_iff_eq] at h
  exact pow2_of_and_pred a h.1 h.2

theorem scalarWFb_sound (sc : Scalar) (h : scalarWFb sc = true) : sc.WF := by
  cases sc with
  | int sg sz a =>
    simp only [scalarWFb, Bool.and_eq_true, decide_eq_true_eq] at h
    exact ⟨h.1.1, h.1.2, pow2b_sound a h.2⟩
  | real sz a =>
    simp only [scalarWFb, Bool.and_eq_true, Bool.or_eq_true, beq_iff_eq] at h
    exact ⟨h.1, pow2b_sound a h.2⟩
  | str => trivial

/-- the round trip under the executable precondition -/
theorem struct_roundtrip_exec (env : SerEnv) (pfx : String) (args : Args) (S : Struct) (s : SerSt)
    (hpre : rootPreb env s.buf.length pfx args S s.at_ = true)
    (h : (serRoot env pfx (buildRoot specNone S) args s).oob = false) :
    readStruct env.bo (serRoot env pfx (buildRoot specNone S) args s).buf (8 * s.buf.length) (tsdlStruct S) s.at_ =
      some (S.members.map (fun m => (m.name, decMember pfx args m)), (serRoot env pfx (buildRoot specNone S) args s).at_) ∧
    PrefixEq env.bo s.at_ s.buf (serRoot env pfx (buildRoot specNone S) args s).buf ∧
    s.at_ ≤ (serRoot env pfx (buildRoot specNone S) args s).at_ := by
  simp only [rootPreb, Bool.and_eq_true, decide_eq_true_eq, Bool.or_eq_true, Bool.not_eq_true', beq_iff_eq,
    List.all_eq_true] at hpre
  obtain ⟨⟨⟨⟨⟨hp2, hmem⟩, hlen⟩, hsmall⟩, hfast⟩, hat⟩ := hpre
  have hS := pow2b_sound _ hp2
  have hApos : 0 < S.align := by obtain ⟨k, hk⟩ := hS; rw [hk]; exact Nat.two_pow_pos k
  refine struct_roundtrip env pfx args S s s.buf.length
    ⟨fun hf => by rcases hfast with h1 | h1
                  · rw [hf] at h1; exact absurd h1 (by simp)
                  · exact h1, hApos, hsmall⟩
    hS ?_ (lenScopeOKb_sound _ _ _ _ hlen) rfl hat h
  intro m hm
  have hmp := hmem m hm
  simp only [memberPreb, Bool.and_eq_true, List.all_eq_true, bne_iff_ne, ne_eq] at hmp
  obtain ⟨⟨hnu, hwf⟩, hl⟩ := hmp
  refine memberOK_of S hS pfx args m hm ?_ (scalarWFb_sound _ hwf) (fun l hl' x hx => hl l hl' x hx)
  intro e
  rw [e] at hnu
  simp at hnu

end BVM
