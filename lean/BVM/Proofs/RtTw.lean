/-
  Proofs/RtTw.lean — "tweak" calculus for C07 atomicity: a state up to its enable flag and toggle script.
  First part generated (all by rfl).
-/
import BVM.Proofs.RtFlag
namespace BVM

/-- `s` with another value of the enable flag and another toggle script -/
def St.tw (s : St) (b : Bool) (t : List (Nat × Bool)) : St :=
  { s with c := { s.c with isTracingEnabled := b }, p := { s.p with toggles := t } }

@[simp] theorem St.tw_c_packetSize (s : St) (b : Bool) (t : List (Nat × Bool)) : (s.tw b t).c.packetSize = s.c.packetSize := rfl
@[simp] theorem St.tw_c_contentSize (s : St) (b : Bool) (t : List (Nat × Bool)) : (s.tw b t).c.contentSize = s.c.contentSize := rfl
@[simp] theorem St.tw_c_at_ (s : St) (b : Bool) (t : List (Nat × Bool)) : (s.tw b t).c.at_ = s.c.at_ := rfl
@[simp] theorem St.tw_c_offContent (s : St) (b : Bool) (t : List (Nat × Bool)) : (s.tw b t).c.offContent = s.c.offContent := rfl
@[simp] theorem St.tw_c_eventsDiscarded (s : St) (b : Bool) (t : List (Nat × Bool)) : (s.tw b t).c.eventsDiscarded = s.c.eventsDiscarded := rfl
@[simp] theorem St.tw_c_sequenceNumber (s : St) (b : Bool) (t : List (Nat × Bool)) : (s.tw b t).c.sequenceNumber = s.c.sequenceNumber := rfl
@[simp] theorem St.tw_c_packetIsOpen (s : St) (b : Bool) (t : List (Nat × Bool)) : (s.tw b t).c.packetIsOpen = s.c.packetIsOpen := rfl
@[simp] theorem St.tw_c_inTracingSection (s : St) (b : Bool) (t : List (Nat × Bool)) : (s.tw b t).c.inTracingSection = s.c.inTracingSection := rfl
@[simp] theorem St.tw_c_useCurLastEventTs (s : St) (b : Bool) (t : List (Nat × Bool)) : (s.tw b t).c.useCurLastEventTs = s.c.useCurLastEventTs := rfl
@[simp] theorem St.tw_c_curLastEventTs (s : St) (b : Bool) (t : List (Nat × Bool)) : (s.tw b t).c.curLastEventTs = s.c.curLastEventTs := rfl
@[simp] theorem St.tw_c_saved (s : St) (b : Bool) (t : List (Nat × Bool)) : (s.tw b t).c.saved = s.c.saved := rfl
@[simp] theorem St.tw_c_isTracingEnabled (s : St) (b : Bool) (t : List (Nat × Bool)) : (s.tw b t).c.isTracingEnabled = b := rfl
@[simp] theorem St.tw_p_cbSeq (s : St) (b : Bool) (t : List (Nat × Bool)) : (s.tw b t).p.cbSeq = s.p.cbSeq := rfl
@[simp] theorem St.tw_p_clock (s : St) (b : Bool) (t : List (Nat × Bool)) : (s.tw b t).p.clock = s.p.clock := rfl
@[simp] theorem St.tw_p_clockIncs (s : St) (b : Bool) (t : List (Nat × Bool)) : (s.tw b t).p.clockIncs = s.p.clockIncs := rfl
@[simp] theorem St.tw_p_fullAnswers (s : St) (b : Bool) (t : List (Nat × Bool)) : (s.tw b t).p.fullAnswers = s.p.fullAnswers := rfl
@[simp] theorem St.tw_p_setBufs (s : St) (b : Bool) (t : List (Nat × Bool)) : (s.tw b t).p.setBufs = s.p.setBufs := rfl
@[simp] theorem St.tw_p_closeCount (s : St) (b : Bool) (t : List (Nat × Bool)) : (s.tw b t).p.closeCount = s.p.closeCount := rfl
@[simp] theorem St.tw_p_openCount (s : St) (b : Bool) (t : List (Nat × Bool)) : (s.tw b t).p.openCount = s.p.openCount := rfl
@[simp] theorem St.tw_p_openArgs (s : St) (b : Bool) (t : List (Nat × Bool)) : (s.tw b t).p.openArgs = s.p.openArgs := rfl
@[simp] theorem St.tw_p_toggles (s : St) (b : Bool) (t : List (Nat × Bool)) : (s.tw b t).p.toggles = t := rfl
@[simp] theorem St.tw_buf (s : St) (b : Bool) (t : List (Nat × Bool)) : (s.tw b t).buf = s.buf := rfl
@[simp] theorem St.tw_log (s : St) (b : Bool) (t : List (Nat × Bool)) : (s.tw b t).log = s.log := rfl
@[simp] theorem St.tw_halted (s : St) (b : Bool) (t : List (Nat × Bool)) : (s.tw b t).halted = s.halted := rfl
theorem St.tw_setFlag (s : St) (b : Bool) (t : List (Nat × Bool)) (x : Bool) : (s.tw b t).setFlag x = (s.setFlag x).tw b t := rfl
theorem St.tw_setUseCur (s : St) (b : Bool) (t : List (Nat × Bool)) (x : Bool) : (s.tw b t).setUseCur x = (s.setUseCur x).tw b t := rfl
theorem St.tw_setCurTs (s : St) (b : Bool) (t : List (Nat × Bool)) (x : Nat) : (s.tw b t).setCurTs x = (s.setCurTs x).tw b t := rfl
theorem St.tw_setAt (s : St) (b : Bool) (t : List (Nat × Bool)) (x : Nat) : (s.tw b t).setAt x = (s.setAt x).tw b t := rfl
theorem St.tw_setOpen (s : St) (b : Bool) (t : List (Nat × Bool)) (x : Bool) : (s.tw b t).setOpen x = (s.setOpen x).tw b t := rfl
theorem St.tw_setOffContent (s : St) (b : Bool) (t : List (Nat × Bool)) (x : Nat) : (s.tw b t).setOffContent x = (s.setOffContent x).tw b t := rfl
theorem St.tw_setContentSize (s : St) (b : Bool) (t : List (Nat × Bool)) (x : Nat) : (s.tw b t).setContentSize x = (s.setContentSize x).tw b t := rfl
theorem St.tw_setSeqNum (s : St) (b : Bool) (t : List (Nat × Bool)) (x : Nat) : (s.tw b t).setSeqNum x = (s.setSeqNum x).tw b t := rfl
theorem St.tw_setDiscarded (s : St) (b : Bool) (t : List (Nat × Bool)) (x : Nat) : (s.tw b t).setDiscarded x = (s.setDiscarded x).tw b t := rfl
theorem St.tw_setPacketSize (s : St) (b : Bool) (t : List (Nat × Bool)) (x : Nat) : (s.tw b t).setPacketSize x = (s.setPacketSize x).tw b t := rfl
theorem St.tw_ev (s : St) (b : Bool) (t : List (Nat × Bool)) (e : Ev) : (s.tw b t).ev e = (s.ev e).tw b t := rfl
theorem St.tw_halt (s : St) (b : Bool) (t : List (Nat × Bool)) : (s.tw b t).halt = s.halt.tw b t := rfl
theorem St.tw_tw (s : St) (b b2 : Bool) (t t2 : List (Nat × Bool)) : (s.tw b t).tw b2 t2 = s.tw b2 t2 := rfl
theorem St.tw_setEnabled (s : St) (b x : Bool) (t : List (Nat × Bool)) : (s.tw b t).setEnabled x = s.tw x t := rfl
theorem St.setEnabled_tw (s : St) (b x : Bool) (t : List (Nat × Bool)) : (s.setEnabled x).tw b t = s.tw b t := rfl
theorem St.tw_setSer (s : St) (b : Bool) (t : List (Nat × Bool)) (bf : Buf) (a : Nat) (sv : List (String × Nat)) (evs : List Ev) : (s.tw b t).setSer bf a sv evs = (s.setSer bf a sv evs).tw b t := rfl

theorem St.tw_bumpOpen (s : St) (b : Bool) (t : List (Nat × Bool)) : (s.tw b t).bumpOpen = s.bumpOpen.tw b t := rfl
theorem St.tw_bumpClose (s : St) (b : Bool) (t : List (Nat × Bool)) : (s.tw b t).bumpClose = s.bumpClose.tw b t := rfl
theorem St.tw_openArgsNow (s : St) (b : Bool) (t : List (Nat × Bool)) : (s.tw b t).openArgsNow = s.openArgsNow := rfl


/-! ### every function run inside a tracing section commutes with `tw` -/

theorem cbEnter_tw (k : CbKind) (s : St) (b : Bool) (t : List (Nat × Bool)) :
    ∃ b', cbEnter k (s.tw b t) = (cbEnter k s).tw b' t := by
  unfold cbEnter
  simp only
  cases h1 : t.lookup s.p.cbSeq <;> cases h2 : s.p.toggles.lookup s.p.cbSeq
  all_goals (simp only [St.tw, St.ev, St.setPlat, St.setEnabled, h1, h2]; exact ⟨_, rfl⟩)

theorem cbClock_tw (clk : Clock) (s : St) (b : Bool) (t : List (Nat × Bool)) :
    ∃ b', (cbClock clk (s.tw b t)).1 = (cbClock clk s).1 ∧ (cbClock clk (s.tw b t)).2 = (cbClock clk s).2.tw b' t := by
  obtain ⟨b1, e1⟩ := cbEnter_tw .clock s b t
  unfold cbClock
  simp only [e1, St.tw_p_clock, St.tw_p_clockIncs]
  exact ⟨b1, trivial, rfl⟩

theorem cbFull_tw (s : St) (b : Bool) (t : List (Nat × Bool)) :
    ∃ b', (cbFull (s.tw b t)).1 = (cbFull s).1 ∧ (cbFull (s.tw b t)).2 = (cbFull s).2.tw b' t := by
  obtain ⟨b1, e1⟩ := cbEnter_tw .full s b t
  unfold cbFull
  simp only [e1, St.tw_p_fullAnswers]
  exact ⟨b1, trivial, rfl⟩

theorem installSer_tw (r : SerSt) (s : St) (b : Bool) (t : List (Nat × Bool)) :
    installSer r (s.tw b t) = (installSer r s).tw b t := by
  unfold installSer
  simp only [St.tw_c_inTracingSection, St.tw_c_packetIsOpen]
  split <;> rfl

theorem runSer_tw (f : SerSt → SerSt) (s : St) (b : Bool) (t : List (Nat × Bool)) :
    runSer f (s.tw b t) = (runSer f s).tw b t := by
  unfold runSer
  simp only [St.tw_buf, St.tw_c_at_, St.tw_c_saved]
  exact installSer_tw _ s b t

theorem preambleTs_tw (d : DST) (ft : Option Scalar) (s : St) (b : Bool) (t : List (Nat × Bool)) :
    ∃ b', (preambleTs d ft (s.tw b t)).1 = (preambleTs d ft s).1 ∧
      (preambleTs d ft (s.tw b t)).2 = (preambleTs d ft s).2.tw b' t := by
  unfold preambleTs
  split
  · by_cases hu : s.c.useCurLastEventTs = true
    · simp only [St.tw_c_useCurLastEventTs, St.tw_c_curLastEventTs, hu, if_true]
      exact ⟨b, trivial, rfl⟩
    · simp only [St.tw_c_useCurLastEventTs, St.tw_c_curLastEventTs, hu, if_false]
      exact cbClock_tw _ s b t
  · exact ⟨b, rfl, rfl⟩

theorem serEnvOf_tw (cfg : Cfg) (d : DST) (i ts : Nat) (s : St) (b : Bool) (t : List (Nat × Bool)) :
    serEnvOf cfg d i ts (s.tw b t).c = serEnvOf cfg d i ts s.c := rfl

theorem openWrite_tw (cfg : Cfg) (d : DST) (args : Args) (ts : Nat) (saved : Bool) (s : St) (b : Bool)
    (t : List (Nat × Bool)) :
    openWrite cfg d args ts saved (s.tw b t) = (openWrite cfg d args ts saved s).tw b t := by
  unfold openWrite
  simp only [St.tw_setAt, serEnvOf_tw, runSer_tw, St.tw_halted]
  split
  · rfl
  · split <;> rfl

theorem openGuarded_tw (cfg : Cfg) (d : DST) (args : Args) (ts : Nat) (s : St) (b : Bool) (t : List (Nat × Bool))
    (h : s.c.inTracingSection = true) :
    openGuarded cfg d args ts (s.tw b t) = (openGuarded cfg d args ts s).tw b t := by
  unfold openGuarded
  simp only [St.tw_c_inTracingSection, h, Bool.not_true, Bool.and_false, Bool.false_eq_true, if_false,
    St.tw_setFlag, St.tw_c_packetIsOpen, St.setFlag_c_packetIsOpen, openWrite_tw]
  split <;> rfl

theorem openPacket_tw (cfg : Cfg) (d : DST) (args : Args) (s : St) (b : Bool) (t : List (Nat × Bool))
    (h : s.c.inTracingSection = true) :
    ∃ b', openPacket cfg d args (s.tw b t) = (openPacket cfg d args s).tw b' t := by
  unfold openPacket
  by_cases hh : s.halted = true
  · simp only [St.tw_halted, hh, if_true]; exact ⟨b, rfl⟩
  · simp only [St.tw_halted, hh, if_false]
    obtain ⟨b1, e1, e2⟩ := preambleTs_tw d d.feat.tsBegin s b t
    rw [e1, e2, openGuarded_tw cfg d args _ _ b1 t (preambleTs_sec d d.feat.tsBegin s h).2]
    exact ⟨b1, rfl⟩

theorem writeBack_tw (env : SerEnv) (d : DST) (name : String) (v : Int) (s : St) (b : Bool) (t : List (Nat × Bool)) :
    writeBack env d name v (s.tw b t) = (writeBack env d name v s).tw b t := by
  unfold writeBack
  simp only [St.tw_halted, St.tw_c_saved, St.tw_setAt, runSer_tw]
  split
  · rfl
  · split <;> rfl

theorem closeBacks_tw (cfg : Cfg) (d : DST) (ts : Nat) (s : St) (b : Bool) (t : List (Nat × Bool)) :
    closeBacks cfg d ts (s.tw b t) = (closeBacks cfg d ts s).tw b t := by
  unfold closeBacks
  simp only [serEnvOf_tw]
  generalize serEnvOf cfg d 0 ts s.c = env
  have e1 : (if d.feat.tsEnd.isSome = true then writeBack env d "timestamp_end" ts (s.tw b t) else s.tw b t) =
      (if d.feat.tsEnd.isSome = true then writeBack env d "timestamp_end" ts s else s).tw b t := by
    split
    · exact writeBack_tw _ _ _ _ _ _ _
    · rfl
  rw [e1]
  generalize (if d.feat.tsEnd.isSome = true then writeBack env d "timestamp_end" ts s else s) = s1
  simp only [St.tw_c_contentSize, writeBack_tw]
  generalize writeBack env d "content_size" s1.c.contentSize s1 = s2
  simp only [St.tw_c_eventsDiscarded, writeBack_tw]
  split <;> rfl

theorem closeFinish_tw (d : DST) (ts : Nat) (saved : Bool) (s : St) (b : Bool) (t : List (Nat × Bool)) :
    closeFinish d ts saved (s.tw b t) = (closeFinish d ts saved s).tw b t := by
  unfold closeFinish
  cases hh : s.halted <;> cases h1 : d.feat.tsEnd.isSome <;> cases h2 : d.feat.seqNum.isSome <;>
    simp only [St.tw_halted, hh, Bool.false_eq_true, if_false, if_true] <;> rfl

theorem closeWrite_tw (cfg : Cfg) (d : DST) (ts : Nat) (saved : Bool) (s : St) (b : Bool) (t : List (Nat × Bool)) :
    closeWrite cfg d ts saved (s.tw b t) = (closeWrite cfg d ts saved s).tw b t := by
  unfold closeWrite
  simp only [St.tw_c_at_, St.tw_setContentSize, closeBacks_tw, closeFinish_tw]

theorem closeGuarded_tw (cfg : Cfg) (d : DST) (ts : Nat) (s : St) (b : Bool) (t : List (Nat × Bool))
    (h : s.c.inTracingSection = true) :
    closeGuarded cfg d ts (s.tw b t) = (closeGuarded cfg d ts s).tw b t := by
  unfold closeGuarded
  simp only [St.tw_c_inTracingSection, h, Bool.not_true, Bool.and_false, Bool.false_eq_true, if_false,
    St.tw_setFlag, St.tw_c_packetIsOpen, St.setFlag_c_packetIsOpen, closeWrite_tw]
  split <;> rfl

theorem closePacket_tw (cfg : Cfg) (d : DST) (s : St) (b : Bool) (t : List (Nat × Bool))
    (h : s.c.inTracingSection = true) :
    ∃ b', closePacket cfg d (s.tw b t) = (closePacket cfg d s).tw b' t := by
  unfold closePacket
  by_cases hh : s.halted = true
  · simp only [St.tw_halted, hh, if_true]; exact ⟨b, rfl⟩
  · simp only [St.tw_halted, hh, if_false]
    obtain ⟨b1, e1, e2⟩ := preambleTs_tw d d.feat.tsEnd s b t
    rw [e1, e2, closeGuarded_tw cfg d _ _ b1 t (preambleTs_sec d d.feat.tsEnd s h).2]
    exact ⟨b1, rfl⟩

theorem cbOpen_tw (cfg : Cfg) (d : DST) (s : St) (b : Bool) (t : List (Nat × Bool))
    (h : s.c.inTracingSection = true) :
    ∃ b', cbOpen cfg d (s.tw b t) = (cbOpen cfg d s).tw b' t := by
  unfold cbOpen
  cases hh : s.halted
  · simp only [St.tw_halted, hh, Bool.false_eq_true, if_false]
    obtain ⟨b1, e1⟩ := cbEnter_tw .open_ s b t
    have hs := cbEnter_sec .open_ s h
    rw [e1]
    generalize cbEnter .open_ s = s1 at hs
    obtain ⟨b2, e2⟩ := openPacket_tw cfg d s1.openArgsNow s1.bumpOpen b1 t (by simpa using hs.2)
    refine ⟨b2, ?_⟩
    rw [St.tw_openArgsNow, St.tw_bumpOpen, e2]
    rfl
  · simp only [St.tw_halted, hh, if_true]; exact ⟨b, rfl⟩

theorem setBuf_tw (bytes : Nat) (s : St) (b : Bool) (t : List (Nat × Bool)) :
    setBuf bytes (s.tw b t) = (setBuf bytes s).tw b t := by
  unfold setBuf
  by_cases hq : (s.c.at_ == s.c.packetSize) = true
  · simp only [St.tw_c_at_, St.tw_c_packetSize, hq, if_true]; rfl
  · simp only [St.tw_c_at_, St.tw_c_packetSize, hq, if_false]; rfl

theorem deliverAndSwap_tw (wasOpen : Bool) (n : Nat) (s : St) (b : Bool) (t : List (Nat × Bool)) :
    deliverAndSwap wasOpen n (s.tw b t) = (deliverAndSwap wasOpen n s).tw b t := by
  unfold deliverAndSwap
  cases hh : s.halted
  · simp only [St.tw_halted, hh, Bool.false_eq_true, if_false, St.tw_buf, St.tw_ev, St.tw_p_setBufs, St.ev_p]
    cases hl : List.lookup n s.p.setBufs
    · rfl
    · simp only [setBuf_tw]; rfl
  · simp only [St.tw_halted, hh, if_true]

theorem cbClose_tw (cfg : Cfg) (d : DST) (s : St) (b : Bool) (t : List (Nat × Bool))
    (h : s.c.inTracingSection = true) :
    ∃ b', cbClose cfg d (s.tw b t) = (cbClose cfg d s).tw b' t := by
  unfold cbClose
  cases hh : s.halted
  · simp only [St.tw_halted, hh, Bool.false_eq_true, if_false]
    obtain ⟨b1, e1⟩ := cbEnter_tw .close s b t
    have hs := cbEnter_sec .close s h
    rw [e1]
    generalize cbEnter .close s = s1 at hs
    obtain ⟨b2, e2⟩ := closePacket_tw cfg d s1.bumpClose b1 t (by simpa using hs.2)
    refine ⟨b2, ?_⟩
    rw [St.tw_bumpClose, e2, St.tw_c_packetIsOpen, St.tw_p_closeCount, deliverAndSwap_tw]
  · simp only [St.tw_halted, hh, if_true]; exact ⟨b, rfl⟩

theorem room_tw (s : St) (b : Bool) (t : List (Nat × Bool)) (x : Nat) : (s.tw b t).c.room x = s.c.room x := rfl

theorem noSpace_tw (cf : Bool) (s : St) (b : Bool) (t : List (Nat × Bool)) :
    (noSpace cf (s.tw b t)).1 = (noSpace cf s).1 ∧ (noSpace cf (s.tw b t)).2 = (noSpace cf s).2.tw b t :=
  ⟨rfl, rfl⟩

theorem withUseCur_tw (f : St → St)
    (hf : ∀ s b t, s.c.inTracingSection = true → ∃ b', f (s.tw b t) = (f s).tw b' t)
    (s : St) (b : Bool) (t : List (Nat × Bool)) (h : s.c.inTracingSection = true) :
    ∃ b', withUseCur f (s.tw b t) = (withUseCur f s).tw b' t := by
  unfold withUseCur
  obtain ⟨b1, e1⟩ := hf (s.setUseCur true) b t (by simpa using h)
  exact ⟨b1, by rw [St.tw_setUseCur, e1, St.tw_setUseCur]⟩

theorem reopenAfterClose_tw (cfg : Cfg) (d : DST) (s : St) (b : Bool) (t : List (Nat × Bool))
    (h : s.c.inTracingSection = true) :
    ∃ b', (reopenAfterClose cfg d (s.tw b t)).1 = (reopenAfterClose cfg d s).1 ∧
      (reopenAfterClose cfg d (s.tw b t)).2 = (reopenAfterClose cfg d s).2.tw b' t := by
  unfold reopenAfterClose
  simp only
  obtain ⟨b1, e1, e2⟩ := cbFull_tw s b t
  have hs := cbFull_sec s h
  rw [e1, e2]
  generalize cbFull s = r at hs
  cases hf : r.1
  · simp only [Bool.false_eq_true, if_false]
    obtain ⟨b2, e3⟩ := withUseCur_tw (cbOpen cfg d) (cbOpen_tw cfg d) r.2 b1 t hs.2
    rw [e3]
    exact ⟨b2, trivial, rfl⟩
  · simp only [if_true]
    exact ⟨b1, (noSpace_tw false r.2 b1 t).1, (noSpace_tw false r.2 b1 t).2⟩

theorem reserveTail_tw (cfg : Cfg) (d : DST) (erSize : Nat) (s : St) (b : Bool) (t : List (Nat × Bool))
    (h : s.c.inTracingSection = true) :
    ∃ b', (reserveTail cfg d erSize (s.tw b t)).1 = (reserveTail cfg d erSize s).1 ∧
      (reserveTail cfg d erSize (s.tw b t)).2 = (reserveTail cfg d erSize s).2.tw b' t := by
  unfold reserveTail
  cases hh : s.halted
  · by_cases hc : erSize > s.c.room s.c.at_
    · simp only [St.tw_halted, room_tw, St.tw_c_at_, hh, hc, Bool.false_eq_true, if_false, if_true]
      obtain ⟨b1, e1⟩ := withUseCur_tw (cbClose cfg d) (cbClose_tw cfg d) s b t h
      rw [e1]
      exact reopenAfterClose_tw cfg d _ b1 t (withUseCur_sec (cbClose cfg d) (cbClose_sec cfg d) s h).2
    · simp only [St.tw_halted, room_tw, St.tw_c_at_, hh, hc, Bool.false_eq_true, if_false]
      exact ⟨b, trivial, rfl⟩
  · simp only [St.tw_halted, hh, if_true]; exact ⟨b, trivial, rfl⟩

theorem reserve_tw (cfg : Cfg) (d : DST) (erSize emptySize : Nat) (s : St) (b : Bool) (t : List (Nat × Bool))
    (h : s.c.inTracingSection = true) :
    ∃ b', (reserve cfg d erSize emptySize (s.tw b t)).1 = (reserve cfg d erSize emptySize s).1 ∧
      (reserve cfg d erSize emptySize (s.tw b t)).2 = (reserve cfg d erSize emptySize s).2.tw b' t := by
  unfold reserve
  have hfull : (s.tw b t).c.isFull = s.c.isFull := rfl
  by_cases h1 : emptySize > s.c.room s.c.offContent
  · simp only [room_tw, St.tw_c_offContent, h1, if_true]
    exact ⟨b, (noSpace_tw true s b t).1, (noSpace_tw true s b t).2⟩
  · cases h2 : s.c.isFull
    · simp only [room_tw, St.tw_c_offContent, h1, hfull, h2, Bool.false_eq_true, if_false]
      exact reserveTail_tw cfg d erSize s b t h
    · simp only [room_tw, St.tw_c_offContent, h1, hfull, h2, if_false, if_true]
      obtain ⟨b1, e1, e2⟩ := cbFull_tw s b t
      have hs := cbFull_sec s h
      rw [e1, e2]
      generalize cbFull s = r at hs
      cases hf : r.1
      · simp only [Bool.false_eq_true, if_false]
        obtain ⟨b2, e3⟩ := withUseCur_tw (cbOpen cfg d) (cbOpen_tw cfg d) r.2 b1 t hs.2
        rw [e3]
        exact reserveTail_tw cfg d erSize _ b2 t (withUseCur_sec (cbOpen cfg d) (cbOpen_sec cfg d) r.2 hs.2).2
      · simp only [if_true]
        exact ⟨b1, (noSpace_tw false r.2 b1 t).1, (noSpace_tw false r.2 b1 t).2⟩

theorem commit_tw (cfg : Cfg) (d : DST) (s : St) (b : Bool) (t : List (Nat × Bool))
    (h : s.c.inTracingSection = true) :
    ∃ b', commit cfg d (s.tw b t) = (commit cfg d s).tw b' t := by
  unfold commit
  have hfull : (s.tw b t).c.isFull = s.c.isFull := rfl
  cases hh : s.halted
  · cases h2 : s.c.isFull
    · simp only [St.tw_halted, hfull, hh, h2, Bool.false_eq_true, if_false]; exact ⟨b, rfl⟩
    · simp only [St.tw_halted, hfull, hh, h2, Bool.false_eq_true, if_false, if_true]
      exact cbClose_tw cfg d s b t h
  · simp only [St.tw_halted, hh, if_true]; exact ⟨b, rfl⟩

theorem traceWrite_tw (cfg : Cfg) (d : DST) (e : ERT) (args : Args) (s : St) (b : Bool) (t : List (Nat × Bool))
    (h : s.c.inTracingSection = true) :
    ∃ b', traceWrite cfg d e args (s.tw b t) = (traceWrite cfg d e args s).tw b' t := by
  unfold traceWrite
  simp only [serEnvOf_tw, St.tw_c_curLastEventTs, St.tw_c_at_, runSer_tw]
  have h1 := runSer_sec (serRecord (serEnvOf cfg d e.id s.c.curLastEventTs s.c) d e args) s h
  generalize runSer (serRecord (serEnvOf cfg d e.id s.c.curLastEventTs s.c) d e args) s = s1 at h1
  cases hh : s1.halted
  · simp only [St.tw_halted, hh, Bool.false_eq_true, if_false]
    have e2 : (if d.feat.erTs.isSome = true then (s1.tw b t).ev (.tsWrite "rec" s1.c.curLastEventTs) else s1.tw b t) =
        (if d.feat.erTs.isSome = true then s1.ev (.tsWrite "rec" s1.c.curLastEventTs) else s1).tw b t := by
      split <;> rfl
    rw [e2]
    have h2 : Sec s1 (if d.feat.erTs.isSome = true then s1.ev (.tsWrite "rec" s1.c.curLastEventTs) else s1) := by
      split
      · exact Sec.ev (.tsWrite _ _) h1.2 trivial
      · exact Sec.refl h1.2
    generalize (if d.feat.erTs.isSome = true then s1.ev (.tsWrite "rec" s1.c.curLastEventTs) else s1) = s2 at h2
    obtain ⟨b3, e3⟩ := commit_tw cfg d (s2.ev (.recDone e.name s.c.at_ s2.c.at_)) b t (by simpa using h2.2)
    simp only [St.tw_c_at_, St.tw_ev, e3, St.tw_halted]
    split
    · exact ⟨b3, rfl⟩
    · exact ⟨b3, rfl⟩
  · simp only [St.tw_halted, hh, if_true]; exact ⟨b, rfl⟩

theorem traceAfterReserve_tw (cfg : Cfg) (d : DST) (e : ERT) (args : Args) (erAt erSize : Nat) (r r' : Bool × St)
    (b : Bool) (t : List (Nat × Bool)) (h : r.2.c.inTracingSection = true) (h1 : r'.1 = r.1)
    (h2 : r'.2 = r.2.tw b t) :
    ∃ b', traceAfterReserve cfg d e args erAt erSize r' = (traceAfterReserve cfg d e args erAt erSize r).tw b' t := by
  unfold traceAfterReserve
  rw [h1, h2]
  have hsz : sizeAfterReserve d e args erAt erSize (r.2.tw b t) = sizeAfterReserve d e args erAt erSize r.2 := rfl
  cases hh : r.2.halted
  · cases h1 : r.1
    · simp only [St.tw_halted, hh, Bool.false_eq_true, if_false, Bool.not_false, if_true]; exact ⟨b, rfl⟩
    · by_cases hc : sizeAfterReserve d e args erAt erSize r.2 > r.2.c.room r.2.c.at_
      · simp only [St.tw_halted, hh, Bool.false_eq_true, if_false, Bool.not_true, hsz, room_tw, St.tw_c_at_, hc, if_true]
        exact ⟨b, rfl⟩
      · simp only [St.tw_halted, hh, Bool.false_eq_true, if_false, Bool.not_true, hsz, room_tw, St.tw_c_at_, hc]
        exact traceWrite_tw cfg d e args r.2 b t h
  · simp only [St.tw_halted, hh, if_true]; exact ⟨b, rfl⟩

/-- C07 atomicity: once a tracing call has passed its enable test, neither the value of the enable flag
    nor the toggle script influences what the call does. -/
theorem traceEnabled_tw (cfg : Cfg) (d : DST) (e : ERT) (args : Args) (s : St) (b : Bool) (t : List (Nat × Bool))
    (h : s.c.inTracingSection = true) :
    ∃ b', traceEnabled cfg d e args (s.tw b t) = (traceEnabled cfg d e args s).tw b' t := by
  unfold traceEnabled
  obtain ⟨b1, e1, e2⟩ := reserve_tw cfg d (erSizeAt d e args s.c.at_) (erSizeAt d e args s.c.offContent) s b t h
  exact traceAfterReserve_tw cfg d e args _ _ _ _ b1 t (reserve_sec cfg d _ _ s h).2 e1 e2

end BVM
