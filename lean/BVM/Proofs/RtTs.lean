/-
  Proofs/RtTs.lean — timestamps (C05): every value written to a timestamp position is a sample of the
  clock, and the values written are non-decreasing in write order, provided the clock source does not
  wrap its C type.
-/
import BVM.Proofs.RtCount
namespace BVM

/-! ### pass 1: what no function changes (clock never goes back; `use_cur_last_event_ts` and
    `cur_last_event_ts` are only touched by `withUseCur` / the entry sample) -/

structure TFrame (s s' : St) : Prop where
  clock : s.p.clock ≤ s'.p.clock
  useCur : s'.c.useCurLastEventTs = s.c.useCurLastEventTs
  cur : s'.c.curLastEventTs = s.c.curLastEventTs

theorem TFrame.refl (s : St) : TFrame s s := ⟨Nat.le_refl _, rfl, rfl⟩
theorem TFrame.trans {a b c : St} (h1 : TFrame a b) (h2 : TFrame b c) : TFrame a c :=
  ⟨Nat.le_trans h1.clock h2.clock, h2.useCur.trans h1.useCur, h2.cur.trans h1.cur⟩

theorem cbEnter_tf (k : CbKind) (s : St) : TFrame s (cbEnter k s) := by
  unfold cbEnter; simp only; split <;> exact ⟨Nat.le_refl _, rfl, rfl⟩

theorem cbClock_tf (clk : Clock) (s : St) : TFrame s (cbClock clk s).2 := by
  have h := cbEnter_tf .clock s
  unfold cbClock
  simp only
  generalize cbEnter .clock s = s1 at h
  exact ⟨Nat.le_trans h.clock (Nat.le_add_right _ _), h.useCur, h.cur⟩

theorem cbFull_tf (s : St) : TFrame s (cbFull s).2 := by
  have h := cbEnter_tf .full s
  unfold cbFull
  simp only
  generalize cbEnter .full s = s1 at h
  exact ⟨h.clock, h.useCur, h.cur⟩

theorem installSer_tf (r : SerSt) (s : St) : TFrame s (installSer r s) := by
  unfold installSer; simp only; split <;> exact ⟨Nat.le_refl _, rfl, rfl⟩

theorem runSer_tf (f : SerSt → SerSt) (s : St) : TFrame s (runSer f s) := installSer_tf _ s

theorem preambleTs_tf (d : DST) (ft : Option Scalar) (s : St) : TFrame s (preambleTs d ft s).2 := by
  unfold preambleTs
  split
  · split
    · exact TFrame.refl s
    · exact cbClock_tf _ s
  · exact TFrame.refl s

theorem openWrite_tf (cfg : Cfg) (d : DST) (args : Args) (ts : Nat) (saved : Bool) (s : St) :
    TFrame s (openWrite cfg d args ts saved s) := by
  unfold openWrite
  simp only
  have hr := runSer_tf (fun st => serRoot (serEnvOf cfg d 0 ts (s.setAt 0).c) "pc" d.pcOp args
      (serRoot (serEnvOf cfg d 0 ts (s.setAt 0).c) "ph" (DST.phOp cfg) [] st)) (s.setAt 0)
  generalize runSer _ (s.setAt 0) = s2 at hr
  have h0 : TFrame s s2 := ⟨hr.clock, hr.useCur, hr.cur⟩
  split
  · exact h0
  · split <;> exact ⟨h0.clock, h0.useCur, h0.cur⟩

theorem openGuarded_tf (cfg : Cfg) (d : DST) (args : Args) (ts : Nat) (s : St) :
    TFrame s (openGuarded cfg d args ts s) := by
  unfold openGuarded
  simp only
  split
  · exact ⟨Nat.le_refl _, rfl, rfl⟩
  · split
    · exact ⟨Nat.le_refl _, rfl, rfl⟩
    · have := openWrite_tf cfg d args ts s.c.inTracingSection (s.setFlag true)
      exact ⟨this.clock, this.useCur, this.cur⟩

theorem openPacket_tf (cfg : Cfg) (d : DST) (args : Args) (s : St) : TFrame s (openPacket cfg d args s) := by
  unfold openPacket
  split
  · exact TFrame.refl s
  · exact (preambleTs_tf d d.feat.tsBegin s).trans (openGuarded_tf cfg d args _ _)

theorem writeBack_tf (env : SerEnv) (d : DST) (name : String) (v : Int) (s : St) :
    TFrame s (writeBack env d name v s) := by
  unfold writeBack
  split
  · exact TFrame.refl s
  · split
    · exact TFrame.refl s
    · have := runSer_tf (fun st => writeBits env ‹Write›.sc ‹Write›.oib v st) (s.setAt ((s.c.saved.lookup name).getD 0))
      exact ⟨this.clock, this.useCur, this.cur⟩

theorem closeBacks_tf (cfg : Cfg) (d : DST) (ts : Nat) (s : St) : TFrame s (closeBacks cfg d ts s) := by
  unfold closeBacks
  simp only
  generalize serEnvOf cfg d 0 ts s.c = env
  have h1 : TFrame s (if d.feat.tsEnd.isSome = true then writeBack env d "timestamp_end" ts s else s) := by
    split
    · exact writeBack_tf _ _ _ _ _
    · exact TFrame.refl _
  generalize (if d.feat.tsEnd.isSome = true then writeBack env d "timestamp_end" ts s else s) = s1 at h1
  have h2 : TFrame s1 (writeBack env d "content_size" s1.c.contentSize s1) := writeBack_tf _ _ _ _ _
  generalize writeBack env d "content_size" s1.c.contentSize s1 = s2 at h2
  have h3 : TFrame s2 (if d.feat.discarded.isSome = true then writeBack env d "events_discarded" s2.c.eventsDiscarded s2 else s2) := by
    split
    · exact writeBack_tf _ _ _ _ _
    · exact TFrame.refl _
  exact h1.trans (h2.trans h3)

theorem closeFinish_tf (d : DST) (ts : Nat) (saved : Bool) (s : St) : TFrame s (closeFinish d ts saved s) := by
  unfold closeFinish
  split
  · exact TFrame.refl s
  · simp only
    split <;> split <;> exact ⟨Nat.le_refl _, rfl, rfl⟩

theorem closeGuarded_tf (cfg : Cfg) (d : DST) (ts : Nat) (s : St) : TFrame s (closeGuarded cfg d ts s) := by
  unfold closeGuarded
  simp only
  split
  · exact ⟨Nat.le_refl _, rfl, rfl⟩
  · split
    · exact ⟨Nat.le_refl _, rfl, rfl⟩
    · unfold closeWrite
      have h1 := closeBacks_tf cfg d ts ((s.setFlag true).setContentSize (s.setFlag true).c.at_)
      have h2 := closeFinish_tf d ts s.c.inTracingSection (closeBacks cfg d ts ((s.setFlag true).setContentSize (s.setFlag true).c.at_))
      have := h1.trans h2
      exact ⟨this.clock, this.useCur, this.cur⟩

theorem closePacket_tf (cfg : Cfg) (d : DST) (s : St) : TFrame s (closePacket cfg d s) := by
  unfold closePacket
  split
  · exact TFrame.refl s
  · exact (preambleTs_tf d d.feat.tsEnd s).trans (closeGuarded_tf cfg d _ _)

theorem cbOpen_tf (cfg : Cfg) (d : DST) (s : St) : TFrame s (cbOpen cfg d s) := by
  unfold cbOpen
  split
  · exact TFrame.refl s
  · simp only
    have h1 := cbEnter_tf .open_ s
    generalize cbEnter .open_ s = s1 at h1
    have h2 := openPacket_tf cfg d s1.openArgsNow s1.bumpOpen
    exact ⟨Nat.le_trans h1.clock h2.clock, h2.useCur.trans h1.useCur, h2.cur.trans h1.cur⟩

theorem setBuf_tf (bytes : Nat) (s : St) : TFrame s (setBuf bytes s) := by
  unfold setBuf; simp only; split <;> exact ⟨Nat.le_refl _, rfl, rfl⟩

theorem deliverAndSwap_tf (wasOpen : Bool) (n : Nat) (s : St) : TFrame s (deliverAndSwap wasOpen n s) := by
  unfold deliverAndSwap
  split
  · exact TFrame.refl s
  · simp only
    split
    · have := setBuf_tf ‹Nat› (s.ev (.deliver s.buf wasOpen s.c.packetIsOpen))
      exact ⟨this.clock, this.useCur, this.cur⟩
    · exact ⟨Nat.le_refl _, rfl, rfl⟩

theorem cbClose_tf (cfg : Cfg) (d : DST) (s : St) : TFrame s (cbClose cfg d s) := by
  unfold cbClose
  split
  · exact TFrame.refl s
  · simp only
    have h1 := cbEnter_tf .close s
    generalize cbEnter .close s = s1 at h1
    have h2 := closePacket_tf cfg d s1.bumpClose
    have h3 := deliverAndSwap_tf s1.c.packetIsOpen s1.p.closeCount (closePacket cfg d s1.bumpClose)
    have := h2.trans h3
    exact ⟨Nat.le_trans h1.clock this.clock, this.useCur.trans h1.useCur, this.cur.trans h1.cur⟩

/-! ### pass 2: the timestamp invariant -/

/-- newest value written to a timestamp position (0 if none) -/
def lastTs : List Ev → Nat
  | [] => 0
  | .tsWrite _ v :: _ => v
  | _ :: l => lastTs l

/-- the values written to timestamp positions are non-decreasing in write order -/
def sortedTs : List Ev → Prop
  | [] => True
  | .tsWrite _ v :: l => lastTs l ≤ v ∧ sortedTs l
  | _ :: l => sortedTs l

/-- not a timestamp write -/
def PNoTs (e : Ev) : Prop := ∀ k v, e ≠ .tsWrite k v

theorem PQuiet.noTs (e : Ev) (h : PQuiet e) : PNoTs e := by
  intro k v he; subst he; exact h

theorem noTs_log (new old : List Ev) (h : ∀ e ∈ new, PNoTs e) :
    lastTs (new ++ old) = lastTs old ∧ (sortedTs (new ++ old) ↔ sortedTs old) := by
  induction new with
  | nil => simp
  | cons e es ih =>
    have hq := h e (by simp)
    obtain ⟨i1, i2⟩ := ih (fun x hx => h x (by simp [hx]))
    cases e <;> first | (exact absurd rfl (hq _ _)) | simp [lastTs, sortedTs, i1, i2]

/-- the unwrapped clock bounds everything written so far -/
structure TInv (s : St) : Prop where
  ts : lastTs s.log ≤ s.p.clock
  cur : s.c.curLastEventTs ≤ s.p.clock
  sorted : sortedTs s.log

/-- inside a tracing call, between its clock sample and the commit: nothing newer than that sample was written -/
def TInv2 (s : St) : Prop := TInv s ∧ lastTs s.log ≤ s.c.curLastEventTs

/-- a step that writes no timestamp -/
theorem quiet_tinv {s s' : St} (hf : TFrame s s') (he : Ext PNoTs s s') : (TInv s → TInv s') ∧ (TInv2 s → TInv2 s') := by
  obtain ⟨new, hl, hq⟩ := he
  obtain ⟨q1, q2⟩ := noTs_log new s.log hq
  have key : TInv s → TInv s' := by
    intro hi
    refine ⟨?_, ?_, ?_⟩
    · rw [hl, q1]; exact Nat.le_trans hi.ts hf.clock
    · rw [hf.cur]; exact Nat.le_trans hi.cur hf.clock
    · rw [hl, q2]; exact hi.sorted
  refine ⟨key, ?_⟩
  intro ⟨hi, h2⟩
  exact ⟨key hi, by rw [hl, q1, hf.cur]; exact h2⟩

/-- hypotheses on the configuration: the timestamp features need the default clock -/
def ClockWF (d : DST) : Prop :=
  d.clock = none → d.feat.tsBegin = none ∧ d.feat.tsEnd = none ∧ d.feat.erTs = none

/-- the modulus of the clock's C type -/
def clkW (d : DST) : Nat :=
  match d.clock with
  | some c => 2 ^ c.ctype.width
  | none => 1

/-- the clock callback: a fresh value, equal to the (unwrapped) clock when it has not wrapped -/
theorem cbClock_val (clk : Clock) (s : St) (hw : (cbClock clk s).2.p.clock < 2 ^ clk.ctype.width) :
    (cbClock clk s).1 = (cbClock clk s).2.p.clock := by
  unfold cbClock at hw ⊢
  simp only at hw ⊢
  exact Nat.mod_eq_of_lt hw

theorem cbClock_quiet (clk : Clock) (s : St) : Ext PNoTs s (cbClock clk s).2 := (cbClock_same clk s).ext.mono PQuiet.noTs

/-- the timestamp local of open/close: either the current record's sample (inside a tracing call) or
    a fresh one; in both cases nothing newer has been written and it does not exceed the clock -/
theorem preambleTs_t (d : DST) (ft : Option Scalar) (s : St) (hwf : d.clock = none → ft = none)
    (hw : (preambleTs d ft s).2.p.clock < clkW d) :
    (s.c.useCurLastEventTs = false → TInv s →
      TInv (preambleTs d ft s).2 ∧ (ft.isSome → lastTs (preambleTs d ft s).2.log ≤ (preambleTs d ft s).1 ∧
        (preambleTs d ft s).1 ≤ (preambleTs d ft s).2.p.clock)) ∧
    (s.c.useCurLastEventTs = true → TInv2 s →
      TInv2 (preambleTs d ft s).2 ∧ (ft.isSome → lastTs (preambleTs d ft s).2.log ≤ (preambleTs d ft s).1 ∧
        (preambleTs d ft s).1 ≤ (preambleTs d ft s).2.c.curLastEventTs)) := by
  unfold preambleTs at hw ⊢
  cases hc : d.clock with
  | none =>
    have := hwf hc; subst this
    simp only [hc]
    exact ⟨fun _ hi => ⟨hi, fun h => by cases h⟩, fun _ hi => ⟨hi, fun h => by cases h⟩⟩
  | some clk =>
    cases ft with
    | none =>
      simp only [hc]
      exact ⟨fun _ hi => ⟨hi, fun h => by cases h⟩, fun _ hi => ⟨hi, fun h => by cases h⟩⟩
    | some x =>
      simp only [hc] at hw ⊢
      constructor
      · intro hu hi
        simp only [hu, Bool.false_eq_true, if_false] at hw ⊢
        have hv := cbClock_val clk s (by simpa [clkW, hc] using hw)
        have hq := quiet_tinv (cbClock_tf clk s) (cbClock_quiet clk s)
        have hi' := hq.1 hi
        refine ⟨hi', fun _ => ⟨?_, ?_⟩⟩
        · rw [hv]; exact hi'.ts
        · rw [hv]; exact Nat.le_refl _
      · intro hu hi
        simp only [hu, if_true]
        exact ⟨hi, fun _ => ⟨hi.2, Nat.le_refl _⟩⟩

/-- logging a timestamp write `v` that is at least the last one and at most the clock -/
theorem TInv.tsw {s : St} (hi : TInv s) (k : String) (v : Nat) (h1 : lastTs s.log ≤ v) (h2 : v ≤ s.p.clock) :
    TInv (s.ev (.tsWrite k v)) :=
  ⟨h2, hi.cur, ⟨h1, hi.sorted⟩⟩

theorem TInv2.tsw {s : St} (hi : TInv2 s) (k : String) (v : Nat) (h1 : lastTs s.log ≤ v)
    (h2 : v ≤ s.c.curLastEventTs) : TInv2 (s.ev (.tsWrite k v)) :=
  ⟨hi.1.tsw k v h1 (Nat.le_trans h2 hi.1.cur), h2⟩

/-- a step that writes no timestamp, with its frame facts -/
structure TQ (s s' : St) : Prop where
  fr : TFrame s s'
  ext : Ext PNoTs s s'

theorem TQ.mk' {s s' : St} (hf : TFrame s s') (hs : Same s s') : TQ s s' := ⟨hf, hs.ext.mono PQuiet.noTs⟩
theorem TQ.trans {a b c : St} (h1 : TQ a b) (h2 : TQ b c) : TQ a c := ⟨h1.fr.trans h2.fr, h1.ext.trans h2.ext⟩
theorem TQ.lastTs_eq {s s' : St} (h : TQ s s') : lastTs s'.log = lastTs s.log := by
  obtain ⟨new, hl, hq⟩ := h.ext
  rw [hl]; exact (noTs_log new s.log hq).1
theorem TQ.inv {s s' : St} (h : TQ s s') : TInv s → TInv s' := (quiet_tinv h.fr h.ext).1
theorem TQ.inv2 {s s' : St} (h : TQ s s') : TInv2 s → TInv2 s' := (quiet_tinv h.fr h.ext).2
theorem TQ.setAt (s : St) (v : Nat) : TQ s (s.setAt v) := ⟨⟨Nat.le_refl _, rfl, rfl⟩, Ext.of_log_eq rfl⟩
theorem TQ.setFlag (s : St) (b : Bool) : TQ s (s.setFlag b) := ⟨⟨Nat.le_refl _, rfl, rfl⟩, Ext.of_log_eq rfl⟩
theorem TQ.runSer (f : SerSt → SerSt) (s : St) : TQ s (runSer f s) := TQ.mk' (runSer_tf f s) (runSer_same f s)

/-- bookkeeping that only touches context fields other than the two timestamp ones, and the log not at all -/
theorem TInv.upd {s s' : St} (hi : TInv s) (hl : s'.log = s.log) (hp : s'.p.clock = s.p.clock)
    (hc : s'.c.curLastEventTs = s.c.curLastEventTs) : TInv s' :=
  ⟨by rw [hl, hp]; exact hi.ts, by rw [hc, hp]; exact hi.cur, by rw [hl]; exact hi.sorted⟩
theorem TInv2.upd {s s' : St} (hi : TInv2 s) (hl : s'.log = s.log) (hp : s'.p.clock = s.p.clock)
    (hc : s'.c.curLastEventTs = s.c.curLastEventTs) : TInv2 s' :=
  ⟨hi.1.upd hl hp hc, by rw [hl, hc]; exact hi.2⟩
/-- logging an event that is not a timestamp write -/
theorem TInv.evq {s : St} (hi : TInv s) (e : Ev) (h : PNoTs e) : TInv (s.ev e) :=
  (TQ.mk ⟨Nat.le_refl _, rfl, rfl⟩ (Ext.ev s e h) : TQ s (s.ev e)).inv hi
theorem TInv2.evq {s : St} (hi : TInv2 s) (e : Ev) (h : PNoTs e) : TInv2 (s.ev e) :=
  (TQ.mk ⟨Nat.le_refl _, rfl, rfl⟩ (Ext.ev s e h) : TQ s (s.ev e)).inv2 hi

theorem openWrite_t (cfg : Cfg) (d : DST) (args : Args) (ts : Nat) (saved : Bool) (s : St) :
    (TInv s → (d.feat.tsBegin.isSome → lastTs s.log ≤ ts ∧ ts ≤ s.p.clock) →
      TInv (openWrite cfg d args ts saved s)) ∧
    (TInv2 s → (d.feat.tsBegin.isSome → lastTs s.log ≤ ts ∧ ts ≤ s.c.curLastEventTs) →
      TInv2 (openWrite cfg d args ts saved s)) := by
  unfold openWrite
  simp only
  have hq : TQ s (runSer (fun st => serRoot (serEnvOf cfg d 0 ts (s.setAt 0).c) "pc" d.pcOp args
      (serRoot (serEnvOf cfg d 0 ts (s.setAt 0).c) "ph" (DST.phOp cfg) [] st)) (s.setAt 0)) :=
    (TQ.setAt s 0).trans (TQ.runSer _ _)
  generalize runSer _ (s.setAt 0) = s2 at hq
  have hlt := hq.lastTs_eq
  constructor
  · intro hi hts
    have h2 := hq.inv hi
    split
    · exact h2
    · have h3 : TInv (if d.feat.tsBegin.isSome = true then s2.ev (.tsWrite "begin" ts) else s2) := by
        split
        · rename_i hf
          exact h2.tsw _ _ (by rw [hlt]; exact (hts hf).1) (Nat.le_trans (hts hf).2 hq.fr.clock)
        · exact h2
      generalize (if d.feat.tsBegin.isSome = true then s2.ev (.tsWrite "begin" ts) else s2) = s3 at h3
      exact (h3.evq (.opened s3.c.at_) (fun _ _ h => by cases h)).upd rfl rfl rfl
  · intro hi hts
    have h2 := hq.inv2 hi
    split
    · exact h2
    · have h3 : TInv2 (if d.feat.tsBegin.isSome = true then s2.ev (.tsWrite "begin" ts) else s2) := by
        split
        · rename_i hf
          exact h2.tsw _ _ (by rw [hlt]; exact (hts hf).1) (by rw [hq.fr.cur]; exact (hts hf).2)
        · exact h2
      generalize (if d.feat.tsBegin.isSome = true then s2.ev (.tsWrite "begin" ts) else s2) = s3 at h3
      exact (h3.evq (.opened s3.c.at_) (fun _ _ h => by cases h)).upd rfl rfl rfl


theorem openGuarded_t (cfg : Cfg) (d : DST) (args : Args) (ts : Nat) (s : St) :
    (TInv s → (d.feat.tsBegin.isSome → lastTs s.log ≤ ts ∧ ts ≤ s.p.clock) →
      TInv (openGuarded cfg d args ts s)) ∧
    (TInv2 s → (d.feat.tsBegin.isSome → lastTs s.log ≤ ts ∧ ts ≤ s.c.curLastEventTs) →
      TInv2 (openGuarded cfg d args ts s)) := by
  unfold openGuarded
  simp only
  constructor
  · intro hi hts
    split
    · exact hi.upd rfl rfl rfl
    · split
      · exact hi.upd rfl rfl rfl
      · exact (openWrite_t cfg d args ts _ (s.setFlag true)).1 (hi.upd rfl rfl rfl) hts
  · intro hi hts
    split
    · exact hi.upd rfl rfl rfl
    · split
      · exact hi.upd rfl rfl rfl
      · exact (openWrite_t cfg d args ts _ (s.setFlag true)).2 (hi.upd rfl rfl rfl) hts

theorem openPacket_t (cfg : Cfg) (d : DST) (args : Args) (s : St) (hwf : ClockWF d)
    (hw : (openPacket cfg d args s).p.clock < clkW d) :
    (s.c.useCurLastEventTs = false → TInv s → TInv (openPacket cfg d args s)) ∧
    (s.c.useCurLastEventTs = true → TInv2 s → TInv2 (openPacket cfg d args s)) := by
  unfold openPacket at hw ⊢
  split
  · exact ⟨fun _ h => h, fun _ h => h⟩
  · rename_i hh
    simp only [hh, if_false] at hw
    have hb : (preambleTs d d.feat.tsBegin s).2.p.clock < clkW d :=
      Nat.lt_of_le_of_lt (openGuarded_tf cfg d args _ _).clock hw
    obtain ⟨pa, pb⟩ := preambleTs_t d d.feat.tsBegin s (fun h => (hwf h).1) hb
    constructor
    · intro hu hi
      obtain ⟨h1, h2⟩ := pa hu hi
      exact (openGuarded_t cfg d args _ _).1 h1 h2
    · intro hu hi
      obtain ⟨h1, h2⟩ := pb hu hi
      exact (openGuarded_t cfg d args _ _).2 h1 h2

theorem closeFinish_t (d : DST) (ts : Nat) (saved : Bool) (s : St) :
    (TInv s → (d.feat.tsEnd.isSome → lastTs s.log ≤ ts ∧ ts ≤ s.p.clock) → TInv (closeFinish d ts saved s)) ∧
    (TInv2 s → (d.feat.tsEnd.isSome → lastTs s.log ≤ ts ∧ ts ≤ s.c.curLastEventTs) →
      TInv2 (closeFinish d ts saved s)) := by
  unfold closeFinish
  constructor
  · intro hi hts
    split
    · exact hi
    · simp only
      have h3 : TInv (if d.feat.tsEnd.isSome = true then s.ev (.tsWrite "end" ts) else s) := by
        split
        · rename_i hf; exact hi.tsw _ _ (hts hf).1 (hts hf).2
        · exact hi
      generalize (if d.feat.tsEnd.isSome = true then s.ev (.tsWrite "end" ts) else s) = s3 at h3
      have h4 := h3.evq (.closed s3.c.contentSize s3.c.sequenceNumber s3.c.eventsDiscarded) (fun _ _ h => by cases h)
      split <;> exact h4.upd rfl rfl rfl
  · intro hi hts
    split
    · exact hi
    · simp only
      have h3 : TInv2 (if d.feat.tsEnd.isSome = true then s.ev (.tsWrite "end" ts) else s) := by
        split
        · rename_i hf; exact hi.tsw _ _ (hts hf).1 (hts hf).2
        · exact hi
      generalize (if d.feat.tsEnd.isSome = true then s.ev (.tsWrite "end" ts) else s) = s3 at h3
      have h4 := h3.evq (.closed s3.c.contentSize s3.c.sequenceNumber s3.c.eventsDiscarded) (fun _ _ h => by cases h)
      split <;> exact h4.upd rfl rfl rfl

theorem closeBacks_tq (cfg : Cfg) (d : DST) (ts : Nat) (s : St) : TQ s (closeBacks cfg d ts s) :=
  TQ.mk' (closeBacks_tf cfg d ts s) (closeBacks_same cfg d ts s)

theorem closeGuarded_t (cfg : Cfg) (d : DST) (ts : Nat) (s : St) :
    (TInv s → (d.feat.tsEnd.isSome → lastTs s.log ≤ ts ∧ ts ≤ s.p.clock) → TInv (closeGuarded cfg d ts s)) ∧
    (TInv2 s → (d.feat.tsEnd.isSome → lastTs s.log ≤ ts ∧ ts ≤ s.c.curLastEventTs) →
      TInv2 (closeGuarded cfg d ts s)) := by
  unfold closeGuarded
  simp only
  have hq : TQ s (closeBacks cfg d ts ((s.setFlag true).setContentSize (s.setFlag true).c.at_)) :=
    (TQ.mk ⟨Nat.le_refl _, rfl, rfl⟩ (Ext.of_log_eq rfl) : TQ s ((s.setFlag true).setContentSize (s.setFlag true).c.at_)).trans
      (closeBacks_tq cfg d ts _)
  constructor
  · intro hi hts
    split
    · exact hi.upd rfl rfl rfl
    · split
      · exact hi.upd rfl rfl rfl
      · unfold closeWrite
        refine (closeFinish_t d ts _ _).1 (hq.inv hi) (fun hf => ?_)
        rw [hq.lastTs_eq]
        exact ⟨(hts hf).1, Nat.le_trans (hts hf).2 hq.fr.clock⟩
  · intro hi hts
    split
    · exact hi.upd rfl rfl rfl
    · split
      · exact hi.upd rfl rfl rfl
      · unfold closeWrite
        refine (closeFinish_t d ts _ _).2 (hq.inv2 hi) (fun hf => ?_)
        rw [hq.lastTs_eq, hq.fr.cur]
        exact hts hf

theorem closePacket_t (cfg : Cfg) (d : DST) (s : St) (hwf : ClockWF d)
    (hw : (closePacket cfg d s).p.clock < clkW d) :
    (s.c.useCurLastEventTs = false → TInv s → TInv (closePacket cfg d s)) ∧
    (s.c.useCurLastEventTs = true → TInv2 s → TInv2 (closePacket cfg d s)) := by
  unfold closePacket at hw ⊢
  split
  · exact ⟨fun _ h => h, fun _ h => h⟩
  · rename_i hh
    simp only [hh, if_false] at hw
    have hb : (preambleTs d d.feat.tsEnd s).2.p.clock < clkW d :=
      Nat.lt_of_le_of_lt (closeGuarded_tf cfg d _ _).clock hw
    obtain ⟨pa, pb⟩ := preambleTs_t d d.feat.tsEnd s (fun h => (hwf h).2.1) hb
    constructor
    · intro hu hi
      obtain ⟨h1, h2⟩ := pa hu hi
      exact (closeGuarded_t cfg d _ _).1 h1 h2
    · intro hu hi
      obtain ⟨h1, h2⟩ := pb hu hi
      exact (closeGuarded_t cfg d _ _).2 h1 h2


theorem cbEnter_tq (k : CbKind) (s : St) : TQ s (cbEnter k s) := TQ.mk' (cbEnter_tf k s) (cbEnter_same k s)
theorem cbFull_tq (s : St) : TQ s (cbFull s).2 := TQ.mk' (cbFull_tf s) (cbFull_same s)
theorem deliverAndSwap_tq (w : Bool) (n : Nat) (s : St) : TQ s (deliverAndSwap w n s) :=
  TQ.mk' (deliverAndSwap_tf w n s) (deliverAndSwap_same w n s)

theorem cbOpen_t (cfg : Cfg) (d : DST) (s : St) (hwf : ClockWF d) (hw : (cbOpen cfg d s).p.clock < clkW d) :
    (s.c.useCurLastEventTs = false → TInv s → TInv (cbOpen cfg d s)) ∧
    (s.c.useCurLastEventTs = true → TInv2 s → TInv2 (cbOpen cfg d s)) := by
  unfold cbOpen at hw ⊢
  split
  · exact ⟨fun _ h => h, fun _ h => h⟩
  · rename_i hh
    simp only [hh, if_false] at hw
    simp only
    have hq := cbEnter_tq .open_ s
    generalize cbEnter .open_ s = s1 at hq hw
    obtain ⟨pa, pb⟩ := openPacket_t cfg d s1.openArgsNow s1.bumpOpen hwf hw
    constructor
    · intro hu hi
      have := pa (by show s1.c.useCurLastEventTs = false; rw [hq.fr.useCur]; exact hu) ((hq.inv hi).upd rfl rfl rfl)
      exact this.evq _ (fun _ _ h => by cases h)
    · intro hu hi
      have := pb (by show s1.c.useCurLastEventTs = true; rw [hq.fr.useCur]; exact hu) ((hq.inv2 hi).upd rfl rfl rfl)
      exact this.evq _ (fun _ _ h => by cases h)

theorem cbClose_t (cfg : Cfg) (d : DST) (s : St) (hwf : ClockWF d) (hw : (cbClose cfg d s).p.clock < clkW d) :
    (s.c.useCurLastEventTs = false → TInv s → TInv (cbClose cfg d s)) ∧
    (s.c.useCurLastEventTs = true → TInv2 s → TInv2 (cbClose cfg d s)) := by
  unfold cbClose at hw ⊢
  split
  · exact ⟨fun _ h => h, fun _ h => h⟩
  · rename_i hh
    simp only [hh, if_false] at hw
    simp only
    have hq := cbEnter_tq .close s
    generalize cbEnter .close s = s1 at hq hw
    have hd := deliverAndSwap_tq s1.c.packetIsOpen s1.p.closeCount (closePacket cfg d s1.bumpClose)
    have hb : (closePacket cfg d s1.bumpClose).p.clock < clkW d := Nat.lt_of_le_of_lt hd.fr.clock hw
    obtain ⟨pa, pb⟩ := closePacket_t cfg d s1.bumpClose hwf hb
    constructor
    · intro hu hi
      exact hd.inv (pa (by show s1.c.useCurLastEventTs = false; rw [hq.fr.useCur]; exact hu) ((hq.inv hi).upd rfl rfl rfl))
    · intro hu hi
      exact hd.inv2 (pb (by show s1.c.useCurLastEventTs = true; rw [hq.fr.useCur]; exact hu) ((hq.inv2 hi).upd rfl rfl rfl))

/-- frame facts of the functions of `_reserve_er_space`, which leave `use_cur_last_event_ts` at 0 -/
structure TFrame0 (s s' : St) : Prop where
  clock : s.p.clock ≤ s'.p.clock
  useCur : s'.c.useCurLastEventTs = false
  cur : s'.c.curLastEventTs = s.c.curLastEventTs

theorem TFrame.to0 {s s' : St} (h : TFrame s s') (hu : s.c.useCurLastEventTs = false) : TFrame0 s s' :=
  ⟨h.clock, h.useCur.trans hu, h.cur⟩
theorem TFrame0.trans {a b c : St} (h1 : TFrame0 a b) (h2 : TFrame0 b c) : TFrame0 a c :=
  ⟨Nat.le_trans h1.clock h2.clock, h2.useCur, h2.cur.trans h1.cur⟩
theorem TFrame0.after {a b c : St} (h1 : TFrame a b) (h2 : TFrame0 b c) : TFrame0 a c :=
  ⟨Nat.le_trans h1.clock h2.clock, h2.useCur, h2.cur.trans h1.cur⟩

theorem withUseCur_tf0 (f : St → St) (hf : ∀ s, TFrame s (f s)) (s : St) : TFrame0 s (withUseCur f s) := by
  unfold withUseCur
  have := hf (s.setUseCur true)
  exact ⟨this.clock, rfl, this.cur⟩

theorem withUseCur_t (d : DST) (f : St → St)
    (hf : ∀ s, (f s).p.clock < clkW d → s.c.useCurLastEventTs = true → TInv2 s → TInv2 (f s))
    (s : St) (hw : (withUseCur f s).p.clock < clkW d) (hi : TInv2 s) : TInv2 (withUseCur f s) := by
  unfold withUseCur at hw ⊢
  exact (hf (s.setUseCur true) hw rfl (hi.upd rfl rfl rfl)).upd rfl rfl rfl

theorem noSpace_tq (cf : Bool) (s : St) : TQ s (noSpace cf s).2 := by
  unfold noSpace
  exact ⟨⟨Nat.le_refl _, rfl, rfl⟩, (Ext.ev s (.discard cf) (fun _ _ h => by cases h)).trans (Ext.of_log_eq rfl)⟩

theorem reopenAfterClose_tf0 (cfg : Cfg) (d : DST) (s : St) (hu : s.c.useCurLastEventTs = false) :
    TFrame0 s (reopenAfterClose cfg d s).2 := by
  unfold reopenAfterClose
  simp only
  have h1 := cbFull_tq s
  split
  · exact (h1.trans (noSpace_tq _ _)).fr.to0 hu
  · exact TFrame0.after h1.fr (withUseCur_tf0 (cbOpen cfg d) (cbOpen_tf cfg d) _)

theorem reopenAfterClose_t (cfg : Cfg) (d : DST) (s : St) (hwf : ClockWF d)
    (hw : (reopenAfterClose cfg d s).2.p.clock < clkW d) (hi : TInv2 s) : TInv2 (reopenAfterClose cfg d s).2 := by
  unfold reopenAfterClose at hw ⊢
  simp only at hw ⊢
  have h1 := cbFull_tq s
  split
  · exact (noSpace_tq _ _).inv2 (h1.inv2 hi)
  · rename_i hf
    simp only [hf, if_false] at hw
    exact withUseCur_t d (cbOpen cfg d) (fun s hw hu h => (cbOpen_t cfg d s hwf hw).2 hu h) _ hw (h1.inv2 hi)

theorem reserveTail_tf0 (cfg : Cfg) (d : DST) (erSize : Nat) (s : St) (hu : s.c.useCurLastEventTs = false) :
    TFrame0 s (reserveTail cfg d erSize s).2 := by
  unfold reserveTail
  split
  · exact (TFrame.refl s).to0 hu
  · split
    · have h1 := withUseCur_tf0 (cbClose cfg d) (cbClose_tf cfg d) s
      exact h1.trans (reopenAfterClose_tf0 cfg d _ h1.useCur)
    · exact (TFrame.refl s).to0 hu

theorem reserveTail_t (cfg : Cfg) (d : DST) (erSize : Nat) (s : St) (hwf : ClockWF d)
    (hw : (reserveTail cfg d erSize s).2.p.clock < clkW d) (hi : TInv2 s) :
    TInv2 (reserveTail cfg d erSize s).2 := by
  unfold reserveTail at hw ⊢
  split
  · exact hi
  · rename_i hh
    simp only [hh, if_false] at hw
    split
    · rename_i hc
      simp only [hc, if_true] at hw
      have h0 := withUseCur_tf0 (cbClose cfg d) (cbClose_tf cfg d) s
      have hb : (withUseCur (cbClose cfg d) s).p.clock < clkW d :=
        Nat.lt_of_le_of_lt (reopenAfterClose_tf0 cfg d _ h0.useCur).clock hw
      have h1 := withUseCur_t d (cbClose cfg d) (fun s hw hu h => (cbClose_t cfg d s hwf hw).2 hu h) s hb hi
      exact reopenAfterClose_t cfg d _ hwf hw h1
    · exact hi

theorem reserve_tf0 (cfg : Cfg) (d : DST) (erSize emptySize : Nat) (s : St) (hu : s.c.useCurLastEventTs = false) :
    TFrame0 s (reserve cfg d erSize emptySize s).2 := by
  unfold reserve
  split
  · exact (noSpace_tq _ _).fr.to0 hu
  · split
    · simp only
      have h1 := cbFull_tq s
      split
      · exact (h1.trans (noSpace_tq _ _)).fr.to0 hu
      · have h2 := withUseCur_tf0 (cbOpen cfg d) (cbOpen_tf cfg d) (cbFull s).2
        exact TFrame0.after h1.fr (h2.trans (reserveTail_tf0 cfg d erSize _ h2.useCur))
    · exact reserveTail_tf0 cfg d erSize s hu

theorem reserve_t (cfg : Cfg) (d : DST) (erSize emptySize : Nat) (s : St) (hwf : ClockWF d)
    (hw : (reserve cfg d erSize emptySize s).2.p.clock < clkW d) (hi : TInv2 s) :
    TInv2 (reserve cfg d erSize emptySize s).2 := by
  unfold reserve at hw ⊢
  split
  · exact (noSpace_tq _ _).inv2 hi
  · rename_i h1
    simp only [h1, if_false] at hw
    split
    · rename_i h2
      simp only [h2, if_true] at hw ⊢
      have q1 := cbFull_tq s
      split
      · exact (noSpace_tq _ _).inv2 (q1.inv2 hi)
      · rename_i h3
        simp only [h3, if_false] at hw
        have h0 := withUseCur_tf0 (cbOpen cfg d) (cbOpen_tf cfg d) (cbFull s).2
        have hb : (withUseCur (cbOpen cfg d) (cbFull s).2).p.clock < clkW d :=
          Nat.lt_of_le_of_lt (reserveTail_tf0 cfg d erSize _ h0.useCur).clock hw
        have h4 := withUseCur_t d (cbOpen cfg d) (fun s hw hu h => (cbOpen_t cfg d s hwf hw).2 hu h) _ hb (q1.inv2 hi)
        exact reserveTail_t cfg d erSize _ hwf hw h4
    · rename_i h2
      simp only [h2, if_false] at hw
      exact reserveTail_t cfg d erSize s hwf hw hi


theorem commit_tf (cfg : Cfg) (d : DST) (s : St) : TFrame s (commit cfg d s) := by
  unfold commit
  split
  · exact TFrame.refl s
  · split
    · exact cbClose_tf cfg d s
    · exact TFrame.refl s

theorem commit_t (cfg : Cfg) (d : DST) (s : St) (hwf : ClockWF d) (hw : (commit cfg d s).p.clock < clkW d)
    (hu : s.c.useCurLastEventTs = false) (hi : TInv s) : TInv (commit cfg d s) := by
  unfold commit at hw ⊢
  split
  · exact hi
  · rename_i hh
    simp only [hh, if_false] at hw
    split
    · rename_i hf
      simp only [hf, if_true] at hw
      exact (cbClose_t cfg d s hwf hw).1 hu hi
    · exact hi

theorem traceWrite_tf (cfg : Cfg) (d : DST) (e : ERT) (args : Args) (s : St) : TFrame s (traceWrite cfg d e args s) := by
  unfold traceWrite
  simp only
  have h1 := runSer_tf (serRecord (serEnvOf cfg d e.id s.c.curLastEventTs s.c) d e args) s
  generalize runSer _ s = s1 at h1
  split
  · exact h1
  · have h2 : TFrame s1 (if d.feat.erTs.isSome = true then s1.ev (.tsWrite "rec" s1.c.curLastEventTs) else s1) := by
      split <;> exact ⟨Nat.le_refl _, rfl, rfl⟩
    generalize (if d.feat.erTs.isSome = true then s1.ev (.tsWrite "rec" s1.c.curLastEventTs) else s1) = s2 at h2
    have h3 := commit_tf cfg d (s2.ev (.recDone e.name s.c.at_ s2.c.at_))
    have h4 : TFrame s (commit cfg d (s2.ev (.recDone e.name s.c.at_ s2.c.at_))) :=
      (h1.trans h2).trans ⟨h3.clock, h3.useCur, h3.cur⟩
    split
    · exact h4
    · exact ⟨h4.clock, h4.useCur, h4.cur⟩

theorem traceWrite_t (cfg : Cfg) (d : DST) (e : ERT) (args : Args) (s : St) (hwf : ClockWF d)
    (hw : (traceWrite cfg d e args s).p.clock < clkW d) (hu : s.c.useCurLastEventTs = false) (hi : TInv2 s) :
    TInv (traceWrite cfg d e args s) := by
  unfold traceWrite at hw ⊢
  simp only at hw ⊢
  have hq := TQ.runSer (serRecord (serEnvOf cfg d e.id s.c.curLastEventTs s.c) d e args) s
  generalize runSer _ s = s1 at hq hw
  have h1 := hq.inv2 hi
  split
  · exact h1.1
  · rename_i hh
    simp only [hh, if_false] at hw
    have h2 : TInv2 (if d.feat.erTs.isSome = true then s1.ev (.tsWrite "rec" s1.c.curLastEventTs) else s1) := by
      split
      · exact h1.tsw _ _ h1.2 (Nat.le_refl _)
      · exact h1
    have hu2 : (if d.feat.erTs.isSome = true then s1.ev (.tsWrite "rec" s1.c.curLastEventTs) else s1).c.useCurLastEventTs = false := by
      split <;> (show s1.c.useCurLastEventTs = false; rw [hq.fr.useCur]; exact hu)
    generalize (if d.feat.erTs.isSome = true then s1.ev (.tsWrite "rec" s1.c.curLastEventTs) else s1) = s2 at h2 hu2 hw
    have h3 : TInv (s2.ev (.recDone e.name s.c.at_ s2.c.at_)) := h2.1.evq _ (fun _ _ h => by cases h)
    split
    · rename_i hc
      simp only [hc, if_true] at hw
      exact commit_t cfg d _ hwf hw hu2 h3
    · rename_i hc
      simp only [hc, if_false] at hw
      exact (commit_t cfg d _ hwf hw hu2 h3).upd rfl rfl rfl

theorem traceAfterReserve_mono (cfg : Cfg) (d : DST) (e : ERT) (args : Args) (erAt erSize : Nat) (r : Bool × St) :
    r.2.p.clock ≤ (traceAfterReserve cfg d e args erAt erSize r).p.clock := by
  unfold traceAfterReserve
  split
  · exact Nat.le_refl _
  · split
    · exact Nat.le_refl _
    · split
      · exact Nat.le_refl _
      · exact (traceWrite_tf cfg d e args r.2).clock

theorem traceAfterReserve_t (cfg : Cfg) (d : DST) (e : ERT) (args : Args) (erAt erSize : Nat) (r : Bool × St)
    (hwf : ClockWF d) (hw : (traceAfterReserve cfg d e args erAt erSize r).p.clock < clkW d)
    (hu : r.2.c.useCurLastEventTs = false) (hi : TInv2 r.2) :
    TInv (traceAfterReserve cfg d e args erAt erSize r) ∧
    (traceAfterReserve cfg d e args erAt erSize r).c.useCurLastEventTs = false := by
  unfold traceAfterReserve at hw ⊢
  split
  · exact ⟨hi.1, hu⟩
  · rename_i hh
    simp only [hh, if_false] at hw
    split
    · exact ⟨hi.1.upd rfl rfl rfl, hu⟩
    · rename_i hok
      simp only [hok, if_false] at hw
      split
      · exact ⟨((noSpace_tq true r.2).inv hi.1).upd rfl rfl rfl, hu⟩
      · rename_i hc
        simp only [hc, if_false] at hw
        exact ⟨traceWrite_t cfg d e args r.2 hwf hw hu hi, (traceWrite_tf cfg d e args r.2).useCur.trans hu⟩

theorem traceEnabled_t (cfg : Cfg) (d : DST) (e : ERT) (args : Args) (s : St) (hwf : ClockWF d)
    (hw : (traceEnabled cfg d e args s).p.clock < clkW d) (hu : s.c.useCurLastEventTs = false) (hi : TInv2 s) :
    TInv (traceEnabled cfg d e args s) ∧ (traceEnabled cfg d e args s).c.useCurLastEventTs = false := by
  unfold traceEnabled at hw ⊢
  have h0 := reserve_tf0 cfg d (erSizeAt d e args s.c.at_) (erSizeAt d e args s.c.offContent) s hu
  have hb := Nat.lt_of_le_of_lt (traceAfterReserve_mono cfg d e args s.c.at_ (erSizeAt d e args s.c.at_)
    (reserve cfg d (erSizeAt d e args s.c.at_) (erSizeAt d e args s.c.offContent) s)) hw
  exact traceAfterReserve_t cfg d e args _ _ _ hwf hw h0.useCur (reserve_t cfg d _ _ s hwf hb hi)

theorem traceEnabled_mono (cfg : Cfg) (d : DST) (e : ERT) (args : Args) (s : St) (hu : s.c.useCurLastEventTs = false) :
    s.p.clock ≤ (traceEnabled cfg d e args s).p.clock := by
  unfold traceEnabled
  exact Nat.le_trans (reserve_tf0 cfg d _ _ s hu).clock (traceAfterReserve_mono cfg d e args _ _ _)

/-- the entry sample of a tracing function establishes `TInv2` -/
theorem traceClock_t (d : DST) (clk : Clock) (hclk : d.clock = some clk) (s : St)
    (hw : (traceClock d s).p.clock < clkW d) (hi : TInv s) :
    TInv2 (traceClock d s) ∧ (traceClock d s).c.useCurLastEventTs = s.c.useCurLastEventTs ∧
    s.p.clock ≤ (traceClock d s).p.clock := by
  unfold traceClock at hw ⊢
  simp only [hclk] at hw ⊢
  have hv := cbClock_val clk s (by simpa [clkW, hclk] using hw)
  have hq : TQ s (cbClock clk s).2 := ⟨cbClock_tf clk s, cbClock_quiet clk s⟩
  have h1 := hq.inv hi
  refine ⟨⟨⟨h1.ts, ?_, h1.sorted⟩, ?_⟩, hq.fr.useCur, hq.fr.clock⟩
  · show (cbClock clk s).1 ≤ (cbClock clk s).2.p.clock
    rw [hv]; exact Nat.le_refl _
  · show lastTs (cbClock clk s).2.log ≤ (cbClock clk s).1
    rw [hv]; exact h1.ts

/-- invariant between public API calls -/
def TTop (s : St) : Prop := TInv s ∧ s.c.useCurLastEventTs = false

theorem traceBody_mono (cfg : Cfg) (d : DST) (e : ERT) (args : Args) (s : St) (hu : s.c.useCurLastEventTs = false) :
    s.p.clock ≤ (traceBody cfg d e args s).p.clock := by
  unfold traceBody
  simp only
  split
  · exact Nat.le_refl _
  · exact traceEnabled_mono cfg d e args ((s.ev (.traceCall e.name s.c.isTracingEnabled)).setFlag true) hu

theorem traceClock_fr (d : DST) (s : St) :
    s.p.clock ≤ (traceClock d s).p.clock ∧ (traceClock d s).c.useCurLastEventTs = s.c.useCurLastEventTs := by
  unfold traceClock
  split
  · rename_i clk _
    exact ⟨(cbClock_tf clk s).clock, (cbClock_tf clk s).useCur⟩
  · exact ⟨Nat.le_refl _, rfl⟩

theorem traceBody_t (cfg : Cfg) (d : DST) (e : ERT) (args : Args) (s : St) (hwf : ClockWF d)
    (hw : (traceBody cfg d e args s).p.clock < clkW d) (hu : s.c.useCurLastEventTs = false) (hi : TInv2 s) :
    TTop (traceBody cfg d e args s) := by
  unfold traceBody at hw ⊢
  simp only at hw ⊢
  split
  · exact ⟨hi.1.evq _ (fun _ _ h => by cases h), hu⟩
  · rename_i he
    simp only [he, if_false] at hw
    have h1 : TInv2 ((s.ev (.traceCall e.name s.c.isTracingEnabled)).setFlag true) :=
      (hi.evq _ (fun _ _ h => by cases h)).upd rfl rfl rfl
    exact traceEnabled_t cfg d e args _ hwf hw hu h1

theorem trace_mono (cfg : Cfg) (d : DST) (e : ERT) (args : Args) (s : St) (hu : s.c.useCurLastEventTs = false) :
    s.p.clock ≤ (trace cfg d e args s).p.clock := by
  unfold trace
  split
  · exact Nat.le_refl _
  · obtain ⟨c1, c2⟩ := traceClock_fr d s
    exact Nat.le_trans c1 (traceBody_mono cfg d e args _ (c2.trans hu))

theorem trace_t (cfg : Cfg) (d : DST) (clk : Clock) (hclk : d.clock = some clk) (e : ERT) (args : Args) (s : St)
    (hwf : ClockWF d) (hw : (trace cfg d e args s).p.clock < clkW d) (hi : TTop s) :
    TTop (trace cfg d e args s) := by
  unfold trace at hw ⊢
  split
  · exact hi
  · rename_i hh
    simp only [hh, if_false] at hw
    obtain ⟨f1, f2⟩ := traceClock_fr d s
    have hu : (traceClock d s).c.useCurLastEventTs = false := f2.trans hi.2
    have hb : (traceClock d s).p.clock < clkW d :=
      Nat.lt_of_le_of_lt (traceBody_mono cfg d e args _ hu) hw
    obtain ⟨c1, _, _⟩ := traceClock_t d clk hclk s hb hi.1
    exact traceBody_t cfg d e args _ hwf hw hu c1


/-! ### top level -/

theorem traceAfterReserve_u (cfg : Cfg) (d : DST) (e : ERT) (args : Args) (erAt erSize : Nat) (r : Bool × St)
    (hu : r.2.c.useCurLastEventTs = false) :
    (traceAfterReserve cfg d e args erAt erSize r).c.useCurLastEventTs = false := by
  unfold traceAfterReserve
  split
  · exact hu
  · split
    · exact hu
    · split
      · exact hu
      · exact (traceWrite_tf cfg d e args r.2).useCur.trans hu

theorem traceEnabled_u (cfg : Cfg) (d : DST) (e : ERT) (args : Args) (s0 : St) (hu0 : s0.c.useCurLastEventTs = false) :
    (traceEnabled cfg d e args s0).c.useCurLastEventTs = false := by
  unfold traceEnabled
  exact traceAfterReserve_u cfg d e args s0.c.at_ (erSizeAt d e args s0.c.at_) _
    (reserve_tf0 cfg d (erSizeAt d e args s0.c.at_) (erSizeAt d e args s0.c.offContent) s0 hu0).useCur

theorem traceBody_u (cfg : Cfg) (d : DST) (e : ERT) (args : Args) (s : St) (hu : s.c.useCurLastEventTs = false) :
    (traceBody cfg d e args s).c.useCurLastEventTs = false := by
  unfold traceBody
  simp only
  split
  · exact hu
  · exact traceEnabled_u cfg d e args _ hu

theorem trace_u (cfg : Cfg) (d : DST) (e : ERT) (args : Args) (s : St) (hu : s.c.useCurLastEventTs = false) :
    (trace cfg d e args s).c.useCurLastEventTs = false := by
  unfold trace
  split
  · exact hu
  · exact traceBody_u cfg d e args _ ((traceClock_fr d s).2.trans hu)

/-- clock never goes back and `use_cur_last_event_ts` is 0 between public API calls -/
theorem stepOp_fr (cfg : Cfg) (d : DST) (op : Op) (s : St) (hu : s.c.useCurLastEventTs = false) :
    s.p.clock ≤ (stepOp cfg d op s).p.clock ∧ (stepOp cfg d op s).c.useCurLastEventTs = false := by
  unfold stepOp
  split
  · exact ⟨Nat.le_refl _, hu⟩
  · have key : ∀ (name : String) (s' : St), s.p.clock ≤ s'.p.clock → s'.c.useCurLastEventTs = false →
        s.p.clock ≤ (if s'.halted = true then s' else s'.ev (.ret name s'.c s'.buf.length)).p.clock ∧
        (if s'.halted = true then s' else s'.ev (.ret name s'.c s'.buf.length)).c.useCurLastEventTs = false := by
      intro name s' h1 h2
      split <;> exact ⟨h1, h2⟩
    cases op with
    | open_ => exact key "open" _ (cbOpen_tf cfg d s).clock ((cbOpen_tf cfg d s).useCur.trans hu)
    | close => exact key "close" _ (cbClose_tf cfg d s).clock ((cbClose_tf cfg d s).useCur.trans hu)
    | trace en args =>
      simp only
      split
      · exact key "trace" _ (trace_mono cfg d _ args s hu) (trace_u cfg d _ args s hu)
      · exact key "trace" _ (Nat.le_refl _) hu
    | enable b => exact key "enable" _ (Nat.le_refl _) hu
    | query => exact key "query" _ (Nat.le_refl _) hu
    | fin =>
      have hfin : s.p.clock ≤ (if (s.c.packetIsOpen && !s.c.isEmpty) = true then cbClose cfg d s else s).p.clock ∧
          (if (s.c.packetIsOpen && !s.c.isEmpty) = true then cbClose cfg d s else s).c.useCurLastEventTs = false := by
        split
        · exact ⟨(cbClose_tf cfg d s).clock, (cbClose_tf cfg d s).useCur.trans hu⟩
        · exact ⟨Nat.le_refl _, hu⟩
      exact key "fin" _ hfin.1 hfin.2

theorem runOps_fr (cfg : Cfg) (d : DST) (ops : List Op) (s : St) (hu : s.c.useCurLastEventTs = false) :
    s.p.clock ≤ (runOps cfg d ops s).p.clock := by
  unfold runOps
  induction ops generalizing s with
  | nil => exact Nat.le_refl _
  | cons op ops ih =>
    simp only [List.foldl_cons]
    obtain ⟨h1, h2⟩ := stepOp_fr cfg d op s hu
    exact Nat.le_trans h1 (ih _ h2)

theorem stepOp_t (cfg : Cfg) (d : DST) (clk : Clock) (hclk : d.clock = some clk) (hwf : ClockWF d) (op : Op) (s : St)
    (hw : (stepOp cfg d op s).p.clock < clkW d) (hi : TTop s) : TTop (stepOp cfg d op s) := by
  unfold stepOp at hw ⊢
  cases hh : s.halted
  · simp only [hh, Bool.false_eq_true, if_false] at hw ⊢
    have key : ∀ (name : String) (s' : St), TTop s' →
        TTop (if s'.halted = true then s' else s'.ev (.ret name s'.c s'.buf.length)) := by
      intro name s' h
      split
      · exact h
      · exact ⟨h.1.evq _ (fun _ _ h => by cases h), h.2⟩
    have pclk : ∀ (name : String) (s' : St),
        (if s'.halted = true then s' else s'.ev (.ret name s'.c s'.buf.length)).p.clock = s'.p.clock := by
      intro name s'; split <;> rfl
    cases op with
    | open_ =>
      simp only [pclk] at hw
      exact key "open" _ ⟨(cbOpen_t cfg d s hwf hw).1 hi.2 hi.1, (cbOpen_tf cfg d s).useCur.trans hi.2⟩
    | close =>
      simp only [pclk] at hw
      exact key "close" _ ⟨(cbClose_t cfg d s hwf hw).1 hi.2 hi.1, (cbClose_tf cfg d s).useCur.trans hi.2⟩
    | trace en args =>
      simp only at hw ⊢
      cases he : List.find? (fun (e : ERT) => e.name == en) d.erts with
      | none => simp only [he] at hw ⊢; exact key "trace" _ hi
      | some e =>
        simp only [he, pclk] at hw ⊢
        exact key "trace" _ (trace_t cfg d clk hclk e args s hwf hw hi)
    | enable b => exact key "enable" _ ⟨hi.1.upd rfl rfl rfl, hi.2⟩
    | query => exact key "query" _ hi
    | fin =>
      simp only [pclk] at hw
      have hfin : TTop (if (s.c.packetIsOpen && !s.c.isEmpty) = true then cbClose cfg d s else s) := by
        split
        · rename_i hc
          simp only [hc, if_true] at hw
          exact ⟨(cbClose_t cfg d s hwf hw).1 hi.2 hi.1, (cbClose_tf cfg d s).useCur.trans hi.2⟩
        · exact hi
      exact key "fin" _ hfin
  · simp only [hh, if_true]; exact hi

theorem runOps_t (cfg : Cfg) (d : DST) (clk : Clock) (hclk : d.clock = some clk) (hwf : ClockWF d) (ops : List Op)
    (s : St) (hw : (runOps cfg d ops s).p.clock < clkW d) (hi : TTop s) : TTop (runOps cfg d ops s) := by
  unfold runOps at hw ⊢
  induction ops generalizing s with
  | nil => exact hi
  | cons op ops ih =>
    simp only [List.foldl_cons] at hw ⊢
    have hu2 := (stepOp_fr cfg d op s hi.2).2
    have hb : (stepOp cfg d op s).p.clock < clkW d :=
      Nat.lt_of_le_of_lt (runOps_fr cfg d ops _ hu2) hw
    exact ih _ hw (stepOp_t cfg d clk hclk hwf op s hb hi)

end BVM
