/-
  Proofs/RtSimp.lean — generated field-wise simp lemmas for the setters of Model/Rt.lean (all by rfl).
-/
import BVM.Proofs.RtBasic
namespace BVM

@[simp] theorem St.setFlag_c_packetSize (s : St) (b : Bool) : (s.setFlag b).c.packetSize = s.c.packetSize := rfl
@[simp] theorem St.setFlag_c_contentSize (s : St) (b : Bool) : (s.setFlag b).c.contentSize = s.c.contentSize := rfl
@[simp] theorem St.setFlag_c_at_ (s : St) (b : Bool) : (s.setFlag b).c.at_ = s.c.at_ := rfl
@[simp] theorem St.setFlag_c_offContent (s : St) (b : Bool) : (s.setFlag b).c.offContent = s.c.offContent := rfl
@[simp] theorem St.setFlag_c_eventsDiscarded (s : St) (b : Bool) : (s.setFlag b).c.eventsDiscarded = s.c.eventsDiscarded := rfl
@[simp] theorem St.setFlag_c_sequenceNumber (s : St) (b : Bool) : (s.setFlag b).c.sequenceNumber = s.c.sequenceNumber := rfl
@[simp] theorem St.setFlag_c_packetIsOpen (s : St) (b : Bool) : (s.setFlag b).c.packetIsOpen = s.c.packetIsOpen := rfl
@[simp] theorem St.setFlag_c_inTracingSection (s : St) (b : Bool) : (s.setFlag b).c.inTracingSection = b := rfl
@[simp] theorem St.setFlag_c_isTracingEnabled (s : St) (b : Bool) : (s.setFlag b).c.isTracingEnabled = s.c.isTracingEnabled := rfl
@[simp] theorem St.setFlag_c_useCurLastEventTs (s : St) (b : Bool) : (s.setFlag b).c.useCurLastEventTs = s.c.useCurLastEventTs := rfl
@[simp] theorem St.setFlag_c_curLastEventTs (s : St) (b : Bool) : (s.setFlag b).c.curLastEventTs = s.c.curLastEventTs := rfl
@[simp] theorem St.setFlag_c_saved (s : St) (b : Bool) : (s.setFlag b).c.saved = s.c.saved := rfl
@[simp] theorem St.setFlag_buf (s : St) (b : Bool) : (s.setFlag b).buf = s.buf := rfl
@[simp] theorem St.setFlag_p (s : St) (b : Bool) : (s.setFlag b).p = s.p := rfl
@[simp] theorem St.setFlag_log (s : St) (b : Bool) : (s.setFlag b).log = s.log := rfl
@[simp] theorem St.setFlag_halted (s : St) (b : Bool) : (s.setFlag b).halted = s.halted := rfl
@[simp] theorem St.setEnabled_c_packetSize (s : St) (b : Bool) : (s.setEnabled b).c.packetSize = s.c.packetSize := rfl
@[simp] theorem St.setEnabled_c_contentSize (s : St) (b : Bool) : (s.setEnabled b).c.contentSize = s.c.contentSize := rfl
@[simp] theorem St.setEnabled_c_at_ (s : St) (b : Bool) : (s.setEnabled b).c.at_ = s.c.at_ := rfl
@[simp] theorem St.setEnabled_c_offContent (s : St) (b : Bool) : (s.setEnabled b).c.offContent = s.c.offContent := rfl
@[simp] theorem St.setEnabled_c_eventsDiscarded (s : St) (b : Bool) : (s.setEnabled b).c.eventsDiscarded = s.c.eventsDiscarded := rfl
@[simp] theorem St.setEnabled_c_sequenceNumber (s : St) (b : Bool) : (s.setEnabled b).c.sequenceNumber = s.c.sequenceNumber := rfl
@[simp] theorem St.setEnabled_c_packetIsOpen (s : St) (b : Bool) : (s.setEnabled b).c.packetIsOpen = s.c.packetIsOpen := rfl
@[simp] theorem St.setEnabled_c_inTracingSection (s : St) (b : Bool) : (s.setEnabled b).c.inTracingSection = s.c.inTracingSection := rfl
@[simp] theorem St.setEnabled_c_isTracingEnabled (s : St) (b : Bool) : (s.setEnabled b).c.isTracingEnabled = b := rfl
@[simp] theorem St.setEnabled_c_useCurLastEventTs (s : St) (b : Bool) : (s.setEnabled b).c.useCurLastEventTs = s.c.useCurLastEventTs := rfl
@[simp] theorem St.setEnabled_c_curLastEventTs (s : St) (b : Bool) : (s.setEnabled b).c.curLastEventTs = s.c.curLastEventTs := rfl
@[simp] theorem St.setEnabled_c_saved (s : St) (b : Bool) : (s.setEnabled b).c.saved = s.c.saved := rfl
@[simp] theorem St.setEnabled_buf (s : St) (b : Bool) : (s.setEnabled b).buf = s.buf := rfl
@[simp] theorem St.setEnabled_p (s : St) (b : Bool) : (s.setEnabled b).p = s.p := rfl
@[simp] theorem St.setEnabled_log (s : St) (b : Bool) : (s.setEnabled b).log = s.log := rfl
@[simp] theorem St.setEnabled_halted (s : St) (b : Bool) : (s.setEnabled b).halted = s.halted := rfl
@[simp] theorem St.setUseCur_c_packetSize (s : St) (b : Bool) : (s.setUseCur b).c.packetSize = s.c.packetSize := rfl
@[simp] theorem St.setUseCur_c_contentSize (s : St) (b : Bool) : (s.setUseCur b).c.contentSize = s.c.contentSize := rfl
@[simp] theorem St.setUseCur_c_at_ (s : St) (b : Bool) : (s.setUseCur b).c.at_ = s.c.at_ := rfl
@[simp] theorem St.setUseCur_c_offContent (s : St) (b : Bool) : (s.setUseCur b).c.offContent = s.c.offContent := rfl
@[simp] theorem St.setUseCur_c_eventsDiscarded (s : St) (b : Bool) : (s.setUseCur b).c.eventsDiscarded = s.c.eventsDiscarded := rfl
@[simp] theorem St.setUseCur_c_sequenceNumber (s : St) (b : Bool) : (s.setUseCur b).c.sequenceNumber = s.c.sequenceNumber := rfl
@[simp] theorem St.setUseCur_c_packetIsOpen (s : St) (b : Bool) : (s.setUseCur b).c.packetIsOpen = s.c.packetIsOpen := rfl
@[simp] theorem St.setUseCur_c_inTracingSection (s : St) (b : Bool) : (s.setUseCur b).c.inTracingSection = s.c.inTracingSection := rfl
@[simp] theorem St.setUseCur_c_isTracingEnabled (s : St) (b : Bool) : (s.setUseCur b).c.isTracingEnabled = s.c.isTracingEnabled := rfl
@[simp] theorem St.setUseCur_c_useCurLastEventTs (s : St) (b : Bool) : (s.setUseCur b).c.useCurLastEventTs = b := rfl
@[simp] theorem St.setUseCur_c_curLastEventTs (s : St) (b : Bool) : (s.setUseCur b).c.curLastEventTs = s.c.curLastEventTs := rfl
@[simp] theorem St.setUseCur_c_saved (s : St) (b : Bool) : (s.setUseCur b).c.saved = s.c.saved := rfl
@[simp] theorem St.setUseCur_buf (s : St) (b : Bool) : (s.setUseCur b).buf = s.buf := rfl
@[simp] theorem St.setUseCur_p (s : St) (b : Bool) : (s.setUseCur b).p = s.p := rfl
@[simp] theorem St.setUseCur_log (s : St) (b : Bool) : (s.setUseCur b).log = s.log := rfl
@[simp] theorem St.setUseCur_halted (s : St) (b : Bool) : (s.setUseCur b).halted = s.halted := rfl
@[simp] theorem St.setCurTs_c_packetSize (s : St) (v : Nat) : (s.setCurTs v).c.packetSize = s.c.packetSize := rfl
@[simp] theorem St.setCurTs_c_contentSize (s : St) (v : Nat) : (s.setCurTs v).c.contentSize = s.c.contentSize := rfl
@[simp] theorem St.setCurTs_c_at_ (s : St) (v : Nat) : (s.setCurTs v).c.at_ = s.c.at_ := rfl
@[simp] theorem St.setCurTs_c_offContent (s : St) (v : Nat) : (s.setCurTs v).c.offContent = s.c.offContent := rfl
@[simp] theorem St.setCurTs_c_eventsDiscarded (s : St) (v : Nat) : (s.setCurTs v).c.eventsDiscarded = s.c.eventsDiscarded := rfl
@[simp] theorem St.setCurTs_c_sequenceNumber (s : St) (v : Nat) : (s.setCurTs v).c.sequenceNumber = s.c.sequenceNumber := rfl
@[simp] theorem St.setCurTs_c_packetIsOpen (s : St) (v : Nat) : (s.setCurTs v).c.packetIsOpen = s.c.packetIsOpen := rfl
@[simp] theorem St.setCurTs_c_inTracingSection (s : St) (v : Nat) : (s.setCurTs v).c.inTracingSection = s.c.inTracingSection := rfl
@[simp] theorem St.setCurTs_c_isTracingEnabled (s : St) (v : Nat) : (s.setCurTs v).c.isTracingEnabled = s.c.isTracingEnabled := rfl
@[simp] theorem St.setCurTs_c_useCurLastEventTs (s : St) (v : Nat) : (s.setCurTs v).c.useCurLastEventTs = s.c.useCurLastEventTs := rfl
@[simp] theorem St.setCurTs_c_curLastEventTs (s : St) (v : Nat) : (s.setCurTs v).c.curLastEventTs = v := rfl
@[simp] theorem St.setCurTs_c_saved (s : St) (v : Nat) : (s.setCurTs v).c.saved = s.c.saved := rfl
@[simp] theorem St.setCurTs_buf (s : St) (v : Nat) : (s.setCurTs v).buf = s.buf := rfl
@[simp] theorem St.setCurTs_p (s : St) (v : Nat) : (s.setCurTs v).p = s.p := rfl
@[simp] theorem St.setCurTs_log (s : St) (v : Nat) : (s.setCurTs v).log = s.log := rfl
@[simp] theorem St.setCurTs_halted (s : St) (v : Nat) : (s.setCurTs v).halted = s.halted := rfl
@[simp] theorem St.setAt_c_packetSize (s : St) (n : Nat) : (s.setAt n).c.packetSize = s.c.packetSize := rfl
@[simp] theorem St.setAt_c_contentSize (s : St) (n : Nat) : (s.setAt n).c.contentSize = s.c.contentSize := rfl
@[simp] theorem St.setAt_c_at_ (s : St) (n : Nat) : (s.setAt n).c.at_ = n := rfl
@[simp] theorem St.setAt_c_offContent (s : St) (n : Nat) : (s.setAt n).c.offContent = s.c.offContent := rfl
@[simp] theorem St.setAt_c_eventsDiscarded (s : St) (n : Nat) : (s.setAt n).c.eventsDiscarded = s.c.eventsDiscarded := rfl
@[simp] theorem St.setAt_c_sequenceNumber (s : St) (n : Nat) : (s.setAt n).c.sequenceNumber = s.c.sequenceNumber := rfl
@[simp] theorem St.setAt_c_packetIsOpen (s : St) (n : Nat) : (s.setAt n).c.packetIsOpen = s.c.packetIsOpen := rfl
@[simp] theorem St.setAt_c_inTracingSection (s : St) (n : Nat) : (s.setAt n).c.inTracingSection = s.c.inTracingSection := rfl
@[simp] theorem St.setAt_c_isTracingEnabled (s : St) (n : Nat) : (s.setAt n).c.isTracingEnabled = s.c.isTracingEnabled := rfl
@[simp] theorem St.setAt_c_useCurLastEventTs (s : St) (n : Nat) : (s.setAt n).c.useCurLastEventTs = s.c.useCurLastEventTs := rfl
@[simp] theorem St.setAt_c_curLastEventTs (s : St) (n : Nat) : (s.setAt n).c.curLastEventTs = s.c.curLastEventTs := rfl
@[simp] theorem St.setAt_c_saved (s : St) (n : Nat) : (s.setAt n).c.saved = s.c.saved := rfl
@[simp] theorem St.setAt_buf (s : St) (n : Nat) : (s.setAt n).buf = s.buf := rfl
@[simp] theorem St.setAt_p (s : St) (n : Nat) : (s.setAt n).p = s.p := rfl
@[simp] theorem St.setAt_log (s : St) (n : Nat) : (s.setAt n).log = s.log := rfl
@[simp] theorem St.setAt_halted (s : St) (n : Nat) : (s.setAt n).halted = s.halted := rfl
@[simp] theorem St.setOpen_c_packetSize (s : St) (b : Bool) : (s.setOpen b).c.packetSize = s.c.packetSize := rfl
@[simp] theorem St.setOpen_c_contentSize (s : St) (b : Bool) : (s.setOpen b).c.contentSize = s.c.contentSize := rfl
@[simp] theorem St.setOpen_c_at_ (s : St) (b : Bool) : (s.setOpen b).c.at_ = s.c.at_ := rfl
@[simp] theorem St.setOpen_c_offContent (s : St) (b : Bool) : (s.setOpen b).c.offContent = s.c.offContent := rfl
@[simp] theorem St.setOpen_c_eventsDiscarded (s : St) (b : Bool) : (s.setOpen b).c.eventsDiscarded = s.c.eventsDiscarded := rfl
@[simp] theorem St.setOpen_c_sequenceNumber (s : St) (b : Bool) : (s.setOpen b).c.sequenceNumber = s.c.sequenceNumber := rfl
@[simp] theorem St.setOpen_c_packetIsOpen (s : St) (b : Bool) : (s.setOpen b).c.packetIsOpen = b := rfl
@[simp] theorem St.setOpen_c_inTracingSection (s : St) (b : Bool) : (s.setOpen b).c.inTracingSection = s.c.inTracingSection := rfl
@[simp] theorem St.setOpen_c_isTracingEnabled (s : St) (b : Bool) : (s.setOpen b).c.isTracingEnabled = s.c.isTracingEnabled := rfl
@[simp] theorem St.setOpen_c_useCurLastEventTs (s : St) (b : Bool) : (s.setOpen b).c.useCurLastEventTs = s.c.useCurLastEventTs := rfl
@[simp] theorem St.setOpen_c_curLastEventTs (s : St) (b : Bool) : (s.setOpen b).c.curLastEventTs = s.c.curLastEventTs := rfl
@[simp] theorem St.setOpen_c_saved (s : St) (b : Bool) : (s.setOpen b).c.saved = s.c.saved := rfl
@[simp] theorem St.setOpen_buf (s : St) (b : Bool) : (s.setOpen b).buf = s.buf := rfl
@[simp] theorem St.setOpen_p (s : St) (b : Bool) : (s.setOpen b).p = s.p := rfl
@[simp] theorem St.setOpen_log (s : St) (b : Bool) : (s.setOpen b).log = s.log := rfl
@[simp] theorem St.setOpen_halted (s : St) (b : Bool) : (s.setOpen b).halted = s.halted := rfl
@[simp] theorem St.setOffContent_c_packetSize (s : St) (n : Nat) : (s.setOffContent n).c.packetSize = s.c.packetSize := rfl
@[simp] theorem St.setOffContent_c_contentSize (s : St) (n : Nat) : (s.setOffContent n).c.contentSize = s.c.contentSize := rfl
@[simp] theorem St.setOffContent_c_at_ (s : St) (n : Nat) : (s.setOffContent n).c.at_ = s.c.at_ := rfl
@[simp] theorem St.setOffContent_c_offContent (s : St) (n : Nat) : (s.setOffContent n).c.offContent = n := rfl
@[simp] theorem St.setOffContent_c_eventsDiscarded (s : St) (n : Nat) : (s.setOffContent n).c.eventsDiscarded = s.c.eventsDiscarded := rfl
@[simp] theorem St.setOffContent_c_sequenceNumber (s : St) (n : Nat) : (s.setOffContent n).c.sequenceNumber = s.c.sequenceNumber := rfl
@[simp] theorem St.setOffContent_c_packetIsOpen (s : St) (n : Nat) : (s.setOffContent n).c.packetIsOpen = s.c.packetIsOpen := rfl
@[simp] theorem St.setOffContent_c_inTracingSection (s : St) (n : Nat) : (s.setOffContent n).c.inTracingSection = s.c.inTracingSection := rfl
@[simp] theorem St.setOffContent_c_isTracingEnabled (s : St) (n : Nat) : (s.setOffContent n).c.isTracingEnabled = s.c.isTracingEnabled := rfl
@[simp] theorem St.setOffContent_c_useCurLastEventTs (s : St) (n : Nat) : (s.setOffContent n).c.useCurLastEventTs = s.c.useCurLastEventTs := rfl
@[simp] theorem St.setOffContent_c_curLastEventTs (s : St) (n : Nat) : (s.setOffContent n).c.curLastEventTs = s.c.curLastEventTs := rfl
@[simp] theorem St.setOffContent_c_saved (s : St) (n : Nat) : (s.setOffContent n).c.saved = s.c.saved := rfl
@[simp] theorem St.setOffContent_buf (s : St) (n : Nat) : (s.setOffContent n).buf = s.buf := rfl
@[simp] theorem St.setOffContent_p (s : St) (n : Nat) : (s.setOffContent n).p = s.p := rfl
@[simp] theorem St.setOffContent_log (s : St) (n : Nat) : (s.setOffContent n).log = s.log := rfl
@[simp] theorem St.setOffContent_halted (s : St) (n : Nat) : (s.setOffContent n).halted = s.halted := rfl
@[simp] theorem St.setContentSize_c_packetSize (s : St) (n : Nat) : (s.setContentSize n).c.packetSize = s.c.packetSize := rfl
@[simp] theorem St.setContentSize_c_contentSize (s : St) (n : Nat) : (s.setContentSize n).c.contentSize = n := rfl
@[simp] theorem St.setContentSize_c_at_ (s : St) (n : Nat) : (s.setContentSize n).c.at_ = s.c.at_ := rfl
@[simp] theorem St.setContentSize_c_offContent (s : St) (n : Nat) : (s.setContentSize n).c.offContent = s.c.offContent := rfl
@[simp] theorem St.setContentSize_c_eventsDiscarded (s : St) (n : Nat) : (s.setContentSize n).c.eventsDiscarded = s.c.eventsDiscarded := rfl
@[simp] theorem St.setContentSize_c_sequenceNumber (s : St) (n : Nat) : (s.setContentSize n).c.sequenceNumber = s.c.sequenceNumber := rfl
@[simp] theorem St.setContentSize_c_packetIsOpen (s : St) (n : Nat) : (s.setContentSize n).c.packetIsOpen = s.c.packetIsOpen := rfl
@[simp] theorem St.setContentSize_c_inTracingSection (s : St) (n : Nat) : (s.setContentSize n).c.inTracingSection = s.c.inTracingSection := rfl
@[simp] theorem St.setContentSize_c_isTracingEnabled (s : St) (n : Nat) : (s.setContentSize n).c.isTracingEnabled = s.c.isTracingEnabled := rfl
@[simp] theorem St.setContentSize_c_useCurLastEventTs (s : St) (n : Nat) : (s.setContentSize n).c.useCurLastEventTs = s.c.useCurLastEventTs := rfl
@[simp] theorem St.setContentSize_c_curLastEventTs (s : St) (n : Nat) : (s.setContentSize n).c.curLastEventTs = s.c.curLastEventTs := rfl
@[simp] theorem St.setContentSize_c_saved (s : St) (n : Nat) : (s.setContentSize n).c.saved = s.c.saved := rfl
@[simp] theorem St.setContentSize_buf (s : St) (n : Nat) : (s.setContentSize n).buf = s.buf := rfl
@[simp] theorem St.setContentSize_p (s : St) (n : Nat) : (s.setContentSize n).p = s.p := rfl
@[simp] theorem St.setContentSize_log (s : St) (n : Nat) : (s.setContentSize n).log = s.log := rfl
@[simp] theorem St.setContentSize_halted (s : St) (n : Nat) : (s.setContentSize n).halted = s.halted := rfl
@[simp] theorem St.setSeqNum_c_packetSize (s : St) (n : Nat) : (s.setSeqNum n).c.packetSize = s.c.packetSize := rfl
@[simp] theorem St.setSeqNum_c_contentSize (s : St) (n : Nat) : (s.setSeqNum n).c.contentSize = s.c.contentSize := rfl
@[simp] theorem St.setSeqNum_c_at_ (s : St) (n : Nat) : (s.setSeqNum n).c.at_ = s.c.at_ := rfl
@[simp] theorem St.setSeqNum_c_offContent (s : St) (n : Nat) : (s.setSeqNum n).c.offContent = s.c.offContent := rfl
@[simp] theorem St.setSeqNum_c_eventsDiscarded (s : St) (n : Nat) : (s.setSeqNum n).c.eventsDiscarded = s.c.eventsDiscarded := rfl
@[simp] theorem St.setSeqNum_c_sequenceNumber (s : St) (n : Nat) : (s.setSeqNum n).c.sequenceNumber = n := rfl
@[simp] theorem St.setSeqNum_c_packetIsOpen (s : St) (n : Nat) : (s.setSeqNum n).c.packetIsOpen = s.c.packetIsOpen := rfl
@[simp] theorem St.setSeqNum_c_inTracingSection (s : St) (n : Nat) : (s.setSeqNum n).c.inTracingSection = s.c.inTracingSection := rfl
@[simp] theorem St.setSeqNum_c_isTracingEnabled (s : St) (n : Nat) : (s.setSeqNum n).c.isTracingEnabled = s.c.isTracingEnabled := rfl
@[simp] theorem St.setSeqNum_c_useCurLastEventTs (s : St) (n : Nat) : (s.setSeqNum n).c.useCurLastEventTs = s.c.useCurLastEventTs := rfl
@[simp] theorem St.setSeqNum_c_curLastEventTs (s : St) (n : Nat) : (s.setSeqNum n).c.curLastEventTs = s.c.curLastEventTs := rfl
@[simp] theorem St.setSeqNum_c_saved (s : St) (n : Nat) : (s.setSeqNum n).c.saved = s.c.saved := rfl
@[simp] theorem St.setSeqNum_buf (s : St) (n : Nat) : (s.setSeqNum n).buf = s.buf := rfl
@[simp] theorem St.setSeqNum_p (s : St) (n : Nat) : (s.setSeqNum n).p = s.p := rfl
@[simp] theorem St.setSeqNum_log (s : St) (n : Nat) : (s.setSeqNum n).log = s.log := rfl
@[simp] theorem St.setSeqNum_halted (s : St) (n : Nat) : (s.setSeqNum n).halted = s.halted := rfl
@[simp] theorem St.setDiscarded_c_packetSize (s : St) (n : Nat) : (s.setDiscarded n).c.packetSize = s.c.packetSize := rfl
@[simp] theorem St.setDiscarded_c_contentSize (s : St) (n : Nat) : (s.setDiscarded n).c.contentSize = s.c.contentSize := rfl
@[simp] theorem St.setDiscarded_c_at_ (s : St) (n : Nat) : (s.setDiscarded n).c.at_ = s.c.at_ := rfl
@[simp] theorem St.setDiscarded_c_offContent (s : St) (n : Nat) : (s.setDiscarded n).c.offContent = s.c.offContent := rfl
@[simp] theorem St.setDiscarded_c_eventsDiscarded (s : St) (n : Nat) : (s.setDiscarded n).c.eventsDiscarded = n := rfl
@[simp] theorem St.setDiscarded_c_sequenceNumber (s : St) (n : Nat) : (s.setDiscarded n).c.sequenceNumber = s.c.sequenceNumber := rfl
@[simp] theorem St.setDiscarded_c_packetIsOpen (s : St) (n : Nat) : (s.setDiscarded n).c.packetIsOpen = s.c.packetIsOpen := rfl
@[simp] theorem St.setDiscarded_c_inTracingSection (s : St) (n : Nat) : (s.setDiscarded n).c.inTracingSection = s.c.inTracingSection := rfl
@[simp] theorem St.setDiscarded_c_isTracingEnabled (s : St) (n : Nat) : (s.setDiscarded n).c.isTracingEnabled = s.c.isTracingEnabled := rfl
@[simp] theorem St.setDiscarded_c_useCurLastEventTs (s : St) (n : Nat) : (s.setDiscarded n).c.useCurLastEventTs = s.c.useCurLastEventTs := rfl
@[simp] theorem St.setDiscarded_c_curLastEventTs (s : St) (n : Nat) : (s.setDiscarded n).c.curLastEventTs = s.c.curLastEventTs := rfl
@[simp] theorem St.setDiscarded_c_saved (s : St) (n : Nat) : (s.setDiscarded n).c.saved = s.c.saved := rfl
@[simp] theorem St.setDiscarded_buf (s : St) (n : Nat) : (s.setDiscarded n).buf = s.buf := rfl
@[simp] theorem St.setDiscarded_p (s : St) (n : Nat) : (s.setDiscarded n).p = s.p := rfl
@[simp] theorem St.setDiscarded_log (s : St) (n : Nat) : (s.setDiscarded n).log = s.log := rfl
@[simp] theorem St.setDiscarded_halted (s : St) (n : Nat) : (s.setDiscarded n).halted = s.halted := rfl
@[simp] theorem St.setPacketSize_c_packetSize (s : St) (n : Nat) : (s.setPacketSize n).c.packetSize = n := rfl
@[simp] theorem St.setPacketSize_c_contentSize (s : St) (n : Nat) : (s.setPacketSize n).c.contentSize = s.c.contentSize := rfl
@[simp] theorem St.setPacketSize_c_at_ (s : St) (n : Nat) : (s.setPacketSize n).c.at_ = s.c.at_ := rfl
@[simp] theorem St.setPacketSize_c_offContent (s : St) (n : Nat) : (s.setPacketSize n).c.offContent = s.c.offContent := rfl
@[simp] theorem St.setPacketSize_c_eventsDiscarded (s : St) (n : Nat) : (s.setPacketSize n).c.eventsDiscarded = s.c.eventsDiscarded := rfl
@[simp] theorem St.setPacketSize_c_sequenceNumber (s : St) (n : Nat) : (s.setPacketSize n).c.sequenceNumber = s.c.sequenceNumber := rfl
@[simp] theorem St.setPacketSize_c_packetIsOpen (s : St) (n : Nat) : (s.setPacketSize n).c.packetIsOpen = s.c.packetIsOpen := rfl
@[simp] theorem St.setPacketSize_c_inTracingSection (s : St) (n : Nat) : (s.setPacketSize n).c.inTracingSection = s.c.inTracingSection := rfl
@[simp] theorem St.setPacketSize_c_isTracingEnabled (s : St) (n : Nat) : (s.setPacketSize n).c.isTracingEnabled = s.c.isTracingEnabled := rfl
@[simp] theorem St.setPacketSize_c_useCurLastEventTs (s : St) (n : Nat) : (s.setPacketSize n).c.useCurLastEventTs = s.c.useCurLastEventTs := rfl
@[simp] theorem St.setPacketSize_c_curLastEventTs (s : St) (n : Nat) : (s.setPacketSize n).c.curLastEventTs = s.c.curLastEventTs := rfl
@[simp] theorem St.setPacketSize_c_saved (s : St) (n : Nat) : (s.setPacketSize n).c.saved = s.c.saved := rfl
@[simp] theorem St.setPacketSize_buf (s : St) (n : Nat) : (s.setPacketSize n).buf = s.buf := rfl
@[simp] theorem St.setPacketSize_p (s : St) (n : Nat) : (s.setPacketSize n).p = s.p := rfl
@[simp] theorem St.setPacketSize_log (s : St) (n : Nat) : (s.setPacketSize n).log = s.log := rfl
@[simp] theorem St.setPacketSize_halted (s : St) (n : Nat) : (s.setPacketSize n).halted = s.halted := rfl
@[simp] theorem St.halt_c_packetSize (s : St) : s.halt.c.packetSize = s.c.packetSize := rfl
@[simp] theorem St.setPlat_c_packetSize (s : St) (p : Plat) : (s.setPlat p).c.packetSize = s.c.packetSize := rfl
@[simp] theorem St.ev_c_packetSize (s : St) (e : Ev) : (s.ev e).c.packetSize = s.c.packetSize := rfl
@[simp] theorem St.halt_c_contentSize (s : St) : s.halt.c.contentSize = s.c.contentSize := rfl
@[simp] theorem St.setPlat_c_contentSize (s : St) (p : Plat) : (s.setPlat p).c.contentSize = s.c.contentSize := rfl
@[simp] theorem St.ev_c_contentSize (s : St) (e : Ev) : (s.ev e).c.contentSize = s.c.contentSize := rfl
@[simp] theorem St.halt_c_at_ (s : St) : s.halt.c.at_ = s.c.at_ := rfl
@[simp] theorem St.setPlat_c_at_ (s : St) (p : Plat) : (s.setPlat p).c.at_ = s.c.at_ := rfl
@[simp] theorem St.ev_c_at_ (s : St) (e : Ev) : (s.ev e).c.at_ = s.c.at_ := rfl
@[simp] theorem St.halt_c_offContent (s : St) : s.halt.c.offContent = s.c.offContent := rfl
@[simp] theorem St.setPlat_c_offContent (s : St) (p : Plat) : (s.setPlat p).c.offContent = s.c.offContent := rfl
@[simp] theorem St.ev_c_offContent (s : St) (e : Ev) : (s.ev e).c.offContent = s.c.offContent := rfl
@[simp] theorem St.halt_c_eventsDiscarded (s : St) : s.halt.c.eventsDiscarded = s.c.eventsDiscarded := rfl
@[simp] theorem St.setPlat_c_eventsDiscarded (s : St) (p : Plat) : (s.setPlat p).c.eventsDiscarded = s.c.eventsDiscarded := rfl
@[simp] theorem St.ev_c_eventsDiscarded (s : St) (e : Ev) : (s.ev e).c.eventsDiscarded = s.c.eventsDiscarded := rfl
@[simp] theorem St.halt_c_sequenceNumber (s : St) : s.halt.c.sequenceNumber = s.c.sequenceNumber := rfl
@[simp] theorem St.setPlat_c_sequenceNumber (s : St) (p : Plat) : (s.setPlat p).c.sequenceNumber = s.c.sequenceNumber := rfl
@[simp] theorem St.ev_c_sequenceNumber (s : St) (e : Ev) : (s.ev e).c.sequenceNumber = s.c.sequenceNumber := rfl
@[simp] theorem St.halt_c_packetIsOpen (s : St) : s.halt.c.packetIsOpen = s.c.packetIsOpen := rfl
@[simp] theorem St.setPlat_c_packetIsOpen (s : St) (p : Plat) : (s.setPlat p).c.packetIsOpen = s.c.packetIsOpen := rfl
@[simp] theorem St.ev_c_packetIsOpen (s : St) (e : Ev) : (s.ev e).c.packetIsOpen = s.c.packetIsOpen := rfl
@[simp] theorem St.halt_c_inTracingSection (s : St) : s.halt.c.inTracingSection = s.c.inTracingSection := rfl
@[simp] theorem St.setPlat_c_inTracingSection (s : St) (p : Plat) : (s.setPlat p).c.inTracingSection = s.c.inTracingSection := rfl
@[simp] theorem St.ev_c_inTracingSection (s : St) (e : Ev) : (s.ev e).c.inTracingSection = s.c.inTracingSection := rfl
@[simp] theorem St.halt_c_isTracingEnabled (s : St) : s.halt.c.isTracingEnabled = s.c.isTracingEnabled := rfl
@[simp] theorem St.setPlat_c_isTracingEnabled (s : St) (p : Plat) : (s.setPlat p).c.isTracingEnabled = s.c.isTracingEnabled := rfl
@[simp] theorem St.ev_c_isTracingEnabled (s : St) (e : Ev) : (s.ev e).c.isTracingEnabled = s.c.isTracingEnabled := rfl
@[simp] theorem St.halt_c_useCurLastEventTs (s : St) : s.halt.c.useCurLastEventTs = s.c.useCurLastEventTs := rfl
@[simp] theorem St.setPlat_c_useCurLastEventTs (s : St) (p : Plat) : (s.setPlat p).c.useCurLastEventTs = s.c.useCurLastEventTs := rfl
@[simp] theorem St.ev_c_useCurLastEventTs (s : St) (e : Ev) : (s.ev e).c.useCurLastEventTs = s.c.useCurLastEventTs := rfl
@[simp] theorem St.halt_c_curLastEventTs (s : St) : s.halt.c.curLastEventTs = s.c.curLastEventTs := rfl
@[simp] theorem St.setPlat_c_curLastEventTs (s : St) (p : Plat) : (s.setPlat p).c.curLastEventTs = s.c.curLastEventTs := rfl
@[simp] theorem St.ev_c_curLastEventTs (s : St) (e : Ev) : (s.ev e).c.curLastEventTs = s.c.curLastEventTs := rfl
@[simp] theorem St.halt_c_saved (s : St) : s.halt.c.saved = s.c.saved := rfl
@[simp] theorem St.setPlat_c_saved (s : St) (p : Plat) : (s.setPlat p).c.saved = s.c.saved := rfl
@[simp] theorem St.ev_c_saved (s : St) (e : Ev) : (s.ev e).c.saved = s.c.saved := rfl
@[simp] theorem St.halt_buf (s : St) : s.halt.buf = s.buf := rfl
@[simp] theorem St.halt_p (s : St) : s.halt.p = s.p := rfl
@[simp] theorem St.halt_log (s : St) : s.halt.log = s.log := rfl
@[simp] theorem St.halt_halted (s : St) : s.halt.halted = true := rfl
@[simp] theorem St.setPlat_buf (s : St) (p : Plat) : (s.setPlat p).buf = s.buf := rfl
@[simp] theorem St.setPlat_log (s : St) (p : Plat) : (s.setPlat p).log = s.log := rfl
@[simp] theorem St.setPlat_halted (s : St) (p : Plat) : (s.setPlat p).halted = s.halted := rfl
@[simp] theorem St.setPlat_p (s : St) (p : Plat) : (s.setPlat p).p = p := rfl

@[simp] theorem St.setSer_c_packetSize (s : St) (b : Buf) (a : Nat) (sv : List (String × Nat)) (evs : List Ev) : (s.setSer b a sv evs).c.packetSize = s.c.packetSize := rfl
@[simp] theorem St.setSer_c_contentSize (s : St) (b : Buf) (a : Nat) (sv : List (String × Nat)) (evs : List Ev) : (s.setSer b a sv evs).c.contentSize = s.c.contentSize := rfl
@[simp] theorem St.setSer_c_offContent (s : St) (b : Buf) (a : Nat) (sv : List (String × Nat)) (evs : List Ev) : (s.setSer b a sv evs).c.offContent = s.c.offContent := rfl
@[simp] theorem St.setSer_c_eventsDiscarded (s : St) (b : Buf) (a : Nat) (sv : List (String × Nat)) (evs : List Ev) : (s.setSer b a sv evs).c.eventsDiscarded = s.c.eventsDiscarded := rfl
@[simp] theorem St.setSer_c_sequenceNumber (s : St) (b : Buf) (a : Nat) (sv : List (String × Nat)) (evs : List Ev) : (s.setSer b a sv evs).c.sequenceNumber = s.c.sequenceNumber := rfl
@[simp] theorem St.setSer_c_packetIsOpen (s : St) (b : Buf) (a : Nat) (sv : List (String × Nat)) (evs : List Ev) : (s.setSer b a sv evs).c.packetIsOpen = s.c.packetIsOpen := rfl
@[simp] theorem St.setSer_c_inTracingSection (s : St) (b : Buf) (a : Nat) (sv : List (String × Nat)) (evs : List Ev) : (s.setSer b a sv evs).c.inTracingSection = s.c.inTracingSection := rfl
@[simp] theorem St.setSer_c_isTracingEnabled (s : St) (b : Buf) (a : Nat) (sv : List (String × Nat)) (evs : List Ev) : (s.setSer b a sv evs).c.isTracingEnabled = s.c.isTracingEnabled := rfl
@[simp] theorem St.setSer_c_useCurLastEventTs (s : St) (b : Buf) (a : Nat) (sv : List (String × Nat)) (evs : List Ev) : (s.setSer b a sv evs).c.useCurLastEventTs = s.c.useCurLastEventTs := rfl
@[simp] theorem St.setSer_c_curLastEventTs (s : St) (b : Buf) (a : Nat) (sv : List (String × Nat)) (evs : List Ev) : (s.setSer b a sv evs).c.curLastEventTs = s.c.curLastEventTs := rfl
@[simp] theorem St.setSer_c_at_ (s : St) (b : Buf) (a : Nat) (sv : List (String × Nat)) (evs : List Ev) : (s.setSer b a sv evs).c.at_ = a := rfl
@[simp] theorem St.setSer_c_saved (s : St) (b : Buf) (a : Nat) (sv : List (String × Nat)) (evs : List Ev) : (s.setSer b a sv evs).c.saved = sv := rfl
@[simp] theorem St.setSer_buf (s : St) (b : Buf) (a : Nat) (sv : List (String × Nat)) (evs : List Ev) : (s.setSer b a sv evs).buf = b := rfl
@[simp] theorem St.setSer_log (s : St) (b : Buf) (a : Nat) (sv : List (String × Nat)) (evs : List Ev) : (s.setSer b a sv evs).log = evs ++ s.log := rfl
@[simp] theorem St.setSer_p (s : St) (b : Buf) (a : Nat) (sv : List (String × Nat)) (evs : List Ev) : (s.setSer b a sv evs).p = s.p := rfl
@[simp] theorem St.setSer_halted (s : St) (b : Buf) (a : Nat) (sv : List (String × Nat)) (evs : List Ev) : (s.setSer b a sv evs).halted = s.halted := rfl

@[simp] theorem St.bumpOpen_c_packetSize (s : St) : s.bumpOpen.c.packetSize = s.c.packetSize := rfl
@[simp] theorem St.bumpOpen_c_contentSize (s : St) : s.bumpOpen.c.contentSize = s.c.contentSize := rfl
@[simp] theorem St.bumpOpen_c_at_ (s : St) : s.bumpOpen.c.at_ = s.c.at_ := rfl
@[simp] theorem St.bumpOpen_c_offContent (s : St) : s.bumpOpen.c.offContent = s.c.offContent := rfl
@[simp] theorem St.bumpOpen_c_eventsDiscarded (s : St) : s.bumpOpen.c.eventsDiscarded = s.c.eventsDiscarded := rfl
@[simp] theorem St.bumpOpen_c_sequenceNumber (s : St) : s.bumpOpen.c.sequenceNumber = s.c.sequenceNumber := rfl
@[simp] theorem St.bumpOpen_c_packetIsOpen (s : St) : s.bumpOpen.c.packetIsOpen = s.c.packetIsOpen := rfl
@[simp] theorem St.bumpOpen_c_inTracingSection (s : St) : s.bumpOpen.c.inTracingSection = s.c.inTracingSection := rfl
@[simp] theorem St.bumpOpen_c_isTracingEnabled (s : St) : s.bumpOpen.c.isTracingEnabled = s.c.isTracingEnabled := rfl
@[simp] theorem St.bumpOpen_c_useCurLastEventTs (s : St) : s.bumpOpen.c.useCurLastEventTs = s.c.useCurLastEventTs := rfl
@[simp] theorem St.bumpOpen_c_curLastEventTs (s : St) : s.bumpOpen.c.curLastEventTs = s.c.curLastEventTs := rfl
@[simp] theorem St.bumpOpen_c_saved (s : St) : s.bumpOpen.c.saved = s.c.saved := rfl
@[simp] theorem St.bumpOpen_buf (s : St) : s.bumpOpen.buf = s.buf := rfl
@[simp] theorem St.bumpOpen_log (s : St) : s.bumpOpen.log = s.log := rfl
@[simp] theorem St.bumpOpen_halted (s : St) : s.bumpOpen.halted = s.halted := rfl
@[simp] theorem St.bumpClose_c_packetSize (s : St) : s.bumpClose.c.packetSize = s.c.packetSize := rfl
@[simp] theorem St.bumpClose_c_contentSize (s : St) : s.bumpClose.c.contentSize = s.c.contentSize := rfl
@[simp] theorem St.bumpClose_c_at_ (s : St) : s.bumpClose.c.at_ = s.c.at_ := rfl
@[simp] theorem St.bumpClose_c_offContent (s : St) : s.bumpClose.c.offContent = s.c.offContent := rfl
@[simp] theorem St.bumpClose_c_eventsDiscarded (s : St) : s.bumpClose.c.eventsDiscarded = s.c.eventsDiscarded := rfl
@[simp] theorem St.bumpClose_c_sequenceNumber (s : St) : s.bumpClose.c.sequenceNumber = s.c.sequenceNumber := rfl
@[simp] theorem St.bumpClose_c_packetIsOpen (s : St) : s.bumpClose.c.packetIsOpen = s.c.packetIsOpen := rfl
@[simp] theorem St.bumpClose_c_inTracingSection (s : St) : s.bumpClose.c.inTracingSection = s.c.inTracingSection := rfl
@[simp] theorem St.bumpClose_c_isTracingEnabled (s : St) : s.bumpClose.c.isTracingEnabled = s.c.isTracingEnabled := rfl
@[simp] theorem St.bumpClose_c_useCurLastEventTs (s : St) : s.bumpClose.c.useCurLastEventTs = s.c.useCurLastEventTs := rfl
@[simp] theorem St.bumpClose_c_curLastEventTs (s : St) : s.bumpClose.c.curLastEventTs = s.c.curLastEventTs := rfl
@[simp] theorem St.bumpClose_c_saved (s : St) : s.bumpClose.c.saved = s.c.saved := rfl
@[simp] theorem St.bumpClose_buf (s : St) : s.bumpClose.buf = s.buf := rfl
@[simp] theorem St.bumpClose_log (s : St) : s.bumpClose.log = s.log := rfl
@[simp] theorem St.bumpClose_halted (s : St) : s.bumpClose.halted = s.halted := rfl

end BVM
