/-
  Proofs/RtFlag.lean — the in-tracing-section flag (C16) through the runtime model.
-/
import BVM.Proofs.RtSimp
namespace BVM

/-- inside a tracing section: stores and callback entries happen under flag = 1 -/
def PSec : Ev → Prop
  | .cb _ _ f _ => f = true
  | .cbExit _ _ => True
  | .store _ _ f _ => f = true
  | .deliver _ _ _ => True
  | .clockRead _ => True
  | .assertFail => True
  | .oob => True
  | .ret _ _ _ => False
  | .tsWrite _ _ => True
  | .traceCall _ _ => True
  | .recDone _ _ _ => True
  | .discard _ => True
  | .fullAnswer _ => True
  | .opened _ => True
  | .closed _ _ _ => True

/-- `s'` extends `s` by in-section events and the flag is up in `s'` -/
def Sec (s s' : St) : Prop := Ext PSec s s' ∧ s'.c.inTracingSection = true

theorem Sec.refl {s : St} (h : s.c.inTracingSection = true) : Sec s s := ⟨Ext.refl _ _, h⟩
theorem Sec.trans {a b c : St} (h₁ : Sec a b) (h₂ : Sec b c) : Sec a c := ⟨h₁.1.trans h₂.1, h₂.2⟩
/-- a step that does not touch the log and leaves the flag up -/
theorem Sec.upd {s s' : St} (hl : s'.log = s.log) (hf : s'.c.inTracingSection = true) : Sec s s' :=
  ⟨Ext.of_log_eq hl, hf⟩
theorem Sec.ev {s : St} (e : Ev) (hf : s.c.inTracingSection = true) (he : PSec e) : Sec s (s.ev e) :=
  ⟨Ext.ev s e he, hf⟩

theorem cbEnter_sec (k : CbKind) (s : St) (h : s.c.inTracingSection = true) : Sec s (cbEnter k s) := by
  unfold cbEnter
  simp only
  have h1 : Sec s (s.ev (.cb k s.p.cbSeq s.c.inTracingSection s.c.packetIsOpen)) := Sec.ev _ h h
  refine Sec.trans h1 ?_
  split
  · exact Sec.upd rfl h
  · exact Sec.upd rfl h

theorem cbClock_sec (clk : Clock) (s : St) (h : s.c.inTracingSection = true) : Sec s (cbClock clk s).2 := by
  have h1 := cbEnter_sec .clock s h
  unfold cbClock
  simp only
  generalize cbEnter .clock s = s1 at h1
  refine Sec.trans h1 ?_
  refine Sec.trans (Sec.upd (s' := s1.setPlat _) rfl h1.2) ?_
  exact Sec.trans (Sec.ev (.clockRead _) h1.2 trivial) (Sec.ev (.cbExit _ _) h1.2 trivial)

theorem cbFull_sec (s : St) (h : s.c.inTracingSection = true) : Sec s (cbFull s).2 := by
  have h1 := cbEnter_sec .full s h
  unfold cbFull
  simp only
  generalize cbEnter .full s = s1 at h1
  refine Sec.trans h1 ?_
  exact Sec.trans (Sec.upd (s' := s1.setPlat _) rfl h1.2) (Sec.trans (Sec.ev (.fullAnswer _) h1.2 trivial) (Sec.ev (.cbExit _ _) h1.2 trivial))

theorem installSer_sec (r : SerSt) (s : St) (h : s.c.inTracingSection = true) : Sec s (installSer r s) := by
  unfold installSer
  simp only
  have hst : Sec s (s.setSer r.buf r.at_ r.saved
      (r.stores.map fun (o, n) => Ev.store o n s.c.inTracingSection s.c.packetIsOpen)) := by
    refine ⟨⟨_, rfl, ?_⟩, by simpa using h⟩
    intro e he
    obtain ⟨x, _, hx⟩ := List.mem_map.mp he
    subst hx; exact h
  split
  · exact Sec.trans hst (Sec.trans (Sec.ev .oob hst.2 trivial) (Sec.upd rfl (by simpa using hst.2)))
  · exact hst

theorem runSer_sec (f : SerSt → SerSt) (s : St) (h : s.c.inTracingSection = true) : Sec s (runSer f s) :=
  installSer_sec _ s h

theorem preambleTs_sec (d : DST) (ft : Option Scalar) (s : St) (h : s.c.inTracingSection = true) :
    Sec s (preambleTs d ft s).2 := by
  unfold preambleTs
  split
  · split
    · exact Sec.refl h
    · exact cbClock_sec _ s h
  · exact Sec.refl h

/-- `openWrite` run with the flag up: in-section events only; the flag ends as `saved`
    (or stays up if the run halted on an out-of-bounds store) -/
theorem openWrite_ext (cfg : Cfg) (d : DST) (args : Args) (ts : Nat) (saved : Bool) (s : St)
    (h : s.c.inTracingSection = true) : Ext PSec s (openWrite cfg d args ts saved s) := by
  unfold openWrite
  simp only
  have hr := runSer_sec
    (fun st => serRoot (serEnvOf cfg d 0 ts (s.setAt 0).c) "pc" d.pcOp args
      (serRoot (serEnvOf cfg d 0 ts (s.setAt 0).c) "ph" (DST.phOp cfg) [] st)) (s.setAt 0) (by simpa using h)
  generalize runSer _ (s.setAt 0) = s2 at hr
  have h0 : Ext PSec s (s.setAt 0) := Ext.of_log_eq rfl
  split
  · exact h0.trans hr.1
  · refine (h0.trans hr.1).trans ?_
    have h3 : Ext PSec s2 (if d.feat.tsBegin.isSome = true then s2.ev (.tsWrite "begin" ts) else s2) := by
      split
      · exact Ext.ev _ (.tsWrite "begin" ts) trivial
      · exact Ext.refl _ _
    refine h3.trans ?_
    generalize (if d.feat.tsBegin.isSome = true then s2.ev (.tsWrite "begin" ts) else s2) = s3
    exact (Ext.ev s3 (.opened s3.c.at_) trivial).trans (Ext.of_log_eq rfl)

theorem openWrite_flag (cfg : Cfg) (d : DST) (args : Args) (ts : Nat) (saved : Bool) (s : St)
    (h : s.c.inTracingSection = true) :
    (openWrite cfg d args ts saved s).c.inTracingSection =
      (if (openWrite cfg d args ts saved s).halted then true else saved) := by
  unfold openWrite
  simp only
  have hr := runSer_sec
    (fun st => serRoot (serEnvOf cfg d 0 ts (s.setAt 0).c) "pc" d.pcOp args
      (serRoot (serEnvOf cfg d 0 ts (s.setAt 0).c) "ph" (DST.phOp cfg) [] st)) (s.setAt 0) (by simpa using h)
  generalize runSer _ (s.setAt 0) = s2 at hr
  cases h2 : s2.halted
  · simp only [Bool.false_eq_true, if_false]
    split <;> simp [h2]
  · simp only [h2, if_true]; exact hr.2

theorem openGuarded_sec (cfg : Cfg) (d : DST) (args : Args) (ts : Nat) (s : St)
    (h : s.c.inTracingSection = true) : Sec s (openGuarded cfg d args ts s) := by
  unfold openGuarded
  simp only [h, Bool.not_true, Bool.and_false, Bool.false_eq_true, if_false]
  by_cases ho : s.c.packetIsOpen = true
  · simp only [St.setFlag_c_packetIsOpen, ho, if_true]; exact Sec.upd rfl rfl
  · have ho' : s.c.packetIsOpen = false := by simpa using ho
    simp only [St.setFlag_c_packetIsOpen, ho', Bool.false_eq_true, if_false]
    refine ⟨(Ext.of_log_eq rfl).trans (openWrite_ext cfg d args ts true (s.setFlag true) rfl), ?_⟩
    rw [openWrite_flag cfg d args ts true (s.setFlag true) rfl]
    split <;> rfl

theorem openPacket_sec (cfg : Cfg) (d : DST) (args : Args) (s : St) (h : s.c.inTracingSection = true) :
    Sec s (openPacket cfg d args s) := by
  unfold openPacket
  split
  · exact Sec.refl h
  · have hp := preambleTs_sec d d.feat.tsBegin s h
    exact Sec.trans hp (openGuarded_sec cfg d args _ _ hp.2)

theorem writeBack_sec (env : SerEnv) (d : DST) (name : String) (v : Int) (s : St)
    (h : s.c.inTracingSection = true) : Sec s (writeBack env d name v s) := by
  unfold writeBack
  split
  · exact Sec.refl h
  · split
    · exact Sec.refl h
    · exact Sec.trans (Sec.upd (s' := s.setAt _) rfl (by simpa using h)) (runSer_sec _ _ (by simpa using h))

/-- the three write-backs of `closeWrite`, as one in-section step -/
theorem closeBacks_sec (cfg : Cfg) (d : DST) (ts : Nat) (s0 : St) (h : s0.c.inTracingSection = true) :
    Sec s0 (closeBacks cfg d ts s0) := by
  unfold closeBacks
  simp only
  generalize serEnvOf cfg d 0 ts s0.c = env
  have h1 : Sec s0 (if d.feat.tsEnd.isSome = true then writeBack env d "timestamp_end" ts s0 else s0) := by
    split
    · exact writeBack_sec _ _ _ _ _ h
    · exact Sec.refl h
  generalize (if d.feat.tsEnd.isSome = true then writeBack env d "timestamp_end" ts s0 else s0) = s1 at h1
  have h2 : Sec s1 (writeBack env d "content_size" s1.c.contentSize s1) := writeBack_sec _ _ _ _ _ h1.2
  generalize writeBack env d "content_size" s1.c.contentSize s1 = s2 at h2
  have h3 : Sec s2 (if d.feat.discarded.isSome = true then writeBack env d "events_discarded" s2.c.eventsDiscarded s2 else s2) := by
    split
    · exact writeBack_sec _ _ _ _ _ h2.2
    · exact Sec.refl h2.2
  exact Sec.trans h1 (Sec.trans h2 h3)

theorem closeFinish_ext (d : DST) (ts : Nat) (saved : Bool) (s3 : St) : Ext PSec s3 (closeFinish d ts saved s3) := by
  unfold closeFinish
  split
  · exact Ext.refl _ _
  · simp only
    have h4 : Ext PSec s3 (if d.feat.tsEnd.isSome = true then s3.ev (.tsWrite "end" ts) else s3) := by
      split
      · exact Ext.ev _ (.tsWrite "end" ts) trivial
      · exact Ext.refl _ _
    refine h4.trans ?_
    generalize (if d.feat.tsEnd.isSome = true then s3.ev (.tsWrite "end" ts) else s3) = s4
    refine (Ext.ev s4 (.closed s4.c.contentSize s4.c.sequenceNumber s4.c.eventsDiscarded) trivial).trans ?_
    split <;> exact Ext.of_log_eq rfl

theorem closeFinish_flag (d : DST) (ts : Nat) (saved : Bool) (s3 : St) (h : s3.c.inTracingSection = true) :
    (closeFinish d ts saved s3).c.inTracingSection = (if (closeFinish d ts saved s3).halted then true else saved) := by
  unfold closeFinish
  cases h3 : s3.halted
  · simp only [Bool.false_eq_true, if_false]
    split <;> split <;> simp [h3]
  · simp only [h3, if_true]; exact h

theorem closeWrite_ext (cfg : Cfg) (d : DST) (ts : Nat) (saved : Bool) (s : St)
    (h : s.c.inTracingSection = true) : Ext PSec s (closeWrite cfg d ts saved s) := by
  unfold closeWrite
  have hb := closeBacks_sec cfg d ts (s.setContentSize s.c.at_) (by simpa using h)
  exact (Ext.of_log_eq (s' := s.setContentSize s.c.at_) rfl).trans (hb.1.trans (closeFinish_ext d ts saved _))

theorem closeWrite_flag (cfg : Cfg) (d : DST) (ts : Nat) (saved : Bool) (s : St)
    (h : s.c.inTracingSection = true) :
    (closeWrite cfg d ts saved s).c.inTracingSection =
      (if (closeWrite cfg d ts saved s).halted then true else saved) := by
  unfold closeWrite
  exact closeFinish_flag d ts saved _ (closeBacks_sec cfg d ts (s.setContentSize s.c.at_) (by simpa using h)).2

theorem closeGuarded_sec (cfg : Cfg) (d : DST) (ts : Nat) (s : St)
    (h : s.c.inTracingSection = true) : Sec s (closeGuarded cfg d ts s) := by
  unfold closeGuarded
  simp only [h, Bool.not_true, Bool.and_false, Bool.false_eq_true, if_false]
  by_cases ho : s.c.packetIsOpen = true
  · simp only [St.setFlag_c_packetIsOpen, ho, Bool.not_true, Bool.false_eq_true, if_false]
    refine ⟨(Ext.of_log_eq rfl).trans (closeWrite_ext cfg d ts true (s.setFlag true) rfl), ?_⟩
    rw [closeWrite_flag cfg d ts true (s.setFlag true) rfl]
    split <;> rfl
  · have : s.c.packetIsOpen = false := by simpa using ho
    simp only [St.setFlag_c_packetIsOpen, this, Bool.not_false, if_true]; exact Sec.upd rfl rfl

theorem closePacket_sec (cfg : Cfg) (d : DST) (s : St) (h : s.c.inTracingSection = true) :
    Sec s (closePacket cfg d s) := by
  unfold closePacket
  split
  · exact Sec.refl h
  · have hp := preambleTs_sec d d.feat.tsEnd s h
    exact Sec.trans hp (closeGuarded_sec cfg d _ _ hp.2)

theorem cbOpen_sec (cfg : Cfg) (d : DST) (s : St) (h : s.c.inTracingSection = true) : Sec s (cbOpen cfg d s) := by
  unfold cbOpen
  split
  · exact Sec.refl h
  · simp only
    have h1 := cbEnter_sec .open_ s h
    generalize cbEnter .open_ s = s1 at h1
    have h2 : Sec s1 s1.bumpOpen := Sec.upd rfl h1.2
    have h3 := openPacket_sec cfg d s1.openArgsNow s1.bumpOpen h2.2
    exact Sec.trans h1 (Sec.trans h2 (Sec.trans h3 (Sec.ev (.cbExit _ _) h3.2 trivial)))

theorem setBuf_flag (bytes : Nat) (s : St) : (setBuf bytes s).c.inTracingSection = s.c.inTracingSection := by
  unfold setBuf; simp only; split <;> simp

theorem setBuf_log (bytes : Nat) (s : St) : (setBuf bytes s).log = s.log := by
  unfold setBuf; simp only; split <;> simp

theorem deliverAndSwap_sec (wasOpen : Bool) (n : Nat) (s : St) (h : s.c.inTracingSection = true) :
    Sec s (deliverAndSwap wasOpen n s) := by
  unfold deliverAndSwap
  split
  · exact Sec.refl h
  · simp only
    have h1 : Sec s (s.ev (.deliver s.buf wasOpen s.c.packetIsOpen)) := Sec.ev (.deliver _ _ _) h trivial
    refine Sec.trans h1 ?_
    split
    · refine Sec.trans (Sec.upd (setBuf_log _ _) (by rw [setBuf_flag]; exact h1.2)) (Sec.ev (.cbExit _ _) ?_ trivial)
      rw [setBuf_flag]; exact h1.2
    · exact Sec.ev (.cbExit _ _) h1.2 trivial

theorem cbClose_sec (cfg : Cfg) (d : DST) (s : St) (h : s.c.inTracingSection = true) : Sec s (cbClose cfg d s) := by
  unfold cbClose
  split
  · exact Sec.refl h
  · simp only
    have h1 := cbEnter_sec .close s h
    generalize cbEnter .close s = s1 at h1
    have h2 : Sec s1 s1.bumpClose := Sec.upd rfl h1.2
    have h3 := closePacket_sec cfg d s1.bumpClose h2.2
    exact Sec.trans h1 (Sec.trans h2 (Sec.trans h3 (deliverAndSwap_sec _ _ _ h3.2)))

theorem noSpace_sec (cf : Bool) (s : St) (h : s.c.inTracingSection = true) : Sec s (noSpace cf s).2 := by
  unfold noSpace
  exact Sec.trans (Sec.ev (.discard cf) h trivial) (Sec.upd rfl (by simpa using h))

theorem withUseCur_sec (f : St → St) (hf : ∀ s, s.c.inTracingSection = true → Sec s (f s)) (s : St)
    (h : s.c.inTracingSection = true) : Sec s (withUseCur f s) := by
  unfold withUseCur
  have h1 : Sec s (s.setUseCur true) := Sec.upd rfl (by simpa using h)
  have h2 := hf _ h1.2
  exact Sec.trans h1 (Sec.trans h2 (Sec.upd rfl (by simpa using h2.2)))

theorem reopenAfterClose_sec (cfg : Cfg) (d : DST) (s : St) (h : s.c.inTracingSection = true) :
    Sec s (reopenAfterClose cfg d s).2 := by
  unfold reopenAfterClose
  simp only
  have h1 := cbFull_sec s h
  split
  · exact Sec.trans h1 (noSpace_sec _ _ h1.2)
  · exact Sec.trans h1 (withUseCur_sec (cbOpen cfg d) (cbOpen_sec cfg d) _ h1.2)

theorem reserveTail_sec (cfg : Cfg) (d : DST) (erSize : Nat) (s : St) (h : s.c.inTracingSection = true) :
    Sec s (reserveTail cfg d erSize s).2 := by
  unfold reserveTail
  split
  · exact Sec.refl h
  · split
    · have h1 := withUseCur_sec (cbClose cfg d) (cbClose_sec cfg d) _ h
      exact Sec.trans h1 (reopenAfterClose_sec cfg d _ h1.2)
    · exact Sec.refl h

theorem reserve_sec (cfg : Cfg) (d : DST) (erSize emptySize : Nat) (s : St) (h : s.c.inTracingSection = true) :
    Sec s (reserve cfg d erSize emptySize s).2 := by
  unfold reserve
  split
  · exact noSpace_sec _ _ h
  · split
    · simp only
      have h1 := cbFull_sec s h
      split
      · exact Sec.trans h1 (noSpace_sec _ _ h1.2)
      · have h2 := withUseCur_sec (cbOpen cfg d) (cbOpen_sec cfg d) _ h1.2
        exact Sec.trans h1 (Sec.trans h2 (reserveTail_sec cfg d erSize _ h2.2))
    · exact reserveTail_sec cfg d erSize s h

theorem commit_sec (cfg : Cfg) (d : DST) (s : St) (h : s.c.inTracingSection = true) : Sec s (commit cfg d s) := by
  unfold commit
  split
  · exact Sec.refl h
  · split
    · exact cbClose_sec cfg d s h
    · exact Sec.refl h

/-- stores happen under flag = 1 (what an asynchronous observer relies on) -/
def PStore : Ev → Prop
  | .cb _ _ _ _ => True
  | .cbExit _ _ => True
  | .store _ _ f _ => f = true
  | .deliver _ _ _ => True
  | .clockRead _ => True
  | .assertFail => True
  | .oob => True
  | .ret _ _ _ => False
  | .tsWrite _ _ => True
  | .traceCall _ _ => True
  | .recDone _ _ _ => True
  | .discard _ => True
  | .fullAnswer _ => True
  | .opened _ => True
  | .closed _ _ _ => True

theorem PSec.toStore (e : Ev) (h : PSec e) : PStore e := by
  cases e <;> first | exact h | trivial

/-- a public API call made from outside a tracing call: stores under flag 1, flag back to 0 on return -/
def Top (s s' : St) : Prop := Ext PStore s s' ∧ (s'.halted = false → s'.c.inTracingSection = false)

theorem Top.refl {s : St} (h : s.c.inTracingSection = false) : Top s s := ⟨Ext.refl _ _, fun _ => h⟩

theorem cbEnter_top (k : CbKind) (s : St) :
    Ext PStore s (cbEnter k s) ∧ (cbEnter k s).c.inTracingSection = s.c.inTracingSection ∧
    (cbEnter k s).halted = s.halted := by
  unfold cbEnter
  simp only
  split
  · exact ⟨(Ext.ev s (.cb k _ _ _) trivial).trans (Ext.of_log_eq rfl), rfl, rfl⟩
  · exact ⟨(Ext.ev s (.cb k _ _ _) trivial).trans (Ext.of_log_eq rfl), rfl, rfl⟩

theorem cbClock_top (clk : Clock) (s : St) :
    Ext PStore s (cbClock clk s).2 ∧ (cbClock clk s).2.c.inTracingSection = s.c.inTracingSection ∧
    (cbClock clk s).2.halted = s.halted := by
  obtain ⟨h1, h2, h3⟩ := cbEnter_top .clock s
  unfold cbClock
  simp only
  generalize cbEnter .clock s = s1 at h1 h2 h3
  refine ⟨h1.trans ?_, h2, h3⟩
  exact (Ext.of_log_eq (s' := s1.setPlat _) rfl).trans ((Ext.ev _ (.clockRead _) trivial).trans (Ext.ev _ (.cbExit _ _) trivial))

theorem preambleTs_top (d : DST) (ft : Option Scalar) (s : St) :
    Ext PStore s (preambleTs d ft s).2 ∧ (preambleTs d ft s).2.c.inTracingSection = s.c.inTracingSection ∧
    (preambleTs d ft s).2.halted = s.halted := by
  unfold preambleTs
  split
  · split
    · exact ⟨Ext.refl _ _, rfl, rfl⟩
    · exact cbClock_top _ s
  · exact ⟨Ext.refl _ _, rfl, rfl⟩

theorem openGuarded_top (cfg : Cfg) (d : DST) (args : Args) (ts : Nat) (s : St)
    (h : s.c.inTracingSection = false) : Top s (openGuarded cfg d args ts s) := by
  unfold openGuarded
  simp only [h, Bool.not_false, Bool.and_true]
  split
  · exact ⟨Ext.of_log_eq rfl, fun _ => rfl⟩
  · by_cases ho : (s.setFlag true).c.packetIsOpen = true
    · rw [if_pos ho]
      exact ⟨Ext.of_log_eq rfl, fun _ => rfl⟩
    · rw [if_neg ho]
      refine ⟨(Ext.of_log_eq rfl).trans ((openWrite_ext cfg d args ts false (s.setFlag true) rfl).mono PSec.toStore), ?_⟩
      intro hh
      rw [openWrite_flag cfg d args ts false (s.setFlag true) rfl, hh]; rfl

theorem openPacket_top (cfg : Cfg) (d : DST) (args : Args) (s : St) (h : s.c.inTracingSection = false) :
    Top s (openPacket cfg d args s) := by
  unfold openPacket
  split
  · exact Top.refl h
  · obtain ⟨h1, h2, _⟩ := preambleTs_top d d.feat.tsBegin s
    have := openGuarded_top cfg d args (preambleTs d d.feat.tsBegin s).1 _ (h2.trans h)
    exact ⟨h1.trans this.1, this.2⟩

theorem closeGuarded_top (cfg : Cfg) (d : DST) (ts : Nat) (s : St)
    (h : s.c.inTracingSection = false) : Top s (closeGuarded cfg d ts s) := by
  unfold closeGuarded
  simp only [h, Bool.not_false, Bool.and_true]
  split
  · exact ⟨Ext.of_log_eq rfl, fun _ => rfl⟩
  · by_cases ho : (!(s.setFlag true).c.packetIsOpen) = true
    · rw [if_pos ho]
      exact ⟨Ext.of_log_eq rfl, fun _ => rfl⟩
    · rw [if_neg ho]
      refine ⟨(Ext.of_log_eq rfl).trans ((closeWrite_ext cfg d ts false (s.setFlag true) rfl).mono PSec.toStore), ?_⟩
      intro hh
      rw [closeWrite_flag cfg d ts false (s.setFlag true) rfl, hh]; rfl

theorem closePacket_top (cfg : Cfg) (d : DST) (s : St) (h : s.c.inTracingSection = false) :
    Top s (closePacket cfg d s) := by
  unfold closePacket
  split
  · exact Top.refl h
  · obtain ⟨h1, h2, _⟩ := preambleTs_top d d.feat.tsEnd s
    have := closeGuarded_top cfg d (preambleTs d d.feat.tsEnd s).1 _ (h2.trans h)
    exact ⟨h1.trans this.1, this.2⟩

theorem cbOpen_top (cfg : Cfg) (d : DST) (s : St) (h : s.c.inTracingSection = false) : Top s (cbOpen cfg d s) := by
  unfold cbOpen
  split
  · exact Top.refl h
  · simp only
    obtain ⟨h1, h2, _⟩ := cbEnter_top .open_ s
    generalize cbEnter .open_ s = s1 at h1 h2
    have h3 := openPacket_top cfg d s1.openArgsNow s1.bumpOpen (h2.trans h)
    exact ⟨h1.trans ((Ext.of_log_eq rfl).trans (h3.1.trans (Ext.ev _ (.cbExit _ _) trivial))), h3.2⟩

theorem deliverAndSwap_top (wasOpen : Bool) (n : Nat) (s : St)
    (h : s.halted = false → s.c.inTracingSection = false) : Top s (deliverAndSwap wasOpen n s) := by
  unfold deliverAndSwap
  by_cases hh : s.halted = true
  · simp only [hh, if_true]; exact ⟨Ext.refl _ _, h⟩
  · have hf : s.halted = false := by simpa using hh
    simp only [hf, Bool.false_eq_true, if_false]
    split
    · refine ⟨(Ext.ev s (.deliver _ _ _) trivial).trans ((Ext.of_log_eq (setBuf_log _ _)).trans (Ext.ev _ (.cbExit _ _) trivial)), ?_⟩
      intro _; simp only [St.ev_c]; rw [setBuf_flag]; exact h hf
    · exact ⟨(Ext.ev s (.deliver _ _ _) trivial).trans (Ext.ev _ (.cbExit _ _) trivial), fun _ => h hf⟩

theorem cbClose_top (cfg : Cfg) (d : DST) (s : St) (h : s.c.inTracingSection = false) : Top s (cbClose cfg d s) := by
  unfold cbClose
  split
  · exact Top.refl h
  · simp only
    obtain ⟨h1, h2, _⟩ := cbEnter_top .close s
    generalize cbEnter .close s = s1 at h1 h2
    have h3 := closePacket_top cfg d s1.bumpClose (h2.trans h)
    have h4 := deliverAndSwap_top s1.c.packetIsOpen s1.p.closeCount _ h3.2
    exact ⟨h1.trans ((Ext.of_log_eq rfl).trans (h3.1.trans h4.1)), h4.2⟩

theorem traceWrite_sec (cfg : Cfg) (d : DST) (e : ERT) (args : Args) (s : St) (h : s.c.inTracingSection = true) :
    Ext PSec s (traceWrite cfg d e args s) ∧
    ((traceWrite cfg d e args s).halted = false → (traceWrite cfg d e args s).c.inTracingSection = false) := by
  unfold traceWrite
  simp only
  have h1 := runSer_sec (serRecord (serEnvOf cfg d e.id s.c.curLastEventTs s.c) d e args) s h
  generalize runSer _ s = s1 at h1
  split
  · rename_i hh; exact ⟨h1.1, fun hc => by rw [hh] at hc; cases hc⟩
  · have h2 : Sec s1 (if d.feat.erTs.isSome = true then s1.ev (.tsWrite "rec" s1.c.curLastEventTs) else s1) := by
      split
      · exact Sec.ev (.tsWrite _ _) h1.2 trivial
      · exact Sec.refl h1.2
    generalize (if d.feat.erTs.isSome = true then s1.ev (.tsWrite "rec" s1.c.curLastEventTs) else s1) = s2 at h2
    have h3 : Sec s2 (s2.ev (.recDone e.name s.c.at_ s2.c.at_)) := Sec.ev (.recDone _ _ _) h2.2 trivial
    have h4 := commit_sec cfg d _ h3.2
    have hall := Sec.trans h1 (Sec.trans h2 (Sec.trans h3 h4))
    split
    · rename_i hh; exact ⟨hall.1, fun hc => by rw [hh] at hc; cases hc⟩
    · exact ⟨hall.1.trans (Ext.of_log_eq rfl), fun _ => rfl⟩

theorem traceAfterReserve_sec (cfg : Cfg) (d : DST) (e : ERT) (args : Args) (erAt erSize : Nat) (r : Bool × St)
    (h : r.2.c.inTracingSection = true) :
    Ext PSec r.2 (traceAfterReserve cfg d e args erAt erSize r) ∧
    ((traceAfterReserve cfg d e args erAt erSize r).halted = false →
      (traceAfterReserve cfg d e args erAt erSize r).c.inTracingSection = false) := by
  unfold traceAfterReserve
  split
  · rename_i hh; exact ⟨Ext.refl _ _, fun hc => by rw [hh] at hc; cases hc⟩
  · split
    · exact ⟨Ext.of_log_eq rfl, fun _ => rfl⟩
    · split
      · exact ⟨(noSpace_sec true r.2 h).1.trans (Ext.of_log_eq rfl), fun _ => rfl⟩
      · exact traceWrite_sec cfg d e args r.2 h

theorem traceEnabled_sec (cfg : Cfg) (d : DST) (e : ERT) (args : Args) (s0 : St) (h : s0.c.inTracingSection = true) :
    Ext PSec s0 (traceEnabled cfg d e args s0) ∧
    ((traceEnabled cfg d e args s0).halted = false → (traceEnabled cfg d e args s0).c.inTracingSection = false) := by
  unfold traceEnabled
  have h1 := reserve_sec cfg d (erSizeAt d e args s0.c.at_) (erSizeAt d e args s0.c.offContent) s0 h
  have h2 := traceAfterReserve_sec cfg d e args s0.c.at_ (erSizeAt d e args s0.c.at_) _ h1.2
  exact ⟨h1.1.trans h2.1, h2.2⟩

/-- C16, second and third clause: from the test of the enable flag on, everything a tracing call logs
    (callback entries, stores) happens under flag = 1 — whatever the state it was entered in. -/
theorem traceBody_sec (cfg : Cfg) (d : DST) (e : ERT) (args : Args) (s : St) :
    Ext PSec s (traceBody cfg d e args s) := by
  unfold traceBody
  simp only
  have h0 : Ext PSec s (s.ev (.traceCall e.name s.c.isTracingEnabled)) := Ext.ev _ _ trivial
  split
  · exact h0
  · exact h0.trans ((Ext.of_log_eq rfl).trans (traceEnabled_sec cfg d e args _ rfl).1)

theorem traceBody_flag (cfg : Cfg) (d : DST) (e : ERT) (args : Args) (s : St)
    (h : s.c.inTracingSection = false) :
    (traceBody cfg d e args s).halted = false → (traceBody cfg d e args s).c.inTracingSection = false := by
  unfold traceBody
  simp only
  split
  · intro _; exact h
  · exact (traceEnabled_sec cfg d e args _ rfl).2

theorem traceClock_top (d : DST) (s : St) :
    Ext PStore s (traceClock d s) ∧ (traceClock d s).c.inTracingSection = s.c.inTracingSection := by
  unfold traceClock
  split
  · obtain ⟨h1, h2, _⟩ := cbClock_top ‹Clock› s
    exact ⟨h1.trans (Ext.of_log_eq rfl), h2⟩
  · exact ⟨Ext.refl _ _, rfl⟩

theorem trace_top (cfg : Cfg) (d : DST) (e : ERT) (args : Args) (s : St) (h : s.c.inTracingSection = false) :
    Top s (trace cfg d e args s) := by
  unfold trace
  split
  · exact Top.refl h
  · obtain ⟨h1, h2⟩ := traceClock_top d s
    exact ⟨h1.trans ((traceBody_sec cfg d e args _).mono PSec.toStore), traceBody_flag cfg d e args _ (h2.trans h)⟩

/-- what C16 says about every event of a run: stores under flag 1, flag 0 at every API return -/
def PTop : Ev → Prop
  | .cb _ _ _ _ => True
  | .cbExit _ _ => True
  | .store _ _ f _ => f = true
  | .deliver _ _ _ => True
  | .clockRead _ => True
  | .assertFail => True
  | .oob => True
  | .ret _ c _ => c.inTracingSection = false
  | .tsWrite _ _ => True
  | .traceCall _ _ => True
  | .recDone _ _ _ => True
  | .discard _ => True
  | .fullAnswer _ => True
  | .opened _ => True
  | .closed _ _ _ => True

theorem PStore.toTop (e : Ev) (h : PStore e) : PTop e := by
  cases e <;> first | exact h | trivial | exact h.elim

/-- invariant between public API calls: the flag is down (unless the run has halted) -/
def FlagDown (s : St) : Prop := s.halted = false → s.c.inTracingSection = false

theorem stepOp_top (cfg : Cfg) (d : DST) (op : Op) (s : St) (h : FlagDown s) :
    Ext PTop s (stepOp cfg d op s) ∧ FlagDown (stepOp cfg d op s) := by
  unfold stepOp
  by_cases hh : s.halted = true
  · simp only [hh, if_true]; exact ⟨Ext.refl _ _, h⟩
  · have hf : s.halted = false := by simpa using hh
    have hfl := h hf
    simp only [hf, Bool.false_eq_true, if_false]
    -- the operation itself
    have key : ∀ (name : String) (s' : St), Top s s' →
        Ext PTop s (if s'.halted = true then s' else s'.ev (.ret name s'.c s'.buf.length)) ∧
        FlagDown (if s'.halted = true then s' else s'.ev (.ret name s'.c s'.buf.length)) := by
      intro name s' ht
      by_cases h2 : s'.halted = true
      · simp only [h2, if_true]
        exact ⟨ht.1.mono PStore.toTop, fun hc => by rw [h2] at hc; cases hc⟩
      · have h2f : s'.halted = false := by simpa using h2
        simp only [h2f, Bool.false_eq_true, if_false]
        exact ⟨(ht.1.mono PStore.toTop).trans (Ext.ev _ _ (ht.2 h2f)), fun _ => ht.2 h2f⟩
    cases op with
    | open_ => exact key "open" _ (cbOpen_top cfg d s hfl)
    | close => exact key "close" _ (cbClose_top cfg d s hfl)
    | trace en args =>
      simp only
      split
      · exact key "trace" _ (trace_top cfg d _ args s hfl)
      · exact key "trace" _ (Top.refl hfl)
    | enable b => exact key "enable" _ ⟨Ext.of_log_eq rfl, fun _ => hfl⟩
    | query => exact key "query" _ (Top.refl hfl)
    | fin =>
      have hfin : Top s (if (s.c.packetIsOpen && !s.c.isEmpty) = true then cbClose cfg d s else s) := by
        split
        · exact cbClose_top cfg d s hfl
        · exact Top.refl hfl
      exact key "fin" _ hfin

theorem runOps_top (cfg : Cfg) (d : DST) (ops : List Op) (s : St) (h : FlagDown s) :
    Ext PTop s (runOps cfg d ops s) ∧ FlagDown (runOps cfg d ops s) := by
  unfold runOps
  induction ops generalizing s with
  | nil => exact ⟨Ext.refl _ _, h⟩
  | cons op ops ih =>
    simp only [List.foldl_cons]
    have h1 := stepOp_top cfg d op s h
    have h2 := ih _ h1.2
    exact ⟨h1.1.trans h2.1, h2.2⟩

end BVM
