/-
  Proofs/RtCount.lean — ghost counters: the discarded-records counter, the sequence number and the
  is-open flag are exactly the numbers of `discard` / `closed` events and the last `opened`/`closed`
  event of the log (C03, C04, C06).
-/
import BVM.Proofs.RtSimp
namespace BVM

def nDisc : List Ev → Nat
  | [] => 0
  | .discard _ :: l => nDisc l + 1
  | _ :: l => nDisc l

def nClosed : List Ev → Nat
  | [] => 0
  | .closed _ _ _ :: l => nClosed l + 1
  | _ :: l => nClosed l

/-- is the newest `opened`/`closed` event an `opened`? -/
def lastOpen : List Ev → Bool
  | [] => false
  | .opened _ :: _ => true
  | .closed _ _ _ :: _ => false
  | _ :: l => lastOpen l

/-- the sequence number the context must hold given the log -/
def seqOf (d : DST) (log : List Ev) : Nat := if d.feat.seqNum.isSome then nClosed log % 4294967296 else 0

/-- every `closed cs sn dc` event carries the sequence number = number of packets closed before it, and
    the discarded-records snapshot = number of records discarded before it (both reduced mod 2^32) -/
def closedOK (d : DST) : List Ev → Prop
  | [] => True
  | .closed _ sn dc :: rest => dc = nDisc rest % 4294967296 ∧ sn = seqOf d rest ∧ closedOK d rest
  | _ :: rest => closedOK d rest

/-- events that do not concern the counters -/
def PQuiet : Ev → Prop
  | .cb _ _ _ _ => True
  | .cbExit _ _ => True
  | .store _ _ _ _ => True
  | .deliver _ _ _ => True
  | .clockRead _ => True
  | .assertFail => True
  | .oob => True
  | .ret _ _ _ => True
  | .tsWrite _ _ => False
  | .traceCall _ _ => False
  | .recDone _ _ _ => False
  | .discard _ => False
  | .fullAnswer _ => True
  | .opened _ => False
  | .closed _ _ _ => False

/-- events that do not concern the three counters of `CInv` -/
def PHarmless : Ev → Prop
  | .cb _ _ _ _ => True
  | .cbExit _ _ => True
  | .store _ _ _ _ => True
  | .deliver _ _ _ => True
  | .clockRead _ => True
  | .assertFail => True
  | .oob => True
  | .ret _ _ _ => True
  | .tsWrite _ _ => True
  | .traceCall _ _ => True
  | .recDone _ _ _ => True
  | .discard _ => False
  | .fullAnswer _ => True
  | .opened _ => False
  | .closed _ _ _ => False

theorem PQuiet.harmless (e : Ev) (h : PQuiet e) : PHarmless e := by
  cases e <;> first | exact h | trivial

theorem quiet_counts (d : DST) (new old : List Ev) (h : ∀ e ∈ new, PHarmless e) :
    nDisc (new ++ old) = nDisc old ∧ nClosed (new ++ old) = nClosed old ∧ lastOpen (new ++ old) = lastOpen old ∧
    (closedOK d (new ++ old) ↔ closedOK d old) := by
  induction new with
  | nil => simp
  | cons e es ih =>
    have hq := h e (by simp)
    obtain ⟨i1, i2, i3, i4⟩ := ih (fun x hx => h x (by simp [hx]))
    cases e <;> simp [PHarmless] at hq <;> simp [nDisc, nClosed, lastOpen, closedOK, i1, i2, i3, i4]

/-- the counter invariant -/
structure CInv (d : DST) (s : St) : Prop where
  disc : s.c.eventsDiscarded = nDisc s.log % 4294967296
  seq : s.c.sequenceNumber = seqOf d s.log
  isOpen : s.c.packetIsOpen = lastOpen s.log
  closed : closedOK d s.log

/-- a step that leaves the three fields alone and logs only quiet events -/
structure Same (s s' : St) : Prop where
  disc : s'.c.eventsDiscarded = s.c.eventsDiscarded
  seq : s'.c.sequenceNumber = s.c.sequenceNumber
  isOpen : s'.c.packetIsOpen = s.c.packetIsOpen
  ext : Ext PQuiet s s'

theorem Same.refl (s : St) : Same s s := ⟨rfl, rfl, rfl, Ext.refl _ _⟩
theorem Same.trans {a b c : St} (h₁ : Same a b) (h₂ : Same b c) : Same a c :=
  ⟨h₂.disc.trans h₁.disc, h₂.seq.trans h₁.seq, h₂.isOpen.trans h₁.isOpen, h₁.ext.trans h₂.ext⟩
theorem Same.upd {s s' : St} (hl : s'.log = s.log) (h1 : s'.c.eventsDiscarded = s.c.eventsDiscarded)
    (h2 : s'.c.sequenceNumber = s.c.sequenceNumber) (h3 : s'.c.packetIsOpen = s.c.packetIsOpen) : Same s s' :=
  ⟨h1, h2, h3, Ext.of_log_eq hl⟩
theorem Same.ev (s : St) (e : Ev) (h : PQuiet e) : Same s (s.ev e) := ⟨rfl, rfl, rfl, Ext.ev s e h⟩


theorem Same.setFlag (s : St) (b : Bool) : Same s (s.setFlag b) := ⟨rfl, rfl, rfl, Ext.of_log_eq rfl⟩
theorem Same.setEnabled (s : St) (b : Bool) : Same s (s.setEnabled b) := ⟨rfl, rfl, rfl, Ext.of_log_eq rfl⟩
theorem Same.setUseCur (s : St) (b : Bool) : Same s (s.setUseCur b) := ⟨rfl, rfl, rfl, Ext.of_log_eq rfl⟩
theorem Same.setCurTs (s : St) (v : Nat) : Same s (s.setCurTs v) := ⟨rfl, rfl, rfl, Ext.of_log_eq rfl⟩
theorem Same.setAt (s : St) (v : Nat) : Same s (s.setAt v) := ⟨rfl, rfl, rfl, Ext.of_log_eq rfl⟩
theorem Same.setOffContent (s : St) (v : Nat) : Same s (s.setOffContent v) := ⟨rfl, rfl, rfl, Ext.of_log_eq rfl⟩
theorem Same.setContentSize (s : St) (v : Nat) : Same s (s.setContentSize v) := ⟨rfl, rfl, rfl, Ext.of_log_eq rfl⟩
theorem Same.setPacketSize (s : St) (v : Nat) : Same s (s.setPacketSize v) := ⟨rfl, rfl, rfl, Ext.of_log_eq rfl⟩
theorem Same.setPlat (s : St) (p : Plat) : Same s (s.setPlat p) := ⟨rfl, rfl, rfl, Ext.of_log_eq rfl⟩
theorem Same.halt (s : St) : Same s s.halt := ⟨rfl, rfl, rfl, Ext.of_log_eq rfl⟩
theorem Same.bumpOpen (s : St) : Same s s.bumpOpen := ⟨rfl, rfl, rfl, Ext.of_log_eq rfl⟩
theorem Same.bumpClose (s : St) : Same s s.bumpClose := ⟨rfl, rfl, rfl, Ext.of_log_eq rfl⟩

theorem Same.inv {d : DST} {s s' : St} (h : Same s s') (hi : CInv d s) : CInv d s' := by
  obtain ⟨new, hl, hq⟩ := h.ext
  obtain ⟨q1, q2, q3, q4⟩ := quiet_counts d new s.log (fun e he => PQuiet.harmless e (hq e he))
  refine ⟨?_, ?_, ?_, ?_⟩
  · rw [h.disc, hi.disc, hl, q1]
  · rw [h.seq, hi.seq, hl]; unfold seqOf; rw [q2]
  · rw [h.isOpen, hi.isOpen, hl, q3]
  · rw [hl, q4]; exact hi.closed

/-- logging an event that is not `discard`/`opened`/`closed` keeps the counter invariant -/
theorem CInv.ev {d : DST} {s : St} (hi : CInv d s) (e : Ev) (h : PHarmless e) : CInv d (s.ev e) := by
  obtain ⟨q1, q2, q3, q4⟩ := quiet_counts d [e] s.log (by intro x hx; simp at hx; subst hx; exact h)
  refine ⟨?_, ?_, ?_, ?_⟩
  · show s.c.eventsDiscarded = nDisc ([e] ++ s.log) % 4294967296
    rw [q1]; exact hi.disc
  · show s.c.sequenceNumber = seqOf d ([e] ++ s.log)
    unfold seqOf; rw [q2]; exact hi.seq
  · show s.c.packetIsOpen = lastOpen ([e] ++ s.log)
    rw [q3]; exact hi.isOpen
  · show closedOK d ([e] ++ s.log)
    rw [q4]; exact hi.closed

theorem cbEnter_same (k : CbKind) (s : St) : Same s (cbEnter k s) := by
  unfold cbEnter
  simp only
  split <;> exact ⟨rfl, rfl, rfl, ⟨[_], rfl, by intro e he; simp at he; subst he; trivial⟩⟩

theorem cbClock_same (clk : Clock) (s : St) : Same s (cbClock clk s).2 := by
  have h1 := cbEnter_same .clock s
  unfold cbClock
  simp only
  generalize cbEnter .clock s = s1 at h1
  refine h1.trans ⟨rfl, rfl, rfl, ⟨[_, _], rfl, ?_⟩⟩
  intro e he; simp at he; rcases he with he | he <;> subst he <;> trivial

theorem cbFull_same (s : St) : Same s (cbFull s).2 := by
  have h1 := cbEnter_same .full s
  unfold cbFull
  simp only
  generalize cbEnter .full s = s1 at h1
  refine h1.trans ⟨rfl, rfl, rfl, ⟨[_, _], rfl, ?_⟩⟩
  intro e he; simp at he; rcases he with he | he <;> subst he <;> trivial

theorem installSer_same (r : SerSt) (s : St) : Same s (installSer r s) := by
  unfold installSer
  simp only
  have hst : Same s (s.setSer r.buf r.at_ r.saved
      (r.stores.map fun (o, n) => Ev.store o n s.c.inTracingSection s.c.packetIsOpen)) := by
    refine ⟨rfl, rfl, rfl, ⟨_, rfl, ?_⟩⟩
    intro e he
    obtain ⟨x, _, hx⟩ := List.mem_map.mp he
    subst hx; trivial
  split
  · exact hst.trans ((Same.ev _ .oob trivial).trans (Same.halt _))
  · exact hst

theorem runSer_same (f : SerSt → SerSt) (s : St) : Same s (runSer f s) := installSer_same _ s

theorem preambleTs_same (d : DST) (ft : Option Scalar) (s : St) : Same s (preambleTs d ft s).2 := by
  unfold preambleTs
  split
  · split
    · exact Same.refl s
    · exact cbClock_same _ s
  · exact Same.refl s

theorem openWrite_inv (cfg : Cfg) (d : DST) (args : Args) (ts : Nat) (saved : Bool) (s : St) (hi : CInv d s) :
    CInv d (openWrite cfg d args ts saved s) := by
  unfold openWrite
  simp only
  have h0 : Same s (s.setAt 0) := Same.setAt _ _
  have hr := runSer_same
    (fun st => serRoot (serEnvOf cfg d 0 ts (s.setAt 0).c) "pc" d.pcOp args
      (serRoot (serEnvOf cfg d 0 ts (s.setAt 0).c) "ph" (DST.phOp cfg) [] st)) (s.setAt 0)
  have h2 := (h0.trans hr).inv hi
  generalize runSer _ (s.setAt 0) = s2 at h2
  split
  · exact h2
  · have h4 : CInv d (if d.feat.tsBegin.isSome = true then s2.ev (.tsWrite "begin" ts) else s2) := by
      split
      · exact h2.ev (.tsWrite _ _) trivial
      · exact h2
    generalize (if d.feat.tsBegin.isSome = true then s2.ev (.tsWrite "begin" ts) else s2) = s3 at h4
    refine ⟨?_, ?_, ?_, ?_⟩
    · simpa [nDisc] using h4.disc
    · simpa [seqOf, nClosed] using h4.seq
    · simp [lastOpen]
    · simpa [closedOK] using h4.closed

theorem openGuarded_inv (cfg : Cfg) (d : DST) (args : Args) (ts : Nat) (s : St) (hi : CInv d s) :
    CInv d (openGuarded cfg d args ts s) := by
  unfold openGuarded
  simp only
  split
  · exact (Same.setFlag s false).inv hi
  · split
    · exact ((Same.setFlag s true).trans (Same.setFlag _ _)).inv hi
    · exact openWrite_inv cfg d args ts _ _ ((Same.setFlag s true).inv hi)

theorem openPacket_inv (cfg : Cfg) (d : DST) (args : Args) (s : St) (hi : CInv d s) :
    CInv d (openPacket cfg d args s) := by
  unfold openPacket
  split
  · exact hi
  · exact openGuarded_inv cfg d args _ _ ((preambleTs_same d d.feat.tsBegin s).inv hi)

theorem writeBack_same (env : SerEnv) (d : DST) (name : String) (v : Int) (s : St) :
    Same s (writeBack env d name v s) := by
  unfold writeBack
  split
  · exact Same.refl s
  · split
    · exact Same.refl s
    · exact (Same.setAt s _).trans (runSer_same _ _)

theorem closeBacks_same (cfg : Cfg) (d : DST) (ts : Nat) (s : St) : Same s (closeBacks cfg d ts s) := by
  unfold closeBacks
  simp only
  generalize serEnvOf cfg d 0 ts s.c = env
  have h1 : Same s (if d.feat.tsEnd.isSome = true then writeBack env d "timestamp_end" ts s else s) := by
    split
    · exact writeBack_same _ _ _ _ _
    · exact Same.refl _
  generalize (if d.feat.tsEnd.isSome = true then writeBack env d "timestamp_end" ts s else s) = s1 at h1
  have h2 : Same s1 (writeBack env d "content_size" s1.c.contentSize s1) := writeBack_same _ _ _ _ _
  generalize writeBack env d "content_size" s1.c.contentSize s1 = s2 at h2
  have h3 : Same s2 (if d.feat.discarded.isSome = true then writeBack env d "events_discarded" s2.c.eventsDiscarded s2 else s2) := by
    split
    · exact writeBack_same _ _ _ _ _
    · exact Same.refl _
  exact h1.trans (h2.trans h3)

theorem closeFinish_inv (d : DST) (ts : Nat) (saved : Bool) (s : St) (hi : CInv d s) :
    CInv d (closeFinish d ts saved s) := by
  unfold closeFinish
  split
  · exact hi
  · simp only
    have h4 : CInv d (if d.feat.tsEnd.isSome = true then s.ev (.tsWrite "end" ts) else s) := by
      split
      · exact hi.ev (.tsWrite _ _) trivial
      · exact hi
    generalize (if d.feat.tsEnd.isSome = true then s.ev (.tsWrite "end" ts) else s) = s3 at h4
    cases hsq : d.feat.seqNum.isSome
    · refine ⟨?_, ?_, ?_, ?_⟩
      · simpa [nDisc] using h4.disc
      · have := h4.seq; simp [seqOf, hsq] at this ⊢; exact this
      · simp [lastOpen]
      · simp only [Bool.false_eq_true, if_false, St.setFlag_log, St.setOpen_log, St.setAt_log, St.ev_log, closedOK]
        exact ⟨h4.disc, h4.seq, h4.closed⟩
    · refine ⟨?_, ?_, ?_, ?_⟩
      · simpa [nDisc] using h4.disc
      · have := h4.seq
        simp [seqOf, hsq] at this
        simp [seqOf, hsq, nClosed, this, u32]
      · simp [lastOpen]
      · simp only [if_true, St.setFlag_log, St.setSeqNum_log, St.setOpen_log, St.setAt_log, St.ev_log, closedOK]
        exact ⟨h4.disc, h4.seq, h4.closed⟩


theorem closeWrite_inv (cfg : Cfg) (d : DST) (ts : Nat) (saved : Bool) (s : St) (hi : CInv d s) :
    CInv d (closeWrite cfg d ts saved s) := by
  unfold closeWrite
  exact closeFinish_inv d ts saved _ (((Same.setContentSize s _).trans (closeBacks_same cfg d ts _)).inv hi)

theorem closeGuarded_inv (cfg : Cfg) (d : DST) (ts : Nat) (s : St) (hi : CInv d s) :
    CInv d (closeGuarded cfg d ts s) := by
  unfold closeGuarded
  simp only
  split
  · exact (Same.setFlag s false).inv hi
  · split
    · exact ((Same.setFlag s true).trans (Same.setFlag _ _)).inv hi
    · exact closeWrite_inv cfg d ts _ _ ((Same.setFlag s true).inv hi)

theorem closePacket_inv (cfg : Cfg) (d : DST) (s : St) (hi : CInv d s) : CInv d (closePacket cfg d s) := by
  unfold closePacket
  split
  · exact hi
  · exact closeGuarded_inv cfg d _ _ ((preambleTs_same d d.feat.tsEnd s).inv hi)

theorem cbOpen_inv (cfg : Cfg) (d : DST) (s : St) (hi : CInv d s) : CInv d (cbOpen cfg d s) := by
  unfold cbOpen
  split
  · exact hi
  · simp only
    have h1 := (cbEnter_same .open_ s).inv hi
    generalize cbEnter .open_ s = s1 at h1
    have h3 := openPacket_inv cfg d s1.openArgsNow s1.bumpOpen ((Same.bumpOpen s1).inv h1)
    exact (Same.ev _ (.cbExit _ _) trivial).inv h3

theorem setBuf_same (bytes : Nat) (s : St) : Same s (setBuf bytes s) := by
  unfold setBuf
  simp only
  split
  · exact ⟨rfl, rfl, rfl, Ext.of_log_eq rfl⟩
  · exact ⟨rfl, rfl, rfl, Ext.of_log_eq rfl⟩

theorem deliverAndSwap_same (wasOpen : Bool) (n : Nat) (s : St) : Same s (deliverAndSwap wasOpen n s) := by
  unfold deliverAndSwap
  split
  · exact Same.refl s
  · simp only
    have h1 : Same s (s.ev (.deliver s.buf wasOpen s.c.packetIsOpen)) := Same.ev _ (.deliver _ _ _) trivial
    refine h1.trans ?_
    split
    · exact (setBuf_same _ _).trans (Same.ev _ (.cbExit _ _) trivial)
    · exact Same.ev _ (.cbExit _ _) trivial

theorem cbClose_inv (cfg : Cfg) (d : DST) (s : St) (hi : CInv d s) : CInv d (cbClose cfg d s) := by
  unfold cbClose
  split
  · exact hi
  · simp only
    have h1 := (cbEnter_same .close s).inv hi
    generalize cbEnter .close s = s1 at h1
    have h3 := closePacket_inv cfg d s1.bumpClose ((Same.bumpClose s1).inv h1)
    exact (deliverAndSwap_same _ _ _).inv h3

theorem noSpace_inv (d : DST) (cf : Bool) (s : St) (hi : CInv d s)  : CInv d (noSpace cf s).2 := by
  unfold noSpace
  refine ⟨?_, ?_, ?_, ?_⟩
  · have := hi.disc
    simp [nDisc, u32, this]
  · simpa [seqOf, nClosed] using hi.seq
  · simpa [lastOpen] using hi.isOpen
  · simpa [closedOK] using hi.closed

theorem withUseCur_inv (d : DST) (f : St → St) (hf : ∀ s, CInv d s → CInv d (f s)) (s : St) (hi : CInv d s) :
    CInv d (withUseCur f s) := by
  unfold withUseCur
  exact (Same.setUseCur _ false).inv (hf _ ((Same.setUseCur s true).inv hi))

theorem reopenAfterClose_inv (cfg : Cfg) (d : DST) (s : St) (hi : CInv d s) :
    CInv d (reopenAfterClose cfg d s).2 := by
  unfold reopenAfterClose
  simp only
  have h1 := (cbFull_same s).inv hi
  split
  · exact noSpace_inv d _ _ h1
  · exact withUseCur_inv d (cbOpen cfg d) (cbOpen_inv cfg d) _ h1

theorem reserveTail_inv (cfg : Cfg) (d : DST) (erSize : Nat) (s : St) (hi : CInv d s) :
    CInv d (reserveTail cfg d erSize s).2 := by
  unfold reserveTail
  split
  · exact hi
  · split
    · exact reopenAfterClose_inv cfg d _ (withUseCur_inv d (cbClose cfg d) (cbClose_inv cfg d) s hi)
    · exact hi

theorem reserve_inv (cfg : Cfg) (d : DST) (erSize emptySize : Nat) (s : St) (hi : CInv d s) :
    CInv d (reserve cfg d erSize emptySize s).2 := by
  unfold reserve
  split
  · exact noSpace_inv d _ _ hi
  · split
    · simp only
      have h1 := (cbFull_same s).inv hi
      split
      · exact noSpace_inv d _ _ h1
      · exact reserveTail_inv cfg d erSize _ (withUseCur_inv d (cbOpen cfg d) (cbOpen_inv cfg d) _ h1)
    · exact reserveTail_inv cfg d erSize s hi

theorem commit_inv (cfg : Cfg) (d : DST) (s : St) (hi : CInv d s) : CInv d (commit cfg d s) := by
  unfold commit
  split
  · exact hi
  · split
    · exact cbClose_inv cfg d s hi
    · exact hi

theorem traceWrite_inv (cfg : Cfg) (d : DST) (e : ERT) (args : Args) (s : St) (hi : CInv d s) :
    CInv d (traceWrite cfg d e args s) := by
  unfold traceWrite
  simp only
  have h1 := (runSer_same (serRecord (serEnvOf cfg d e.id s.c.curLastEventTs s.c) d e args) s).inv hi
  generalize runSer _ s = s1 at h1
  split
  · exact h1
  · have h3 : CInv d (if d.feat.erTs.isSome = true then s1.ev (.tsWrite "rec" s1.c.curLastEventTs) else s1) := by
      split
      · exact h1.ev (.tsWrite _ _) trivial
      · exact h1
    generalize (if d.feat.erTs.isSome = true then s1.ev (.tsWrite "rec" s1.c.curLastEventTs) else s1) = s2 at h3
    have h4 := commit_inv cfg d _ (h3.ev (.recDone e.name s.c.at_ s2.c.at_) trivial)
    split
    · exact h4
    · exact (Same.setFlag _ false).inv h4

theorem traceAfterReserve_inv (cfg : Cfg) (d : DST) (e : ERT) (args : Args) (erAt erSize : Nat) (r : Bool × St)
    (hi : CInv d r.2) : CInv d (traceAfterReserve cfg d e args erAt erSize r) := by
  unfold traceAfterReserve
  split
  · exact hi
  · split
    · exact (Same.setFlag _ false).inv hi
    · split
      · exact (Same.setFlag _ false).inv (noSpace_inv d true r.2 hi)
      · exact traceWrite_inv cfg d e args r.2 hi

theorem traceEnabled_inv (cfg : Cfg) (d : DST) (e : ERT) (args : Args) (s : St) (hi : CInv d s) :
    CInv d (traceEnabled cfg d e args s) := by
  unfold traceEnabled
  exact traceAfterReserve_inv cfg d e args _ _ _ (reserve_inv cfg d _ _ s hi)

theorem traceBody_inv (cfg : Cfg) (d : DST) (e : ERT) (args : Args) (s : St) (hi : CInv d s) :
    CInv d (traceBody cfg d e args s) := by
  unfold traceBody
  simp only
  have h1 := hi.ev (.traceCall e.name s.c.isTracingEnabled) trivial
  split
  · exact h1
  · exact traceEnabled_inv cfg d e args _ ((Same.setFlag _ true).inv h1)

theorem traceClock_same (d : DST) (s : St) : Same s (traceClock d s) := by
  unfold traceClock
  split
  · exact (cbClock_same _ s).trans (Same.setCurTs _ _)
  · exact Same.refl s

theorem trace_inv (cfg : Cfg) (d : DST) (e : ERT) (args : Args) (s : St) (hi : CInv d s) :
    CInv d (trace cfg d e args s) := by
  unfold trace
  split
  · exact hi
  · exact traceBody_inv cfg d e args _ ((traceClock_same d s).inv hi)

theorem stepOp_inv (cfg : Cfg) (d : DST) (op : Op) (s : St) (hi : CInv d s) : CInv d (stepOp cfg d op s) := by
  unfold stepOp
  split
  · exact hi
  · have key : ∀ (name : String) (s' : St), CInv d s' →
        CInv d (if s'.halted = true then s' else s'.ev (.ret name s'.c s'.buf.length)) := by
      intro name s' h
      split
      · exact h
      · exact (Same.ev _ (.ret _ _ _) trivial).inv h
    cases op with
    | open_ => exact key "open" _ (cbOpen_inv cfg d s hi)
    | close => exact key "close" _ (cbClose_inv cfg d s hi)
    | trace en args =>
      simp only
      split
      · exact key "trace" _ (trace_inv cfg d _ args s hi)
      · exact key "trace" _ hi
    | enable b => exact key "enable" _ ((Same.setEnabled s b).inv hi)
    | query => exact key "query" _ hi
    | fin =>
      have hfin : CInv d (if (s.c.packetIsOpen && !s.c.isEmpty) = true then cbClose cfg d s else s) := by
        split
        · exact cbClose_inv cfg d s hi
        · exact hi
      exact key "fin" _ hfin

theorem runOps_inv (cfg : Cfg) (d : DST) (ops : List Op) (s : St) (hi : CInv d s) : CInv d (runOps cfg d ops s) := by
  unfold runOps
  induction ops generalizing s with
  | nil => exact hi
  | cons op ops ih => simp only [List.foldl_cons]; exact ih _ (stepOp_inv cfg d op s hi)

theorem rtInit_inv (d : DST) (bytes : Nat) (p : Plat) : CInv d (rtInit bytes p) := by
  refine ⟨rfl, ?_, rfl, trivial⟩
  unfold seqOf; simp [rtInit, nClosed]

end BVM
