/-
  Proofs/Saved.lean — the offsets the packet opening function saves for the fields the closing function writes back
  (`sctx->off_<name>`: content size, end timestamp, discarded counter):

    * writes that are not skip-and-save writes leave the saved offsets alone (every root of an event record);
    * after the packet context has been serialised inside the buffer, every skipped field has a saved offset `off`
      with `off + size ≤` the end of the packet context, and the start bit the operation builder attached to the
      field's write operation is `off % 8` (`SavedOK`): what the write-backs of the closing function need.
-/
import BVM.Proofs.RecordBounds
namespace BVM

def WSrc.isSkip : WSrc → Bool
  | .skipSave _ => true
  | _ => false

/-! ### writes that save nothing -/

theorem store_saved (s : SerSt) (b n : Nat) (nb : Buf) : (s.store b n nb).saved = s.saved := by
  unfold SerSt.store; split <;> rfl

theorem writeBits_saved (env : SerEnv) (sc : Scalar) (o : Option Nat) (v : Int) (s : SerSt) :
    (writeBits env sc o v s).saved = s.saved := by
  unfold writeBits
  simp only
  split
  · exact store_saved _ _ _ _
  · exact store_saved _ _ _ _

theorem writeStr_saved (bytes : List Nat) (s : SerSt) : (writeStr bytes s).saved = s.saved := by
  unfold writeStr; exact store_saved _ _ _ _

theorem pop_saved (s : SerSt) : s.pop.2.saved = s.saved := by
  unfold SerSt.pop; cases s.leaves <;> rfl

theorem serAlign_saved (al : Option Nat) (s : SerSt) : (serAlign al s).saved = s.saved := by cases al <;> rfl

theorem serWrite_saved (env : SerEnv) (w : Write) (s : SerSt) (h : w.src.isSkip = false) :
    (serWrite env w s).saved = s.saved := by
  obtain ⟨src, sc, o⟩ := w
  cases src <;> simp only [serWrite] <;> try (exact writeBits_saved env sc o _ s)
  · cases sc with
    | str => rw [writeStr_saved, pop_saved]
    | int sg sz al => rw [writeBits_saved, pop_saved]
    | real sz al => rw [writeBits_saved, pop_saved]
  · simp [WSrc.isSkip] at h
  · exact store_saved _ _ _ _

def EOp.noSkip : EOp → Bool
  | .leaf _ w => !w.src.isSkip
  | .loop _ _ b => b.noSkip

def MOp.noSkip : MOp → Bool
  | .el _ e => e.noSkip
  | .dloop _ _ _ b => b.noSkip

theorem iterN_saved (f : SerSt → SerSt) (hf : ∀ s, (f s).saved = s.saved) :
    ∀ (n : Nat) (s : SerSt), (iterN f n s).saved = s.saved
  | 0, _ => rfl
  | n + 1, s => by rw [iterN, iterN_saved f hf n (f s), hf s]

theorem serElem_saved (env : SerEnv) : ∀ (op : EOp), op.noSkip = true → ∀ (s : SerSt), (serElem env op s).saved = s.saved
  | .leaf al w, h, s => by
    simp only [EOp.noSkip, Bool.not_eq_true'] at h
    rw [serElem, serWrite_saved env w _ h, serAlign_saved]
  | .loop al n body, h, s => by
    rw [serElem, iterN_saved _ (serElem_saved env body h) n _, serAlign_saved]

theorem serMember_saved (env : SerEnv) (pfx : String) (args : Args) (m : MOp) (h : m.noSkip = true) (s : SerSt) :
    (serMember env pfx args m s).saved = s.saved := by
  cases m with
  | el name e => exact serElem_saved env e h _
  | dloop name al ln body =>
    simp only [serMember]
    rw [iterN_saved _ (serElem_saved env body h) _ _, serAlign_saved]

theorem serRoot_saved (env : SerEnv) (pfx : String) (args : Args) (r : RootOp) (h : ∀ m ∈ r.members, m.noSkip = true)
    (s : SerSt) : (serRoot env pfx r args s).saved = s.saved := by
  unfold serRoot
  have : ∀ (ms : List MOp), (∀ m ∈ ms, m.noSkip = true) → ∀ s : SerSt,
      (ms.foldl (fun a m => serMember env pfx args m a) s).saved = s.saved := by
    intro ms
    induction ms with
    | nil => intro _ s; rfl
    | cons m ms ih =>
      intro hm s
      rw [List.foldl_cons, ih (fun x hx => hm x (by simp [hx])), serMember_saved env pfx args m (hm m (by simp))]
  rw [this r.members h, serAlign_saved]

/-! ### trees built from templates that save nothing -/

theorem buildElem_noSkip : ∀ (e : Elem) (src : WSrc) (level : Nat) (oib : Option Nat), src.isSkip = false →
    (buildElem src e level oib).1.noSkip = true
  | .sc s, src, level, oib, h => by simp [buildElem, EOp.noSkip, h]
  | .sarr n e, src, level, oib, _ => by
    simp only [buildElem, EOp.noSkip]
    exact buildElem_noSkip e .arg (level + 1) _ rfl

/-- a template table without skip-and-save templates (the event record header's; none) -/
def SpecNoSkip (spec : String → Option WSrc) : Prop := ∀ n, ((spec n).getD .arg).isSkip = false

theorem buildMember_noSkip (spec : String → Option WSrc) (hs : SpecNoSkip spec) (m : Member) (oib : Option Nat) :
    (buildMember spec m oib).1.noSkip = true := by
  obtain ⟨name, ft⟩ := m
  cases ft with
  | el e =>
    cases e with
    | sc sc => simp only [buildMember, MOp.noSkip]; exact buildElem_noSkip (.sc sc) _ 0 oib (hs name)
    | sarr n e => simp only [buildMember, MOp.noSkip]; exact buildElem_noSkip (.sarr n e) .arg 0 oib rfl
  | darr ln e => simp only [buildMember, MOp.noSkip]; exact buildElem_noSkip e .arg 1 _ rfl
  | uuid => simp [buildMember, MOp.noSkip, EOp.noSkip, WSrc.isSkip]

theorem buildMembers_noSkip (spec : String → Option WSrc) (hs : SpecNoSkip spec) :
    ∀ (ms : List Member) (oib : Option Nat), ∀ m ∈ (buildMembers spec ms oib).1, m.noSkip = true
  | [], _, m, hm => by simp [buildMembers] at hm
  | x :: xs, oib, m, hm => by
    simp only [buildMembers, List.mem_cons] at hm
    rcases hm with rfl | hm
    · exact buildMember_noSkip spec hs x oib
    · exact buildMembers_noSkip spec hs xs _ m hm

theorem buildRoot_noSkip (spec : String → Option WSrc) (hs : SpecNoSkip spec) (S : Struct) :
    ∀ m ∈ (buildRoot spec S).members, m.noSkip = true :=
  buildMembers_noSkip spec hs S.members _

theorem specNone_noSkip : SpecNoSkip specNone := fun _ => rfl

theorem specERH_noSkip : SpecNoSkip specERH := by
  intro n
  unfold specERH
  split <;> rfl

/-- serialising an event record leaves the saved offsets alone -/
theorem serRecord_saved (env : SerEnv) (d : DST) (e : ERT) (args : Args) (s : SerSt) :
    (serRecord env d e args s).saved = s.saved := by
  rw [serRecord_opt]
  have h0 : (serRoot env "h" (buildRoot specERH d.erhStruct) [] s).saved = s.saved :=
    serRoot_saved env "h" [] _ (buildRoot_noSkip specERH specERH_noSkip _) s
  have hopt : ∀ (pfx : String) (S : Option Struct) (t : SerSt),
      (optSer env specNone pfx args S t).saved = t.saved := by
    intro pfx S t
    cases S with
    | none => rfl
    | some S' => exact serRoot_saved env pfx args _ (buildRoot_noSkip specNone specNone_noSkip _) t
  rw [hopt "p" e.p, hopt "sc" e.sc, hopt "cc" d.ercc, h0]

/-! ### the packet context saves what the closing function needs -/

/-- what the write-backs of the closing function need of the saved offset of each skipped first-level field of `ops`:
    the field lies below `hi`, and the start bit attached to its write operation is the saved offset's -/
def SavedOK (ops : List MOp) (saved : List (String × Nat)) (hi : Nat) : Prop :=
  ∀ n w, findWrite n ops = some w → w.src.isSkip = true →
    ∃ off, saved.lookup n = some off ∧ off + w.sc.size ≤ hi ∧ OibOK w.oib off

theorem SavedOK.mono {ops : List MOp} {saved : List (String × Nat)} {hi hi' : Nat} (h : SavedOK ops saved hi)
    (hle : hi ≤ hi') : SavedOK ops saved hi' := by
  intro n w hf hs
  obtain ⟨off, h1, h2, h3⟩ := h n w hf hs
  exact ⟨off, h1, Nat.le_trans h2 hle, h3⟩

/-- skip-and-save templates save under the member's own name -/
def SpecKey (spec : String → Option WSrc) : Prop := ∀ n k, spec n = some (.skipSave k) → k = n

theorem specPC_key : SpecKey specPC := by
  intro n k h
  unfold specPC at h
  split at h <;> first | (cases h; done) | (cases h; rfl)

theorem plainElem_noSkip : ∀ e : Elem, (plainElem e).noSkip = true
  | .sc _ => rfl
  | .sarr _ e => plainElem_noSkip e

/-- a member saves under its own name only -/
theorem plainMemberS_saved_other (env : SerEnv) (pfx : String) (args : Args) (spec : String → Option WSrc)
    (hk : SpecKey spec) (m : Member) (s : SerSt) (n : String) (hn : n ≠ m.name) :
    (serMember env pfx args (plainMemberS spec m) s).saved.lookup n = s.saved.lookup n := by
  obtain ⟨name, ft⟩ := m
  have plain : ∀ op : MOp, op.noSkip = true → (serMember env pfx args op s).saved.lookup n = s.saved.lookup n := by
    intro op h; rw [serMember_saved env pfx args op h]
  cases ft with
  | uuid => exact plain _ (by simp [plainMemberS, MOp.noSkip, EOp.noSkip, WSrc.isSkip])
  | darr ln e => exact plain _ (by simp only [plainMemberS, MOp.noSkip]; exact plainElem_noSkip e)
  | el e =>
    cases e with
    | sarr k e => exact plain _ (by simp only [plainMemberS, MOp.noSkip]; exact plainElem_noSkip (.sarr k e))
    | sc sc =>
      cases hsrc : (spec name).getD .arg with
      | skipSave k =>
        have hkn : k = name := by
          cases hs : spec name with
          | none => rw [hs] at hsrc; simp at hsrc
          | some x => rw [hs] at hsrc; simp only [Option.getD_some] at hsrc; subst hsrc; exact hk name k hs
        subst hkn
        simp only [plainMemberS, serMember, serElem, hsrc, serWrite]
        have hne : (n == k) = false := by simpa using hn
        simp only [List.lookup_cons, hne]
        rw [serAlign_saved]
      | _ =>
        exact plain _ (by simp [plainMemberS, MOp.noSkip, EOp.noSkip, hsrc, WSrc.isSkip])

theorem findWrite_skip_cons (n : String) (m : MOp) (ms : List MOp) (h : ∀ name al w, m ≠ .el name (.leaf al w)) :
    findWrite n (m :: ms) = findWrite n ms := by
  cases m with
  | dloop name al ln b => rfl
  | el name e =>
    cases e with
    | leaf al w => exact absurd rfl (h name al w)
    | loop al k b => rfl

theorem members_saved (env : SerEnv) (L A : Nat) (hsmall : 8 * L + A ≤ 2 ^ 32) (hApos : 0 < A)
    (spec : String → Option WSrc) (hk : SpecKey spec) (pfx : String) (args : Args) :
    ∀ (ms : List Member) (oib : Option Nat) (s : SerSt),
      (ms.map (·.name)).Nodup →
      (∀ m ∈ ms, m.ft.AlOK ∧ SpecWF spec m ∧ specOK spec m ∧ m.ft.align ≤ A) →
      OibOK oib s.at_ → s.buf.length = L → s.oob = false →
      ms.foldl (fun a m => memberEndS spec pfx args m a) s.at_ ≤ 8 * L →
      (∀ n, n ∉ ms.map (·.name) →
        ((buildMembers spec ms oib).1.foldl (fun a m => serMember env pfx args m a) s).saved.lookup n = s.saved.lookup n) ∧
      SavedOK (buildMembers spec ms oib).1
        ((buildMembers spec ms oib).1.foldl (fun a m => serMember env pfx args m a) s).saved
        ((buildMembers spec ms oib).1.foldl (fun a m => serMember env pfx args m a) s).at_ ∧
      s.at_ ≤ ((buildMembers spec ms oib).1.foldl (fun a m => serMember env pfx args m a) s).at_
  | [], oib, s, _, _, _, _, _, _ => by
    refine ⟨fun _ _ => rfl, ?_, Nat.le_refl _⟩
    intro n w hf _
    simp [buildMembers, findWrite] at hf
  | m :: ms, oib, s, hnd, hms, hoib, hlen, h0, hfit => by
    obtain ⟨hal, hwf, hsp, hA⟩ := hms m (by simp)
    have halpos := AlOK_pos' m hal
    have hposr : ∀ x ∈ ms, 0 < x.ft.align := fun x hx => AlOK_pos' x (hms x (by simp [hx])).1
    simp only [List.foldl_cons] at hfit
    have hfit1 : memberEndS spec pfx args m s.at_ ≤ 8 * L :=
      Nat.le_trans (memberEndS_fold_mono spec pfx args ms hposr _) hfit
    obtain ⟨hb1, hb2⟩ := buildMember_ok env pfx args spec m oib s hal hsp hoib
    rw [buildMember_eraseS] at hb1
    have hin := member_in_bounds_S env L A hsmall hApos spec pfx args m hwf hA halpos s hlen h0 hfit1
    rw [← hb1] at hin
    have hnd' : (ms.map (·.name)).Nodup := (List.nodup_cons.mp (by simpa using hnd)).2
    have hnotin : m.name ∉ ms.map (·.name) := (List.nodup_cons.mp (by simpa using hnd)).1
    obtain ⟨ih1, ih2, ih3⟩ := members_saved env L A hsmall hApos spec hk pfx args ms (buildMember spec m oib).2
      (serMember env pfx args (buildMember spec m oib).1 s) hnd' (fun x hx => hms x (by simp [hx])) hb2 hin.2.2 hin.1
      (by rw [hin.2.1]; exact hfit)
    have hmono1 : s.at_ ≤ (serMember env pfx args (buildMember spec m oib).1 s).at_ := by
      rw [hin.2.1]; exact memberEndS_mono spec pfx args m halpos _
    simp only [buildMembers, List.foldl_cons]
    refine ⟨?_, ?_, Nat.le_trans hmono1 ih3⟩
    · intro n hn
      simp only [List.map_cons, List.mem_cons, not_or] at hn
      rw [ih1 n hn.2, hb1]
      exact plainMemberS_saved_other env pfx args spec hk m s n hn.1
    · intro n w hf hs
      -- the members after `m` that do not carry the name `n`
      have rest : findWrite n (buildMembers spec ms (buildMember spec m oib).2).1 = some w →
          ∃ off, ((buildMembers spec ms (buildMember spec m oib).2).1.foldl (fun a m => serMember env pfx args m a)
            (serMember env pfx args (buildMember spec m oib).1 s)).saved.lookup n = some off ∧
            off + w.sc.size ≤ ((buildMembers spec ms (buildMember spec m oib).2).1.foldl
              (fun a m => serMember env pfx args m a) (serMember env pfx args (buildMember spec m oib).1 s)).at_ ∧
            OibOK w.oib off := fun h => ih2 n w h hs
      obtain ⟨name, ft⟩ := m
      cases ft with
      | darr ln e =>
        rw [findWrite_skip_cons n _ _ (by intro a b c; simp [buildMember])] at hf
        exact rest hf
      | uuid =>
        simp only [buildMember, findWrite] at hf
        by_cases hnm : name = n
        · rw [if_pos hnm] at hf
          cases hf
          simp [WSrc.isSkip] at hs
        · rw [if_neg hnm] at hf
          exact rest hf
      | el e =>
        cases e with
        | sarr k e =>
          rw [findWrite_skip_cons n _ _ (by intro a b c; simp [buildMember, buildElem])] at hf
          exact rest hf
        | sc sc =>
          simp only [buildMember, buildElem, findWrite] at hf
          by_cases hnm : name = n
          · rw [if_pos hnm] at hf
            cases hf
            subst hnm
            -- the template is a skip-and-save one, keyed by the member's name
            cases hsrc : (spec name).getD .arg with
            | skipSave k =>
              have hkn : k = name := by
                cases hs' : spec name with
                | none => rw [hs'] at hsrc; simp at hsrc
                | some x => rw [hs'] at hsrc; simp only [Option.getD_some] at hsrc; subst hsrc; exact hk name k hs'
              subst hkn
              have hp2 : ∃ j, sc.align = 2 ^ j := hal
              have hApos' : 0 < sc.align := halpos
              have hAle : sc.align ≤ A := hA
              have hge := alignNat_ge s.at_ sc.align hApos'
              have hend : memberEndS spec pfx args ⟨k, .el (.sc sc)⟩ s.at_ = alignNat s.at_ sc.align + sc.size := by
                have hs' : spec k = some (.skipSave k) := by
                  cases hs'' : spec k with
                  | none => rw [hs''] at hsrc; simp at hsrc
                  | some x => rw [hs''] at hsrc; simp only [Option.getD_some] at hsrc; rw [hsrc]
                simp [memberEndS, hs']
              rw [hend] at hfit1
              have hatA : (serAlign (alOp sc.align) ({ s with leaves := args.get (pfx ++ "_" ++ k) } : SerSt)).at_ =
                  alignNat s.at_ sc.align :=
                serAlign_alOp sc.align _ hApos' (by show s.at_ + sc.align ≤ 2 ^ 32; omega)
              -- the state after this member, computed on the erased operation
              have hs1 : (serMember env pfx args (buildMember spec ⟨k, .el (.sc sc)⟩ oib).1 s).saved.lookup k =
                  some (alignNat s.at_ sc.align) := by
                rw [hb1]
                simp only [plainMemberS, serMember, serElem, hsrc, serWrite, List.lookup_cons, beq_self_eq_true]
                rw [hatA]
              have hat1 : (serMember env pfx args (buildMember spec ⟨k, .el (.sc sc)⟩ oib).1 s).at_ =
                  alignNat s.at_ sc.align + sc.size := by rw [hin.2.1, hend]
              refine ⟨alignNat s.at_ sc.align, ?_, ?_, ?_⟩
              · rw [ih1 k hnotin]; exact hs1
              · exact Nat.le_trans (by rw [hat1]; exact Nat.le_refl _) ih3
              · have hok := tryAlign_ok false oib sc.align ({ s with leaves := args.get (pfx ++ "_" ++ k) } : SerSt)
                  hp2 (fun _ => hoib)
                rw [tryAlign_snd, hatA] at hok
                exact hok
            | _ => simp [hsrc, WSrc.isSkip] at hs
          · rw [if_neg hnm] at hf
            exact rest hf

/-- **after the packet context has been written inside the buffer, the closing function's write-backs are prepared**:
    every skipped field has a saved offset below the end of the buffer, with a truthful start bit -/
theorem pc_saved_ok (env : SerEnv) (L : Nat) (d : DST) (args : Args) (s : SerSt) (hS : RootOKS specPC d.pcStruct)
    (hnd : (d.pcStruct.members.map (·.name)).Nodup) (hsmall : 8 * L + d.pcStruct.align ≤ 2 ^ 32)
    (hlen : s.buf.length = L) (h0 : s.oob = false) (hfit : structEndS specPC "pc" args d.pcStruct s.at_ ≤ 8 * L) :
    SavedOK d.pcOp.members (serRoot env "pc" d.pcOp args s).saved (8 * L) := by
  have hin := root_in_bounds env specPC "pc" args d.pcStruct hS s L hsmall hlen h0 hfit
  have hApos : 0 < d.pcStruct.align := by obtain ⟨j, hj⟩ := hS.pow2; rw [hj]; exact Nat.two_pow_pos j
  have hge := alignNat_ge s.at_ d.pcStruct.align hApos
  have hmono := memberEndS_fold_mono specPC "pc" args d.pcStruct.members
    (fun m hm => AlOK_pos' m (hS.members m hm).1) (alignNat s.at_ d.pcStruct.align)
  have hfit' := hfit
  simp only [structEndS] at hfit'
  have hat0 : (serAlign (alOp d.pcStruct.align) s).at_ = alignNat s.at_ d.pcStruct.align :=
    serAlign_alOp d.pcStruct.align s hApos (by omega)
  have hoib : OibOK (tryAlign false none d.pcStruct.align).1 (serAlign (alOp d.pcStruct.align) s).at_ := by
    have := tryAlign_ok false none d.pcStruct.align s hS.pow2 (fun _ => OibOK_none _)
    rw [tryAlign_snd] at this
    exact this
  have h := members_saved env L d.pcStruct.align hsmall hApos specPC specPC_key "pc" args d.pcStruct.members
    (tryAlign false none d.pcStruct.align).1 (serAlign (alOp d.pcStruct.align) s) hnd
    (fun m hm => ⟨(hS.members m hm).1, (hS.members m hm).2.1, (hS.members m hm).2.2, member_align_le _ m hm⟩)
    hoib (by rw [serAlign_buf]; exact hlen) (by rw [serAlign_oob]; exact h0) (by rw [hat0]; exact hfit')
  have h2 := h.2.1
  have hend : (serRoot env "pc" (buildRoot specPC d.pcStruct) args s).at_ ≤ 8 * L := by rw [hin.2.1]; exact hfit
  exact SavedOK.mono h2 hend

end BVM
