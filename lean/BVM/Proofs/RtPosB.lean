/-
  Proofs/RtPosB.lean — the position invariant for platforms that install packet buffers of *different* sizes
  (`barectf_packet_set_buf` from the close callback, api.adoc), for histories in which tracing is never disabled and the
  first call opens a packet (what every platform of the documentation does in its initialisation):

      not halted ∧ packet_size = 8·(buffer length) ∧ the buffer is one of the admitted sizes
      ∧ at ≤ packet_size ∧ (packet open → saved offsets inside the buffer ∧ off_content ≤ at)
      ∧ (packet closed → at = packet_size) ∧ tracing enabled ∧ no toggle scripted

  The two restrictions are exactly where the statement is false on the current tree: a closing that the tracer ignores
  because tracing is disabled, followed by a swap to a smaller buffer, leaves `at` beyond the new packet (finding F9),
  and so does a tracing call made before any packet was opened followed by a swap (misuse).
  Proofs/RtPos.lean has the other half: one buffer size, no restriction on the history.
-/
import BVM.Proofs.RtPos
namespace BVM

/-- a buffer size the platform may install: below the no-wrap bound, and large enough for packet header + context
    (the property's precondition) -/
structure GoodBuf (cfg : Cfg) (d : DST) (A Lmax : Nat) (oa : List Args) (b : Nat) : Prop where
  le : b ≤ Lmax
  hdr : ∀ args ∈ openArgsOf oa, hdrEndN cfg d args ≤ 8 * b

/-- `strict = false` drops the clause about closed packets: the state right after `barectf_init`, before the platform
    has opened its first packet -/
structure QInv (cfg : Cfg) (d : DST) (A Lmax : Nat) (oa : List Args) (strict : Bool) (s : St) : Prop where
  nh : s.halted = false
  good : GoodBuf cfg d A Lmax oa s.buf.length
  pkt : s.c.packetSize = 8 * s.buf.length
  at_ : s.c.at_ ≤ 8 * s.buf.length
  sv : s.c.packetIsOpen = true → SavedOK d.pcOp.members s.c.saved (8 * s.buf.length)
  oc : s.c.packetIsOpen = true → s.c.offContent ≤ s.c.at_
  cl : strict = true → s.c.packetIsOpen = false → s.c.at_ = 8 * s.buf.length
  en : s.c.isTracingEnabled = true
  tg : s.p.toggles = []
  hoa : s.p.openArgs = oa
  sb : ∀ x ∈ s.p.setBufs, GoodBuf cfg d A Lmax oa x.2
  stin : ∀ e ∈ s.log, StoreIn Lmax e

structure QSame (s s' : St) : Prop where
  p : PSame s s'
  en : s'.c.isTracingEnabled = s.c.isTracingEnabled
  tg : s'.p.toggles = s.p.toggles

theorem QSame.refl (s : St) : QSame s s := ⟨PSame.refl s, rfl, rfl⟩
theorem QSame.trans {a b c : St} (h₁ : QSame a b) (h₂ : QSame b c) : QSame a c :=
  ⟨h₁.p.trans h₂.p, h₂.en.trans h₁.en, h₂.tg.trans h₁.tg⟩

theorem QSame.inv {cfg : Cfg} {d : DST} {A Lmax : Nat} {oa : List Args} {b : Bool} {s s' : St} (h : QSame s s')
    (hi : QInv cfg d A Lmax oa b s) : QInv cfg d A Lmax oa b s' :=
  ⟨h.p.nh.trans hi.nh, by rw [h.p.len]; exact hi.good, by rw [h.p.pkt, h.p.len]; exact hi.pkt,
   by rw [h.p.at_, h.p.len]; exact hi.at_, by rw [h.p.isOpen, h.p.saved, h.p.len]; exact hi.sv,
   by rw [h.p.isOpen, h.p.offc, h.p.at_]; exact hi.oc, by rw [h.p.isOpen, h.p.at_, h.p.len]; exact hi.cl,
   h.en.trans hi.en, h.tg.trans hi.tg, h.p.oa.trans hi.hoa, by rw [h.p.sb]; exact hi.sb,
   (h.p.sin Lmax).storesIn hi.stin⟩

theorem QSame.ev (s : St) (e : Ev) (h : Neutral e := by exact ⟨fun _ => rfl, fun _ _ => rfl⟩)
    (h2 : ∀ L, StoreIn L e := by intro _; trivial) : QSame s (s.ev e) :=
  ⟨PSame.ev s e h h2, rfl, rfl⟩

theorem StoreIn.mono {L L' : Nat} (h : L ≤ L') (e : Ev) (he : StoreIn L e) : StoreIn L' e := by
  cases e <;> first | trivial | exact Nat.le_trans he h
theorem QSame.setFlag (s : St) (b : Bool) : QSame s (s.setFlag b) := ⟨PSame.setFlag s b, rfl, rfl⟩
theorem QSame.setUseCur (s : St) (b : Bool) : QSame s (s.setUseCur b) := ⟨PSame.setUseCur s b, rfl, rfl⟩
theorem QSame.setCurTs (s : St) (v : Nat) : QSame s (s.setCurTs v) := ⟨PSame.setCurTs s v, rfl, rfl⟩
theorem QSame.bumpOpen (s : St) : QSame s s.bumpOpen := ⟨PSame.bumpOpen s, rfl, rfl⟩
theorem QSame.bumpClose (s : St) : QSame s s.bumpClose := ⟨PSame.bumpClose s, rfl, rfl⟩
theorem QSame.noSpace (cf : Bool) (s : St) : QSame s (noSpace cf s).2 := ⟨noSpace_psame cf s, rfl, rfl⟩

/-- no toggle is scripted: entering a callback changes nothing the invariant looks at -/
theorem cbEnter_qsame (k : CbKind) (s : St) (htg : s.p.toggles = []) : QSame s (cbEnter k s) := by
  refine ⟨cbEnter_psame k s, ?_, ?_⟩
  · unfold cbEnter
    simp only [St.setPlat, St.ev, htg, List.lookup_nil]
  · unfold cbEnter
    simp only [St.setPlat, St.ev, htg, List.lookup_nil]

theorem cbClock_qsame (clk : Clock) (s : St) (htg : s.p.toggles = []) : QSame s (cbClock clk s).2 :=
  ⟨cbClock_psame clk s, (cbEnter_qsame .clock s htg).en, (cbEnter_qsame .clock s htg).tg⟩

theorem cbFull_qsame (s : St) (htg : s.p.toggles = []) : QSame s (cbFull s).2 :=
  ⟨cbFull_psame s, (cbEnter_qsame .full s htg).en, (cbEnter_qsame .full s htg).tg⟩

theorem preambleTs_qsame (d : DST) (ft : Option Scalar) (s : St) (htg : s.p.toggles = []) :
    QSame s (preambleTs d ft s).2 := by
  unfold preambleTs
  split
  · split
    · exact QSame.refl s
    · exact cbClock_qsame _ s htg
  · exact QSame.refl s

theorem traceClock_qsame (d : DST) (s : St) (htg : s.p.toggles = []) : QSame s (traceClock d s) := by
  unfold traceClock
  split
  · exact (cbClock_qsame _ s htg).trans (QSame.setCurTs _ _)
  · exact QSame.refl s

section
variable (cfg : Cfg) (d : DST) (A Lmax : Nat) (oa : List Args)
variable (hcfg : CfgOK A cfg d) (hsmall : 8 * Lmax + A ≤ 2 ^ 32)

theorem QInv.small {cfg : Cfg} {d : DST} {A Lmax : Nat} {oa : List Args} {b : Bool} {s : St} (hi : QInv cfg d A Lmax oa b s)
    (hsmall : 8 * Lmax + A ≤ 2 ^ 32) : 8 * s.buf.length + A ≤ 2 ^ 32 := by
  have := hi.good.le; omega

/-- the invariant of Proofs/RtPos.lean for the current buffer length (everything except its `setBufs` clause) -/
theorem QInv.posOK {cfg : Cfg} {d : DST} {A Lmax : Nat} {oa : List Args} {b : Bool} {s : St} (hi : QInv cfg d A Lmax oa b s)
    (hsmall : 8 * Lmax + A ≤ 2 ^ 32) : PosOK A s :=
  ⟨hi.nh, hi.pkt, by rw [hi.pkt]; exact hi.at_, hi.small hsmall⟩

/-! ### opening -/

include hcfg hsmall in
theorem openWrite_qinv (b : Bool) (args : Args) (hargs : args ∈ openArgsOf oa) (ts : Nat) (saved : Bool) (s : St)
    (hi : QInv cfg d A Lmax oa b s) :
    QInv cfg d A Lmax oa true (openWrite cfg d args ts saved s) ∧ (openWrite cfg d args ts saved s).c.packetIsOpen = true := by
  unfold openWrite
  simp only
  have hsm := hi.small hsmall
  have hfit := hi.good.hdr args hargs
  unfold hdrEndN at hfit
  generalize henv : serEnvOf cfg d 0 ts (s.setAt 0).c = env
  have hph := root_in_bounds env specPH "ph" [] cfg.phStruct hcfg.ph
    { buf := s.buf, at_ := 0, saved := s.c.saved, stores := [], oob := false, leaves := [] } s.buf.length
    (by have := hcfg.phA; omega) rfl rfl
    (Nat.le_trans (structEndS_mono specPC "pc" args d.pcStruct hcfg.pc _) hfit)
  have hpc := root_in_bounds env specPC "pc" args d.pcStruct hcfg.pc
    (serRoot env "ph" (buildRoot specPH cfg.phStruct) []
      { buf := s.buf, at_ := 0, saved := s.c.saved, stores := [], oob := false, leaves := [] }) s.buf.length
    (by have := hcfg.pcA; omega) hph.2.2 hph.1 (by rw [hph.2.1]; exact hfit)
  have hsv := pc_saved_ok env s.buf.length d args
    (serRoot env "ph" (buildRoot specPH cfg.phStruct) []
      { buf := s.buf, at_ := 0, saved := s.c.saved, stores := [], oob := false, leaves := [] })
    hcfg.pc hcfg.pcNames (by have := hcfg.pcA; omega) hph.2.2 hph.1 (by rw [hph.2.1]; exact hfit)
  have hr := runSer_fields
    (fun st => serRoot env "pc" d.pcOp args (serRoot env "ph" (DST.phOp cfg) [] st)) (s.setAt 0) hi.nh hpc.1
  simp only at hr
  obtain ⟨r1, r2, r3, r4, r5, r6, r7, r8, r9⟩ := hr
  have hlen : (runSer (fun st => serRoot env "pc" d.pcOp args (serRoot env "ph" (DST.phOp cfg) [] st))
      (s.setAt 0)).buf.length = s.buf.length := by rw [r3]; exact hpc.2.2
  have hat : (runSer (fun st => serRoot env "pc" d.pcOp args (serRoot env "ph" (DST.phOp cfg) [] st))
      (s.setAt 0)).c.at_ ≤ 8 * s.buf.length := by
    rw [r2]
    have hle : (serRoot env "pc" (buildRoot specPC d.pcStruct) args
        (serRoot env "ph" (buildRoot specPH cfg.phStruct) []
          { buf := s.buf, at_ := 0, saved := s.c.saved, stores := [], oob := false, leaves := [] })).at_ ≤
        8 * s.buf.length := by
      rw [hpc.2.1, hph.2.1]; exact hfit
    exact hle
  have hsv2 : SavedOK d.pcOp.members (runSer (fun st => serRoot env "pc" d.pcOp args
      (serRoot env "ph" (DST.phOp cfg) [] st)) (s.setAt 0)).c.saved (8 * s.buf.length) := by rw [r5]; exact hsv
  have hen : (runSer (fun st => serRoot env "pc" d.pcOp args (serRoot env "ph" (DST.phOp cfg) [] st))
      (s.setAt 0)).c.isTracingEnabled = true := by
    have : ∀ (f : SerSt → SerSt) (t : St), (runSer f t).c.isTracingEnabled = t.c.isTracingEnabled := by
      intro f t; unfold runSer installSer; simp only; split <;> rfl
    rw [this]; exact hi.en
  have hx : Ext Neutral s (runSer (fun st => serRoot env "pc" d.pcOp args (serRoot env "ph" (DST.phOp cfg) [] st))
      (s.setAt 0)) :=
    (Ext.of_log_eq rfl : Ext Neutral s (s.setAt 0)).trans ((runSer_same _ (s.setAt 0)).ext.mono PQuiet.neutral)
  have hsin : Ext (StoreIn s.buf.length) s (runSer (fun st => serRoot env "pc" d.pcOp args
      (serRoot env "ph" (DST.phOp cfg) [] st)) (s.setAt 0)) :=
    (Ext.of_log_eq rfl : Ext (StoreIn s.buf.length) s (s.setAt 0)).trans
      (runSer_sin s.buf.length _ (fun st h => serRoot_good _ env "pc" _ args _ (serRoot_good _ env "ph" _ [] st h))
        (s.setAt 0) rfl hpc.1)
  generalize runSer _ (s.setAt 0) = s2 at r1 r4 r7 hlen hat hsv2 hen hx hsin
  rw [if_neg (by rw [r1]; simp)]
  have h4 : QSame s2 (if d.feat.tsBegin.isSome = true then s2.ev (.tsWrite "begin" ts) else s2) := by
    split
    · exact QSame.ev _ _
    · exact QSame.refl _
  generalize (if d.feat.tsBegin.isSome = true then s2.ev (.tsWrite "begin" ts) else s2) = s3 at h4
  refine ⟨⟨h4.p.nh.trans r1, ?_, ?_, ?_, ?_, fun _ => Nat.le_refl _, fun _ h => by simp at h, h4.en.trans hen, ?_, ?_, ?_,
    ?_⟩, rfl⟩
  · show GoodBuf _ _ _ _ _ s3.buf.length; rw [h4.p.len, hlen]; exact hi.good
  · show s3.c.packetSize = 8 * s3.buf.length; rw [h4.p.pkt, h4.p.len, hlen, r4]; exact hi.pkt
  · show s3.c.at_ ≤ 8 * s3.buf.length; rw [h4.p.at_, h4.p.len, hlen]; exact hat
  · intro _; show SavedOK _ s3.c.saved (8 * s3.buf.length); rw [h4.p.saved, h4.p.len, hlen]; exact hsv2
  · show s3.p.toggles = []; rw [h4.tg, r7]; exact hi.tg
  · show s3.p.openArgs = oa; rw [h4.p.oa, r7]; exact hi.hoa
  · show ∀ x ∈ s3.p.setBufs, _; rw [h4.p.sb, r7]; exact hi.sb
  · intro e he
    have he' : e ∈ Ev.opened s3.c.at_ :: s3.log := he
    rcases List.mem_cons.mp he' with rfl | h
    · trivial
    · exact ((hsin.trans (h4.p.sin _)).mono (StoreIn.mono hi.good.le)).storesIn hi.stin e h

include hcfg hsmall in
/-- with tracing enabled, the opening function leaves a packet open -/
theorem openGuarded_qinv (b : Bool) (args : Args) (hargs : args ∈ openArgsOf oa) (ts : Nat) (s : St)
    (hi : QInv cfg d A Lmax oa b s) :
    QInv cfg d A Lmax oa true (openGuarded cfg d args ts s) ∧ (openGuarded cfg d args ts s).c.packetIsOpen = true := by
  unfold openGuarded
  simp only
  rw [if_neg (by rw [hi.en]; simp)]
  split
  · rename_i ho
    have ho' : s.c.packetIsOpen = true := by simpa using ho
    have h2 := ((QSame.setFlag s true).trans (QSame.setFlag (s.setFlag true) s.c.inTracingSection)).inv hi
    exact ⟨⟨h2.nh, h2.good, h2.pkt, h2.at_, h2.sv, h2.oc, fun _ h => by have h' : s.c.packetIsOpen = false := h; rw [ho'] at h'; simp at h',
      h2.en, h2.tg, h2.hoa, h2.sb, h2.stin⟩, ho'⟩
  · exact openWrite_qinv cfg d A Lmax oa hcfg hsmall b args hargs ts _ _ ((QSame.setFlag s true).inv hi)

include hcfg hsmall in
theorem openPacket_qinv (b : Bool) (args : Args) (hargs : args ∈ openArgsOf oa) (s : St) (hi : QInv cfg d A Lmax oa b s) :
    QInv cfg d A Lmax oa true (openPacket cfg d args s) ∧ (openPacket cfg d args s).c.packetIsOpen = true := by
  unfold openPacket
  rw [if_neg (by rw [hi.nh]; simp)]
  exact openGuarded_qinv cfg d A Lmax oa hcfg hsmall b args hargs _ _ ((preambleTs_qsame d d.feat.tsBegin s hi.tg).inv hi)

include hcfg hsmall in
theorem cbOpen_qinv (b : Bool) (s : St) (hi : QInv cfg d A Lmax oa b s) :
    QInv cfg d A Lmax oa true (cbOpen cfg d s) ∧ (cbOpen cfg d s).c.packetIsOpen = true := by
  unfold cbOpen
  rw [if_neg (by rw [hi.nh]; simp)]
  simp only
  have h1 := (cbEnter_qsame .open_ s hi.tg).inv hi
  generalize cbEnter .open_ s = s1 at h1
  have h3 := openPacket_qinv cfg d A Lmax oa hcfg hsmall b s1.openArgsNow (openArgsNow_mem oa s1 h1.hoa) s1.bumpOpen
    ((QSame.bumpOpen s1).inv h1)
  exact ⟨(QSame.ev _ _).inv h3.1, h3.2⟩

/-! ### closing -/

/-- what the platform state must keep satisfying -/
def QPlat (cfg : Cfg) (d : DST) (A Lmax : Nat) (oa : List Args) (p : Plat) : Prop :=
  p.toggles = [] ∧ p.openArgs = oa ∧ ∀ x ∈ p.setBufs, GoodBuf cfg d A Lmax oa x.2

include hcfg hsmall in
theorem closeWrite_qinv (ts : Nat) (saved : Bool) (s : St) (hi : QInv cfg d A Lmax oa true s)
    (ho : s.c.packetIsOpen = true) :
    QInv cfg d A Lmax oa true (closeWrite cfg d ts saved s) ∧ (closeWrite cfg d ts saved s).c.packetIsOpen = false := by
  have h := closeWrite_closed cfg d s.buf.length A hcfg (hi.small hsmall) (QPlat cfg d A Lmax oa) true ts saved s
    hi.nh rfl hi.pkt hi.at_ (hi.sv ho) ho ⟨hi.tg, hi.hoa, hi.sb⟩ hi.en
  exact ⟨⟨h.nh, by rw [h.len]; exact hi.good, by rw [h.pkt, h.len], by rw [h.at_, h.len]; exact Nat.le_refl _,
    fun x => by rw [h.isOpen] at x; simp at x, fun x => by rw [h.isOpen] at x; simp at x,
    fun _ _ => by rw [h.at_, h.len], h.en, h.pp.1, h.pp.2.1, h.pp.2.2,
    (h.sin.mono (StoreIn.mono hi.good.le)).storesIn hi.stin⟩, h.isOpen⟩

include hcfg hsmall in
/-- with tracing enabled, the closing function leaves the packet closed -/
theorem closeGuarded_qinv (ts : Nat) (s : St) (hi : QInv cfg d A Lmax oa true s) :
    QInv cfg d A Lmax oa true (closeGuarded cfg d ts s) ∧ (closeGuarded cfg d ts s).c.packetIsOpen = false := by
  unfold closeGuarded
  simp only
  rw [if_neg (by rw [hi.en]; simp)]
  split
  · rename_i ho
    exact ⟨((QSame.setFlag s true).trans (QSame.setFlag _ _)).inv hi, by simpa using ho⟩
  · rename_i ho
    exact closeWrite_qinv cfg d A Lmax oa hcfg hsmall ts _ _ ((QSame.setFlag s true).inv hi) (by simpa using ho)

include hcfg hsmall in
theorem closePacket_qinv (s : St) (hi : QInv cfg d A Lmax oa true s) :
    QInv cfg d A Lmax oa true (closePacket cfg d s) ∧ (closePacket cfg d s).c.packetIsOpen = false := by
  unfold closePacket
  rw [if_neg (by rw [hi.nh]; simp)]
  exact closeGuarded_qinv cfg d A Lmax oa hcfg hsmall _ _ ((preambleTs_qsame d d.feat.tsEnd s hi.tg).inv hi)

include hcfg hsmall in
/-- installing another admitted buffer while the packet is closed -/
theorem setBuf_qinv (b : Nat) (hb : GoodBuf cfg d A Lmax oa b) (s : St) (hi : QInv cfg d A Lmax oa true s)
    (hc : s.c.packetIsOpen = false) :
    QInv cfg d A Lmax oa true (setBuf b s) ∧ (setBuf b s).c.packetIsOpen = false := by
  have hu : u32 (b * 8) = 8 * b := by
    simp only [u32]; have := hb.le; have := hcfg.Apos; omega
  have hat : (s.c.at_ == s.c.packetSize) = true := by rw [hi.cl rfl hc, hi.pkt]; simp
  unfold setBuf
  simp only [hu, hat, if_true]
  refine ⟨⟨hi.nh, by simpa using hb, by simp, by simp, fun x => ?_, fun x => ?_, fun _ _ => by simp, hi.en, hi.tg, hi.hoa,
    hi.sb, hi.stin⟩, hc⟩
  · have : s.c.packetIsOpen = true := x
    rw [hc] at this; simp at this
  · have : s.c.packetIsOpen = true := x
    rw [hc] at this; simp at this

include hcfg hsmall in
theorem deliverAndSwap_qinv (wasOpen : Bool) (n : Nat) (s : St) (hi : QInv cfg d A Lmax oa true s)
    (hc : s.c.packetIsOpen = false) :
    QInv cfg d A Lmax oa true (deliverAndSwap wasOpen n s) ∧ (deliverAndSwap wasOpen n s).c.packetIsOpen = false := by
  unfold deliverAndSwap
  rw [if_neg (by rw [hi.nh]; simp)]
  simp only
  have h1 : QInv cfg d A Lmax oa true (s.ev (.deliver s.buf wasOpen s.c.packetIsOpen)) := (QSame.ev _ _).inv hi
  have hc1 : (s.ev (.deliver s.buf wasOpen s.c.packetIsOpen)).c.packetIsOpen = false := hc
  generalize s.ev (.deliver s.buf wasOpen s.c.packetIsOpen) = s1 at h1 hc1
  split
  · rename_i bytes hb
    have hmem : (n, bytes) ∈ s1.p.setBufs := by
      obtain ⟨l1, l2, he, _⟩ := List.lookup_eq_some_iff.mp hb
      rw [he]; simp
    have h2 := setBuf_qinv cfg d A Lmax oa hcfg hsmall bytes (h1.sb _ hmem) s1 h1 hc1
    exact ⟨(QSame.ev _ _).inv h2.1, h2.2⟩
  · exact ⟨(QSame.ev _ _).inv h1, hc1⟩

include hcfg hsmall in
theorem cbClose_qinv (s : St) (hi : QInv cfg d A Lmax oa true s) :
    QInv cfg d A Lmax oa true (cbClose cfg d s) ∧ (cbClose cfg d s).c.packetIsOpen = false := by
  unfold cbClose
  rw [if_neg (by rw [hi.nh]; simp)]
  simp only
  have h1 := (cbEnter_qsame .close s hi.tg).inv hi
  generalize cbEnter .close s = s1 at h1
  have h3 := closePacket_qinv cfg d A Lmax oa hcfg hsmall s1.bumpClose ((QSame.bumpClose s1).inv h1)
  exact deliverAndSwap_qinv cfg d A Lmax oa hcfg hsmall _ _ _ h3.1 h3.2

/-! ### reserving space -/

theorem withUseCur_qinv (f : St → St) (hf : ∀ s, QInv cfg d A Lmax oa true s → QInv cfg d A Lmax oa true (f s)) (s : St)
    (hi : QInv cfg d A Lmax oa true s) : QInv cfg d A Lmax oa true (withUseCur f s) := by
  unfold withUseCur
  exact (QSame.setUseCur _ false).inv (hf _ ((QSame.setUseCur s true).inv hi))

include hcfg hsmall in
theorem reopenAfterClose_qinv (s : St) (hi : QInv cfg d A Lmax oa true s) :
    QInv cfg d A Lmax oa true (reopenAfterClose cfg d s).2 := by
  unfold reopenAfterClose
  simp only
  have h1 := (cbFull_qsame s hi.tg).inv hi
  split
  · exact (QSame.noSpace _ _).inv h1
  · exact withUseCur_qinv cfg d A Lmax oa (cbOpen cfg d)
      (fun t ht => (cbOpen_qinv cfg d A Lmax oa hcfg hsmall true t ht).1) _ h1

include hcfg hsmall in
theorem reserveTail_qinv (erSize : Nat) (s : St) (hi : QInv cfg d A Lmax oa true s) :
    QInv cfg d A Lmax oa true (reserveTail cfg d erSize s).2 := by
  unfold reserveTail
  split
  · exact hi
  · split
    · exact reopenAfterClose_qinv cfg d A Lmax oa hcfg hsmall _
        (withUseCur_qinv cfg d A Lmax oa (cbClose cfg d)
          (fun t ht => (cbClose_qinv cfg d A Lmax oa hcfg hsmall t ht).1) s hi)
    · exact hi

include hcfg hsmall in
theorem reserve_qinv (erSize emptySize : Nat) (s : St) (hi : QInv cfg d A Lmax oa true s) :
    QInv cfg d A Lmax oa true (reserve cfg d erSize emptySize s).2 := by
  unfold reserve
  split
  · exact (QSame.noSpace _ _).inv hi
  · split
    · simp only
      have h1 := (cbFull_qsame s hi.tg).inv hi
      split
      · exact (QSame.noSpace _ _).inv h1
      · exact reserveTail_qinv cfg d A Lmax oa hcfg hsmall erSize _
          (withUseCur_qinv cfg d A Lmax oa (cbOpen cfg d)
            (fun t ht => (cbOpen_qinv cfg d A Lmax oa hcfg hsmall true t ht).1) _ h1)
    · exact reserveTail_qinv cfg d A Lmax oa hcfg hsmall erSize s hi

include hcfg hsmall in
theorem commit_qinv (s : St) (hi : QInv cfg d A Lmax oa true s) : QInv cfg d A Lmax oa true (commit cfg d s) := by
  unfold commit
  split
  · exact hi
  · split
    · exact (cbClose_qinv cfg d A Lmax oa hcfg hsmall s hi).1
    · exact hi

/-! ### the tracing function -/

include hcfg hsmall in
theorem traceWrite_qinv (e : ERT) (he : e ∈ d.erts) (args : Args) (hargs : ArgsSmall d Lmax A e args) (s : St)
    (hi : QInv cfg d A Lmax oa true s) (hfit : erSizeAt d e args s.c.at_ ≤ s.c.room s.c.at_) :
    QInv cfg d A Lmax oa true (traceWrite cfg d e args s) := by
  unfold traceWrite
  simp only
  have hok := hcfg.recs e he
  have hp := hi.posOK hsmall
  have hLle : 8 * s.buf.length ≤ 8 * Lmax := by have := hi.good.le; omega
  have hnw := hargs s.c.at_ (Nat.le_trans hi.at_ hLle)
  have hle := recordEndN_ge A d e hok args s.c.at_
  have hfit' := hfit
  rw [erSizeAt_exact A d e hok args s.c.at_ hnw hle] at hfit'
  have hroom : s.c.room s.c.at_ = s.c.packetSize - s.c.at_ := by
    unfold Ctx.room subU32; rw [if_pos hp.at_]
  rw [hroom] at hfit'
  have hrb := record_in_bounds (serEnvOf cfg d e.id s.c.curLastEventTs s.c) A d e hok args
    { buf := s.buf, at_ := s.c.at_, saved := s.c.saved, stores := [], oob := false, leaves := [] }
    s.buf.length hp.small rfl rfl (by have := hp.pkt; have := hp.at_; show recordEndN d e args s.c.at_ ≤ _; omega)
  have hr := runSer_fields (serRecord (serEnvOf cfg d e.id s.c.curLastEventTs s.c) d e args) s hi.nh hrb.1
  simp only at hr
  obtain ⟨r1, r2, r3, r4, r5, r6, r7, r8, r9, r10⟩ := hr
  have hlen : (runSer (serRecord (serEnvOf cfg d e.id s.c.curLastEventTs s.c) d e args) s).buf.length = s.buf.length := by
    rw [r3]; exact hrb.2.2
  have hat' : (runSer (serRecord (serEnvOf cfg d e.id s.c.curLastEventTs s.c) d e args) s).c.at_ =
      recordEndN d e args s.c.at_ := by rw [r2]; exact hrb.2.1
  have hpk := hp.pkt
  have hatle := hp.at_
  have hx : Ext Neutral s (runSer (serRecord (serEnvOf cfg d e.id s.c.curLastEventTs s.c) d e args) s) :=
    (runSer_same _ s).ext.mono PQuiet.neutral
  have hge1 : s.c.at_ ≤ (runSer (serRecord (serEnvOf cfg d e.id s.c.curLastEventTs s.c) d e args) s).c.at_ := by
    rw [hat']; exact hle
  have h1 : QInv cfg d A Lmax oa true (runSer (serRecord (serEnvOf cfg d e.id s.c.curLastEventTs s.c) d e args) s) := by
    refine ⟨r1, by rw [hlen]; exact hi.good, by rw [r4, hlen]; exact hi.pkt, by rw [hat', hlen]; omega, ?_, ?_, ?_,
      r10.trans hi.en, by rw [r7]; exact hi.tg, by rw [r7]; exact hi.hoa, by rw [r7]; exact hi.sb,
      ((runSer_sin s.buf.length _ (fun st h => serRecord_good _ _ d e args st h) s rfl hrb.1).mono
        (StoreIn.mono hi.good.le)).storesIn hi.stin⟩
    · intro ho
      rw [r5, serRecord_saved, hlen]
      exact hi.sv (by rw [← r6]; exact ho)
    · intro ho
      rw [r8, hat']
      exact Nat.le_trans (hi.oc (by rw [← r6]; exact ho)) hle
    · intro _ hc
      rw [hat', hlen]
      have := hi.cl rfl (by rw [← r6]; exact hc)
      omega
  generalize runSer _ s = s1 at h1 hx hge1
  split
  · exact h1
  · have h3 : QSame s1 (if d.feat.erTs.isSome = true then s1.ev (.tsWrite "rec" s1.c.curLastEventTs) else s1) := by
      split
      · exact QSame.ev _ _
      · exact QSame.refl _
    generalize (if d.feat.erTs.isSome = true then s1.ev (.tsWrite "rec" s1.c.curLastEventTs) else s1) = s2 at h3
    have h2i := h3.inv h1
    have hrec : QInv cfg d A Lmax oa true (s2.ev (.recDone e.name s.c.at_ s2.c.at_)) :=
      ⟨h2i.nh, h2i.good, h2i.pkt, h2i.at_, h2i.sv, h2i.oc, h2i.cl, h2i.en, h2i.tg, h2i.hoa, h2i.sb,
        fun x hx' => by
          have hx'' : x ∈ Ev.recDone e.name s.c.at_ s2.c.at_ :: s2.log := hx'
          rcases List.mem_cons.mp hx'' with rfl | h
          · trivial
          · exact h2i.stin x h⟩
    have h4 := commit_qinv cfg d A Lmax oa hcfg hsmall _ hrec
    split
    · exact h4
    · exact (QSame.setFlag _ false).inv h4

include hcfg hsmall in
theorem traceAfterReserve_qinv (e : ERT) (he : e ∈ d.erts) (args : Args) (hargs : ArgsSmall d Lmax A e args)
    (erAt : Nat) (r : Bool × St) (hi : QInv cfg d A Lmax oa true r.2) :
    QInv cfg d A Lmax oa true (traceAfterReserve cfg d e args erAt (erSizeAt d e args erAt) r) := by
  unfold traceAfterReserve
  split
  · exact hi
  · split
    · exact (QSame.setFlag _ false).inv hi
    · split
      · exact (QSame.setFlag _ false).inv ((QSame.noSpace true r.2).inv hi)
      · rename_i hfit
        have hsz : sizeAfterReserve d e args erAt (erSizeAt d e args erAt) r.2 = erSizeAt d e args r.2.c.at_ := by
          unfold sizeAfterReserve
          by_cases h : r.2.c.at_ = erAt
          · simp [h]
          · simp [h]
        rw [hsz] at hfit
        exact traceWrite_qinv cfg d A Lmax oa hcfg hsmall e he args hargs r.2 hi (by omega)

include hcfg hsmall in
theorem trace_qinv (e : ERT) (he : e ∈ d.erts) (args : Args) (hargs : ArgsSmall d Lmax A e args) (s : St)
    (hi : QInv cfg d A Lmax oa true s) : QInv cfg d A Lmax oa true (trace cfg d e args s) := by
  unfold trace
  split
  · exact hi
  · unfold traceBody
    simp only
    have h1 := (QSame.ev (traceClock d s) (.traceCall e.name (traceClock d s).c.isTracingEnabled)).inv
      ((traceClock_qsame d s hi.tg).inv hi)
    split
    · exact h1
    · unfold traceEnabled
      exact traceAfterReserve_qinv cfg d A Lmax oa hcfg hsmall e he args hargs _ _
        (reserve_qinv cfg d A Lmax oa hcfg hsmall _ _ _ ((QSame.setFlag _ true).inv h1))

/-! ### histories -/

/-- tracing is never disabled by the history -/
def NeverDisabled (ops : List Op) : Prop := ∀ b, Op.enable b ∈ ops → b = true

include hcfg hsmall in
theorem stepOp_qinv (op : Op) (hop : ∀ en args, op = .trace en args → ∀ e ∈ d.erts, e.name = en → ArgsSmall d Lmax A e args)
    (hen : ∀ b, op = .enable b → b = true) (s : St) (hi : QInv cfg d A Lmax oa true s) :
    QInv cfg d A Lmax oa true (stepOp cfg d op s) := by
  unfold stepOp
  split
  · exact hi
  · have key : ∀ (name : String) (s' : St), QInv cfg d A Lmax oa true s' →
        QInv cfg d A Lmax oa true (if s'.halted = true then s' else s'.ev (.ret name s'.c s'.buf.length)) := by
      intro name s' h
      split
      · exact h
      · exact (QSame.ev _ _).inv h
    cases op with
    | open_ => exact key "open" _ (cbOpen_qinv cfg d A Lmax oa hcfg hsmall true s hi).1
    | close => exact key "close" _ (cbClose_qinv cfg d A Lmax oa hcfg hsmall s hi).1
    | trace en args =>
      simp only
      split
      · rename_i e hfind
        have hmem : e ∈ d.erts := List.mem_of_find?_eq_some hfind
        have hname : e.name = en := by
          have := List.find?_some hfind
          simpa using this
        exact key "trace" _ (trace_qinv cfg d A Lmax oa hcfg hsmall e hmem args (hop en args rfl e hmem hname) s hi)
      · exact key "trace" _ hi
    | enable b =>
      have hb := hen b rfl
      subst hb
      exact key "enable" _ ⟨hi.nh, hi.good, hi.pkt, hi.at_, hi.sv, hi.oc, hi.cl, rfl, hi.tg, hi.hoa, hi.sb,
        hi.stin⟩
    | query => exact key "query" _ hi
    | fin =>
      have hfin : QInv cfg d A Lmax oa true (if (s.c.packetIsOpen && !s.c.isEmpty) = true then cbClose cfg d s else s) := by
        split
        · exact (cbClose_qinv cfg d A Lmax oa hcfg hsmall s hi).1
        · exact hi
      exact key "fin" _ hfin

include hcfg hsmall in
theorem runOps_qinv (ops : List Op) (hops : OpsSmall d Lmax A ops) (hen : NeverDisabled ops) (s : St)
    (hi : QInv cfg d A Lmax oa true s) : QInv cfg d A Lmax oa true (runOps cfg d ops s) := by
  unfold runOps
  induction ops generalizing s with
  | nil => exact hi
  | cons op ops ih =>
    simp only [List.foldl_cons]
    exact ih (fun en args h => hops en args (by simp [h])) (fun b h => hen b (by simp [h])) _
      (stepOp_qinv cfg d A Lmax oa hcfg hsmall op (fun en args h => hops en args (by simp [h]))
        (fun b h => hen b (by simp [h])) s hi)

include hcfg hsmall in
/-- the first call of the history opens a packet: from then on the strict invariant holds -/
theorem runOps_from_init (L : Nat) (p : Plat) (hL : GoodBuf cfg d A Lmax p.openArgs L) (htg : p.toggles = [])
    (hsb : ∀ x ∈ p.setBufs, GoodBuf cfg d A Lmax p.openArgs x.2)
    (ops : List Op) (hops : OpsSmall d Lmax A ops) (hen : NeverDisabled ops) :
    QInv cfg d A Lmax p.openArgs true (runOps cfg d (.open_ :: ops) (rtInit L p)) := by
  have hu : u32 (L * 8) = 8 * L := by
    simp only [u32]; have := hL.le; have := hcfg.Apos; omega
  have h0 : QInv cfg d A Lmax p.openArgs false (rtInit L p) := by
    refine ⟨rfl, by simpa [rtInit] using hL, ?_, by simp [rtInit], fun h => by simp [rtInit] at h,
      fun h => by simp [rtInit] at h, fun h => by simp at h, rfl, htg, rfl, hsb,
      fun e he => by simp [rtInit] at he⟩
    show u32 (L * 8) = 8 * (List.replicate L 0).length
    simp [hu]
  have h1 : QInv cfg d A Lmax p.openArgs true (stepOp cfg d .open_ (rtInit L p)) := by
    unfold stepOp
    rw [if_neg (by simp [rtInit])]
    simp only
    have h2 := (cbOpen_qinv cfg d A Lmax p.openArgs hcfg hsmall false _ h0).1
    split
    · exact h2
    · exact (QSame.ev _ _).inv h2
  show QInv cfg d A Lmax p.openArgs true (runOps cfg d ops (stepOp cfg d .open_ (rtInit L p)))
  exact runOps_qinv cfg d A Lmax p.openArgs hcfg hsmall ops hops hen _ h1

end

end BVM
